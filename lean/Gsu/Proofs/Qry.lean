/-
Lemmas about the relational reference semantics `Gsu.Qry.evalQ` (core-only): the algebraic laws
behind the optimiser's rewrite families, at the level of row *sets* (`SetEq`).
-/
import Gsu.Model.Qry
namespace Gsu.Qry
open Gsu.Proto Gsu.QVal Gsu.QExpr

/-- equality as sets of rows -/
def SetEq (a b : List Row) : Prop := ∀ r, r ∈ a ↔ r ∈ b

theorem SetEq.refl (a : List Row) : SetEq a a := fun _ => Iff.rfl
theorem SetEq.symm {a b : List Row} (h : SetEq a b) : SetEq b a := fun r => (h r).symm
theorem SetEq.trans {a b c : List Row} (h : SetEq a b) (h' : SetEq b c) : SetEq a c :=
  fun r => (h r).trans (h' r)

def Sub (a b : List Col) : Prop := ∀ c, c ∈ a → c ∈ b

theorem mem_dedup {α} [DecidableEq α] (a : α) : ∀ l : List α, a ∈ dedup l ↔ a ∈ l
  | [] => by simp [dedup]
  | b :: l => by
    have ih := mem_dedup a l
    simp only [dedup, List.mem_cons, List.mem_filter]
    constructor
    · rintro (h | ⟨h, _⟩)
      · exact Or.inl h
      · exact Or.inr (ih.1 h)
    · intro h
      by_cases hab : a = b
      · exact Or.inl hab
      · rcases h with h | h
        · exact Or.inl h
        · exact Or.inr ⟨ih.2 h, by simpa using hab⟩

theorem isTrue_bool (b : Bool) : QVal.isTrue (.bool b) = b := by
  cases b <;> rfl

/-! ### expressions read only the columns they mention -/

theorem eval_congr (r r' : Row) :
    ∀ e : Expr, (∀ c, c ∈ e.cols → get r c = get r' c) → eval r e = eval r' e
  | .const _, _ => rfl
  | .col c, h => by
    simp only [eval]; exact h c (by simp [Expr.cols])
  | .cmp op a b, h => by
    have ha := eval_congr r r' a (fun c hc => h c (by simp [Expr.cols, hc]))
    have hb := eval_congr r r' b (fun c hc => h c (by simp [Expr.cols, hc]))
    simp only [eval, ha, hb]
  | .not a, h => by
    have ha := eval_congr r r' a (fun c hc => h c (by simp [Expr.cols, hc]))
    simp only [eval, ha]
  | .and a b, h => by
    have ha := eval_congr r r' a (fun c hc => h c (by simp [Expr.cols, hc]))
    have hb := eval_congr r r' b (fun c hc => h c (by simp [Expr.cols, hc]))
    simp only [eval, ha, hb]
  | .or a b, h => by
    have ha := eval_congr r r' a (fun c hc => h c (by simp [Expr.cols, hc]))
    have hb := eval_congr r r' b (fun c hc => h c (by simp [Expr.cols, hc]))
    simp only [eval, ha, hb]
  | .cond c a b, h => by
    have hc := eval_congr r r' c (fun x hx => h x (by simp [Expr.cols, hx]))
    have ha := eval_congr r r' a (fun x hx => h x (by simp [Expr.cols, hx]))
    have hb := eval_congr r r' b (fun x hx => h x (by simp [Expr.cols, hx]))
    simp only [eval, ha, hb, hc]
  | .inl a vs, h => by
    have ha := eval_congr r r' a (fun c hc => h c (by simp [Expr.cols, hc]))
    simp only [eval, ha]
  | .ar op a b, h => by
    have ha := eval_congr r r' a (fun c hc => h c (by simp [Expr.cols, hc]))
    have hb := eval_congr r r' b (fun c hc => h c (by simp [Expr.cols, hc]))
    simp only [eval, ha, hb]
  | .neg a, h => by
    have ha := eval_congr r r' a (fun c hc => h c (by simp [Expr.cols, hc]))
    simp only [eval, ha]

/-! ### `restrict` -/

theorem lookup_restrict (r : Row) (c : Col) :
    ∀ cs : List Col, c ∈ cs → (restrict cs r).lookup c = some (get r c)
  | [], h => by cases h
  | c' :: cs, h => by
    simp only [restrict, List.map_cons, List.lookup_cons]
    by_cases hc : c = c'
    · subst hc; simp
    · have hne : (c == c') = false := by simpa using hc
      simp only [hne]
      have hm : c ∈ cs := by
        rcases List.mem_cons.1 h with h | h
        · exact absurd h hc
        · exact h
      exact lookup_restrict r c cs hm

theorem lookup_restrict_none (r : Row) (c : Col) :
    ∀ cs : List Col, c ∉ cs → (restrict cs r).lookup c = none
  | [], _ => rfl
  | c' :: cs, h => by
    simp only [restrict, List.map_cons, List.lookup_cons]
    have hc : c ≠ c' := fun e => h (by simp [e])
    have hne : (c == c') = false := by simpa using hc
    simp only [hne]
    exact lookup_restrict_none r c cs (fun hm => h (List.mem_cons_of_mem _ hm))

theorem get_restrict (r : Row) (c : Col) (cs : List Col) (h : c ∈ cs) :
    get (restrict cs r) c = get r c := by
  simp only [QExpr.get, lookup_restrict r c cs h]

theorem get_restrict_not_mem (r : Row) (c : Col) (cs : List Col) (h : c ∉ cs) :
    get (restrict cs r) c = Val.empty := by
  simp only [QExpr.get, lookup_restrict_none r c cs h]

/-- a row that starts with `restrict cs r` reads like `r` on `cs` -/
theorem get_restrict_append (r rest : Row) (c : Col) (cs : List Col) (h : c ∈ cs) :
    get (restrict cs r ++ rest) c = get r c := by
  simp only [QExpr.get, List.lookup_append, lookup_restrict r c cs h, Option.some_or]

theorem restrict_congr (cs : List Col) (r r' : Row) (h : ∀ c, c ∈ cs → get r c = get r' c) :
    restrict cs r = restrict cs r' := by
  simp only [restrict]
  exact List.map_congr_left (fun c hc => by rw [h c hc])

theorem restrict_restrict (cs cs' : List Col) (r : Row) (h : Sub cs cs') :
    restrict cs (restrict cs' r) = restrict cs r :=
  restrict_congr cs _ _ (fun c hc => get_restrict r c cs' (h c hc))

theorem eval_restrict (cs : List Col) (r : Row) (e : Expr) (h : Sub e.cols cs) :
    eval (restrict cs r) e = eval r e :=
  eval_congr _ _ e (fun c hc => get_restrict r c cs (h c hc))

theorem zip_keyOf (by_ : List Col) (r : Row) : by_.zip (keyOf by_ r) = restrict by_ r := by
  simp only [keyOf, restrict]
  induction by_ with
  | nil => rfl
  | cons c cs ih => simp only [List.map_cons, List.zip_cons_cons, ih]

/-! ### membership in the operators' results -/

theorem mem_where (db : Db) (q : Query) (e : Expr) (r : Row) :
    r ∈ evalQ db (.where_ q e) ↔ r ∈ evalQ db q ∧ QVal.isTrue (eval r e) = true := by
  simp only [evalQ, List.mem_filter]

theorem mem_project (db : Db) (q : Query) (cs : List Col) (r : Row) :
    r ∈ evalQ db (.project q cs) ↔ ∃ r0, r0 ∈ evalQ db q ∧ restrict cs r0 = r := by
  simp only [evalQ, mem_dedup, List.mem_map]

/-! ### where / project -/

theorem where_where (db : Db) (q : Query) (e1 e2 : Expr) :
    evalQ db (.where_ (.where_ q e1) e2) = evalQ db (.where_ q (.and e1 e2)) := by
  simp only [evalQ, List.filter_filter]
  apply List.filter_congr
  intro r _
  simp only [eval, isTrue_bool]
  exact Bool.and_comm _ _

theorem where_project_comm (db : Db) (q : Query) (cs : List Col) (e : Expr) (h : Sub e.cols cs) :
    SetEq (evalQ db (.where_ (.project q cs) e)) (evalQ db (.project (.where_ q e) cs)) := by
  intro r
  rw [mem_where, mem_project, mem_project]
  constructor
  · rintro ⟨⟨r0, h0, rfl⟩, ht⟩
    exact ⟨r0, (mem_where db q e r0).2 ⟨h0, by rwa [eval_restrict cs r0 e h] at ht⟩, rfl⟩
  · rintro ⟨r0, h0, rfl⟩
    have := (mem_where db q e r0).1 h0
    exact ⟨⟨r0, this.1, rfl⟩, by rw [eval_restrict cs r0 e h]; exact this.2⟩

theorem project_project (db : Db) (q : Query) (cs cs' : List Col) (h : Sub cs cs') :
    SetEq (evalQ db (.project (.project q cs') cs)) (evalQ db (.project q cs)) := by
  intro r
  rw [mem_project, mem_project]
  constructor
  · rintro ⟨r1, h1, rfl⟩
    obtain ⟨r0, h0, rfl⟩ := (mem_project db q cs' r1).1 h1
    exact ⟨r0, h0, (restrict_restrict cs cs' r0 h).symm⟩
  · rintro ⟨r0, h0, rfl⟩
    exact ⟨restrict cs' r0, (mem_project db q cs' _).2 ⟨r0, h0, rfl⟩, restrict_restrict cs cs' r0 h⟩

/-! ### where over union / intersect / minus

The code distributes the restriction to both sources, replacing the columns a source does not
have by `""` (`Where.project`); in the model an absent column already reads as `""`, so the same
expression is used on both sides. -/

theorem mem_contains_map {f : Row → Row} (l : List Row) (x : Row) :
    (l.map f).contains x = true ↔ ∃ y, y ∈ l ∧ f y = x := by
  rw [List.contains_iff_mem, List.mem_map]

theorem eval_of_restrict_eq (all : List Col) (r1 r2 : Row) (e : Expr) (h : Sub e.cols all)
    (heq : restrict all r1 = restrict all r2) : eval r1 e = eval r2 e := by
  rw [← eval_restrict all r1 e h, ← eval_restrict all r2 e h, heq]

theorem where_over_union (db : Db) (a b : Query) (e : Expr)
    (h : Sub e.cols (unionCols (colsQ db a) (colsQ db b))) :
    SetEq (evalQ db (.where_ (.union a b) e)) (evalQ db (.union (.where_ a e) (.where_ b e))) := by
  intro r
  rw [mem_where]
  simp only [evalQ, colsQ, List.mem_append, List.mem_filter, List.mem_map, Bool.not_eq_true',
    Bool.eq_false_iff, ne_eq, mem_contains_map, not_exists, not_and]
  constructor
  · rintro ⟨h1 | ⟨⟨r2, h2, rfl⟩, hn⟩, ht⟩
    · obtain ⟨r1, h1, rfl⟩ := h1
      exact Or.inl ⟨r1, ⟨h1, by rwa [eval_restrict _ r1 e h] at ht⟩, rfl⟩
    · refine Or.inr ⟨⟨r2, ⟨h2, by rwa [eval_restrict _ r2 e h] at ht⟩, rfl⟩, ?_⟩
      intro y hy heq
      exact hn y hy.1 heq
  · rintro (⟨r1, ⟨h1, ht⟩, rfl⟩ | ⟨⟨r2, ⟨h2, ht⟩, rfl⟩, hn⟩)
    · exact ⟨Or.inl ⟨r1, h1, rfl⟩, by rwa [eval_restrict _ r1 e h]⟩
    · refine ⟨Or.inr ⟨⟨r2, h2, rfl⟩, ?_⟩, by rwa [eval_restrict _ r2 e h]⟩
      intro y hy heq
      refine hn y ⟨hy, ?_⟩ heq
      rw [eval_of_restrict_eq _ y r2 e h heq]; exact ht

theorem where_over_minus (db : Db) (a b : Query) (e : Expr)
    (h : Sub e.cols (unionCols (colsQ db a) (colsQ db b))) :
    SetEq (evalQ db (.where_ (.minus a b) e)) (evalQ db (.minus (.where_ a e) (.where_ b e))) := by
  intro r
  rw [mem_where]
  simp only [evalQ, colsQ, List.mem_filter, Bool.not_eq_true', Bool.eq_false_iff, ne_eq,
    mem_contains_map, not_exists, not_and]
  constructor
  · rintro ⟨⟨h1, hn⟩, ht⟩
    exact ⟨⟨h1, ht⟩, fun y hy heq => hn y hy.1 heq⟩
  · rintro ⟨⟨h1, ht⟩, hn⟩
    refine ⟨⟨h1, fun y hy heq => hn y ⟨hy, ?_⟩ heq⟩, ht⟩
    rw [eval_of_restrict_eq _ y r e h heq]; exact ht

theorem where_over_intersect (db : Db) (a b : Query) (e : Expr)
    (h : Sub e.cols (interCols (colsQ db a) (colsQ db b))) :
    SetEq (evalQ db (.where_ (.intersect a b) e))
      (evalQ db (.intersect (.where_ a e) (.where_ b e))) := by
  have hall : Sub e.cols (unionCols (colsQ db a) (colsQ db b)) := by
    intro c hc
    have := h c hc
    simp only [interCols, List.mem_filter] at this
    simp only [unionCols, List.mem_append]
    exact Or.inl this.1
  intro r
  rw [mem_where]
  simp only [evalQ, colsQ, List.mem_map, List.mem_filter, mem_contains_map]
  constructor
  · rintro ⟨⟨r1, ⟨h1, r2, h2, heq⟩, rfl⟩, ht⟩
    rw [eval_restrict _ r1 e h] at ht
    refine ⟨r1, ⟨⟨h1, ht⟩, r2, ⟨h2, ?_⟩, heq⟩, rfl⟩
    rw [eval_of_restrict_eq _ r2 r1 e hall heq]; exact ht
  · rintro ⟨r1, ⟨⟨h1, ht⟩, r2, ⟨h2, _⟩, heq⟩, rfl⟩
    exact ⟨⟨r1, ⟨h1, r2, h2, heq⟩, rfl⟩, by rw [eval_restrict _ r1 e h]; exact ht⟩

/-! ### summarize -/

/-- the output row of the group with key `k` -/
def grp (by_ : List Col) (aggs : List (Col × Agg × Col)) (src : List Row) (k : List Val) :
    Option Row :=
  match src.filter (fun r => keyOf by_ r == k) with
  | [] => none
  | r0 :: rs => some (by_.zip k ++ aggs.map fun a => (a.1, aggVal a.2.1 a.2.2 r0 rs))

theorem groupRows_eq (by_ : List Col) (aggs : List (Col × Agg × Col)) (src : List Row) :
    groupRows by_ aggs src = (dedup (src.map (keyOf by_))).filterMap (grp by_ aggs src) := rfl

theorem mem_groupRows (by_ : List Col) (aggs : List (Col × Agg × Col)) (src : List Row) (ρ : Row) :
    ρ ∈ groupRows by_ aggs src ↔
      ∃ r, r ∈ src ∧ grp by_ aggs src (keyOf by_ r) = some ρ := by
  rw [groupRows_eq, List.mem_filterMap]
  constructor
  · rintro ⟨k, hk, hg⟩
    obtain ⟨r, hr, rfl⟩ := List.mem_map.1 ((mem_dedup k _).1 hk)
    exact ⟨r, hr, hg⟩
  · rintro ⟨r, hr, hg⟩
    exact ⟨keyOf by_ r, (mem_dedup _ _).2 (List.mem_map.2 ⟨r, hr, rfl⟩), hg⟩

/-- a group row starts with the `by` values of its members -/
theorem grp_shape {by_ : List Col} {aggs : List (Col × Agg × Col)} {src : List Row} {r ρ : Row}
    (hg : grp by_ aggs src (keyOf by_ r) = some ρ) : ∃ rest, ρ = restrict by_ r ++ rest := by
  unfold grp at hg
  split at hg
  · cases hg
  · rw [zip_keyOf] at hg
    exact ⟨_, (Option.some.inj hg).symm⟩

theorem grp_some_of_mem (by_ : List Col) (aggs : List (Col × Agg × Col)) (src : List Row) (r : Row)
    (hr : r ∈ src) : ∃ ρ, grp by_ aggs src (keyOf by_ r) = some ρ := by
  unfold grp
  split
  · rename_i hnil
    have : r ∈ src.filter (fun r' => keyOf by_ r' == keyOf by_ r) :=
      List.mem_filter.2 ⟨hr, by simp⟩
    rw [hnil] at this
    cases this
  · exact ⟨_, rfl⟩

/-- a predicate on the `by` columns has the same value on rows with the same key -/
theorem eval_of_key_eq (by_ : List Col) (e : Expr) (h : Sub e.cols by_) (r r' : Row)
    (hk : keyOf by_ r = keyOf by_ r') : eval r e = eval r' e := by
  have h1 := eval_restrict by_ r e h
  have h2 := eval_restrict by_ r' e h
  rw [← zip_keyOf, hk, zip_keyOf] at h1
  rw [← h1, h2]

theorem filter_group_of_pred (by_ : List Col) (e : Expr) (h : Sub e.cols by_) (src : List Row)
    (r : Row) (ht : QVal.isTrue (eval r e) = true) :
    (src.filter fun x => QVal.isTrue (eval x e)).filter (fun x => keyOf by_ x == keyOf by_ r) =
      src.filter (fun x => keyOf by_ x == keyOf by_ r) := by
  rw [List.filter_filter]
  apply List.filter_congr
  intro x _
  by_cases hx : (keyOf by_ x == keyOf by_ r) = true
  · have hkx : keyOf by_ x = keyOf by_ r := by simpa using hx
    rw [eval_of_key_eq by_ e h x r hkx, ht, hx]; rfl
  · have : (keyOf by_ x == keyOf by_ r) = false := by simpa using hx
    rw [this]; rfl

theorem grp_filter_of_pred (by_ : List Col) (aggs : List (Col × Agg × Col)) (e : Expr)
    (h : Sub e.cols by_) (src : List Row) (r : Row) (ht : QVal.isTrue (eval r e) = true) :
    grp by_ aggs (src.filter fun x => QVal.isTrue (eval x e)) (keyOf by_ r) =
      grp by_ aggs src (keyOf by_ r) := by
  unfold grp
  rw [filter_group_of_pred by_ e h src r ht]

theorem where_over_summarize (db : Db) (q : Query) (by_ : List Col)
    (aggs : List (Col × Agg × Col)) (e : Expr) (h : Sub e.cols by_) :
    SetEq (evalQ db (.where_ (.summarize q false by_ aggs) e))
      (evalQ db (.summarize (.where_ q e) false by_ aggs)) := by
  intro ρ
  rw [mem_where]
  simp only [evalQ, Bool.false_eq_true, if_false]
  rw [mem_groupRows, mem_groupRows]
  constructor
  · rintro ⟨⟨r, hr, hg⟩, ht⟩
    obtain ⟨rest, rfl⟩ := grp_shape hg
    have hev : eval (restrict by_ r ++ rest) e = eval r e :=
      eval_congr _ _ e (fun c hc => get_restrict_append r rest c by_ (h c hc))
    rw [hev] at ht
    exact ⟨r, List.mem_filter.2 ⟨hr, ht⟩, by rw [grp_filter_of_pred by_ aggs e h _ r ht]; exact hg⟩
  · rintro ⟨r, hr, hg⟩
    have hr' := List.mem_filter.1 hr
    rw [grp_filter_of_pred by_ aggs e h _ r hr'.2] at hg
    refine ⟨⟨r, hr'.1, hg⟩, ?_⟩
    obtain ⟨rest, rfl⟩ := grp_shape hg
    have hev : eval (restrict by_ r ++ rest) e = eval r e :=
      eval_congr _ _ e (fun c hc => get_restrict_append r rest c by_ (h c hc))
    rw [hev]; exact hr'.2

theorem project_over_summarize (db : Db) (q : Query) (by_ cs : List Col)
    (aggs : List (Col × Agg × Col)) (h : Sub cs by_) :
    SetEq (evalQ db (.project (.summarize q false by_ aggs) cs)) (evalQ db (.project q cs)) := by
  intro ρ
  rw [mem_project, mem_project]
  simp only [evalQ, Bool.false_eq_true, if_false]
  constructor
  · rintro ⟨g, hg, rfl⟩
    obtain ⟨r, hr, hgr⟩ := (mem_groupRows by_ aggs _ g).1 hg
    obtain ⟨rest, rfl⟩ := grp_shape hgr
    exact ⟨r, hr, (restrict_congr cs _ _ fun c hc => get_restrict_append r rest c by_ (h c hc)).symm⟩
  · rintro ⟨r, hr, rfl⟩
    obtain ⟨g, hgr⟩ := grp_some_of_mem by_ aggs _ r hr
    refine ⟨g, (mem_groupRows by_ aggs _ g).2 ⟨r, hr, hgr⟩, ?_⟩
    obtain ⟨rest, rfl⟩ := grp_shape hgr
    exact restrict_congr cs _ _ fun c hc => get_restrict_append r rest c by_ (h c hc)

/-- removing unused summaries: a project that keeps all `by` columns and some of the summary
columns is the summarize with just those summaries (not whole-row) -/
theorem summarize_drop_unused (db : Db) (q : Query) (by_ : List Col)
    (aggs : List (Col × Agg × Col)) :
    SetEq (evalQ db (.project (.summarize q false by_ aggs) by_))
      (evalQ db (.project q by_)) :=
  project_over_summarize db q by_ by_ aggs (fun _ h => h)

/-! ### union is commutative as a set of rows over any column layout -/

theorem mem_unionCols (a b : List Col) (c : Col) : c ∈ unionCols a b ↔ c ∈ a ∨ c ∈ b := by
  simp only [unionCols, List.mem_append, List.mem_filter, Bool.not_eq_true', Bool.eq_false_iff,
    ne_eq, List.contains_iff_mem]
  constructor
  · rintro (h | ⟨h, _⟩)
    · exact Or.inl h
    · exact Or.inr h
  · rintro (h | h)
    · exact Or.inl h
    · by_cases ha : c ∈ a
      · exact Or.inl ha
      · exact Or.inr ⟨h, ha⟩

theorem get_restrict_total (r : Row) (c : Col) (cs : List Col) :
    get (restrict cs r) c = if c ∈ cs then get r c else Val.empty := by
  by_cases h : c ∈ cs
  · rw [if_pos h, get_restrict r c cs h]
  · rw [if_neg h, get_restrict_not_mem r c cs h]

theorem restrict_restrict_perm (cs all all' : List Col) (r : Row)
    (h : ∀ c, c ∈ all ↔ c ∈ all') :
    restrict cs (restrict all r) = restrict cs (restrict all' r) :=
  restrict_congr cs _ _ fun c _ => by
    rw [get_restrict_total, get_restrict_total]
    by_cases hc : c ∈ all
    · rw [if_pos hc, if_pos ((h c).1 hc)]
    · rw [if_neg hc, if_neg (fun h' => hc ((h c).2 h'))]

theorem mem_union_set (db : Db) (a b : Query) (r : Row) :
    r ∈ evalQ db (.union a b) ↔
      ∃ r0, (r0 ∈ evalQ db a ∨ r0 ∈ evalQ db b) ∧
        restrict (unionCols (colsQ db a) (colsQ db b)) r0 = r := by
  simp only [evalQ, List.mem_append, List.mem_filter, List.mem_map, Bool.not_eq_true',
    Bool.eq_false_iff, ne_eq, mem_contains_map, not_exists, not_and]
  constructor
  · rintro (⟨r1, h1, rfl⟩ | ⟨⟨r2, h2, rfl⟩, _⟩)
    · exact ⟨r1, Or.inl h1, rfl⟩
    · exact ⟨r2, Or.inr h2, rfl⟩
  · rintro ⟨r0, h1 | h2, rfl⟩
    · exact Or.inl ⟨r0, h1, rfl⟩
    · by_cases hex : ∃ y, y ∈ evalQ db a ∧
          restrict (unionCols (colsQ db a) (colsQ db b)) y =
            restrict (unionCols (colsQ db a) (colsQ db b)) r0
      · obtain ⟨y, hy, heq⟩ := hex
        exact Or.inl ⟨y, hy, heq⟩
      · exact Or.inr ⟨⟨r0, h2, rfl⟩, fun y hy heq => hex ⟨y, hy, heq⟩⟩

theorem union_comm (db : Db) (a b : Query) (cs : List Col) :
    SetEq ((evalQ db (.union a b)).map (restrict cs)) ((evalQ db (.union b a)).map (restrict cs)) := by
  have hperm : ∀ c, c ∈ unionCols (colsQ db a) (colsQ db b) ↔ c ∈ unionCols (colsQ db b) (colsQ db a) :=
    fun c => by rw [mem_unionCols, mem_unionCols]; exact Or.comm
  intro r
  simp only [List.mem_map]
  constructor
  · rintro ⟨u, hu, rfl⟩
    obtain ⟨r0, h0, rfl⟩ := (mem_union_set db a b u).1 hu
    exact ⟨_, (mem_union_set db b a _).2 ⟨r0, h0.symm, rfl⟩,
      (restrict_restrict_perm cs _ _ r0 hperm).symm⟩
  · rintro ⟨u, hu, rfl⟩
    obtain ⟨r0, h0, rfl⟩ := (mem_union_set db b a u).1 hu
    exact ⟨_, (mem_union_set db a b _).2 ⟨r0, h0.symm, rfl⟩, restrict_restrict_perm cs _ _ r0 hperm⟩

/-! ### restrictions into the sources of a join / product -/

theorem mem_diffCols (a b : List Col) (c : Col) : c ∈ diffCols a b ↔ c ∈ a ∧ c ∉ b := by
  simp only [diffCols, List.mem_filter, Bool.not_eq_true', Bool.eq_false_iff, ne_eq,
    List.contains_iff_mem]

/-- the left part of a joined row is read unchanged on the left source's columns -/
theorem get_join_left (r1 r2 : Row) (ca cb : List Col) (c : Col) (hc : c ∈ ca) :
    QExpr.get (r1 ++ restrict (diffCols cb ca) r2) c = QExpr.get r1 c := by
  have hn : c ∉ diffCols cb ca := fun h => ((mem_diffCols cb ca c).1 h).2 hc
  simp only [QExpr.get, List.lookup_append, lookup_restrict_none r2 c _ hn, Option.or_none]

theorem mem_join (db : Db) (a b : Query) (r : Row) :
    r ∈ evalQ db (.join a b) ↔ ∃ r1, r1 ∈ evalQ db a ∧ ∃ r2, r2 ∈ evalQ db b ∧
      eqOn (interCols (colsQ db a) (colsQ db b)) r1 r2 = true ∧
      r1 ++ restrict (diffCols (colsQ db b) (colsQ db a)) r2 = r := by
  simp only [evalQ, List.mem_flatMap, List.mem_map, List.mem_filter]
  constructor
  · rintro ⟨r1, h1, r2, ⟨h2, he⟩, rfl⟩; exact ⟨r1, h1, r2, h2, he, rfl⟩
  · rintro ⟨r1, h1, r2, h2, he, rfl⟩; exact ⟨r1, h1, r2, ⟨h2, he⟩, rfl⟩

/-- a restriction that reads only the first source's columns moves into that source
(`Where.split` over a join) -/
theorem where_into_join_left (db : Db) (a b : Query) (e : Expr) (h : Sub e.cols (colsQ db a)) :
    SetEq (evalQ db (.where_ (.join a b) e)) (evalQ db (.join (.where_ a e) b)) := by
  intro r
  rw [mem_where, mem_join, mem_join]
  have hcols : colsQ db (.where_ a e) = colsQ db a := rfl
  rw [hcols]
  constructor
  · rintro ⟨⟨r1, h1, r2, h2, he, rfl⟩, ht⟩
    have hev : eval (r1 ++ restrict (diffCols (colsQ db b) (colsQ db a)) r2) e = eval r1 e :=
      eval_congr _ _ e (fun c hc => get_join_left r1 r2 _ _ c (h c hc))
    rw [hev] at ht
    exact ⟨r1, (mem_where db a e r1).2 ⟨h1, ht⟩, r2, h2, he, rfl⟩
  · rintro ⟨r1, h1, r2, h2, he, rfl⟩
    have h1' := (mem_where db a e r1).1 h1
    have hev : eval (r1 ++ restrict (diffCols (colsQ db b) (colsQ db a)) r2) e = eval r1 e :=
      eval_congr _ _ e (fun c hc => get_join_left r1 r2 _ _ c (h c hc))
    exact ⟨⟨r1, h1'.1, r2, h2, he, rfl⟩, by rw [hev]; exact h1'.2⟩

/-- `times`: the same for a product -/
theorem where_into_times_left (db : Db) (a b : Query) (e : Expr)
    (hwf : ∀ r1, r1 ∈ evalQ db a → ∀ c, c ∈ e.cols → r1.lookup c ≠ none) :
    SetEq (evalQ db (.where_ (.times a b) e)) (evalQ db (.times (.where_ a e) b)) := by
  intro r
  rw [mem_where]
  simp only [evalQ, List.mem_flatMap, List.mem_map, List.mem_filter]
  have hget : ∀ r1 r2 : Row, r1 ∈ evalQ db a → eval (r1 ++ r2) e = eval r1 e := by
    intro r1 r2 h1
    apply eval_congr
    intro c hc
    have := hwf r1 h1 c hc
    simp only [QExpr.get, List.lookup_append]
    cases hl : List.lookup c r1 with
    | none => exact absurd hl this
    | some v => rfl
  constructor
  · rintro ⟨⟨r1, h1, r2, h2, rfl⟩, ht⟩
    rw [hget r1 r2 h1] at ht
    exact ⟨r1, ⟨h1, ht⟩, r2, h2, rfl⟩
  · rintro ⟨r1, ⟨h1, ht⟩, r2, h2, rfl⟩
    exact ⟨⟨r1, h1, r2, h2, rfl⟩, by rw [hget r1 r2 h1]; exact ht⟩


end Gsu.Qry
