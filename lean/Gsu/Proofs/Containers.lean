import Gsu.Model.Containers

namespace Gsu.Proofs.Containers
open Gsu.Containers Gsu.Gen.Containers

/-! ## sortlist -/
namespace SL
open Gsu.Containers.SL

/-- sorted w.r.t. the key order -/
abbrev Sorted (k : Nat → Nat) (l : List Nat) : Prop := l.Pairwise (fun a b => k a ≤ k b)

theorem mergeL_perm (k : Nat → Nat) (l r : List Nat) : (mergeL k l r).Perm (l ++ r) := by
  fun_induction mergeL k l r with
  | case1 r => simp
  | case2 a l => simp
  | case3 a l b r h ih => simpa using ih
  | case4 a l b r h ih =>
    have : (b :: mergeL k (a :: l) r).Perm (b :: (a :: l ++ r)) := List.Perm.cons b ih
    exact this.trans (List.perm_middle.symm)

theorem mem_mergeL {k : Nat → Nat} {l r : List Nat} {x : Nat} :
    x ∈ mergeL k l r ↔ x ∈ l ∨ x ∈ r := by
  rw [(mergeL_perm k l r).mem_iff, List.mem_append]

theorem mergeL_sorted (k : Nat → Nat) (l r : List Nat) (hl : Sorted k l) (hr : Sorted k r) :
    Sorted k (mergeL k l r) := by
  fun_induction mergeL k l r with
  | case1 r => exact hr
  | case2 a l => exact hl
  | case3 a l b r h ih =>
    have hl' := List.pairwise_cons.mp hl
    have hr' := List.pairwise_cons.mp hr
    refine List.pairwise_cons.mpr ⟨?_, ih hl'.2 hr⟩
    intro x hx
    rcases mem_mergeL.mp hx with hx | hx
    · exact hl'.1 x hx
    · rcases List.mem_cons.mp hx with rfl | hx
      · omega
      · have := hr'.1 x hx; omega
  | case4 a l b r h ih =>
    have hl' := List.pairwise_cons.mp hl
    have hr' := List.pairwise_cons.mp hr
    refine List.pairwise_cons.mpr ⟨?_, ih hl hr'.2⟩
    intro x hx
    rcases mem_mergeL.mp hx with hx | hx
    · rcases List.mem_cons.mp hx with rfl | hx
      · omega
      · have := hl'.1 x hx; omega
    · exact hr'.1 x hx

theorem mergeRuns_perm (k : Nat → Nat) (l r : List Nat) : (mergeRuns k l r).Perm (l ++ r) := by
  unfold mergeRuns
  split
  · simp
  · split
    · next h => simp [List.getLast?_eq_none_iff.mp h]
    · split
      · exact List.Perm.refl _
      · exact mergeL_perm k l _

theorem le_last_of_sorted {k : Nat → Nat} {l : List Nat} {x : Nat} (hl : Sorted k l)
    (h : l.getLast? = some x) : ∀ a ∈ l, k a ≤ k x := by
  obtain ⟨ys, rfl⟩ := List.getLast?_eq_some_iff.mp h
  intro a ha
  rcases List.mem_append.mp ha with ha | ha
  · exact (List.pairwise_append.mp hl).2.2 a ha x (by simp)
  · simp at ha; subst ha; exact Nat.le_refl _

theorem mergeRuns_sorted (k : Nat → Nat) (l r : List Nat) (hl : Sorted k l) (hr : Sorted k r) :
    Sorted k (mergeRuns k l r) := by
  unfold mergeRuns
  split
  · exact hl
  · next y r' =>
    split
    · exact hr
    · next x hx =>
      split
      · next hlt =>
        refine List.pairwise_append.mpr ⟨hl, hr, ?_⟩
        intro a ha b hb
        have h1 := le_last_of_sorted hl hx a ha
        have h2 : k y ≤ k b := by
          rcases List.mem_cons.mp hb with rfl | hb
          · exact Nat.le_refl _
          · exact (List.pairwise_cons.mp hr).1 b hb
        omega
      · exact mergeL_sorted k l _ hl hr

/-- stack invariant: every run sorted -/
abbrev AllSorted (k : Nat → Nat) (st : List (List Nat)) : Prop := ∀ r ∈ st, Sorted k r

theorem mergeTop_sorted (k : Nat → Nat) (st : List (List Nat)) (h : AllSorted k st) :
    AllSorted k (mergeTop k st) := by
  unfold mergeTop
  split
  · next r l rest =>
    intro q hq
    rcases List.mem_cons.mp hq with rfl | hq
    · exact mergeRuns_sorted k l r (h l (by simp)) (h r (by simp))
    · exact h q (by simp [hq])
  · exact h

theorem mergeTop_perm (k : Nat → Nat) (st : List (List Nat)) :
    (mergeTop k st).flatten.Perm st.flatten := by
  unfold mergeTop
  split
  · next r l rest =>
    simp only [List.flatten_cons]
    rw [← List.append_assoc]
    refine List.Perm.append_right _ ?_
    exact (mergeRuns_perm k l r).trans List.perm_append_comm
  · exact List.Perm.refl _

theorem mergesLoop_sorted (k : Nat → Nat) (bi fuel m : Nat) (st : List (List Nat))
    (h : AllSorted k st) : AllSorted k (mergesLoop k bi fuel m st) := by
  induction fuel generalizing m st with
  | zero => exact h
  | succ n ih =>
    unfold mergesLoop
    split
    · exact ih _ _ (mergeTop_sorted k st h)
    · exact h

theorem mergesLoop_perm (k : Nat → Nat) (bi fuel m : Nat) (st : List (List Nat)) :
    (mergesLoop k bi fuel m st).flatten.Perm st.flatten := by
  induction fuel generalizing m st with
  | zero => exact List.Perm.refl _
  | succ n ih =>
    unfold mergesLoop
    split
    · exact (ih _ _).trans (mergeTop_perm k st)
    · exact List.Perm.refl _

theorem sortBlock_sorted (k : Nat → Nat) (b : List Nat) : Sorted k (sortBlock k b) := by
  have := List.pairwise_mergeSort (le := fun x y => decide (k x ≤ k y))
    (by intro a b c; simp; omega) (by intro a b; simp; omega) b
  unfold sortBlock
  refine this.imp ?_
  intro a b h; simpa using h

theorem sortBlock_perm (k : Nat → Nat) (b : List Nat) : (sortBlock k b).Perm b :=
  List.mergeSort_perm _ _

/-- builder invariant -/
structure BInv (k : Nat → Nat) (b : Builder) (xs : List Nat) : Prop where
  sorted : AllSorted k b.st
  perm : (b.cur ++ b.st.flatten).Perm xs
  cur : b.i = 0 → b.cur = []

theorem flush_inv (k : Nat → Nat) (b : Builder) (xs : List Nat) (h : BInv k b xs) :
    BInv k (b.flush k) xs := by
  refine ⟨?_, ?_, fun _ => rfl⟩
  · apply mergesLoop_sorted
    intro r hr
    rcases List.mem_cons.mp hr with rfl | hr
    · exact sortBlock_sorted k _
    · exact h.sorted r hr
  · show ([] ++ (merges k (b.nb + 1) (sortBlock k b.cur.reverse :: b.st)).flatten).Perm xs
    simp only [List.nil_append]
    refine (mergesLoop_perm k _ _ _ _).trans ?_
    simp only [List.flatten_cons]
    refine List.Perm.trans ?_ h.perm
    exact List.Perm.append_right _ ((sortBlock_perm k _).trans (List.reverse_perm _))

theorem add_inv (k : Nat → Nat) (b : Builder) (xs : List Nat) (x : Nat) (h : BInv k b xs) :
    BInv k (b.add k x) (xs ++ [x]) := by
  have h' : BInv k { b with cur := x :: b.cur, i := b.i + 1 } (xs ++ [x]) := by
    refine ⟨h.sorted, ?_, fun h0 => by simp at h0⟩
    show (x :: b.cur ++ b.st.flatten).Perm (xs ++ [x])
    exact (List.Perm.cons x h.perm).trans (List.perm_append_singleton x xs).symm
  unfold Builder.add
  simp only
  split
  · exact flush_inv k _ _ h'
  · exact h'

theorem foldl_add_inv (k : Nat → Nat) (xs : List Nat) (b : Builder) (pre : List Nat)
    (h : BInv k b pre) : BInv k (xs.foldl (Builder.add k) b) (pre ++ xs) := by
  induction xs generalizing b pre with
  | nil => simpa using h
  | cons x xs ih =>
    have := ih (b.add k x) (pre ++ [x]) (add_inv k b pre x h)
    simpa using this

theorem collapse_fold_sorted (k : Nat → Nat) (rest : List (List Nat)) (acc : List Nat)
    (ha : Sorted k acc) (hr : AllSorted k rest) :
    Sorted k (rest.foldl (fun acc l => mergeRuns k l acc) acc) := by
  induction rest generalizing acc with
  | nil => exact ha
  | cons l rest ih =>
    exact ih _ (mergeRuns_sorted k l acc (hr l (by simp)) ha) (fun r h => hr r (by simp [h]))

theorem collapse_fold_perm (k : Nat → Nat) (rest : List (List Nat)) (acc : List Nat) :
    (rest.foldl (fun acc l => mergeRuns k l acc) acc).Perm (acc ++ rest.flatten) := by
  induction rest generalizing acc with
  | nil => simp
  | cons l rest ih =>
    refine (ih _).trans ?_
    simp only [List.flatten_cons, ← List.append_assoc]
    exact List.Perm.append_right _ ((mergeRuns_perm k l acc).trans List.perm_append_comm)

theorem collapse_sorted (k : Nat → Nat) (st : List (List Nat)) (h : AllSorted k st) :
    Sorted k (collapse k st) := by
  cases st with
  | nil => exact List.Pairwise.nil
  | cons r rest =>
    exact collapse_fold_sorted k rest r (h r (by simp)) (fun q hq => h q (by simp [hq]))

theorem collapse_perm (k : Nat → Nat) (st : List (List Nat)) :
    (collapse k st).Perm st.flatten := by
  cases st with
  | nil => exact List.Perm.refl _
  | cons r rest => exact collapse_fold_perm k rest r

theorem finish_inv (k : Nat → Nat) (xs : List Nat) :
    ∃ b : Builder, BInv k b xs ∧ b.cur = [] ∧ finish k xs = collapse k b.st := by
  have h0 : BInv k ({} : Builder) [] := ⟨(by intro r hr; cases hr), (by simp), fun _ => rfl⟩
  have h := foldl_add_inv k xs {} [] h0
  simp only [List.nil_append] at h
  unfold finish Builder.finish
  split
  · next hi => exact ⟨_, h, h.cur hi, by simp⟩
  · next hi => exact ⟨_, flush_inv k _ _ h, rfl, by simp⟩

theorem finish_sorted (k : Nat → Nat) (xs : List Nat) : Sorted k (finish k xs) := by
  obtain ⟨b, hb, _, he⟩ := finish_inv k xs
  rw [he]; exact collapse_sorted k _ hb.sorted

theorem finish_perm (k : Nat → Nat) (xs : List Nat) : (finish k xs).Perm xs := by
  obtain ⟨b, hb, hc, he⟩ := finish_inv k xs
  rw [he]
  have := hb.perm
  rw [hc] at this
  exact (collapse_perm k _).trans (by simpa using this)

end SL

/-! ## bloom -/
namespace Bloom
open Gsu.Containers.Bloom

theorem getBit_setBit_self (bits n : Nat) : getBit (setBit bits n) n = true := by
  simp [getBit, setBit, Nat.testBit_or, Nat.testBit_shiftLeft]

theorem getBit_setBit_mono (bits n m : Nat) (h : getBit bits m = true) :
    getBit (setBit bits n) m = true := by
  simp only [getBit, setBit, Nat.testBit_or] at *
  simp [h]

theorem foldl_mono (ps : List Nat) (bits m : Nat) (h : getBit bits m = true) :
    getBit (ps.foldl setBit bits) m = true := by
  induction ps generalizing bits with
  | nil => exact h
  | cons p ps ih => exact ih _ (getBit_setBit_mono bits p m h)

theorem foldl_mem (ps : List Nat) (bits p : Nat) (h : p ∈ ps) :
    getBit (ps.foldl setBit bits) p = true := by
  induction ps generalizing bits with
  | nil => cases h
  | cons q ps ih =>
    rcases List.mem_cons.mp h with rfl | h
    · exact foldl_mono ps _ _ (getBit_setBit_self bits p)
    · exact ih _ h

@[simp] theorem add_k (b : T) (h : Nat) : (add b h).k = b.k := rfl
@[simp] theorem add_nwords (b : T) (h : Nat) : (add b h).nwords = b.nwords := rfl

theorem positions_add (b : T) (h g : Nat) : positions (add b h) g = positions b g := rfl

theorem add_mono (b : T) (h m : Nat) (hm : getBit b.bits m = true) :
    getBit (add b h).bits m = true := foldl_mono _ _ _ hm

theorem test_add_self (b : T) (h : Nat) : test (add b h) h = true := by
  unfold test
  rw [positions_add, List.all_eq_true]
  intro p hp
  exact foldl_mem _ _ _ hp

theorem test_add_mono (b : T) (h g : Nat) (ht : test b g = true) : test (add b h) g = true := by
  unfold test at *
  rw [positions_add]
  rw [List.all_eq_true] at *
  intro p hp
  exact add_mono b h p (ht p hp)

theorem foldl_add_mono (hs : List Nat) (b : T) (g : Nat) (ht : test b g = true) :
    test (hs.foldl add b) g = true := by
  induction hs generalizing b with
  | nil => exact ht
  | cons h hs ih => exact ih _ (test_add_mono b h g ht)

theorem no_false_negative (hs : List Nat) (b : T) (g : Nat) (hg : g ∈ hs) :
    test (hs.foldl add b) g = true := by
  induction hs generalizing b with
  | nil => cases hg
  | cons h hs ih =>
    rcases List.mem_cons.mp hg with rfl | hg
    · exact foldl_add_mono hs _ _ (test_add_self b g)
    · exact ih _ hg

theorem gen_pos (h i n : Nat) :
    bloomAddPos (h % 2 ^ 32 : Nat) (h >>> 32 : Nat) i n = (pos n h i : Nat) := by
  simp only [bloomAddPos, pos, bloomHashShift, bloomWordBits]
  have h0 : (0 : Int) ≤ ((h % 2 ^ 32 : Nat) : Int) + (i : Int) * ((h >>> 32 : Nat) : Int) := by
    have := Int.mul_nonneg (Int.natCast_nonneg i) (Int.natCast_nonneg (h >>> 32))
    omega
  rw [Int.tmod_eq_emod_of_nonneg h0]
  norm_cast

end Bloom

/-! ## roaring -/
namespace Roaring
open Gsu.Containers.Roaring

theorem testBit_addBit (bits v w : Nat) :
    (addBit bits v).testBit w = true ↔ (w = v ∨ bits.testBit w = true) := by
  simp only [addBit, Nat.testBit_or, Nat.one_shiftLeft, Nat.testBit_two_pow, Bool.or_eq_true,
    decide_eq_true_eq]
  constructor
  · rintro (h | h)
    · exact Or.inr h
    · exact Or.inl h.symm
  · rintro (h | h)
    · exact Or.inr h.symm
    · exact Or.inl h

theorem testBit_foldl_addBit (l : List Nat) (b w : Nat) :
    (l.foldl addBit b).testBit w = true ↔ (w ∈ l ∨ b.testBit w = true) := by
  induction l generalizing b with
  | nil => simp
  | cons a l ih =>
    simp only [List.foldl_cons, ih, testBit_addBit, List.mem_cons]
    constructor
    · rintro (h | h | h)
      · exact Or.inl (Or.inr h)
      · exact Or.inl (Or.inl h)
      · exact Or.inr h
    · rintro ((h | h) | h)
      · exact Or.inr (Or.inl h)
      · exact Or.inl h
      · exact Or.inr (Or.inr h)

theorem mem_insertSorted (v w : Nat) (l : List Nat) :
    w ∈ insertSorted v l ↔ (w = v ∨ w ∈ l) := by
  induction l with
  | nil => simp [insertSorted]
  | cons a l ih =>
    unfold insertSorted
    split
    · simp
    · simp only [List.mem_cons, ih]
      constructor
      · rintro (h | h | h)
        · exact Or.inr (Or.inl h)
        · exact Or.inl h
        · exact Or.inr (Or.inr h)
      · rintro (h | h | h)
        · exact Or.inr (Or.inl h)
        · exact Or.inl h
        · exact Or.inr (Or.inr h)

theorem toBitmap_has (c : Cont) (v w : Nat) (hb : c.bitmap = false) :
    (c.toBitmap v).has w = true ↔ (w = v ∨ c.has w = true) := by
  simp [Cont.toBitmap, Cont.has, hb, testBit_addBit, testBit_foldl_addBit]

theorem cont_add_has (c : Cont) (v w : Nat) :
    (c.add v).has w = true ↔ (w = v ∨ c.has w = true) := by
  unfold Cont.add
  split
  · next hb => simp [Cont.has, hb, testBit_addBit]
  · next hb =>
    have hb' : c.bitmap = false := by simpa using hb
    split
    · split
      · simp only [Cont.has, hb']
        simp only [Bool.false_eq_true, ↓reduceIte, List.contains_eq_mem, List.mem_append,
          List.mem_singleton, decide_eq_true_eq]
        constructor
        · rintro (h | h)
          · exact Or.inr h
          · exact Or.inl h
        · rintro (h | h)
          · exact Or.inr h
          · exact Or.inl h
      · exact toBitmap_has c v w hb'
    · split
      · next hc =>
        constructor
        · intro h; exact Or.inr h
        · rintro (h | h)
          · subst h; simpa [Cont.has, hb'] using hc
          · exact h
      · split
        · simp only [Cont.has, hb']
          simp [mem_insertSorted]
        · exact toBitmap_has c v w hb'

theorem cont_add_base (c : Cont) (v : Nat) : (c.add v).base = c.base := by
  unfold Cont.add Cont.toBitmap
  repeat (first | split | rfl)

theorem new_has (b v w : Nat) : ({ base := b, arr := [v] } : Cont).has w = true ↔ w = v := by
  simp [Cont.has]

theorem hasC_addC (t : T) (b v b' w : Nat) :
    hasC (addC t b v) b' w = true ↔ ((b' = b ∧ w = v) ∨ hasC t b' w = true) := by
  induction t with
  | nil =>
    simp only [addC, hasC]
    by_cases h1 : b < b'
    · simp [h1]; omega
    · by_cases h2 : b = b'
      · subst h2; simp [new_has]
      · simp [h1, h2]; omega
  | cons c cs ih =>
    unfold addC
    split
    · next hlt =>
      simp only [hasC]
      by_cases h1 : c.base < b'
      · simp [h1, ih]
      · by_cases h2 : c.base = b'
        · simp [h1, h2]; omega
        · simp [h1, h2]; omega
    · split
      · next hnlt heq =>
        have heq' : c.base = b := by simpa using heq
        have hb : (c.add v).base = c.base := cont_add_base c v
        simp only [hasC, hb]
        by_cases h1 : c.base < b'
        · simp only [h1, if_true]
          constructor
          · exact Or.inr
          · rintro (⟨h, _⟩ | h)
            · omega
            · exact h
        · by_cases h2 : c.base = b'
          · have h2' : (c.base == b') = true := by simpa using h2
            simp only [h1, if_false, h2', if_true, cont_add_has]
            constructor
            · rintro (h | h)
              · exact Or.inl ⟨by omega, h⟩
              · exact Or.inr h
            · rintro (⟨_, h⟩ | h)
              · exact Or.inl h
              · exact Or.inr h
          · have h2' : (c.base == b') = false := by simpa using h2
            simp only [h1, if_false, h2']
            constructor
            · intro h; cases h
            · rintro (⟨h, _⟩ | h)
              · omega
              · cases h
      · next hnlt hne =>
        have hne' : ¬ c.base = b := by simpa using hne
        simp only [hasC]
        by_cases h1 : b < b'
        · simp [h1]; omega
        · by_cases h2 : b = b'
          · subst h2; simp [new_has, hnlt, hne']
          · have : ¬ c.base < b' := by omega
            have : ¬ c.base = b' := by omega
            simp [h1, h2, *]; omega

theorem split_inj (x y : Nat) :
    (y >>> roaringShift = x >>> roaringShift ∧ y &&& roaringLowMask = x &&& roaringLowMask) ↔ y = x := by
  have e1 : ∀ z : Nat, z &&& roaringLowMask = z % 2 ^ 16 := fun z => Nat.and_two_pow_sub_one_eq_mod z 16
  simp only [e1, roaringShift, Nat.shiftRight_eq_div_pow]
  omega

theorem has_add (t : T) (x y : Nat) :
    has (add t x) y = true ↔ (y = x ∨ has t y = true) := by
  unfold has add
  rw [hasC_addC, split_inj]

theorem has_nil (y : Nat) : has [] y = false := rfl

theorem has_foldl_add (xs : List Nat) (t : T) (y : Nat) :
    has (xs.foldl add t) y = true ↔ (y ∈ xs ∨ has t y = true) := by
  induction xs generalizing t with
  | nil => simp
  | cons x xs ih =>
    rw [List.foldl_cons, ih, has_add, List.mem_cons]
    constructor
    · rintro (h | h | h)
      · exact Or.inl (Or.inr h)
      · exact Or.inl (Or.inl h)
      · exact Or.inr h
    · rintro ((h | h) | h)
      · exact Or.inr (Or.inl h)
      · exact Or.inl h
      · exact Or.inr (Or.inr h)

end Roaring

/-! ## association list (spec of shmap; also the map inside lrucache) -/
namespace Assoc
open Gsu.Containers.Assoc

theorem get_cons (e : Nat × Nat) (m : Map) (k : Nat) :
    Assoc.get (e :: m) k = if e.1 = k then some e.2 else Assoc.get m k := by
  unfold Assoc.get
  by_cases h : e.1 = k
  · simp [List.find?_cons, h]
  · have : (e.1 == k) = false := by simpa using h
    simp [List.find?_cons, this, h]

theorem get_del (m : Map) (k k' : Nat) :
    Assoc.get (del m k) k' = if k' = k then none else Assoc.get m k' := by
  induction m with
  | nil => simp [del, Assoc.get]
  | cons e m ih =>
    have hd : del (e :: m) k = if e.1 = k then del m k else e :: del m k := by
      unfold del
      by_cases h : e.1 = k
      · simp [List.filter_cons, h]
      · simp [List.filter_cons, h]
    rw [hd]
    by_cases h : e.1 = k
    · rw [if_pos h, ih, get_cons]
      by_cases h2 : k' = k
      · simp [h2]
      · have : ¬ e.1 = k' := by omega
        simp [h2, this]
    · rw [if_neg h, get_cons, ih, get_cons]
      by_cases h2 : k' = k
      · have : ¬ e.1 = k' := by omega
        simp [h2, this, h]
      · simp [h2]

theorem get_put (m : Map) (k v k' : Nat) :
    Assoc.get (put m k v) k' = if k' = k then some v else Assoc.get m k' := by
  unfold put
  rw [get_cons, get_del]
  by_cases h : k' = k
  · simp [h]
  · have : ¬ k = k' := fun e => h e.symm
    simp [h, this]

theorem get_put_self (m : Map) (k v : Nat) : Assoc.get (put m k v) k = some v := by
  simp [get_put]

theorem get_del_self (m : Map) (k : Nat) : Assoc.get (del m k) k = none := by
  simp [get_del]

end Assoc

/-! ## lrucache -/
namespace Lru
open Gsu.Containers.Lru

/-- invariant of a cache state w.r.t. the abstract "value of the latest Put per key" -/
structure LInv (c : T) (spec : Nat → Option Nat) : Prop where
  pos : 0 < c.size
  cap : c.entries.length ≤ c.size
  perm : c.lru.Perm (List.range c.entries.length)
  hm : ∀ k ei, Gsu.Containers.Assoc.get c.hm k = some ei →
        ∃ v, c.entries[ei]? = some (k, v) ∧ spec k = some v

def upd (spec : Nat → Option Nat) (k v : Nat) : Nat → Option Nat :=
  fun k' => if k' = k then some v else spec k'

theorem pickSize_pos (req : Nat) : 0 < pickSize req ∧ pickSize req ≤ lruMaxSize := by
  unfold pickSize
  split
  · next n h =>
    have hm := List.mem_of_find?_eq_some h
    simp only [lruSizes, List.mem_cons, List.not_mem_nil, or_false] at hm
    simp only [lruMaxSize]
    omega
  · decide

theorem new_inv (req : Nat) : LInv (new req) (fun _ => none) :=
  ⟨(pickSize_pos req).1, Nat.zero_le _, List.Perm.refl _, by intro k ei h; simp [new, Gsu.Containers.Assoc.get] at h⟩

theorem put_inv (c : T) (spec : Nat → Option Nat) (k v : Nat) (h : LInv c spec) :
    LInv (put c k v) (upd spec k v) := by
  unfold put
  simp only
  split
  · next hlt =>
    refine ⟨h.pos, by simp; omega, ?_, ?_⟩
    · show (c.lru ++ [c.entries.length]).Perm (List.range (c.entries ++ [(k, v)]).length)
      simp only [List.length_append, List.length_singleton, List.range_succ]
      exact List.Perm.append_right _ h.perm
    · intro k' e' he
      show ∃ v', (c.entries ++ [(k, v)])[e']? = some (k', v') ∧ upd spec k v k' = some v'
      change Gsu.Containers.Assoc.get (Gsu.Containers.Assoc.put c.hm k c.entries.length) k' = some e' at he
      rw [Assoc.get_put] at he
      unfold upd
      by_cases hk : k' = k
      · subst hk
        simp only [if_true] at he
        cases he
        exact ⟨v, by simp, by simp⟩
      · simp only [hk, if_false] at he
        obtain ⟨v', hv, hs⟩ := h.hm k' e' he
        have hlt' : e' < c.entries.length := (List.getElem?_eq_some_iff.mp hv).1
        exact ⟨v', by rw [List.getElem?_append_left hlt']; exact hv, by simp [hk, hs]⟩
  · next hge =>
    have hlen : c.entries.length = c.size := by have := h.cap; omega
    have hpos := h.pos
    -- lru is a permutation of range len with len > 0, so it has a head < len
    have hl : c.lru.length = c.entries.length := by rw [h.perm.length_eq]; simp
    cases hlru : c.lru with
    | nil => rw [hlru] at hl; simp at hl; omega
    | cons e0 rest =>
      have he0 : e0 < c.entries.length := by
        have : e0 ∈ List.range c.entries.length := h.perm.mem_iff.mp (by rw [hlru]; simp)
        simpa using this
      simp only [List.headD_cons, List.drop_one, List.tail_cons]
      refine ⟨h.pos, by simp; omega, ?_, ?_⟩
      · show (rest ++ [e0]).Perm (List.range (c.entries.set e0 (k, v)).length)
        rw [List.length_set]
        have hp := h.perm
        rw [hlru] at hp
        exact (List.perm_append_comm (l₁ := rest) (l₂ := [e0])).trans hp
      · intro k' e' he
        show ∃ v', (c.entries.set e0 (k, v))[e']? = some (k', v') ∧ upd spec k v k' = some v'
        change Gsu.Containers.Assoc.get (Gsu.Containers.Assoc.put
          (Gsu.Containers.Assoc.del c.hm ((c.entries[e0]?).getD (0, 0)).1) k e0) k' = some e' at he
        rw [Assoc.get_put] at he
        unfold upd
        by_cases hk : k' = k
        · subst hk
          simp only [if_true] at he
          cases he
          exact ⟨v, List.getElem?_set_self he0, by simp⟩
        · simp only [hk, if_false] at he
          rw [Assoc.get_del] at he
          split at he
          · cases he
          · next hne =>
            obtain ⟨v', hv, hs⟩ := h.hm k' e' he
            have hne' : e0 ≠ e' := by
              intro heq
              subst heq
              rw [hv] at hne
              simp at hne
            exact ⟨v', by rw [List.getElem?_set_ne hne']; exact hv, by simp [hk, hs]⟩

theorem get_inv (c : T) (spec : Nat → Option Nat) (k : Nat) (h : LInv c spec) :
    LInv (Lru.get c k).1 spec ∧ ∀ v, (Lru.get c k).2 = some v → spec k = some v := by
  unfold Lru.get
  split
  · next hnone => exact ⟨⟨h.pos, h.cap, h.perm, h.hm⟩, by intro v hv; cases hv⟩
  · next ei hsome =>
    obtain ⟨v', hv, hs⟩ := h.hm k ei hsome
    have hlt : ei < c.entries.length := (List.getElem?_eq_some_iff.mp hv).1
    have hmem : ei ∈ c.lru := h.perm.mem_iff.mpr (by simpa using hlt)
    refine ⟨⟨h.pos, h.cap, ?_, h.hm⟩, ?_⟩
    · show (if c.lru.idxOf ei < c.size - c.size / lruNoMoveDiv
          then c.lru.eraseIdx (c.lru.idxOf ei) ++ [ei] else c.lru).Perm _
      split
      · rw [← List.erase_eq_eraseIdx_of_idxOf rfl]
        refine List.Perm.trans ?_ h.perm
        exact (List.perm_append_comm.trans (List.perm_cons_erase hmem).symm)
      · exact h.perm
    · intro v hv2
      simp only [hv, Option.map_some] at hv2
      cases hv2
      exact hs

theorem get_after_put (c : T) (spec : Nat → Option Nat) (k v : Nat) (h : LInv c spec) :
    (Lru.get (put c k v) k).2 = some v := by
  have hp := put_inv c spec k v h
  have hk : Gsu.Containers.Assoc.get (put c k v).hm k = some
      (if c.entries.length < c.size then c.entries.length else c.lru.headD 0) := by
    unfold put
    simp only
    split <;> exact Assoc.get_put_self _ _ _
  obtain ⟨v', hv, hs⟩ := hp.hm k _ hk
  have : v' = v := by simpa [upd] using hs.symm
  subst this
  unfold Lru.get
  rw [hk]
  simp only [hv, Option.map_some]

/-- operation histories -/
inductive Op where
  | putOp (k v : Nat)
  | getOp (k : Nat)

def apply (c : T) : Op → T
  | .putOp k v => put c k v
  | .getOp k => (Lru.get c k).1

def run (c : T) (ops : List Op) : T := ops.foldl apply c

/-- the abstract map: value of the latest Put of each key -/
def latest (ops : List Op) : Nat → Option Nat :=
  ops.foldl (fun spec op => match op with | .putOp k v => upd spec k v | .getOp _ => spec) (fun _ => none)

theorem run_inv_aux (ops : List Op) (c : T) (spec : Nat → Option Nat) (h : LInv c spec) :
    LInv (ops.foldl apply c)
      (ops.foldl (fun spec op => match op with | .putOp k v => upd spec k v | .getOp _ => spec) spec) := by
  induction ops generalizing c spec with
  | nil => exact h
  | cons op ops ih =>
    cases op with
    | putOp k v => exact ih _ _ (put_inv c spec k v h)
    | getOp k => exact ih _ _ (get_inv c spec k h).1

theorem run_inv (req : Nat) (ops : List Op) : LInv (run (new req) ops) (latest ops) := by
  exact run_inv_aux ops (new req) (fun _ => none) (new_inv req)

theorem apply_size (c : T) (op : Op) : (apply c op).size = c.size := by
  cases op with
  | putOp k v => simp only [apply, put]; split <;> rfl
  | getOp k => simp only [apply, Lru.get]; split <;> rfl

theorem run_size (c : T) (ops : List Op) : (run c ops).size = c.size := by
  unfold run
  induction ops generalizing c with
  | nil => rfl
  | cons op ops ih => rw [List.foldl_cons, ih, apply_size]

end Lru

/-! ## cache (8 slots) -/
namespace Cache8
open Gsu.Containers.Cache8

theorem scan_sound (slots : List (Option (Nat × Nat))) (key n j j' v : Nat)
    (h : scan slots key n j = some (j', v)) : slots[j']? = some (some (key, v)) := by
  induction n generalizing j with
  | zero => simp [scan] at h
  | succ n ih =>
    unfold scan at h
    split at h
    · next k v0 hs =>
      split at h
      · next hk =>
        have hk' : k = key := by simpa using hk
        cases h
        rw [hs, hk']
      · exact ih _ h
    · exact ih _ h

/-- every resident value is what the (pure) getter `f` returns for its key -/
def CInv (f : Nat → Nat) (c : T) : Prop :=
  ∀ j k v : Nat, c.slots[j]? = some (some (k, v)) → v = f k

theorem new_inv (f : Nat → Nat) : CInv f {} := by
  intro j k v h
  simp only [List.getElem?_replicate] at h
  split at h <;> simp at h

theorem get_inv (f : Nat → Nat) (c : T) (key : Nat) (h : CInv f c) :
    (Cache8.get c key (f key)).2.1 = f key ∧ CInv f (Cache8.get c key (f key)).1 := by
  unfold Cache8.get
  split
  · next j v hs =>
    have := h j key v (scan_sound _ _ _ _ _ _ hs)
    exact ⟨this, h⟩
  · refine ⟨rfl, ?_⟩
    intro j k v hj
    simp only at hj
    by_cases hjj : (c.i + 1) % cacheSize = j
    · rw [hjj] at hj
      rw [List.getElem?_set_self'] at hj
      cases hc : c.slots[j]? with
      | none => rw [hc] at hj; simp at hj
      | some x =>
        rw [hc] at hj
        simp [Function.const] at hj
        rw [← hj.1, ← hj.2]
    · rw [List.getElem?_set_ne hjj] at hj
      exact h j k v hj

theorem hit_resident (c : T) (key fv : Nat) (h : (Cache8.get c key fv).2.2 = false) :
    ∃ j : Nat, c.slots[j]? = some (some (key, (Cache8.get c key fv).2.1)) := by
  unfold Cache8.get at h ⊢
  split
  · next j v hs => exact ⟨j, scan_sound _ _ _ _ _ _ hs⟩
  · next hs => simp [hs] at h

/-- a history of Gets with getter `f`: the values returned -/
def runGets (f : Nat → Nat) : T → List Nat → List Nat
  | _, [] => []
  | c, k :: ks => (Cache8.get c k (f k)).2.1 :: runGets f (Cache8.get c k (f k)).1 ks

theorem runGets_eq (f : Nat → Nat) (c : T) (h : CInv f c) (ks : List Nat) :
    runGets f c ks = ks.map f := by
  induction ks generalizing c with
  | nil => rfl
  | cons k ks ih =>
    have := get_inv f c k h
    simp only [runGets, List.map_cons, this.1, ih _ this.2]

/-! ### getters that fail or re-enter the cache -/

theorem getFail_inv (f : Nat → Nat) (c : T) (key : Nat) (h : CInv f c) :
    (∀ v, (Cache8.getFail c key).2 = some v → v = f key) ∧ CInv f (Cache8.getFail c key).1 := by
  unfold Cache8.getFail
  split
  · next j v hs =>
    refine ⟨fun v' hv => ?_, h⟩
    cases hv
    exact h j key v (scan_sound _ _ _ _ _ _ hs)
  · exact ⟨fun v hv => (by cases hv), h⟩

theorem set_inv (f : Nat → Nat) (slots : List (Option (Nat × Nat))) (i j key : Nat)
    (h : ∀ j k v : Nat, slots[j]? = some (some (k, v)) → v = f k) :
    CInv f { slots := slots.set j (some (key, f key)), i := i } := by
  intro j' k v hj
  simp only at hj
  by_cases hjj : j = j'
  · rw [hjj] at hj
    rw [List.getElem?_set_self'] at hj
    cases hc : slots[j']? with
    | none => rw [hc] at hj; simp at hj
    | some x =>
      rw [hc] at hj
      simp [Function.const] at hj
      rw [← hj.1, ← hj.2]
  · rw [List.getElem?_set_ne hjj] at hj
    exact h j' k v hj

theorem getNest_inv (f : Nat → Nat) (c : T) (key k2 : Nat) (h : CInv f c) :
    (Cache8.getNest c key k2 (f k2) (f key)).2.1 = f key ∧
      (∀ v2 b, (Cache8.getNest c key k2 (f k2) (f key)).2.2.2 = some (v2, b) → v2 = f k2) ∧
      CInv f (Cache8.getNest c key k2 (f k2) (f key)).1 := by
  unfold Cache8.getNest
  split
  · next j v hs =>
    exact ⟨h j key v (scan_sound _ _ _ _ _ _ hs), fun v2 b hv => (by cases hv), h⟩
  · have hc1 : CInv f { c with i := (c.i + 1) % cacheSize } := h
    have hin := get_inv f { c with i := (c.i + 1) % cacheSize } k2 hc1
    refine ⟨rfl, ?_, ?_⟩
    · intro v2 b hv
      simp only [Option.some.injEq, Prod.mk.injEq] at hv
      rw [← hv.1]; exact hin.1
    · exact set_inv f _ _ _ key hin.2

/-- operations of a history: plain `Get`, `Get` with a failing getter, `Get` with a re-entrant getter -/
inductive Op where
  | get (k : Nat)
  | fail (k : Nat)
  | nest (k k2 : Nat)

/-- all (key, value) pairs a history hands out (outer and inner calls), getter `f` -/
def runOps (f : Nat → Nat) : T → List Op → List (Nat × Nat)
  | _, [] => []
  | c, .get k :: ops => (k, (Cache8.get c k (f k)).2.1) :: runOps f (Cache8.get c k (f k)).1 ops
  | c, .fail k :: ops =>
    (match (Cache8.getFail c k).2 with | some v => [(k, v)] | none => []) ++
      runOps f (Cache8.getFail c k).1 ops
  | c, .nest k k2 :: ops =>
    (k, (Cache8.getNest c k k2 (f k2) (f k)).2.1) ::
      ((match (Cache8.getNest c k k2 (f k2) (f k)).2.2.2 with | some (v2, _) => [(k2, v2)] | none => []) ++
        runOps f (Cache8.getNest c k k2 (f k2) (f k)).1 ops)

theorem runOps_sound (f : Nat → Nat) (c : T) (h : CInv f c) (ops : List Op) :
    ∀ p ∈ runOps f c ops, p.2 = f p.1 := by
  induction ops generalizing c with
  | nil => intro p hp; cases hp
  | cons op ops ih =>
    intro p hp
    cases op with
    | get k =>
      have := get_inv f c k h
      simp only [runOps, List.mem_cons] at hp
      rcases hp with rfl | hp
      · exact this.1
      · exact ih _ this.2 p hp
    | fail k =>
      have := getFail_inv f c k h
      simp only [runOps, List.mem_append] at hp
      rcases hp with hp | hp
      · cases hv : (Cache8.getFail c k).2 with
        | none => rw [hv] at hp; cases hp
        | some v =>
          rw [hv] at hp
          simp only [List.mem_singleton] at hp
          subst hp
          exact this.1 v hv
      · exact ih _ this.2 p hp
    | nest k k2 =>
      have := getNest_inv f c k k2 h
      simp only [runOps, List.mem_cons, List.mem_append] at hp
      rcases hp with rfl | hp | hp
      · exact this.1
      · cases hv : (Cache8.getNest c k k2 (f k2) (f k)).2.2.2 with
        | none => rw [hv] at hp; cases hp
        | some pr =>
          rw [hv] at hp
          obtain ⟨v2, b⟩ := pr
          simp only [List.mem_singleton] at hp
          subst hp
          exact this.2.1 v2 b hv
      · exact ih _ this.2.2 p hp

end Cache8

end Gsu.Proofs.Containers
