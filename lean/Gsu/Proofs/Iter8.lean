/-
C09 (OverIter), part 8: the other operations keep the two-directional invariant; exhaustive
iteration (`iterate_sorted_exact`); the executable specification equals the relational one.
Core-only.
-/
import Gsu.Proofs.Iter7
namespace Gsu.Iter

/-! ### frame: what a step does not change -/

theorem finishNext_frame (x : OI) :
    (finishNext x).rng = x.rng ∧ (finishNext x).layers = x.layers ∧ (finishNext x).pend = x.pend := by
  unfold finishNext; simp only; split <;> simp

theorem finishPrev_frame (x : OI) :
    (finishPrev x).rng = x.rng ∧ (finishPrev x).layers = x.layers ∧ (finishPrev x).pend = x.pend := by
  unfold finishPrev; simp only; split <;> simp

theorem modNext_frame (x : OI) (m : Bool) :
    (modNext x m).rng = x.rng ∧ (modNext x m).layers = x.layers ∧ (modNext x m).pend = x.pend := by
  simp [modNext]

theorem modPrev_frame (x : OI) (m : Bool) :
    (modPrev x m).rng = x.rng ∧ (modPrev x m).layers = x.layers ∧ (modPrev x m).pend = x.pend := by
  simp [modPrev]

theorem fastNext_frame (x : OI) :
    (fastNext x).1.rng = x.rng ∧ (fastNext x).1.layers = x.layers ∧ (fastNext x).1.pend = x.pend := by
  unfold fastNext
  split
  · simp
  · simp only; split <;> simp [modNext]

theorem fastPrev_frame (x : OI) :
    (fastPrev x).1.rng = x.rng ∧ (fastPrev x).1.layers = x.layers ∧ (fastPrev x).1.pend = x.pend := by
  unfold fastPrev
  split
  · simp
  · simp only; split <;> simp [modPrev]

theorem nextSlow_frame (y : OI) (m : Bool) :
    (nextSlow y m).rng = y.rng ∧ (nextSlow y m).layers = y.layers ∧ (nextSlow y m).pend = y.pend := by
  unfold nextSlow
  have h1 := finishNext_frame (modNext { y with fastIdx := none } m)
  have h2 := modNext_frame { y with fastIdx := none } m
  exact ⟨h1.1.trans h2.1, h1.2.1.trans h2.2.1, h1.2.2.trans h2.2.2⟩

theorem prevSlow_frame (y : OI) (m : Bool) :
    (prevSlow y m).rng = y.rng ∧ (prevSlow y m).layers = y.layers ∧ (prevSlow y m).pend = y.pend := by
  unfold prevSlow
  have h1 := finishPrev_frame (modPrev { y with fastIdx := none } m)
  have h2 := modPrev_frame { y with fastIdx := none } m
  exact ⟨h1.1.trans h2.1, h1.2.1.trans h2.2.1, h1.2.2.trans h2.2.2⟩

theorem nextCore_frame (x : OI) (m : Bool) :
    (nextCore x m).rng = x.rng ∧ (nextCore x m).layers = x.layers ∧ (nextCore x m).pend = x.pend := by
  unfold nextCore
  split
  · unfold nextRewound; exact finishNext_frame
      { x with curs := zipL (fun _ L c => curNext L x.rng c) x.layers x.curs,
               st := .within, fastIdx := none,
               mod := if x.mod && lastRewound x.curs then modAfterSeek x else x.mod }
  · split
    · simp only
      split
      · exact fastNext_frame x
      · have h := nextSlow_frame (fastNext x).1 m
        have h3 := fastNext_frame x
        exact ⟨h.1.trans h3.1, h.2.1.trans h3.2.1, h.2.2.trans h3.2.2⟩
    · exact nextSlow_frame x m

theorem prevCore_frame (x : OI) (m : Bool) :
    (prevCore x m).rng = x.rng ∧ (prevCore x m).layers = x.layers ∧ (prevCore x m).pend = x.pend := by
  unfold prevCore
  split
  · unfold prevRewound; exact finishPrev_frame
      { x with curs := zipL (fun _ L c => curPrev L x.rng c) x.layers x.curs,
               st := .within, fastIdx := none,
               mod := if x.mod && lastRewound x.curs then modAfterSeek x else x.mod }
  · split
    · simp only
      split
      · exact fastPrev_frame x
      · have h := prevSlow_frame (fastPrev x).1 m
        have h3 := fastPrev_frame x
        exact ⟨h.1.trans h3.1, h.2.1.trans h3.2.1, h.2.2.trans h3.2.2⟩
    · exact prevSlow_frame x m

theorem update_frame (oi : OI) :
    (update oi).1.rng = oi.rng ∧ (update oi).1.layers = curLayers oi ∧ (update oi).1.pend = none := by
  unfold update curLayers
  cases hp : oi.pend <;> simp [hp]

/-- a step keeps the range and the overlay it iterates over -/
theorem next_frame (oi : OI) (hne : oi.st ≠ .eof) :
    (next oi).rng = oi.rng ∧ curLayers (next oi) = curLayers oi := by
  unfold next
  simp only [hne, if_false]
  have h1 := nextCore_frame (update oi).1 (update oi).2
  have h2 := update_frame oi
  refine ⟨by rw [h1.1, h2.1], ?_⟩
  unfold curLayers
  rw [h1.2.2, h2.2.2, h1.2.1, h2.2.1]; rfl

theorem prev_frame (oi : OI) (hne : oi.st ≠ .eof) :
    (prev oi).rng = oi.rng ∧ curLayers (prev oi) = curLayers oi := by
  unfold prev
  simp only [hne, if_false]
  have h1 := prevCore_frame (update oi).1 (update oi).2
  have h2 := update_frame oi
  refine ⟨by rw [h1.1, h2.1], ?_⟩
  unfold curLayers
  rw [h1.2.2, h2.2.2, h1.2.1, h2.2.1]; rfl

/-! ### the other operations keep the two-directional invariant -/

theorem goodB_start {Ls : List Layer} (h : WF Ls) : GoodB (newOverlay {} Ls) := by
  refine ⟨good_start h, ?_, ?_, ?_, ?_⟩ <;> intro h <;> cases h

theorem goodB_newOverlay {oi : OI} (hg : GoodB oi) {Ls : List Layer} (h : WF Ls) :
    GoodB (newOverlay oi Ls) := by
  refine ⟨good_newOverlay hg.good h, hg.dir, ?_, hg.fastN, hg.fastP⟩
  intro _ _ hp; simp [newOverlay] at hp

theorem goodB_rewind {oi : OI} (hg : GoodB oi) : GoodB (rewind oi) := by
  refine ⟨good_rewind hg.good, ?_, ?_, ?_, ?_⟩ <;> intro h <;> simp [rewind] at h

theorem goodB_range {oi : OI} (hg : GoodB oi) (r : Rng) : GoodB (range oi r) := by
  refine ⟨good_range hg.good r, ?_, ?_, ?_, ?_⟩ <;> intro h <;> simp [range] at h

theorem goodB_mutate {oi : OI} (hg : GoodB oi) (hne : curLayers oi ≠ []) {L : Layer} (hL : LWF L) :
    GoodB (mutate oi L) := by
  have hgood := good_mutate hg.good hne hL
  unfold mutate at hgood ⊢
  cases hp : oi.pend with
  | some Ls =>
    rw [hp] at hgood
    simp only at hgood ⊢
    refine ⟨hgood, hg.dir, ?_, hg.fastN, hg.fastP⟩
    intro _ _ h; simp at h
  | none =>
    rw [hp] at hgood
    simp only at hgood ⊢
    have hne' : oi.layers ≠ [] := by simpa [curLayers, hp] using hne
    refine ⟨hgood, hg.dir, ?_, hg.fastN, hg.fastP⟩
    intro hst hd _
    exact ZInv_mutate (P := BwdP oi.rng oi.curKey oi.mod) (Q := BwdP oi.rng oi.curKey true) L
      (fun c => Or.inl ⟨rfl, rfl⟩)
      (fun M c h => by
        rcases h with ⟨h, _⟩ | h
        · cases h
        · exact Or.inr h)
      oi.layers oi.curs hne' (hg.bwd hst hd hp)

/-! ### exhaustive iteration -/

/-- the keys and offsets returned by repeated `Next` until eof (at most `n` steps) -/
def collectNext (oi : OI) : Nat → List (Key × Nat)
  | 0 => []
  | n + 1 =>
    match (next oi).result with
    | none => []
    | some p => p :: collectNext (next oi) n

def collectPrev (oi : OI) : Nat → List (Key × Nat)
  | 0 => []
  | n + 1 =>
    match (prev oi).result with
    | none => []
    | some p => p :: collectPrev (prev oi) n

theorem result_some {oi : OI} {p : Key × Nat} (h : oi.result = some p) :
    oi.st = .within ∧ p = (oi.curKey, oi.curOff) := by
  unfold OI.result at h
  by_cases hs : oi.st = .within
  · simp [hs] at h; exact ⟨hs, h.symm⟩
  · simp [hs] at h

theorem sem_some_mem {Ls : List Layer} {k : Key} {o : Nat} (h : sem Ls k = some o) :
    ∃ L ∈ Ls, ∃ e ∈ L, e.key = k := by
  unfold sem at h
  cases ht : top Ls k with
  | none => rw [ht] at h; cases h
  | some e =>
    obtain ⟨L, hL, he, hk⟩ := top_some_mem ht
    exact ⟨L, hL, e, he, hk⟩

/-- forward iteration from any state: the collected list is strictly increasing and contains
exactly the live keys of the range past the bound, with their offsets -/
theorem collectNext_spec : ∀ (n : Nat) (oi : OI), GoodB oi → oi.st ≠ .eof → Comp (curLayers oi) →
    cnt (nextBd oi) (curLayers oi) < n →
    (collectNext oi n).Pairwise (fun a b => a.1 < b.1) ∧
    ∀ k off, (k, off) ∈ collectNext oi n ↔
      ((nextBd oi).ok k = true ∧ k < oi.rng.end_ ∧ sem (curLayers oi) k = some off) := by
  intro n
  induction n with
  | zero => intro oi _ _ _ h; omega
  | succ n ih =>
    intro oi hg hne hcomp hcnt
    obtain ⟨hg', hnext, _⟩ := next_full oi hg hne (fun _ => hcomp)
    obtain ⟨hrng, hlay⟩ := next_frame oi hne
    simp only [collectNext]
    cases hres : (next oi).result with
    | none =>
      rw [hres] at hnext
      simp only [IsNext] at hnext
      refine ⟨List.Pairwise.nil, ?_⟩
      intro k off
      constructor
      · intro h; cases h
      · intro ⟨h1, h2, h3⟩; rw [hnext k h1 h2] at h3; cases h3
    | some p =>
      obtain ⟨m, o⟩ := p
      rw [hres] at hnext
      obtain ⟨hok, hend, hsem, hmin⟩ := hnext
      obtain ⟨hst', hp'⟩ := result_some hres
      have hck : (next oi).curKey = m := by cases hp'; rfl
      have hbd' : nextBd (next oi) = .gt m := by simp [nextBd, hst', hck]
      have hlt := cnt_lt (nextBd oi) m hok (curLayers oi) (sem_some_mem hsem)
      have h := ih (next oi) hg' (by rw [hst']; simp) (by rw [hlay]; exact hcomp)
        (by rw [hbd', hlay]; omega)
      rw [hbd', hlay, hrng] at h
      obtain ⟨hpw, hmem⟩ := h
      simp only
      refine ⟨List.pairwise_cons.mpr ⟨?_, hpw⟩, ?_⟩
      · intro q hq
        have := (hmem q.1 q.2).mp hq
        simpa [Bd.ok] using this.1
      · intro k off
        rw [List.mem_cons, hmem k off]
        constructor
        · rintro (h | ⟨h1, h2, h3⟩)
          · cases h; exact ⟨hok, hend, hsem⟩
          · exact ⟨bd_mono hok (by simpa [Bd.ok] using h1), h2, h3⟩
        · intro ⟨h1, h2, h3⟩
          by_cases hkm : k = m
          · subst hkm; rw [hsem] at h3; cases h3; left; rfl
          · right
            have := hmin k h1 h2 (by simp [h3])
            exact ⟨by simp [Bd.ok]; grind, h2, h3⟩

theorem collectPrev_spec : ∀ (n : Nat) (oi : OI), GoodB oi → oi.st ≠ .eof → Comp (curLayers oi) →
    cntP (prevBd oi) (curLayers oi) < n →
    (collectPrev oi n).Pairwise (fun a b => b.1 < a.1) ∧
    ∀ k off, (k, off) ∈ collectPrev oi n ↔
      ((prevBd oi).ok k = true ∧ ¬ k < oi.rng.org ∧ sem (curLayers oi) k = some off) := by
  intro n
  induction n with
  | zero => intro oi _ _ _ h; omega
  | succ n ih =>
    intro oi hg hne hcomp hcnt
    obtain ⟨hg', hprev, _⟩ := prev_full oi hg hne (fun _ => hcomp)
    obtain ⟨hrng, hlay⟩ := prev_frame oi hne
    simp only [collectPrev]
    cases hres : (prev oi).result with
    | none =>
      rw [hres] at hprev
      simp only [IsPrev] at hprev
      refine ⟨List.Pairwise.nil, ?_⟩
      intro k off
      constructor
      · intro h; cases h
      · intro ⟨h1, h2, h3⟩; rw [hprev k h1 h2] at h3; cases h3
    | some p =>
      obtain ⟨m, o⟩ := p
      rw [hres] at hprev
      obtain ⟨hok, horg, hsem, hmax⟩ := hprev
      obtain ⟨hst', hp'⟩ := result_some hres
      have hck : (prev oi).curKey = m := by cases hp'; rfl
      have hbd' : prevBd (prev oi) = .lt m := by simp [prevBd, hst', hck]
      have hlt := cntP_lt (prevBd oi) m hok (curLayers oi) (sem_some_mem hsem)
      have h := ih (prev oi) hg' (by rw [hst']; simp) (by rw [hlay]; exact hcomp)
        (by rw [hbd', hlay]; omega)
      rw [hbd', hlay, hrng] at h
      obtain ⟨hpw, hmem⟩ := h
      simp only
      refine ⟨List.pairwise_cons.mpr ⟨?_, hpw⟩, ?_⟩
      · intro q hq
        have := (hmem q.1 q.2).mp hq
        simpa [Bu.ok] using this.1
      · intro k off
        rw [List.mem_cons, hmem k off]
        constructor
        · rintro (h | ⟨h1, h2, h3⟩)
          · cases h; exact ⟨hok, horg, hsem⟩
          · exact ⟨bu_mono hok (by simpa [Bu.ok] using h1), h2, h3⟩
        · intro ⟨h1, h2, h3⟩
          by_cases hkm : k = m
          · subst hkm; rw [hsem] at h3; cases h3; left; rfl
          · right
            have := hmax k h1 h2 (by simp [h3])
            exact ⟨by simp [Bu.ok]; grind, h2, h3⟩

/-- two strictly increasing lists with the same elements are equal -/
theorem sorted_ext {α} (lt : α → α → Prop) (hirr : ∀ a, ¬ lt a a)
    (hasym : ∀ a b, lt a b → ¬ lt b a) :
    ∀ (xs ys : List α), xs.Pairwise lt → ys.Pairwise lt → (∀ a, a ∈ xs ↔ a ∈ ys) → xs = ys := by
  intro xs
  induction xs with
  | nil =>
    intro ys _ _ h
    cases ys with
    | nil => rfl
    | cons y ys => exact absurd ((h y).mpr List.mem_cons_self) (by simp)
  | cons x xs ih =>
    intro ys hx hy h
    cases ys with
    | nil => exact absurd ((h x).mp List.mem_cons_self) (by simp)
    | cons y ys =>
      have hx' := List.pairwise_cons.mp hx
      have hy' := List.pairwise_cons.mp hy
      have hxy : x = y := by
        rcases List.mem_cons.mp ((h x).mp List.mem_cons_self) with h1 | h1
        · exact h1
        · rcases List.mem_cons.mp ((h y).mpr List.mem_cons_self) with h2 | h2
          · exact h2.symm
          · exact absurd (hx'.1 y h2) (hasym _ _ (hy'.1 x h1))
      subst hxy
      congr 1
      apply ih ys hx'.2 hy'.2
      intro a
      constructor
      · intro ha
        rcases List.mem_cons.mp ((h a).mp (List.mem_cons_of_mem _ ha)) with h1 | h1
        · subst h1; exact absurd (hx'.1 a ha) (hirr a)
        · exact h1
      · intro ha
        rcases List.mem_cons.mp ((h a).mpr (List.mem_cons_of_mem _ ha)) with h1 | h1
        · subst h1; exact absurd (hy'.1 a ha) (hirr a)
        · exact h1

/-! ### the iteration ends at eof -/

theorem finishNext_st (x : OI) : (finishNext x).st = x.st ∨ (finishNext x).st = .eof := by
  unfold finishNext; simp only; split <;> simp

theorem finishPrev_st (x : OI) : (finishPrev x).st = x.st ∨ (finishPrev x).st = .eof := by
  unfold finishPrev; simp only; split <;> simp

theorem fastNext_st (x : OI) : (fastNext x).1.st = x.st := by
  unfold fastNext
  split
  · rfl
  · simp only; split <;> simp [modNext]

theorem fastPrev_st (x : OI) : (fastPrev x).1.st = x.st := by
  unfold fastPrev
  split
  · rfl
  · simp only; split <;> simp [modPrev]

theorem nextSlow_st (y : OI) (m : Bool) : (nextSlow y m).st = y.st ∨ (nextSlow y m).st = .eof := by
  unfold nextSlow
  rcases finishNext_st (modNext { y with fastIdx := none } m) with h | h
  · left; rw [h]; simp [modNext]
  · right; exact h

theorem prevSlow_st (y : OI) (m : Bool) : (prevSlow y m).st = y.st ∨ (prevSlow y m).st = .eof := by
  unfold prevSlow
  rcases finishPrev_st (modPrev { y with fastIdx := none } m) with h | h
  · left; rw [h]; simp [modPrev]
  · right; exact h

theorem nextCore_st (x : OI) (m : Bool) (hne : x.st ≠ .eof) :
    (nextCore x m).st = .within ∨ (nextCore x m).st = .eof := by
  unfold nextCore
  split
  · unfold nextRewound
    exact finishNext_st _
  · next hr =>
    have hw : x.st = .within := by cases h : x.st <;> simp_all
    split
    · simp only
      split
      · left; rw [fastNext_st, hw]
      · rcases nextSlow_st (fastNext x).1 m with h | h
        · left; rw [h, fastNext_st, hw]
        · right; exact h
    · rcases nextSlow_st x m with h | h
      · left; rw [h, hw]
      · right; exact h

theorem prevCore_st (x : OI) (m : Bool) (hne : x.st ≠ .eof) :
    (prevCore x m).st = .within ∨ (prevCore x m).st = .eof := by
  unfold prevCore
  split
  · unfold prevRewound
    exact finishPrev_st _
  · next hr =>
    have hw : x.st = .within := by cases h : x.st <;> simp_all
    split
    · simp only
      split
      · left; rw [fastPrev_st, hw]
      · rcases prevSlow_st (fastPrev x).1 m with h | h
        · left; rw [h, fastPrev_st, hw]
        · right; exact h
    · rcases prevSlow_st x m with h | h
      · left; rw [h, hw]
      · right; exact h

theorem update_st (oi : OI) : (update oi).1.st = oi.st := by
  unfold update; cases oi.pend <;> rfl

theorem next_st (oi : OI) (hne : oi.st ≠ .eof) : (next oi).st = .within ∨ (next oi).st = .eof := by
  unfold next
  simp only [hne, if_false]
  exact nextCore_st _ _ (by rw [update_st]; exact hne)

theorem prev_st (oi : OI) (hne : oi.st ≠ .eof) : (prev oi).st = .within ∨ (prev oi).st = .eof := by
  unfold prev
  simp only [hne, if_false]
  exact prevCore_st _ _ (by rw [update_st]; exact hne)

def nextN (oi : OI) : Nat → OI
  | 0 => oi
  | n + 1 => nextN (next oi) n

def prevN (oi : OI) : Nat → OI
  | 0 => oi
  | n + 1 => prevN (prev oi) n

theorem result_none_eof {oi : OI} (h : oi.result = none) (hs : oi.st = .within ∨ oi.st = .eof) :
    oi.st = .eof := by
  rcases hs with hs | hs
  · simp [OI.result, hs] at h
  · exact hs

/-- the step after the last collected key reaches eof -/
theorem collectNext_eof : ∀ (n : Nat) (oi : OI), GoodB oi → oi.st ≠ .eof → Comp (curLayers oi) →
    cnt (nextBd oi) (curLayers oi) < n →
    (nextN oi ((collectNext oi n).length + 1)).st = .eof := by
  intro n
  induction n with
  | zero => intro oi _ _ _ h; omega
  | succ n ih =>
    intro oi hg hne hcomp hcnt
    obtain ⟨hg', hnext, _⟩ := next_full oi hg hne (fun _ => hcomp)
    obtain ⟨hrng, hlay⟩ := next_frame oi hne
    simp only [collectNext]
    cases hres : (next oi).result with
    | none =>
      simp only [List.length_nil, nextN]
      exact result_none_eof hres (next_st oi hne)
    | some p =>
      obtain ⟨m, o⟩ := p
      rw [hres] at hnext
      obtain ⟨hok, hend, hsem, hmin⟩ := hnext
      obtain ⟨hst', hp'⟩ := result_some hres
      have hck : (next oi).curKey = m := by cases hp'; rfl
      have hbd' : nextBd (next oi) = .gt m := by simp [nextBd, hst', hck]
      have hlt := cnt_lt (nextBd oi) m hok (curLayers oi) (sem_some_mem hsem)
      have h := ih (next oi) hg' (by rw [hst']; simp) (by rw [hlay]; exact hcomp)
        (by rw [hbd', hlay]; omega)
      simpa [nextN] using h

theorem collectPrev_eof : ∀ (n : Nat) (oi : OI), GoodB oi → oi.st ≠ .eof → Comp (curLayers oi) →
    cntP (prevBd oi) (curLayers oi) < n →
    (prevN oi ((collectPrev oi n).length + 1)).st = .eof := by
  intro n
  induction n with
  | zero => intro oi _ _ _ h; omega
  | succ n ih =>
    intro oi hg hne hcomp hcnt
    obtain ⟨hg', hprev, _⟩ := prev_full oi hg hne (fun _ => hcomp)
    obtain ⟨hrng, hlay⟩ := prev_frame oi hne
    simp only [collectPrev]
    cases hres : (prev oi).result with
    | none =>
      simp only [List.length_nil, prevN]
      exact result_none_eof hres (prev_st oi hne)
    | some p =>
      obtain ⟨m, o⟩ := p
      rw [hres] at hprev
      obtain ⟨hok, horg, hsem, hmax⟩ := hprev
      obtain ⟨hst', hp'⟩ := result_some hres
      have hck : (prev oi).curKey = m := by cases hp'; rfl
      have hbd' : prevBd (prev oi) = .lt m := by simp [prevBd, hst', hck]
      have hlt := cntP_lt (prevBd oi) m hok (curLayers oi) (sem_some_mem hsem)
      have h := ih (prev oi) hg' (by rw [hst']; simp) (by rw [hlay]; exact hcomp)
        (by rw [hbd', hlay]; omega)
      simpa [prevN] using h

/-! ### the executable specification the driver prints is the relational one -/

theorem leastKey_none {ks : List Key} (h : leastKey ks = none) : ks = [] := by
  cases ks with
  | nil => rfl
  | cons k ks =>
    exfalso
    simp only [leastKey] at h
    cases hl : leastKey ks with
    | none => rw [hl] at h; cases h
    | some m => rw [hl] at h; simp only at h; split at h <;> cases h

theorem leastKey_some : ∀ {ks : List Key} {m : Key}, leastKey ks = some m →
    m ∈ ks ∧ ∀ k ∈ ks, ¬ k < m := by
  intro ks
  induction ks with
  | nil => intro m h; cases h
  | cons k ks ih =>
    intro m h
    simp only [leastKey] at h
    cases hl : leastKey ks with
    | none =>
      rw [hl] at h; simp at h; subst h
      have := leastKey_none hl; subst this
      exact ⟨List.mem_cons_self, by intro x hx; simp at hx; subst hx; grind⟩
    | some m' =>
      rw [hl] at h
      obtain ⟨h1, h2⟩ := ih hl
      by_cases hk : k < m'
      · simp [hk] at h; subst h
        refine ⟨List.mem_cons_self, ?_⟩
        intro x hx
        rcases List.mem_cons.mp hx with rfl | hx
        · grind
        · have := h2 x hx; grind
      · simp [hk] at h; subst h
        refine ⟨List.mem_cons_of_mem _ h1, ?_⟩
        intro x hx
        rcases List.mem_cons.mp hx with rfl | hx
        · exact hk
        · exact h2 x hx

theorem greatestKey_none {ks : List Key} (h : greatestKey ks = none) : ks = [] := by
  cases ks with
  | nil => rfl
  | cons k ks =>
    exfalso
    simp only [greatestKey] at h
    cases hl : greatestKey ks with
    | none => rw [hl] at h; cases h
    | some m => rw [hl] at h; simp only at h; split at h <;> cases h

theorem greatestKey_some : ∀ {ks : List Key} {m : Key}, greatestKey ks = some m →
    m ∈ ks ∧ ∀ k ∈ ks, ¬ m < k := by
  intro ks
  induction ks with
  | nil => intro m h; cases h
  | cons k ks ih =>
    intro m h
    simp only [greatestKey] at h
    cases hl : greatestKey ks with
    | none =>
      rw [hl] at h; simp at h; subst h
      have := greatestKey_none hl; subst this
      exact ⟨List.mem_cons_self, by intro x hx; simp at hx; subst hx; grind⟩
    | some m' =>
      rw [hl] at h
      obtain ⟨h1, h2⟩ := ih hl
      by_cases hk : m' < k
      · simp [hk] at h; subst h
        refine ⟨List.mem_cons_self, ?_⟩
        intro x hx
        rcases List.mem_cons.mp hx with rfl | hx
        · grind
        · have := h2 x hx; grind
      · simp [hk] at h; subst h
        refine ⟨List.mem_cons_of_mem _ h1, ?_⟩
        intro x hx
        rcases List.mem_cons.mp hx with rfl | hx
        · exact hk
        · exact h2 x hx

theorem mem_allKeys {Ls : List Layer} {k : Key} (h : (sem Ls k).isSome) : k ∈ allKeys Ls := by
  cases hs : sem Ls k with
  | none => rw [hs] at h; cases h
  | some o =>
    obtain ⟨L, hL, e, he, hk⟩ := sem_some_mem hs
    simp only [allKeys, List.mem_flatMap, List.mem_map]
    exact ⟨L, hL, e, he, hk⟩

theorem specNext_isNext (Ls : List Layer) (r : Rng) (bd : Bd)
    (horg : ∀ k, bd.ok k = true → ¬ k < r.org) : IsNext Ls r bd (specNext Ls r bd) := by
  unfold specNext
  cases hl : leastKey ((allKeys Ls).filter (fun k => bd.ok k && liveIn Ls r k)) with
  | none =>
    have hnil := leastKey_none hl
    simp only [IsNext]
    intro k hk hke
    cases hs : sem Ls k with
    | none => rfl
    | some o =>
      exfalso
      have : k ∈ (allKeys Ls).filter (fun k => bd.ok k && liveIn Ls r k) := by
        simp only [List.mem_filter, Bool.and_eq_true]
        refine ⟨mem_allKeys (by simp [hs]), hk, ?_⟩
        simp [liveIn, horg k hk, hke, hs]
      rw [hnil] at this; cases this
  | some m =>
    obtain ⟨hm, hmin⟩ := leastKey_some hl
    simp only [List.mem_filter, Bool.and_eq_true] at hm
    obtain ⟨_, hok, hlive⟩ := hm
    simp only [liveIn, Bool.and_eq_true, Bool.not_eq_true', decide_eq_false_iff_not,
      decide_eq_true_eq] at hlive
    obtain ⟨⟨ho, he⟩, hs⟩ := hlive
    simp only []
    cases hsem : sem Ls m with
    | none => rw [hsem] at hs; cases hs
    | some o =>
      simp only [Option.map_some, IsNext]
      refine ⟨hok, he, hsem, ?_⟩
      intro k' hk' hke' hs'
      apply hmin k'
      simp only [List.mem_filter, Bool.and_eq_true]
      refine ⟨mem_allKeys hs', hk', ?_⟩
      simp [liveIn, horg k' hk', hke', hs']

/-- the bound `specPrev` is called with -/
def ubBu (r : Rng) : Option Key → Bu
  | none => .lt r.end_
  | some u => .lt u

theorem specPrev_core (Ls : List Layer) (r : Rng) (p : Key → Bool) (bu : Bu)
    (hp : ∀ k, k < r.end_ → (p k = true ↔ bu.ok k = true))
    (hbe : ∀ k, bu.ok k = true → k < r.end_) :
    IsPrev Ls r bu
      (match greatestKey ((allKeys Ls).filter (fun k => p k && liveIn Ls r k)) with
       | none => none
       | some k => (sem Ls k).map (fun o => (k, o))) := by
  cases hl : greatestKey ((allKeys Ls).filter (fun k => p k && liveIn Ls r k)) with
  | none =>
    have hnil := greatestKey_none hl
    simp only [IsPrev]
    intro k hk hko
    cases hs : sem Ls k with
    | none => rfl
    | some o =>
      exfalso
      have : k ∈ (allKeys Ls).filter (fun k => p k && liveIn Ls r k) := by
        simp only [List.mem_filter, Bool.and_eq_true]
        refine ⟨mem_allKeys (by simp [hs]), (hp k (hbe k hk)).mpr hk, ?_⟩
        simp [liveIn, hko, hbe k hk, hs]
      rw [hnil] at this; cases this
  | some m =>
    obtain ⟨hm, hmax⟩ := greatestKey_some hl
    simp only [List.mem_filter, Bool.and_eq_true] at hm
    obtain ⟨_, hok, hlive⟩ := hm
    simp only [liveIn, Bool.and_eq_true, Bool.not_eq_true', decide_eq_false_iff_not,
      decide_eq_true_eq] at hlive
    obtain ⟨⟨ho, he⟩, hs⟩ := hlive
    simp only []
    cases hsem : sem Ls m with
    | none => rw [hsem] at hs; cases hs
    | some o =>
      simp only [Option.map_some, IsPrev]
      refine ⟨(hp m he).mp hok, ho, hsem, ?_⟩
      intro k' hk' hko' hs'
      apply hmax k'
      simp only [List.mem_filter, Bool.and_eq_true]
      refine ⟨mem_allKeys hs', (hp k' (hbe k' hk')).mpr hk', ?_⟩
      simp [liveIn, hko', hbe k' hk', hs']

theorem specPrev_isPrev (Ls : List Layer) (r : Rng) (ub : Option Key)
    (hub : ∀ u, ub = some u → ¬ r.end_ < u) : IsPrev Ls r (ubBu r ub) (specPrev Ls r ub) := by
  cases ub with
  | none =>
    exact specPrev_core Ls r (fun _ => true) (.lt r.end_)
      (fun k hk => by simp [Bu.ok, hk]) (fun k hk => by simpa [Bu.ok] using hk)
  | some u =>
    have := hub u rfl
    exact specPrev_core Ls r (fun k => decide (k < u)) (.lt u)
      (fun k _ => by simp [Bu.ok]) (fun k hk => by simp [Bu.ok] at hk; grind)

theorem IsNext_unique {Ls : List Layer} {r : Rng} {bd : Bd} {a b : Option (Key × Nat)}
    (ha : IsNext Ls r bd a) (hb : IsNext Ls r bd b) : a = b := by
  cases a with
  | none =>
    cases b with
    | none => rfl
    | some q =>
      obtain ⟨k, o⟩ := q
      obtain ⟨h1, h2, h3, _⟩ := hb
      rw [ha k h1 h2] at h3; cases h3
  | some p =>
    obtain ⟨k, o⟩ := p
    obtain ⟨h1, h2, h3, h4⟩ := ha
    cases b with
    | none => rw [hb k h1 h2] at h3; cases h3
    | some q =>
      obtain ⟨k', o'⟩ := q
      obtain ⟨g1, g2, g3, g4⟩ := hb
      have e1 := h4 k' g1 g2 (by simp [g3])
      have e2 := g4 k h1 h2 (by simp [h3])
      have : k = k' := by grind
      subst this
      rw [h3] at g3; cases g3; rfl

theorem IsPrev_unique {Ls : List Layer} {r : Rng} {bu : Bu} {a b : Option (Key × Nat)}
    (ha : IsPrev Ls r bu a) (hb : IsPrev Ls r bu b) : a = b := by
  cases a with
  | none =>
    cases b with
    | none => rfl
    | some q =>
      obtain ⟨k, o⟩ := q
      obtain ⟨h1, h2, h3, _⟩ := hb
      rw [ha k h1 h2] at h3; cases h3
  | some p =>
    obtain ⟨k, o⟩ := p
    obtain ⟨h1, h2, h3, h4⟩ := ha
    cases b with
    | none => rw [hb k h1 h2] at h3; cases h3
    | some q =>
      obtain ⟨k', o'⟩ := q
      obtain ⟨g1, g2, g3, g4⟩ := hb
      have e1 := h4 k' g1 g2 (by simp [g3])
      have e2 := g4 k h1 h2 (by simp [h3])
      have : k = k' := by grind
      subst this
      rw [h3] at g3; cases g3; rfl

end Gsu.Iter
