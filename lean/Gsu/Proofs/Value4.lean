/-
C28, part 4: on well-formed values (canonical decimals; the named members of every object have
pairwise non-Equal keys — the hash map invariant) `Equal` is an equivalence relation, the named
members of two Equal objects are a permutation of each other with memberwise Equal entries
(`NPermEq`, derived from the lookup based `namedSub` by a pigeonhole argument), hence Equal
objects hash equally, and `Get` finds a member by any key Equal to the stored one. Core-only.
-/
import Gsu.Proofs.Value3
namespace Gsu.Val
open Gsu.Num Gsu.Dnum

/-! ### pigeonhole on lists -/

inductive Match {α : Type} (m : α → α → Prop) : List α → List α → Prop
  | nil : Match m [] []
  | cons {a b x y} : m a b → Match m x y → Match m (a :: x) (b :: y)

theorem Match.surj {α : Type} {m : α → α → Prop} {x y : List α} (h : Match m x y) :
    ∀ b ∈ y, ∃ a ∈ x, m a b := by
  induction h with
  | nil => intro b hb; cases hb
  | cons hab _ ih =>
    intro b' hb'
    rcases List.mem_cons.1 hb' with rfl | hb'
    · exact ⟨_, List.mem_cons_self, hab⟩
    · obtain ⟨a', ha', hm⟩ := ih b' hb'
      exact ⟨a', List.mem_cons_of_mem _ ha', hm⟩

/-- every element of `l1` has a partner in `l2`, no two elements of `l1` share a partner, and the
lists have the same length: then `l2` is a permutation of a list matching `l1` position by
position -/
theorem pigeon {α : Type} (m : α → α → Prop) : ∀ (l1 l2 : List α),
    (∀ e ∈ l1, ∃ e2 ∈ l2, m e e2) → l1.length = l2.length →
    l1.Pairwise (fun e e' => ∀ e2 ∈ l2, m e e2 → m e' e2 → False) →
    ∃ p, p.Perm l2 ∧ Match m l1 p := by
  intro l1
  induction l1 with
  | nil =>
    intro l2 _ hl _
    have : l2 = [] := List.length_eq_zero_iff.1 hl.symm
    subst this
    exact ⟨[], List.Perm.refl _, Match.nil⟩
  | cons e r ih =>
    intro l2 H1 H2 H3
    obtain ⟨e2, he2, hm⟩ := H1 e List.mem_cons_self
    obtain ⟨s, t, rfl⟩ := List.append_of_mem he2
    obtain ⟨H3a, H3b⟩ := List.pairwise_cons.1 H3
    have A : ∀ e' ∈ r, ∃ e2' ∈ s ++ t, m e' e2' := by
      intro e' he'
      obtain ⟨e2', h', hm'⟩ := H1 e' (List.mem_cons_of_mem _ he')
      rcases List.mem_append.1 h' with h' | h'
      · exact ⟨e2', List.mem_append_left _ h', hm'⟩
      · rcases List.mem_cons.1 h' with rfl | h'
        · exact absurd (H3a e' he' e2' he2 hm hm') id
        · exact ⟨e2', List.mem_append_right _ h', hm'⟩
    have B : r.length = (s ++ t).length := by
      simp only [List.length_cons, List.length_append] at H2 ⊢; omega
    have C : r.Pairwise (fun e e' => ∀ e2 ∈ s ++ t, m e e2 → m e' e2 → False) := by
      refine List.Pairwise.imp ?_ H3b
      intro a b h e2' he2'
      apply h e2'
      rcases List.mem_append.1 he2' with h' | h'
      · exact List.mem_append_left _ h'
      · exact List.mem_append_right _ (List.mem_cons_of_mem _ h')
    obtain ⟨p, hp, hM⟩ := ih (s ++ t) A B C
    exact ⟨e2 :: p, (List.Perm.cons e2 hp).trans List.perm_middle.symm, Match.cons hm hM⟩

/-! ### `VList` / `NList` as plain lists -/

def VList.toList : VList → List Value
  | .nil => []
  | .cons v r => v :: r.toList

def NList.toList : NList → List (Value × Value)
  | .nil => []
  | .cons k v r => (k, v) :: r.toList

def NList.ofList : List (Value × Value) → NList
  | [] => .nil
  | (k, v) :: r => .cons k v (NList.ofList r)

theorem NList.ofList_toList : ∀ n : NList, NList.ofList n.toList = n
  | .nil => rfl
  | .cons k v r => by simp only [NList.toList, NList.ofList, NList.ofList_toList r]

theorem NList.length_toList : ∀ n : NList, n.toList.length = n.length
  | .nil => rfl
  | .cons k v r => by simp only [NList.toList, NList.length, List.length_cons, NList.length_toList r]

theorem VList.length_toList : ∀ l : VList, l.toList.length = l.length
  | .nil => rfl
  | .cons v r => by simp only [VList.toList, VList.length, List.length_cons, VList.length_toList r]

theorem NList.anyP_iff (p : Value → Value → Bool) : ∀ n : NList,
    n.anyP p = true ↔ ∃ e ∈ n.toList, p e.1 e.2 = true
  | .nil => by simp [NList.anyP, NList.toList]
  | .cons k v r => by
    simp only [NList.anyP, NList.toList, Bool.or_eq_true, NList.anyP_iff p r, List.mem_cons]
    constructor
    · rintro (h | ⟨e, he, h⟩)
      · exact ⟨(k, v), Or.inl rfl, h⟩
      · exact ⟨e, Or.inr he, h⟩
    · rintro ⟨e, rfl | he, h⟩
      · exact Or.inl h
      · exact Or.inr ⟨e, he, h⟩

/-- the member relation of `deepEqual`: Equal keys and Equal values -/
def mm (e e2 : Value × Value) : Prop := equal e.1 e2.1 = true ∧ equal e.2 e2.2 = true

theorem namedSub_iff : ∀ n1 n2 : NList,
    namedSub n1 n2 = true ↔ ∀ e ∈ n1.toList, ∃ e2 ∈ n2.toList, mm e e2
  | .nil, n2 => by simp [namedSub, NList.toList]
  | .cons k v r, n2 => by
    simp only [namedSub, Bool.and_eq_true, namedSub_iff r n2, NList.anyP_iff, NList.toList,
      List.mem_cons, mm]
    constructor
    · rintro ⟨h1, h2⟩ e (rfl | he)
      · exact h1
      · exact h2 e he
    · intro h
      exact ⟨h (k, v) (Or.inl rfl), fun e he => h e (Or.inr he)⟩

theorem VList.sizeOf_mem : ∀ (l : VList) (v : Value), v ∈ l.toList → sizeOf v < sizeOf l
  | .nil, _, h => by simp [VList.toList] at h
  | .cons a r, v, h => by
    simp only [VList.toList, List.mem_cons] at h
    rcases h with rfl | h
    · simp only [VList.cons.sizeOf_spec]; omega
    · have := VList.sizeOf_mem r v h
      simp only [VList.cons.sizeOf_spec]; omega

theorem NList.sizeOf_mem : ∀ (n : NList) (e : Value × Value), e ∈ n.toList →
    sizeOf e.1 < sizeOf n ∧ sizeOf e.2 < sizeOf n
  | .nil, _, h => by simp [NList.toList] at h
  | .cons k v r, e, h => by
    simp only [NList.toList, List.mem_cons] at h
    rcases h with rfl | h
    · simp only [NList.cons.sizeOf_spec]; omega
    · have := NList.sizeOf_mem r e h
      simp only [NList.cons.sizeOf_spec]; omega

/-! ### well-formed values -/

/-- the hash map invariant: no two keys of the named members are Equal -/
def KeysDistinct : NList → Prop
  | .nil => True
  | .cons k _ r => r.anyP (fun k2 _ => equal k k2) = false ∧ KeysDistinct r

mutual
/-- canonical decimals everywhere, and the map invariant in every object -/
def ValWF : Value → Prop
  | .num n => NumNorm n
  | .obj _ l n => ListWF l ∧ NamedWF n ∧ KeysDistinct n
  | _ => True
def ListWF : VList → Prop
  | .nil => True
  | .cons v r => ValWF v ∧ ListWF r
def NamedWF : NList → Prop
  | .nil => True
  | .cons k v r => ValWF k ∧ ValWF v ∧ NamedWF r
end

theorem ListWF_iff : ∀ l : VList, ListWF l ↔ ∀ v ∈ l.toList, ValWF v
  | .nil => by simp [ListWF, VList.toList]
  | .cons a r => by simp [ListWF, VList.toList, ListWF_iff r]

theorem NamedWF_iff : ∀ n : NList, NamedWF n ↔ ∀ e ∈ n.toList, ValWF e.1 ∧ ValWF e.2
  | .nil => by simp [NamedWF, NList.toList]
  | .cons k v r => by
    simp only [NamedWF, NList.toList, List.mem_cons, NamedWF_iff r]
    constructor
    · rintro ⟨h1, h2, h3⟩ e (rfl | he)
      · exact ⟨h1, h2⟩
      · exact h3 e he
    · intro h
      exact ⟨(h (k, v) (Or.inl rfl)).1, (h (k, v) (Or.inl rfl)).2, fun e he => h e (Or.inr he)⟩

theorem KeysDistinct_iff : ∀ n : NList,
    KeysDistinct n ↔ n.toList.Pairwise (fun e e' => equal e.1 e'.1 = false)
  | .nil => by simp [KeysDistinct, NList.toList]
  | .cons k v r => by
    simp only [KeysDistinct, NList.toList, List.pairwise_cons, KeysDistinct_iff r]
    refine and_congr ?_ Iff.rfl
    rw [← Bool.not_eq_true, NList.anyP_iff]
    constructor
    · intro h e he
      cases hq : equal k e.1 with
      | false => rfl
      | true => exact absurd ⟨e, he, hq⟩ h
    · rintro h ⟨e, he, hq⟩
      rw [h e he] at hq; exact absurd hq (by decide)

/-- ValAll P for a predicate that holds of all canonical numbers follows from well-formedness -/
theorem ValAll_of_WF_step (a : Value) (w : ValWF a)
    (ih : ∀ r l n, a = .obj r l n → ListWF l → ListAll NumNorm l) : ValAll NumNorm a := by
  cases a with
  | num n => simpa only [ValAll, ValWF] using w
  | obj r l n => simp only [ValAll]; simp only [ValWF] at w; exact ih r l n rfl w.1
  | _ => simp only [ValAll]

set_option linter.unusedVariables false in
mutual
theorem ValAll_of_WF : ∀ a : Value, ValWF a → ValAll NumNorm a
  | a, w => ValAll_of_WF_step a w (fun r l n ha hl => ListAll_of_WF l hl)
  termination_by a => sizeOf a
  decreasing_by subst ha; simp_wf; omega
theorem ListAll_of_WF : ∀ l : VList, ListWF l → ListAll NumNorm l
  | .nil, _ => by simp only [ListAll]
  | .cons v r, w => by
    simp only [ListWF] at w
    simp only [ListAll]
    exact ⟨ValAll_of_WF v w.1, ListAll_of_WF r w.2⟩
  termination_by l => sizeOf l
  decreasing_by all_goals (simp_wf; omega)
end

/-! ### `Equal` on numbers is an equivalence (canonical decimals) -/

/-- without the map invariant Equal objects need not hash equally: `namedSub` is a one-way lookup,
so a duplicated key on the left is matched twice by one member on the right -/
def dupLeft : Value := .obj false .nil (.cons (.num (.smi 1)) (.bool true) (.cons (.num (.smi 1)) (.bool true) .nil))
def dupRight : Value := .obj false .nil (.cons (.num (.smi 1)) (.bool true) (.cons (.num (.smi 2)) (.bool false) .nil))

end Gsu.Val
namespace Gsu.Num
open Gsu.Dnum

theorem equal_refl(a : Num) : equal a a = true := by
  cases a <;> simp [equal, asInt, Dnum.equal]

theorem equal_trans (a b c : Num) (ha : NumNorm a) (hc : NumNorm c)
    (h1 : equal a b = true) (h2 : equal b c = true) : equal a c = true := by
  cases a <;> cases b <;> cases c <;>
    simp only [equal, asInt, beq_iff_eq, Option.some.injEq] at h1 h2 ⊢
  all_goals first
    | (subst h1; exact h2)
    | (subst h2; exact h1)
    | (rw [h1] at h2; simpa using h2)
    | (rw [h1]; exact h2)
    | (have e1 := (Dnum.equal_iff _ _).1 h1; subst e1; exact h2)
    | (have e2 := (Dnum.equal_iff _ _).1 h2; subst e2; exact h1)
    | (exact (Dnum.equal_iff _ _).2 (toInt64_inj _ _ ha hc _ h1 h2))

end Gsu.Num
namespace Gsu.Val
open Gsu.Num Gsu.Dnum

/-! ### `Equal` is an equivalence on well-formed values -/

/-- symmetric and transitive on the class `S` -/
def Eqv (S : Value → Prop) : Prop :=
  (∀ a b, S a → S b → equal a b = true → equal b a = true) ∧
  (∀ a b c, S a → S b → S c → equal a b = true → equal b c = true → equal a c = true)

theorem equalList_symm {S : Value → Prop} (hE : Eqv S) : ∀ x y : VList,
    (∀ v ∈ x.toList, S v) → (∀ v ∈ y.toList, S v) → equalList x y = true → equalList y x = true
  | .nil, .nil, _, _, _ => by simp [equalList]
  | .nil, .cons _ _, _, _, h => by simp [equalList] at h
  | .cons _ _, .nil, _, _, h => by simp [equalList] at h
  | .cons a x, .cons b y, hx, hy, h => by
    simp only [equalList, Bool.and_eq_true] at h ⊢
    simp only [VList.toList, List.mem_cons] at hx hy
    exact ⟨hE.1 a b (hx a (Or.inl rfl)) (hy b (Or.inl rfl)) h.1,
      equalList_symm hE x y (fun v hv => hx v (Or.inr hv)) (fun v hv => hy v (Or.inr hv)) h.2⟩

theorem equalList_trans {S : Value → Prop} (hE : Eqv S) : ∀ x y z : VList,
    (∀ v ∈ x.toList, S v) → (∀ v ∈ y.toList, S v) → (∀ v ∈ z.toList, S v) →
    equalList x y = true → equalList y z = true → equalList x z = true
  | .nil, .nil, .nil, _, _, _, _, _ => by simp [equalList]
  | .nil, .nil, .cons _ _, _, _, _, _, h => by simp [equalList] at h
  | .nil, .cons _ _, _, _, _, _, h, _ => by simp [equalList] at h
  | .cons _ _, .nil, _, _, _, _, h, _ => by simp [equalList] at h
  | .cons _ _, .cons _ _, .nil, _, _, _, _, h => by simp [equalList] at h
  | .cons a x, .cons b y, .cons c z, hx, hy, hz, h1, h2 => by
    simp only [equalList, Bool.and_eq_true] at h1 h2 ⊢
    simp only [VList.toList, List.mem_cons] at hx hy hz
    exact ⟨hE.2 a b c (hx a (Or.inl rfl)) (hy b (Or.inl rfl)) (hz c (Or.inl rfl)) h1.1 h2.1,
      equalList_trans hE x y z (fun v hv => hx v (Or.inr hv)) (fun v hv => hy v (Or.inr hv))
        (fun v hv => hz v (Or.inr hv)) h1.2 h2.2⟩

/-- members all in `S` -/
def NamedIn (S : Value → Prop) (n : NList) : Prop := ∀ e ∈ n.toList, S e.1 ∧ S e.2

/-- the pigeonhole hypothesis from the map invariant -/
theorem distinct_no_shared {S : Value → Prop} (hE : Eqv S) (n1 n2 : NList)
    (h1 : NamedIn S n1) (h2 : NamedIn S n2) (hd : KeysDistinct n1) :
    n1.toList.Pairwise (fun e e' => ∀ e2 ∈ n2.toList, mm e e2 → mm e' e2 → False) := by
  have hp := (KeysDistinct_iff n1).1 hd
  have hp2 : n1.toList.Pairwise (fun e e' => e ∈ n1.toList ∧ e' ∈ n1.toList ∧ equal e.1 e'.1 = false) := by
    refine List.Pairwise.imp_of_mem ?_ hp
    intro a b ha hb h; exact ⟨ha, hb, h⟩
  refine List.Pairwise.imp ?_ hp2
  rintro e e' ⟨he, he', hne⟩ e2 he2 m1 m2
  have s : equal e2.1 e'.1 = true := hE.1 _ _ (h1 e' he').1 (h2 e2 he2).1 m2.1
  have t := hE.2 _ _ _ (h1 e he).1 (h2 e2 he2).1 (h1 e' he').1 m1.1 s
  rw [hne] at t; exact absurd t (by decide)

/-- the matching: a permutation of the named members of `n2` matches `n1` entry by entry -/
theorem named_match {S : Value → Prop} (hE : Eqv S) (n1 n2 : NList)
    (h1 : NamedIn S n1) (h2 : NamedIn S n2) (hd : KeysDistinct n1)
    (hl : n1.length = n2.length) (hs : namedSub n1 n2 = true) :
    ∃ p, p.Perm n2.toList ∧ Match mm n1.toList p :=
  pigeon mm n1.toList n2.toList ((namedSub_iff n1 n2).1 hs)
    (by rw [NList.length_toList, NList.length_toList, hl]) (distinct_no_shared hE n1 n2 h1 h2 hd)

theorem namedSub_symm {S : Value → Prop} (hE : Eqv S) (n1 n2 : NList)
    (h1 : NamedIn S n1) (h2 : NamedIn S n2) (hd : KeysDistinct n1)
    (hl : n1.length = n2.length) (hs : namedSub n1 n2 = true) : namedSub n2 n1 = true := by
  obtain ⟨p, hp, hM⟩ := named_match hE n1 n2 h1 h2 hd hl hs
  rw [namedSub_iff]
  intro e2 he2
  obtain ⟨e, he, hm⟩ := hM.surj e2 (hp.mem_iff.2 he2)
  exact ⟨e, he, hE.1 _ _ (h1 e he).1 (h2 e2 he2).1 hm.1, hE.1 _ _ (h1 e he).2 (h2 e2 he2).2 hm.2⟩

theorem namedSub_trans {S : Value → Prop} (hE : Eqv S) (n1 n2 n3 : NList)
    (h1 : NamedIn S n1) (h2 : NamedIn S n2) (h3 : NamedIn S n3)
    (s1 : namedSub n1 n2 = true) (s2 : namedSub n2 n3 = true) : namedSub n1 n3 = true := by
  rw [namedSub_iff] at s1 s2 ⊢
  intro e he
  obtain ⟨e2, he2, m1⟩ := s1 e he
  obtain ⟨e3, he3, m2⟩ := s2 e2 he2
  exact ⟨e3, he3, hE.2 _ _ _ (h1 e he).1 (h2 e2 he2).1 (h3 e3 he3).1 m1.1 m2.1,
    hE.2 _ _ _ (h1 e he).2 (h2 e2 he2).2 (h3 e3 he3).2 m1.2 m2.2⟩

/-- well-formed values of size below `N` -/
def SN (N : Nat) (v : Value) : Prop := ValWF v ∧ sizeOf v < N

theorem SN_list {N : Nat} {r : Bool} {l : VList} {n : NList} (h : SN (N + 1) (.obj r l n)) :
    ∀ v ∈ l.toList, SN N v := by
  intro v hv
  obtain ⟨w, s⟩ := h
  simp only [ValWF] at w
  have := VList.sizeOf_mem l v hv
  simp only [Value.obj.sizeOf_spec] at s
  exact ⟨(ListWF_iff l).1 w.1 v hv, by omega⟩

theorem SN_named {N : Nat} {r : Bool} {l : VList} {n : NList} (h : SN (N + 1) (.obj r l n)) :
    NamedIn (SN N) n := by
  intro e he
  obtain ⟨w, s⟩ := h
  simp only [ValWF] at w
  have := NList.sizeOf_mem n e he
  have w2 := (NamedWF_iff n).1 w.2.1 e he
  simp only [Value.obj.sizeOf_spec] at s
  exact ⟨⟨w2.1, by omega⟩, ⟨w2.2, by omega⟩⟩

theorem eqv_step (N : Nat) (hE : Eqv (SN N)) : Eqv (SN (N + 1)) := by
  constructor
  · intro a b sa sb h
    cases a <;> cases b <;> simp only [equal, Bool.false_eq_true, Bool.and_eq_true, beq_iff_eq] at h ⊢
    · exact h.symm
    · rw [Num.equal_comm]; exact h
    · exact h.symm
    · exact ⟨h.1.symm, h.2.symm⟩
    · exact ⟨⟨h.1.1.symm, h.1.2.symm⟩, h.2.symm⟩
    · obtain ⟨⟨⟨hl, hn⟩, hel⟩, hns⟩ := h
      have kd := sa.1
      simp only [ValWF] at kd
      exact ⟨⟨⟨hl.symm, hn.symm⟩, equalList_symm hE _ _ (SN_list sa) (SN_list sb) hel⟩,
        namedSub_symm hE _ _ (SN_named sa) (SN_named sb) kd.2.2 hn hns⟩
  · intro a b c sa sb sc h1 h2
    cases a <;> cases b <;> simp only [equal, Bool.false_eq_true, Bool.and_eq_true, beq_iff_eq] at h1 <;>
      cases c <;> simp only [equal, Bool.false_eq_true, Bool.and_eq_true, beq_iff_eq] at h2 ⊢
    · exact h1.trans h2
    · have wa := sa.1; have wc := sc.1
      simp only [ValWF] at wa wc
      exact Num.equal_trans _ _ _ wa wc h1 h2
    · exact h1.trans h2
    · exact ⟨h1.1.trans h2.1, h1.2.trans h2.2⟩
    · exact ⟨⟨h1.1.1.trans h2.1.1, h1.1.2.trans h2.1.2⟩, h1.2.trans h2.2⟩
    · obtain ⟨⟨⟨hl, hn⟩, hel⟩, hns⟩ := h1
      obtain ⟨⟨⟨hl', hn'⟩, hel'⟩, hns'⟩ := h2
      exact ⟨⟨⟨hl.trans hl', hn.trans hn'⟩,
        equalList_trans hE _ _ _ (SN_list sa) (SN_list sb) (SN_list sc) hel hel'⟩,
        namedSub_trans hE _ _ _ (SN_named sa) (SN_named sb) (SN_named sc) hns hns'⟩

theorem eqv_all : ∀ N, Eqv (SN N)
  | 0 => ⟨fun _ _ sa => absurd sa.2 (Nat.not_lt_zero _), fun _ _ _ sa => absurd sa.2 (Nat.not_lt_zero _)⟩
  | N + 1 => eqv_step N (eqv_all N)

theorem eqv_WF : Eqv ValWF := by
  constructor
  · intro a b wa wb h
    exact (eqv_all (sizeOf a + sizeOf b + 1)).1 a b ⟨wa, by omega⟩ ⟨wb, by omega⟩ h
  · intro a b c wa wb wc h1 h2
    exact (eqv_all (sizeOf a + sizeOf b + sizeOf c + 1)).2 a b c ⟨wa, by omega⟩ ⟨wb, by omega⟩
      ⟨wc, by omega⟩ h1 h2

theorem equal_symm (a b : Value) (wa : ValWF a) (wb : ValWF b) (h : equal a b = true) :
    equal b a = true := eqv_WF.1 a b wa wb h

theorem equal_trans (a b c : Value) (wa : ValWF a) (wb : ValWF b) (wc : ValWF c)
    (h1 : equal a b = true) (h2 : equal b c = true) : equal a c = true :=
  eqv_WF.2 a b c wa wb wc h1 h2

/-! ### reflexivity (all values) -/

theorem equalList_refl_of : ∀ l : VList, (∀ v ∈ l.toList, equal v v = true) → equalList l l = true
  | .nil, _ => by simp [equalList]
  | .cons a x, h => by
    simp only [VList.toList, List.mem_cons] at h
    simp only [equalList, Bool.and_eq_true]
    exact ⟨h a (Or.inl rfl), equalList_refl_of x (fun v hv => h v (Or.inr hv))⟩

theorem equal_refl_below : ∀ N (a : Value), sizeOf a < N → equal a a = true
  | 0, _, h => absurd h (Nat.not_lt_zero _)
  | N + 1, a, h => by
    cases a with
    | bool b => simp [equal]
    | num n => simp only [equal]; exact Num.equal_refl n
    | str k s => simp [equal]
    | date d t => simp [equal]
    | ts d t e => simp [equal]
    | obj r l n =>
      simp only [Value.obj.sizeOf_spec] at h
      simp only [equal, Bool.and_eq_true, beq_self_eq_true, true_and]
      constructor
      · apply equalList_refl_of
        intro v hv
        have := VList.sizeOf_mem l v hv
        exact equal_refl_below N v (by omega)
      · rw [namedSub_iff]
        intro e he
        have := NList.sizeOf_mem n e he
        exact ⟨e, he, equal_refl_below N e.1 (by omega), equal_refl_below N e.2 (by omega)⟩

theorem equal_refl (a : Value) : equal a a = true := equal_refl_below (sizeOf a + 1) a (by omega)

/-! ### `NPermEq` from the lookup based Equal -/

theorem NPermEq_of_match : ∀ {x y : List (Value × Value)}, Match mm x y →
    NPermEq (NList.ofList x) (NList.ofList y) := by
  intro x y h
  induction h with
  | nil => exact NPermEq.nil
  | @cons a b x y hab _ ih =>
    obtain ⟨k, v⟩ := a
    obtain ⟨k', v'⟩ := b
    exact NPermEq.cons hab.1 hab.2 ih

theorem NPermEq_of_perm : ∀ {x y : List (Value × Value)}, x.Perm y →
    NPermEq (NList.ofList x) (NList.ofList y) := by
  intro x y h
  induction h with
  | nil => exact NPermEq.nil
  | cons a _ ih =>
    obtain ⟨k, v⟩ := a
    exact NPermEq.cons (equal_refl k) (equal_refl v) ih
  | swap a b l =>
    obtain ⟨k, v⟩ := a
    obtain ⟨k', v'⟩ := b
    exact NPermEq.swap
  | trans _ _ ih1 ih2 => exact NPermEq.trans ih1 ih2

/-- Equal well-formed objects have the same named members up to order and memberwise Equal -/
theorem NPermEq_of_equal (r1 r2 : Bool) (l1 l2 : VList) (n1 n2 : NList)
    (w1 : ValWF (.obj r1 l1 n1)) (w2 : ValWF (.obj r2 l2 n2))
    (h : equal (.obj r1 l1 n1) (.obj r2 l2 n2) = true) : NPermEq n1 n2 := by
  simp only [equal, Bool.and_eq_true, beq_iff_eq] at h
  obtain ⟨⟨⟨_, hn⟩, _⟩, hns⟩ := h
  simp only [ValWF] at w1 w2
  obtain ⟨p, hp, hM⟩ := named_match eqv_WF n1 n2 ((NamedWF_iff n1).1 w1.2.1)
    ((NamedWF_iff n2).1 w2.2.1) w1.2.2 hn hns
  have := NPermEq.trans (NPermEq_of_match hM) (NPermEq_of_perm hp)
  rwa [NList.ofList_toList, NList.ofList_toList] at this

/-- Equal well-formed values hash equally (containers included) -/
theorem hash_of_equal (a b : Value) (wa : ValWF a) (wb : ValWF b) (h : equal a b = true) :
    hash a = hash b := by
  by_cases ho : order a ≠ 4
  · exact hash_of_equal_scalar a b ho h
  · cases a <;> simp only [order, ne_eq, Decidable.not_not] at ho <;> try omega
    cases b <;> try (simp only [equal, Bool.false_eq_true] at h; done)
    exact hash_of_equal_obj _ _ _ _ _ _ h (NPermEq_of_equal _ _ _ _ _ _ wa wb h)

/-! ### `Get` by an Equal key -/

theorem namedGet_congr (key key' : Value) (wk : ValWF key) (wk' : ValWF key')
    (h : equal key key' = true) : ∀ n : NList, NamedWF n → namedGet key n = namedGet key' n
  | .nil, _ => rfl
  | .cons k v r, w => by
    simp only [NamedWF] at w
    simp only [namedGet, namedGet_congr key key' wk wk' h r w.2.2]
    have : equal k key = equal k key' := by
      cases h1 : equal k key with
      | true => exact (equal_trans k key key' w.1 wk wk' h1 h).symm
      | false =>
        cases h2 : equal k key' with
        | false => rfl
        | true =>
          have := equal_trans k key' key w.1 wk' wk h2 (equal_symm key key' wk wk' h)
          rw [h1] at this; exact absurd this (by decide)
    rw [this]

theorem ifInt_congr (key key' : Value) (h : equal key key' = true) : ifInt key = ifInt key' := by
  cases key <;> cases key' <;> simp only [equal, Bool.false_eq_true] at h <;> try rfl
  rename_i a b
  simp only [ifInt]
  cases a <;> cases b <;> simp only [Num.equal, asInt, beq_iff_eq, Option.some.injEq] at h <;>
    simp only [Num.toInt]
  all_goals first
    | (rw [h]; done)
    | (have := (Dnum.equal_iff _ _).1 h; rw [this]; done)
    | (exact h.symm)
    | (exact h)

/-- a member is found by any key Equal to the one used -/
theorem get_congr (ob key key' : Value) (wo : ValWF ob) (wk : ValWF key) (wk' : ValWF key')
    (h : equal key key' = true) : get ob key = get ob key' := by
  cases ob with
  | obj r l n =>
    simp only [ValWF] at wo
    simp only [get, ifInt_congr key key' h, namedGet_congr key key' wk wk' h n wo.2.1]
  | _ => rfl

/-- a stored member `(k, v)` is returned for every key Equal to `k` -/
theorem namedGet_stored (key : Value) (wk : ValWF key) : ∀ (n : NList) (k v : Value),
    NamedWF n → KeysDistinct n → (k, v) ∈ n.toList → equal k key = true → namedGet key n = some v
  | .nil, _, _, _, _, hm, _ => by simp [NList.toList] at hm
  | .cons k0 v0 r, k, v, w, hd, hm, he => by
    simp only [NamedWF] at w
    simp only [KeysDistinct] at hd
    simp only [NList.toList, List.mem_cons, Prod.mk.injEq] at hm
    rcases hm with ⟨rfl, rfl⟩ | hm
    · simp only [namedGet, he, if_true]
    · have wkv := (NamedWF_iff r).1 w.2.2 (k, v) hm
      have hne : equal k0 key = false := by
        cases hq : equal k0 key with
        | false => rfl
        | true =>
          have t := equal_trans k0 key k w.1 wk wkv.1 hq (equal_symm k key wkv.1 wk he)
          have : r.anyP (fun k2 _ => equal k0 k2) = true :=
            (NList.anyP_iff _ r).2 ⟨(k, v), hm, t⟩
          rw [hd.1] at this; exact absurd this (by decide)
      simp only [namedGet, hne, Bool.false_eq_true, if_false]
      exact namedGet_stored key wk r k v w.2.2 hd.2 hm he

end Gsu.Val
