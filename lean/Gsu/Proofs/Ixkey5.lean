import Gsu.Proofs.Ixkey4
namespace Gsu.Ixkey
open Gsu.Proto

theorem key_nil (fields2 : List Nat) (rec : List Bytes) : key [] fields2 rec = [] := rfl

theorem key_single (f0 : Nat) (rec : List Bytes) : key [f0] [] rec = getRaw rec f0 := by
  simp [key, encodes]

theorem compare_single (f0 : Nat) (r1 r2 : List Bytes) :
    compare [f0] [] r1 r2 = cmpB (getRaw r1 f0) (getRaw r2 f0) := by
  simp only [compare, List.map, cmpFields]
  cases cmpB (getRaw r1 f0) (getRaw r2 f0) <;> simp

theorem key_enc (fields fields2 : List Nat) (rec : List Bytes) (hne : fields ≠ [])
    (h : encodes fields fields2 = true) :
    key fields fields2 rec =
      if (fields.map (getRaw rec)).all (· = []) then
        if fields2 = [] then []
        else (fields.flatMap fun _ => sep) ++ joinEnc (fields2.map (getRaw rec))
      else joinEnc (trimEmpty (fields.map (getRaw rec))) := by
  cases fields with
  | nil => exact absurd rfl hne
  | cons f0 fs => simp only [key, h, Bool.not_true, Bool.false_eq_true, if_false]

theorem key_cmp_enc (fields fields2 : List Nat) (r1 r2 : List Bytes) (hne : fields ≠ [])
    (h : encodes fields fields2 = true) :
    cmpB (key fields fields2 r1) (key fields fields2 r2) = compare fields fields2 r1 r2 := by
  rw [key_enc _ _ _ hne h, key_enc _ _ _ hne h]
  unfold compare
  have hl : (fields.map (getRaw r1)).length = (fields.map (getRaw r2)).length := by simp
  have hl2 : (fields2.map (getRaw r1)).length = (fields2.map (getRaw r2)).length := by simp
  generalize hv1 : fields.map (getRaw r1) = v1 at hl
  generalize hv2 : fields.map (getRaw r2) = v2 at hl
  have hf1 : fields.length = v1.length := by rw [← hv1]; simp
  have hf2 : fields.length = v2.length := by rw [← hv2]; simp
  by_cases a1 : v1.all (· = []) = true <;> by_cases a2 : v2.all (· = []) = true
  · simp only [a1, a2, if_true, cmpFields_allE_eq v1 v2 a1 a2, Bool.and_self]
    by_cases h2 : fields2 = []
    · subst h2; simp [cmpB, cmpFields]
    · simp only [h2, if_false]
      rw [cmpB_refl_append, cmpB_joinEnc _ _ hl2]
  · have t2 : trimEmpty v2 ≠ [] := fun h => a2 ((trimEmpty_eq_nil v2).mp h)
    simp only [a1, a2, if_true, cmpFields_allE_lt v1 v2 hl a1 a2]
    by_cases h2 : fields2 = []
    · simp [h2, cmpB_nil_left, joinEnc_trim_ne_nil t2]
    · simp only [h2, if_false]
      exact cmpB_seps_lt fields v2 hf2 t2 _
  · have t1 : trimEmpty v1 ≠ [] := fun h => a1 ((trimEmpty_eq_nil v1).mp h)
    simp only [a1, a2, if_true, cmpFields_allE_gt v1 v2 hl a1 a2]
    by_cases h2 : fields2 = []
    · simp [h2, cmpB_nil_right, joinEnc_trim_ne_nil t1]
    · simp only [h2, if_false]
      exact cmpB_seps_gt fields v1 hf1 t1 _
  · simp only [a1, a2, Bool.false_eq_true, if_false, Bool.and_self]
    rw [cmpB_joinTrim v1 v2 hl]
    cases cmpFields v1 v2 <;> simp

theorem key_cmp (fields fields2 : List Nat) (r1 r2 : List Bytes) (h : fields ≠ [] ∨ fields2 = []) :
    cmpB (key fields fields2 r1) (key fields fields2 r2) = compare fields fields2 r1 r2 := by
  cases fields with
  | nil =>
    have h2 : fields2 = [] := by rcases h with h | h; exact absurd rfl h; exact h
    subst h2; simp [key, compare, cmpFields, cmpB]
  | cons f0 fs =>
    by_cases he : encodes (f0 :: fs) fields2 = true
    · exact key_cmp_enc _ _ _ _ (by simp) he
    · have hfs : fs = [] := by
        cases fs with
        | nil => rfl
        | cons _ _ => simp [encodes] at he
      have h2 : fields2 = [] := by
        cases fields2 with
        | nil => rfl
        | cons _ _ => simp [encodes] at he
      subst hfs; subst h2
      rw [key_single, key_single, compare_single]

theorem cmpFields_eq (a b : List Bytes) (hl : a.length = b.length) (h : cmpFields a b = .eq) : a = b := by
  induction a generalizing b with
  | nil => cases b with | nil => rfl | cons _ _ => simp at hl
  | cons x a ih =>
    cases b with
    | nil => simp at hl
    | cons y b =>
      have hl' : a.length = b.length := by simpa using hl
      simp only [cmpFields] at h
      cases hc : cmpB x y <;> rw [hc] at h <;> simp at h
      rw [(cmpB_eq_iff x y).mp hc, ih b hl' h]

theorem joinTrim_inj (a b : List Bytes) (hl : a.length = b.length)
    (h : joinEnc (trimEmpty a) = joinEnc (trimEmpty b)) : a = b := by
  apply cmpFields_eq a b hl
  rw [← cmpB_joinTrim a b hl, h, cmpB_self]

theorem key_injective (fields fields2 : List Nat) (r1 r2 : List Bytes)
    (hk : key fields fields2 r1 = key fields fields2 r2) (h : fields ≠ [] ∨ fields2 = []) :
    fields.map (getRaw r1) = fields.map (getRaw r2) ∧
      ((fields.map (getRaw r1)).all (· = []) = true →
        fields2.map (getRaw r1) = fields2.map (getRaw r2)) := by
  have hc := key_cmp fields fields2 r1 r2 h
  rw [hk, cmpB_self] at hc
  simp only [compare] at hc
  have hl : (fields.map (getRaw r1)).length = (fields.map (getRaw r2)).length := by simp
  have hl2 : (fields2.map (getRaw r1)).length = (fields2.map (getRaw r2)).length := by simp
  cases hf : cmpFields (fields.map (getRaw r1)) (fields.map (getRaw r2)) <;> rw [hf] at hc <;> simp at hc
  have e := cmpFields_eq _ _ hl hf
  refine ⟨e, fun ha => ?_⟩
  have ha2 := ha
  rw [e] at ha2
  simp only [List.all_map, List.all_eq_true, Function.comp_apply, decide_eq_true_eq] at ha ha2
  exact cmpFields_eq _ _ hl2 (hc ha ha2).symm

end Gsu.Ixkey
