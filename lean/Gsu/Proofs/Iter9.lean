/-
C09 (OverIter), part 9: corollaries of the full step theorems in the form the property states
them. Core-only.
-/
import Gsu.Proofs.Iter8
namespace Gsu.Iter

/-! ### keys come out in order -/

theorem next_increasing_full (oi : OI) (hg : GoodB oi) (hst : oi.st = .within)
    (hcomp : canFast (update oi).1 (update oi).2 .next = true → Comp (curLayers oi))
    (hw : (next oi).st = .within) : oi.curKey < (next oi).curKey := by
  have h := (next_full oi hg (by simp [hst]) hcomp).2.1
  simp only [OI.result, hw, if_true, nextBd, hst] at h
  simpa [Bd.ok] using h.1

theorem prev_decreasing_full (oi : OI) (hg : GoodB oi) (hst : oi.st = .within)
    (hcomp : canFast (update oi).1 (update oi).2 .prev = true → Comp (curLayers oi))
    (hw : (prev oi).st = .within) : (prev oi).curKey < oi.curKey := by
  have h := (prev_full oi hg (by simp [hst]) hcomp).2.1
  simp only [OI.result, hw, if_true, prevBd, hst] at h
  simpa [Bu.ok] using h.1

/-! ### re-seek after the index changed, both directions -/

theorem mutate_fields (oi : OI) (L : Layer) :
    (mutate oi L).st = oi.st ∧ (mutate oi L).rng = oi.rng ∧ (mutate oi L).curKey = oi.curKey := by
  unfold mutate; split <;> simp

theorem mutate_noFast (oi : OI) (L : Layer) (d : Dir) :
    canFast (update (mutate oi L)).1 (update (mutate oi L)).2 d = false := by
  unfold mutate
  cases hq : oi.pend <;> simp [update, canFast]

theorem mutate_nextB (oi : OI) (hg : GoodB oi) (hst : oi.st = .within) (hne : curLayers oi ≠ [])
    (L : Layer) (hL : LWF L) :
    GoodB (next (mutate oi L)) ∧
    IsNext (curLayers (mutate oi L)) oi.rng (.gt oi.curKey) (next (mutate oi L)).result := by
  obtain ⟨h1, h2, h3⟩ := mutate_fields oi L
  have h := next_full (mutate oi L) (goodB_mutate hg hne hL) (by rw [h1, hst]; simp)
    (by intro hc; rw [mutate_noFast] at hc; cases hc)
  refine ⟨h.1, ?_⟩
  simpa [nextBd, h1, hst, h2, h3] using h.2.1

theorem mutate_prevB (oi : OI) (hg : GoodB oi) (hst : oi.st = .within) (hne : curLayers oi ≠ [])
    (L : Layer) (hL : LWF L) :
    GoodB (prev (mutate oi L)) ∧
    IsPrev (curLayers (mutate oi L)) oi.rng (.lt oi.curKey) (prev (mutate oi L)).result := by
  obtain ⟨h1, h2, h3⟩ := mutate_fields oi L
  have h := prev_full (mutate oi L) (goodB_mutate hg hne hL) (by rw [h1, hst]; simp)
    (by intro hc; rw [mutate_noFast] at hc; cases hc)
  refine ⟨h.1, ?_⟩
  simpa [prevBd, h1, hst, h2, h3] using h.2.1

theorem newOverlay_nextB (oi : OI) (hg : GoodB oi) (hst : oi.st = .within)
    (Ls : List Layer) (hwf : WF Ls) :
    GoodB (next (newOverlay oi Ls)) ∧
    IsNext Ls oi.rng (.gt oi.curKey) (next (newOverlay oi Ls)).result := by
  have h := next_full (newOverlay oi Ls) (goodB_newOverlay hg hwf) (by simp [newOverlay, hst])
    (by intro hc; simp [newOverlay, update, canFast] at hc)
  refine ⟨h.1, ?_⟩
  simpa [nextBd, newOverlay, hst, curLayers] using h.2.1

theorem newOverlay_prevB (oi : OI) (hg : GoodB oi) (hst : oi.st = .within)
    (Ls : List Layer) (hwf : WF Ls) :
    GoodB (prev (newOverlay oi Ls)) ∧
    IsPrev Ls oi.rng (.lt oi.curKey) (prev (newOverlay oi Ls)).result := by
  have h := prev_full (newOverlay oi Ls) (goodB_newOverlay hg hwf) (by simp [newOverlay, hst])
    (by intro hc; simp [newOverlay, update, canFast] at hc)
  refine ⟨h.1, ?_⟩
  simpa [prevBd, newOverlay, hst, curLayers] using h.2.1

/-! ### direction reversal -/

/-- `Next` directly after a `Prev` that landed on a key: the least live key above that key -/
theorem next_after_prev (oi : OI) (hg : GoodB oi) (hne : oi.st ≠ .eof)
    (hcomp : Comp (curLayers oi)) (hw : (prev oi).st = .within) :
    GoodB (next (prev oi)) ∧
    IsNext (curLayers oi) oi.rng (.gt (prev oi).curKey) (next (prev oi)).result := by
  obtain ⟨hg', _, _⟩ := prev_full oi hg hne (fun _ => hcomp)
  obtain ⟨hrng, hlay⟩ := prev_frame oi hne
  have h := next_full (prev oi) hg' (by rw [hw]; simp) (fun _ => by rw [hlay]; exact hcomp)
  refine ⟨h.1, ?_⟩
  simpa [nextBd, hw, hrng, hlay] using h.2.1

/-- `Prev` directly after a `Next` that landed on a key: the greatest live key below that key -/
theorem prev_after_next (oi : OI) (hg : GoodB oi) (hne : oi.st ≠ .eof)
    (hcomp : Comp (curLayers oi)) (hw : (next oi).st = .within) :
    GoodB (prev (next oi)) ∧
    IsPrev (curLayers oi) oi.rng (.lt (next oi).curKey) (prev (next oi)).result := by
  obtain ⟨hg', _, _⟩ := next_full oi hg hne (fun _ => hcomp)
  obtain ⟨hrng, hlay⟩ := next_frame oi hne
  have h := prev_full (next oi) hg' (by rw [hw]; simp) (fun _ => by rw [hlay]; exact hcomp)
  refine ⟨h.1, ?_⟩
  simpa [prevBd, hw, hrng, hlay] using h.2.1

/-! ### the fast path refines the slow path -/

/-- whenever `Next` may take the fast path, what it returns (fast step, or fall-back) is what
the slow path `modNext; minIter` would have returned from the same state -/
theorem fastNext_refines (oi : OI) (hg : GoodB oi) (hp : oi.pend = none) (hst : oi.st = .within)
    (hcomp : Comp oi.layers) (hcf : canFast oi false .next = true) :
    (nextCore oi false).result = (nextSlow oi false).result := by
  have h1 := (next_fast oi hg hp hst hcomp hcf).2.1
  have hd : oi.lastDir = .next := by
    simp only [canFast, Bool.and_eq_true, decide_eq_true_eq] at hcf; exact hcf.1.1.2
  have h2 := (nextSlow_same oi hg.good.wf hp hst hd (hg.good.inr hst)
    (hg.good.fwd hst hd hp) hg.good.stuck).2.1
  exact IsNext_unique h1 h2

theorem fastPrev_refines (oi : OI) (hg : GoodB oi) (hp : oi.pend = none) (hst : oi.st = .within)
    (hcomp : Comp oi.layers) (hcf : canFast oi false .prev = true) :
    (prevCore oi false).result = (prevSlow oi false).result := by
  have h1 := (prev_fast oi hg hp hst hcomp hcf).2.1
  have hd : oi.lastDir = .prev := by
    simp only [canFast, Bool.and_eq_true, decide_eq_true_eq] at hcf; exact hcf.1.1.2
  have h2 := (prevSlow_same oi hg.good.wf hp hst hd (hg.good.inr hst)
    (hg.bwd hst hd hp) hg.good.stuck).2.1
  exact IsPrev_unique h1 h2

/-! ### exhaustive iteration as a list equality -/

/-- `spec` is the list of live `(key, offset)` pairs of the range, in increasing key order -/
def LiveAsc (Ls : List Layer) (r : Rng) (spec : List (Key × Nat)) : Prop :=
  spec.Pairwise (fun a b => a.1 < b.1) ∧
  ∀ k off, (k, off) ∈ spec ↔ (¬ k < r.org ∧ k < r.end_ ∧ sem Ls k = some off)

def LiveDesc (Ls : List Layer) (r : Rng) (spec : List (Key × Nat)) : Prop :=
  spec.Pairwise (fun a b => b.1 < a.1) ∧
  ∀ k off, (k, off) ∈ spec ↔ (¬ k < r.org ∧ k < r.end_ ∧ sem Ls k = some off)

theorem rewind_fields (oi : OI) :
    (rewind oi).st = .rewound ∧ (rewind oi).rng = oi.rng ∧ curLayers (rewind oi) = curLayers oi := by
  simp [rewind, curLayers]

/-- iterating forward from `Rewind` to eof returns exactly the live keys of the range with their
offsets, in increasing order -/
theorem iterate_fwd (oi : OI) (hg : GoodB oi) (hcomp : Comp (curLayers oi)) (n : Nat)
    (hn : totalLen (curLayers oi) < n) (spec : List (Key × Nat))
    (hspec : LiveAsc (curLayers oi) oi.rng spec) :
    collectNext (rewind oi) n = spec ∧
    (nextN (rewind oi) (spec.length + 1)).st = .eof := by
  obtain ⟨h1, h2, h3⟩ := rewind_fields oi
  have hbd : nextBd (rewind oi) = .ge oi.rng.org := by simp [nextBd, h1, h2]
  have hcnt : cnt (nextBd (rewind oi)) (curLayers (rewind oi)) < n := by
    have := cnt_le_total (nextBd (rewind oi)) (curLayers (rewind oi)); rw [h3] at this ⊢; omega
  have hs := collectNext_spec n (rewind oi) (goodB_rewind hg) (by rw [h1]; simp)
    (by rw [h3]; exact hcomp) hcnt
  have he := collectNext_eof n (rewind oi) (goodB_rewind hg) (by rw [h1]; simp)
    (by rw [h3]; exact hcomp) hcnt
  rw [hbd, h2, h3] at hs
  have heq : collectNext (rewind oi) n = spec := by
    apply sorted_ext (fun a b : Key × Nat => a.1 < b.1) (fun a => by grind) (fun a b => by grind)
      _ _ hs.1 hspec.1
    intro ⟨k, off⟩
    rw [hs.2 k off, hspec.2 k off]
    simp [Bd.ok]
  exact ⟨heq, by rw [← heq]; exact he⟩

theorem iterate_bwd (oi : OI) (hg : GoodB oi) (hcomp : Comp (curLayers oi)) (n : Nat)
    (hn : totalLen (curLayers oi) < n) (spec : List (Key × Nat))
    (hspec : LiveDesc (curLayers oi) oi.rng spec) :
    collectPrev (rewind oi) n = spec ∧
    (prevN (rewind oi) (spec.length + 1)).st = .eof := by
  obtain ⟨h1, h2, h3⟩ := rewind_fields oi
  have hbd : prevBd (rewind oi) = .lt oi.rng.end_ := by simp [prevBd, h1, h2]
  have hcnt : cntP (prevBd (rewind oi)) (curLayers (rewind oi)) < n := by
    have := cntP_le_total (prevBd (rewind oi)) (curLayers (rewind oi)); rw [h3] at this ⊢; omega
  have hs := collectPrev_spec n (rewind oi) (goodB_rewind hg) (by rw [h1]; simp)
    (by rw [h3]; exact hcomp) hcnt
  have he := collectPrev_eof n (rewind oi) (goodB_rewind hg) (by rw [h1]; simp)
    (by rw [h3]; exact hcomp) hcnt
  rw [hbd, h2, h3] at hs
  have heq : collectPrev (rewind oi) n = spec := by
    apply sorted_ext (fun a b : Key × Nat => b.1 < a.1) (fun a => by grind) (fun a b => by grind)
      _ _ hs.1 hspec.1
    intro ⟨k, off⟩
    rw [hs.2 k off, hspec.2 k off]
    simp only [Bu.ok, decide_eq_true_eq]
    constructor
    · intro ⟨a, b, c⟩; exact ⟨b, a, c⟩
    · intro ⟨a, b, c⟩; exact ⟨b, a, c⟩
  exact ⟨heq, by rw [← heq]; exact he⟩

/-! ### the mirror returns what the executable specification computes -/

theorem nextBd_org {oi : OI} (hg : Good oi) (hne : oi.st ≠ .eof) :
    ∀ k, (nextBd oi).ok k = true → ¬ k < oi.rng.org := by
  unfold nextBd
  cases hst : oi.st with
  | eof => exact absurd hst hne
  | rewound => simp only [if_true]; exact ge_org oi.rng
  | within =>
    have : ¬ (St.within = St.rewound) := by simp
    simp only [this, if_false]
    exact gt_org (hg.inr hst).1

/-- what the driver prints as `S` (the executable spec) is what `Next` returns -/
theorem next_eq_spec (oi : OI) (hg : GoodB oi) (hne : oi.st ≠ .eof)
    (hcomp : canFast (update oi).1 (update oi).2 .next = true → Comp (curLayers oi)) :
    (next oi).result = specNext (curLayers oi) oi.rng (nextBd oi) :=
  IsNext_unique (next_full oi hg hne hcomp).2.1
    (specNext_isNext _ _ _ (nextBd_org hg.good hne))

/-- the upper bound the driver passes to `specPrev` -/
def prevUb (oi : OI) : Option Key := if oi.st = .rewound then none else some oi.curKey

theorem prev_eq_spec (oi : OI) (hg : GoodB oi) (hne : oi.st ≠ .eof)
    (hcomp : canFast (update oi).1 (update oi).2 .prev = true → Comp (curLayers oi)) :
    (prev oi).result = specPrev (curLayers oi) oi.rng (prevUb oi) := by
  have h1 := (prev_full oi hg hne hcomp).2.1
  have h2 := specPrev_isPrev (curLayers oi) oi.rng (prevUb oi) (by
    intro u hu
    unfold prevUb at hu
    cases hst : oi.st with
    | eof => exact absurd hst hne
    | rewound => simp [hst] at hu
    | within =>
      simp [hst] at hu; subst hu
      have := (hg.good.inr hst).2.1; grind)
  have hb : ubBu oi.rng (prevUb oi) = prevBd oi := by
    unfold prevUb prevBd
    by_cases h : oi.st = .rewound <;> simp [h, ubBu]
  rw [hb] at h2
  exact IsPrev_unique h1 h2

end Gsu.Iter
