/-
Helper lemmas for C14 (record layout of core/record.go). Core-only.
-/
import Gsu.Model.RecEnc
namespace Gsu.RecEnc
open Gsu.Proto

/-! ### big-endian fields -/

theorem be_length (w x : Nat) : (be w x).length = w := by
  induction w generalizing x with
  | zero => rfl
  | succ w ih => simp [be, ih]

theorem fromBE_append_single (l : Bytes) (b : UInt8) : fromBE (l ++ [b]) = fromBE l * 256 + b.toNat := by
  simp [fromBE, List.foldl_append]

theorem fromBE_be (w x : Nat) : fromBE (be w x) = x % 256 ^ w := by
  induction w generalizing x with
  | zero => simp [be, fromBE, Nat.mod_one]
  | succ w ih =>
    rw [be, fromBE_append_single, ih, UInt8.toNat_ofNat']
    have : (256 : Nat) ^ (w + 1) = 256 * 256 ^ w := by rw [Nat.pow_succ, Nat.mul_comm]
    rw [this, Nat.mod_mul]
    simp only [Nat.reducePow]
    omega

theorem rd_mid (w x : Nat) (P Q : Bytes) : rd w (P ++ (be w x ++ Q)) P.length = some (x % 256 ^ w) := by
  unfold rd
  have hb := be_length w x
  have h : P.length + w ≤ (P ++ (be w x ++ Q)).length := by simp [hb]
  rw [if_pos h, List.drop_left]
  have : List.take w (be w x ++ Q) = be w x := by
    rw [List.take_append_of_le_length (by omega), List.take_of_length_le (by omega)]
  rw [this, fromBE_be]

theorem flatMap_be_length (w : Nat) (l : List Nat) : (l.flatMap (be w)).length = w * l.length := by
  induction l with
  | nil => simp
  | cons a l ih => rw [List.flatMap_cons, List.length_append, be_length, ih, List.length_cons, Nat.mul_add]; omega

/-- reading entry `j` of an offset table that sits behind a prefix `H` -/
theorem rd_table (w : Nat) (H D : Bytes) (offs : List Nat) (j : Nat) (hj : j < offs.length) :
    rd w (H ++ offs.flatMap (be w) ++ D) (H.length + w * j) = some (offs[j] % 256 ^ w) := by
  have hsplit : offs.take j ++ offs[j] :: offs.drop (j + 1) = offs := by simp
  have hlen : (H ++ (offs.take j).flatMap (be w)).length = H.length + w * j := by
    rw [List.length_append, flatMap_be_length, List.length_take, Nat.min_eq_left (Nat.le_of_lt hj)]
  have hfm : offs.flatMap (be w) =
      (offs.take j).flatMap (be w) ++ (be w offs[j] ++ (offs.drop (j + 1)).flatMap (be w)) := by
    rw [← List.flatMap_cons, ← List.flatMap_append, hsplit]
  have : H ++ offs.flatMap (be w) ++ D =
      (H ++ (offs.take j).flatMap (be w)) ++ (be w offs[j] ++ ((offs.drop (j + 1)).flatMap (be w) ++ D)) := by
    rw [hfm]; simp only [List.append_assoc]
  rw [this, ← hlen]
  exact rd_mid w _ _ _

/-! ### sizes -/

theorem total_nil : total [] = 0 := rfl
theorem total_cons (f : Bytes) (b : List Bytes) : total (f :: b) = f.length + total b := by
  simp [total]
theorem total_append (a b : List Bytes) : total (a ++ b) = total a + total b := by
  simp [total]

theorem flatten_length (fs : List Bytes) : fs.flatten.length = total fs := by
  induction fs with
  | nil => rfl
  | cons f fs ih => simp [total_cons, ih]

theorem total_reverse (fs : List Bytes) : total fs.reverse = total fs := by
  induction fs with
  | nil => rfl
  | cons f fs ih => simp [total_append, total_cons, ih, total]; omega

theorem total_take_le (fs : List Bytes) (i : Nat) : total (fs.take i) ≤ total fs := by
  have h : total fs = total (fs.take i) + total (fs.drop i) := by
    rw [← total_append, List.take_append_drop]
  omega

theorem total_take_succ (fs : List Bytes) (i : Nat) (hi : i < fs.length) :
    total (fs.take (i + 1)) = total (fs.take i) + fs[i].length := by
  rw [List.take_succ_eq_append_getElem hi, total_append, total_cons, total_nil]; omega

theorem width_mode_pos (l : Nat) : 0 < width (mode l) := by
  unfold width; split <;> (try split) <;> omega

/-- the length formula of `tblength` is the layout: header, `n+1` offsets, data -/
theorem tblength_eq (n d : Nat) (hn : n ≠ 0) :
    tblength n d = hdrlen + width (mode (tblength n d)) * (1 + n) + d := by
  unfold tblength hdrlen
  simp only [hn, if_false]
  by_cases h1 : 2 + (1 + n) + d < 0x100
  · simp only [h1, if_true]
    have : mode (2 + (1 + n) + d) = 1 := by unfold mode; simp only [h1, if_true]; split <;> omega
    rw [this]; simp [width]
  · simp only [h1, if_false]
    by_cases h2 : 2 + 2 * (1 + n) + d < 0x10000
    · simp only [h2, if_true]
      have : mode (2 + 2 * (1 + n) + d) = 2 := by
        unfold mode
        have a : ¬ (2 + 2 * (1 + n) + d = 0) := by omega
        have b : ¬ (2 + 2 * (1 + n) + d < 0x100) := by omega
        simp only [a, b, h2, if_true, if_false]
      rw [this]; simp [width]
    · simp only [h2, if_false]
      have : mode (2 + 4 * (1 + n) + d) = 3 := by
        unfold mode
        have a : ¬ (2 + 4 * (1 + n) + d = 0) := by omega
        have b : ¬ (2 + 4 * (1 + n) + d < 0x100) := by omega
        have c : ¬ (2 + 4 * (1 + n) + d < 0x10000) := by omega
        simp only [a, b, c, if_false]
      rw [this]; simp [width]

theorem mode_range (l : Nat) (hl : l ≠ 0) : 1 ≤ mode l ∧ mode l ≤ 3 := by
  unfold mode; simp only [hl, if_false]; split <;> (try split) <;> omega

/-- an offset up to `len` fits the width chosen by `mode len` (given the record size limit) -/
theorem fits_width (len x : Nat) (hx : x ≤ len) (hlim : len ≤ maxRecordLen) (h0 : len ≠ 0) :
    x % 256 ^ width (mode len) = x := by
  apply Nat.mod_eq_of_lt
  unfold mode width maxRecordLen at *
  simp only [h0, if_false]
  by_cases h1 : len < 0x100
  · simp [h1]; omega
  · by_cases h2 : len < 0x10000
    · simp [h1, h2]; omega
    · simp [h1, h2]; omega

theorem tblength_mono (n n' d d' : Nat) (hn : n' ≤ n) (hd : d' ≤ d) : tblength n' d' ≤ tblength n d := by
  unfold tblength hdrlen
  split <;> split <;> (try split) <;> (try split) <;> (try split) <;> (try split) <;> omega

/-! ### offsets -/

theorem offsets_length (len : Nat) (fs : List Bytes) : (offsets len fs).length = fs.length + 1 := by
  induction fs generalizing len with
  | nil => rfl
  | cons f fs ih => simp [offsets, ih]

theorem offsets_get (len : Nat) (fs : List Bytes) (j : Nat) (hj : j < (offsets len fs).length) :
    (offsets len fs)[j] = len - total (fs.take j) := by
  induction fs generalizing len j with
  | nil =>
    simp [offsets] at hj ⊢
    simp [total]
  | cons f fs ih =>
    cases j with
    | zero => simp [offsets, total]
    | succ j =>
      simp only [offsets, List.getElem_cons_succ, List.take_succ_cons, total_cons]
      rw [ih]
      omega

/-! ### layout (calibration proof REC.lean) -/

def layout (pre : Bytes) (fs : List Bytes) : Bytes := pre ++ fs.reverse.flatten

def endOf (pre : Bytes) (fs : List Bytes) (i : Nat) : Nat :=
  pre.length + total fs - total (fs.take i)

theorem getRaw_layout' (pre : Bytes) (a b : List Bytes) (f : Bytes) :
    let fs := a ++ f :: b
    let i := a.length
    ((layout pre fs).drop (endOf pre fs (i+1))).take (endOf pre fs i - endOf pre fs (i+1)) = f := by
  intro fs i
  have hlay : layout pre fs = (pre ++ b.reverse.flatten) ++ (f ++ a.reverse.flatten) := by
    simp [layout, fs, List.reverse_append, List.flatten_append]
  have htake1 : fs.take (i+1) = a ++ [f] := by
    simp only [fs, i]
    rw [List.take_append]
    simp [List.take_of_length_le]
  have htake0 : fs.take i = a := by simp [fs, i]
  have htot : total fs = total a + f.length + total b := by
    simp [fs, total_append, total_cons]; omega
  have hpos : endOf pre fs (i+1) = (pre ++ b.reverse.flatten).length := by
    have h1 : total (a ++ [f]) = total a + f.length := by simp [total_append, total_cons, total]
    simp only [endOf, htake1, htot, h1, List.length_append, flatten_length, total_reverse]
    omega
  have hlen : endOf pre fs i - endOf pre fs (i+1) = f.length := by
    rw [hpos]
    simp only [endOf, htake0, htot, List.length_append, flatten_length, total_reverse]; omega
  rw [hlen, hlay, hpos, List.drop_left, List.take_left]

theorem getRaw_layout (pre : Bytes) (fs : List Bytes) (i : Nat) (hi : i < fs.length) :
    ((layout pre fs).drop (endOf pre fs (i+1))).take (endOf pre fs i - endOf pre fs (i+1)) = fs[i] := by
  have h : fs = fs.take i ++ fs[i] :: fs.drop (i+1) := by simp [List.take_append_drop]
  have hl : (fs.take i).length = i := by simp; omega
  have := getRaw_layout' pre (fs.take i) (fs.drop (i+1)) fs[i]
  simp only [hl] at this
  rw [← h] at this
  exact this

/-! ### the built record -/

theorem be2 (x : Nat) : be 2 x = [UInt8.ofNat (x / 256), UInt8.ofNat x] := by simp [be]

theorem hdr_val (m n : Nat) (hn : n < 16384) : m <<< 14 ||| n = m * 16384 + n := by
  have := Nat.shiftLeft_add_eq_or_of_lt (i := 14) (b := n) (by simpa using hn) m
  rw [← this, Nat.shiftLeft_eq]

/-- hypotheses under which `build fs = .ok (buildRaw fs)` -/
structure Ok (fs : List Bytes) : Prop where
  ne : fs.length ≠ 0
  cnt : fs.length ≤ maxValues
  lim : tblength fs.length (total fs) ≤ maxRecordLen

theorem build_ok_iff (fs : List Bytes) (r : Bytes) :
    build fs = .ok r ↔ (fs = [] ∧ r = [0]) ∨ (Ok fs ∧ r = buildRaw fs) := by
  unfold build
  by_cases h1 : fs.length > maxValues
  · simp only [h1, if_true]
    constructor
    · intro h; cases h
    · rintro (⟨rfl, _⟩ | ⟨h, _⟩)
      · simp [maxValues] at h1
      · have := h.cnt; omega
  · simp only [h1, if_false]
    by_cases h2 : fs.length = 0
    · simp only [h2, if_true, BuildRes.ok.injEq]
      have : fs = [] := List.eq_nil_of_length_eq_zero h2
      constructor
      · intro h; exact Or.inl ⟨this, h.symm⟩
      · rintro (⟨_, rfl⟩ | ⟨h, _⟩)
        · rfl
        · exact absurd h2 h.ne
    · simp only [h2, if_false]
      by_cases h3 : tblength fs.length (total fs) > maxRecordLen
      · simp only [h3, if_true]
        constructor
        · intro h; cases h
        · rintro (⟨rfl, _⟩ | ⟨h, _⟩)
          · simp at h2
          · have := h.lim; omega
      · simp only [h3, if_false, BuildRes.ok.injEq]
        constructor
        · intro h; exact Or.inr ⟨⟨h2, by omega, by omega⟩, h.symm⟩
        · rintro (⟨rfl, _⟩ | ⟨_, rfl⟩)
          · simp at h2
          · rfl

/-- the bytes of a built record: two header bytes, the offset table, the data -/
theorem buildRaw_shape (fs : List Bytes) (h : Ok fs) :
    ∃ b0 b1 : UInt8,
      buildRaw fs = [b0, b1] ++ (offsets (tblength fs.length (total fs)) fs).flatMap
          (be (width (mode (tblength fs.length (total fs))))) ++ fs.reverse.flatten ∧
      b0.toNat = (mode (tblength fs.length (total fs)) * 16384 + fs.length) / 256 ∧
      b1.toNat = (mode (tblength fs.length (total fs)) * 16384 + fs.length) % 256 := by
  have hn : fs.length < 16384 := by have := h.cnt; unfold maxValues at this; omega
  have hlen0 : tblength fs.length (total fs) ≠ 0 := by
    have := tblength_eq fs.length (total fs) h.ne; unfold hdrlen at this; omega
  obtain ⟨hm1, hm3⟩ := mode_range _ hlen0
  refine ⟨UInt8.ofNat ((mode (tblength fs.length (total fs)) * 16384 + fs.length) / 256),
    UInt8.ofNat (mode (tblength fs.length (total fs)) * 16384 + fs.length), ?_, ?_, ?_⟩
  · unfold buildRaw
    simp only [hdr_val _ _ hn, be2]
  · rw [UInt8.toNat_ofNat']; simp only [Nat.reducePow]; omega
  · rw [UInt8.toNat_ofNat']

theorem buildRaw_length (fs : List Bytes) (h : Ok fs) :
    (buildRaw fs).length = tblength fs.length (total fs) := by
  obtain ⟨b0, b1, hr, _, _⟩ := buildRaw_shape fs h
  rw [hr]
  simp only [List.length_append, flatMap_be_length, offsets_length, flatten_length, total_reverse,
    List.length_cons, List.length_nil]
  have := tblength_eq fs.length (total fs) h.ne
  unfold hdrlen at this
  rw [Nat.add_comm 1 fs.length] at this
  omega

theorem count_buildRaw (fs : List Bytes) (h : Ok fs) : count (buildRaw fs) = some fs.length := by
  have hn : fs.length < 16384 := by have := h.cnt; unfold maxValues at this; omega
  have hlen0 : tblength fs.length (total fs) ≠ 0 := by
    have := tblength_eq fs.length (total fs) h.ne; unfold hdrlen at this; omega
  obtain ⟨hm1, hm3⟩ := mode_range _ hlen0
  obtain ⟨b0, b1, hr, h0, h1⟩ := buildRaw_shape fs h
  rw [hr]
  have hb0 : b0 ≠ 0 := by
    intro hz; rw [hz] at h0; simp at h0; omega
  simp only [List.cons_append, List.nil_append, count, hb0, if_false, h0, h1]
  congr 1
  omega

theorem recLen_buildRaw (fs : List Bytes) (h : Ok fs) : recLen (buildRaw fs) = some (buildRaw fs).length := by
  have hn : fs.length < 16384 := by have := h.cnt; unfold maxValues at this; omega
  have hlen0 : tblength fs.length (total fs) ≠ 0 := by
    have := tblength_eq fs.length (total fs) h.ne; unfold hdrlen at this; omega
  obtain ⟨hm1, hm3⟩ := mode_range _ hlen0
  rw [buildRaw_length fs h]
  obtain ⟨b0, b1, hr, h0, h1⟩ := buildRaw_shape fs h
  have hb0 : b0 ≠ 0 := by
    intro hz; rw [hz] at h0; simp at h0; omega
  have hm : b0.toNat / 64 = mode (tblength fs.length (total fs)) := by rw [h0]; omega
  have hrd := rd_table (width (mode (tblength fs.length (total fs)))) [b0, b1] fs.reverse.flatten
    (offsets (tblength fs.length (total fs)) fs) 0 (by rw [offsets_length]; omega)
  rw [← hr] at hrd
  rw [offsets_get] at hrd
  simp only [List.take_zero, total_nil, Nat.sub_zero, Nat.mul_zero, Nat.add_zero, List.length_cons,
    List.length_nil] at hrd
  rw [fits_width _ _ (Nat.le_refl _) h.lim hlen0] at hrd
  have hshape : ∃ t, buildRaw fs = b0 :: t := ⟨_, by rw [hr]; rfl⟩
  obtain ⟨t, ht⟩ := hshape
  rw [ht] at hrd ⊢
  simp only [recLen, hb0, if_false, hm]
  have hm0 : mode (tblength fs.length (total fs)) ≠ 0 := by omega
  simp only [hm0, if_false, hdrlen]
  exact hrd

theorem getRaw_buildRaw (fs : List Bytes) (h : Ok fs) (i : Nat) :
    getRaw (buildRaw fs) i = some (fs.getD i []) := by
  have hn : fs.length < 16384 := by have := h.cnt; unfold maxValues at this; omega
  have hlen0 : tblength fs.length (total fs) ≠ 0 := by
    have := tblength_eq fs.length (total fs) h.ne; unfold hdrlen at this; omega
  obtain ⟨hm1, hm3⟩ := mode_range _ hlen0
  unfold getRaw
  rw [count_buildRaw fs h]
  by_cases hi : fs.length ≤ i
  · simp only [hi, if_true]
    simp [List.getD_eq_getElem?_getD, List.getElem?_eq_none hi]
  · simp only [hi, if_false]
    have hi' : i < fs.length := by omega
    have hrlen := buildRaw_length fs h
    obtain ⟨b0, b1, hr, h0, h1⟩ := buildRaw_shape fs h
    have hm : b0.toNat / 64 = mode (tblength fs.length (total fs)) := by rw [h0]; omega
    have hm0 : mode (tblength fs.length (total fs)) ≠ 0 := by omega
    have hrd1 := rd_table (width (mode (tblength fs.length (total fs)))) [b0, b1] fs.reverse.flatten
      (offsets (tblength fs.length (total fs)) fs) i (by rw [offsets_length]; omega)
    have hrd2 := rd_table (width (mode (tblength fs.length (total fs)))) [b0, b1] fs.reverse.flatten
      (offsets (tblength fs.length (total fs)) fs) (i + 1) (by rw [offsets_length]; omega)
    rw [← hr, offsets_get, fits_width _ _ (Nat.sub_le _ _) h.lim hlen0] at hrd1 hrd2
    simp only [List.length_cons, List.length_nil, Nat.mul_succ] at hrd1 hrd2
    have hlay : buildRaw fs = layout ([b0, b1] ++ (offsets (tblength fs.length (total fs)) fs).flatMap
          (be (width (mode (tblength fs.length (total fs)))))) fs := by rw [hr]; rfl
    have hpre : ([b0, b1] ++ (offsets (tblength fs.length (total fs)) fs).flatMap
          (be (width (mode (tblength fs.length (total fs)))))).length + total fs
          = tblength fs.length (total fs) := by
      simp only [List.length_append, flatMap_be_length, offsets_length, List.length_cons, List.length_nil]
      have := tblength_eq fs.length (total fs) h.ne
      unfold hdrlen at this
      rw [Nat.add_comm 1 fs.length] at this
      omega
    have hget := getRaw_layout ([b0, b1] ++ (offsets (tblength fs.length (total fs)) fs).flatMap
          (be (width (mode (tblength fs.length (total fs)))))) fs i hi'
    rw [← hlay] at hget
    simp only [endOf, hpre] at hget
    have hshape : ∃ t, buildRaw fs = b0 :: t := ⟨_, by rw [hr]; rfl⟩
    obtain ⟨t, ht⟩ := hshape
    rw [ht] at hrd1 hrd2 hget hrlen ⊢
    simp only [hm, hm0, if_false, hdrlen]
    rw [show 0 + 1 + 1 = 2 from rfl] at hrd1 hrd2
    rw [hrd1, Nat.add_assoc, hrd2]
    have hle1 := total_take_le fs i
    have hle2 := total_take_le fs (i + 1)
    have hsucc := total_take_succ fs i hi'
    have hdle : total fs ≤ tblength fs.length (total fs) := by omega
    have hcond : tblength fs.length (total fs) - total (fs.take (i + 1)) ≤
        tblength fs.length (total fs) - total (fs.take i) ∧
        tblength fs.length (total fs) - total (fs.take i) ≤ (b0 :: t).length := by
      rw [hrlen]; omega
    simp only [hcond, and_self, if_true]
    rw [hget]; simp [List.getD_eq_getElem?_getD, List.getElem?_eq_getElem hi']

/-! ### `build` (all cases) -/

theorem getRaw_build (fs : List Bytes) (r : Bytes) (h : build fs = .ok r) (i : Nat) :
    getRaw r i = some (fs.getD i []) := by
  rcases (build_ok_iff fs r).1 h with ⟨rfl, rfl⟩ | ⟨hok, rfl⟩
  · simp [getRaw, count]
  · exact getRaw_buildRaw fs hok i

theorem count_build (fs : List Bytes) (r : Bytes) (h : build fs = .ok r) : count r = some fs.length := by
  rcases (build_ok_iff fs r).1 h with ⟨rfl, rfl⟩ | ⟨hok, rfl⟩
  · simp [count]
  · exact count_buildRaw fs hok

theorem len_build (fs : List Bytes) (r : Bytes) (h : build fs = .ok r) :
    r.length = tblength fs.length (total fs) ∧ recLen r = some r.length := by
  rcases (build_ok_iff fs r).1 h with ⟨rfl, rfl⟩ | ⟨hok, rfl⟩
  · simp [recLen, tblength]
  · exact ⟨buildRaw_length fs hok, recLen_buildRaw fs hok⟩

/-! ### Truncate -/

theorem trimEmpty_cons (f : Bytes) (fs : List Bytes) :
    trimEmpty (f :: fs) = if trimEmpty fs = [] then (if f = [] then [] else [f]) else f :: trimEmpty fs := by
  rw [trimEmpty]
  by_cases h : trimEmpty fs = []
  · simp [h]
  · simp only [h, if_false]

theorem trimEmpty_length_le (l : List Bytes) : (trimEmpty l).length ≤ l.length := by
  induction l with
  | nil => simp [trimEmpty]
  | cons f fs ih =>
    rw [trimEmpty_cons]
    split
    · split <;> simp
    · simp; omega

theorem trimEmpty_total_le (l : List Bytes) : total (trimEmpty l) ≤ total l := by
  induction l with
  | nil => simp [trimEmpty]
  | cons f fs ih =>
    rw [trimEmpty_cons]
    split
    · split
      · simp [total]
      · simp [total_cons, total_nil]
    · simp only [total_cons]; omega

theorem trimEmpty_nil_getD (l : List Bytes) (h : trimEmpty l = []) (i : Nat) : l.getD i [] = [] := by
  induction l generalizing i with
  | nil => simp
  | cons f fs ih =>
    rw [trimEmpty_cons] at h
    by_cases h1 : trimEmpty fs = []
    · simp only [h1, if_true] at h
      by_cases h2 : f = []
      · cases i with
        | zero => simp [h2]
        | succ i => simpa using ih h1 i
      · simp [h2] at h
    · simp [h1] at h

theorem trimEmpty_getD (l : List Bytes) (i : Nat) : (trimEmpty l).getD i [] = l.getD i [] := by
  induction l generalizing i with
  | nil => simp [trimEmpty]
  | cons f fs ih =>
    rw [trimEmpty_cons]
    by_cases h1 : trimEmpty fs = []
    · simp only [h1, if_true]
      by_cases h2 : f = []
      · simp only [h2, if_true]
        cases i with
        | zero => simp
        | succ i => simpa using (trimEmpty_nil_getD fs h1 i).symm
      · simp only [h2, if_false]
        cases i with
        | zero => simp
        | succ i => simpa using (trimEmpty_nil_getD fs h1 i).symm
    · simp only [h1, if_false]
      cases i with
      | zero => simp
      | succ i => simpa using ih i

theorem firstFields_build (fs : List Bytes) (r : Bytes) (h : build fs = .ok r) (n : Nat) (hn : n ≤ fs.length) :
    firstFields r n = some (fs.take n) := by
  induction n with
  | zero => simp [firstFields]
  | succ n ih =>
    have hlt : n < fs.length := by omega
    rw [firstFields, ih (by omega), getRaw_build fs r h n, List.take_succ_eq_append_getElem hlt]
    simp [List.getD_eq_getElem?_getD, List.getElem?_eq_getElem hlt]

theorem build_trim_take_ok (fs : List Bytes) (r : Bytes) (h : build fs = .ok r) (n : Nat) :
    ∃ r', build (trimEmpty (fs.take n)) = .ok r' := by
  rcases (build_ok_iff fs r).1 h with ⟨rfl, rfl⟩ | ⟨hok, rfl⟩
  · exact ⟨[0], by rw [List.take_nil]; rfl⟩
  · by_cases h0 : trimEmpty (fs.take n) = []
    · exact ⟨[0], by rw [h0]; rfl⟩
    · refine ⟨buildRaw (trimEmpty (fs.take n)), ?_⟩
      apply (build_ok_iff _ _).2
      refine Or.inr ⟨⟨?_, ?_, ?_⟩, rfl⟩
      · intro hz; exact h0 (List.eq_nil_of_length_eq_zero hz)
      · have := trimEmpty_length_le (fs.take n)
        have := hok.cnt
        have : (fs.take n).length ≤ fs.length := by simp; omega
        omega
      · have h1 := trimEmpty_length_le (fs.take n)
        have h2 := trimEmpty_total_le (fs.take n)
        have h3 := total_take_le fs n
        have h4 : (fs.take n).length ≤ fs.length := by simp; omega
        have := tblength_mono fs.length (trimEmpty (fs.take n)).length (total fs)
          (total (trimEmpty (fs.take n))) (by omega) (by omega)
        have := hok.lim
        omega

theorem truncate_build (fs : List Bytes) (r : Bytes) (h : build fs = .ok r) (n : Nat) :
    ∃ r', truncate r n = some (.ok r') ∧
      ∀ i, getRaw r' i = some (if i < n then fs.getD i [] else []) := by
  unfold truncate
  rw [count_build fs r h]
  by_cases hle : fs.length ≤ n
  · refine ⟨r, by simp only [hle, if_true], ?_⟩
    intro i
    rw [getRaw_build fs r h i]
    by_cases hi : i < n
    · simp only [hi, if_true]
    · simp only [hi, if_false]
      simp [List.getD_eq_getElem?_getD, List.getElem?_eq_none (show fs.length ≤ i by omega)]
  · simp only [hle, if_false]
    rw [firstFields_build fs r h n (by omega)]
    obtain ⟨r', hr'⟩ := build_trim_take_ok fs r h n
    refine ⟨r', by simp only [Option.map_some, hr'], ?_⟩
    intro i
    rw [getRaw_build _ r' hr' i, trimEmpty_getD]
    by_cases hi : i < n
    · simp [hi, List.getD_eq_getElem?_getD, List.getElem?_take_of_lt hi]
    · simp only [hi, if_false]
      have : (fs.take n).length ≤ i := by simp; omega
      simp [List.getD_eq_getElem?_getD, List.getElem?_eq_none this]

/-- the two mode bits of the header are `mode (length)` -/
theorem mode_bits_build (fs : List Bytes) (r : Bytes) (h : build fs = .ok r) (hne : fs ≠ []) :
    ∃ b0 t, r = b0 :: t ∧ b0.toNat / 64 = mode r.length := by
  rcases (build_ok_iff fs r).1 h with ⟨rfl, _⟩ | ⟨hok, rfl⟩
  · exact absurd rfl hne
  · have hn : fs.length < 16384 := by have := hok.cnt; unfold maxValues at this; omega
    have hlen0 : tblength fs.length (total fs) ≠ 0 := by
      have := tblength_eq fs.length (total fs) hok.ne; unfold hdrlen at this; omega
    obtain ⟨hm1, hm3⟩ := mode_range _ hlen0
    obtain ⟨b0, b1, hr, h0, _⟩ := buildRaw_shape fs hok
    refine ⟨b0, _, by rw [hr]; rfl, ?_⟩
    rw [buildRaw_length fs hok, h0]; omega

theorem build_tooMany_iff (fs : List Bytes) : build fs = .tooMany ↔ fs.length > maxValues := by
  unfold build
  by_cases h1 : fs.length > maxValues
  · simp [h1]
  · simp only [h1, if_false, iff_false]
    split
    · intro h; cases h
    · split <;> (intro h; cases h)

theorem build_tooLarge_iff (fs : List Bytes) :
    build fs = .tooLarge ↔ fs.length ≤ maxValues ∧ tblength fs.length (total fs) > maxRecordLen := by
  unfold build
  by_cases h1 : fs.length > maxValues
  · simp only [h1, if_true]
    constructor
    · intro h; cases h
    · intro ⟨h, _⟩; omega
  · simp only [h1, if_false]
    by_cases h2 : fs.length = 0
    · simp only [h2, if_true]
      constructor
      · intro h; cases h
      · intro ⟨_, h⟩; simp [tblength, maxRecordLen] at h
    · simp only [h2, if_false]
      by_cases h3 : tblength fs.length (total fs) > maxRecordLen
      · simp only [h3, if_true, true_iff]; exact ⟨by omega, trivial⟩
      · have h3' := h3
        simp only [h3, if_false]
        constructor
        · intro h; cases h
        · intro ⟨_, h⟩; exact h.elim

end Gsu.RecEnc
