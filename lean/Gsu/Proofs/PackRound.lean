/-
C13: the number round trips in full.
* `packInt_unpack`: every int64 packed by `packInt` (SuInt64.Pack) unpacks as itself.
* `unpack_packDnum_full`: every normalised finite dnum packed by `SuDnum.Pack` unpacks as itself
  or — exactly on `intable`'s path — as the int64 of equal value.
-/
import Gsu.Proofs.PackInt
namespace Gsu.Pack
open Gsu.Proto

/-! ## `packInt` -/

theorem packInt_pos_shape (n : Int) (h : 0 < n) :
    packInt n = tagPlus :: expByte ((digits10 n.natAbs).length : Nat) 0 ::
      xorBytes 0 (pairs (stripZ (digits10 n.natAbs))) := by
  have h1 : ¬ n < 0 := by omega
  have h2 : ¬ n.natAbs = 0 := by omega
  simp only [packInt, h1, h2, if_false]

theorem packInt_neg_shape (n : Int) (h : n < 0) :
    packInt n = tagMinus :: expByte ((digits10 n.natAbs).length : Nat) 0xff ::
      xorBytes 0xff (pairs (stripZ (digits10 n.natAbs))) := by
  have h2 : ¬ n.natAbs = 0 := by omega
  simp only [packInt, h, h2, if_true, if_false]

/-- the digit pairs `packInt` emits for `u < 10^19` pass `intable`'s digit tests with
`e = number of digits`, and denote `u` -/
theorem intPairs_int (u : Nat) (h0 : 0 < u) (h : u < 10 ^ 19) :
    pairs (stripZ (digits10 u)) ≠ [] ∧ Small (pairs (stripZ (digits10 u))) ∧
      NoTrail0 (pairs (stripZ (digits10 u))) ∧ (pairs (stripZ (digits10 u))).length ≤ 10 ∧
      IntDigits (pairs (stripZ (digits10 u))) ((digits10 u).length : Nat) ∧
      intVal (pairs (stripZ (digits10 u))) ((digits10 u).length : Nat) = u ∧
      pv 10 (pairs (stripZ (digits10 u))) = u * 10 ^ (20 - (digits10 u).length) ∧
      (digits10 u).length ≤ 19 := by
  have hu : u < 10 ^ 20 := by omega
  obtain ⟨_, _, ⟨d0, r0, hr0, _⟩, hlt, hge⟩ := digits10_spec u h0 hu
  have hnd1 : 1 ≤ (digits10 u).length := by rw [hr0]; simp
  have hnd : (digits10 u).length ≤ 19 := by
    by_cases hc : (digits10 u).length ≤ 19
    · exact hc
    · exfalso
      have : 10 ^ 19 ≤ 10 ^ ((digits10 u).length - 1) :=
        Nat.pow_le_pow_right (by decide) (by omega)
      omega
  obtain ⟨hs, ht, hl, hp⟩ := intPairs_facts u h0 hu 10 (by omega)
  have hsl := stripZ_length (digits10 u)
  have hpl := pairs_length (stripZ (digits10 u))
  generalize hps : pairs (stripZ (digits10 u)) = ps at hs ht hl hp hpl ⊢
  generalize hndd : (digits10 u).length = nd at hlt hge hnd1 hnd hp hsl ⊢
  simp only [show 2 * 10 - nd = 20 - nd by omega] at hp
  have hm : 2 * ps.length ≤ nd + 1 := by omega
  have hne : ps ≠ [] := by
    intro h; subst h
    have : 0 < u * 10 ^ (20 - nd) := Nat.mul_pos h0 (Nat.pow_pos (by decide))
    simp only [pv] at hp; omega
  -- the value equation
  have hv : ofMsd 100 ps * 10 ^ (nd + 1 - 2 * ps.length) = u * 10 := by
    have e1 : 100 ^ (10 - ps.length) = 10 ^ (nd + 1 - 2 * ps.length) * 10 ^ (19 - nd) := by
      rw [← Nat.pow_add, show (100 : Nat) = 10 ^ 2 by norm_num, ← Nat.pow_mul]
      congr 1; omega
    have e2 : 10 ^ (20 - nd) = 10 * 10 ^ (19 - nd) := by
      rw [← Nat.pow_succ']; congr 1; omega
    have := ofMsd_pv 10 ps hl
    rw [hp, e1, e2, ← Nat.mul_assoc, ← Nat.mul_assoc] at this
    exact Nat.eq_of_mul_eq_mul_right (Nat.pow_pos (by decide)) this
  have hexp : (((nd : Nat) : Int) + 1 - 2 * (ps.length : Int)).toNat = nd + 1 - 2 * ps.length := by
    omega
  have hid : IntDigits ps (nd : Nat) := by
    refine ⟨by omega, by omega, by omega, fun hc => ?_⟩
    have h0' : nd + 1 - 2 * ps.length = 0 := by omega
    rw [h0', Nat.pow_zero, Nat.mul_one] at hv
    rw [← ofMsd_mod10, hv]; omega
  refine ⟨hne, hs, ht, hl, hid, ?_, hp, hnd⟩
  simp only [intVal, hexp, hv]
  omega

/-- FULL integer round trip: every int64 packed by `packInt` unpacks as itself
(incl. MinInt64 and its digit-pair prefixes, thanks to the repaired range test) -/
theorem packInt_unpack (n : Int) (h1 : minInt64 ≤ n) (h2 : n ≤ maxInt64) :
    unpackNumber (packInt n) = .int n := by
  simp only [minInt64, maxInt64] at h1 h2
  rcases Int.lt_trichotomy n 0 with hn | hn | hn
  · obtain ⟨hne, hs, ht, hl, hid, hval, hp, hnd⟩ := intPairs_int n.natAbs (by omega) (by omega)
    rw [packInt_neg_shape n hn, unpack_packed_neg_int _ _ hne hs ht hl hid, hval]
    · congr 1; omega
    · by_cases h19 : (digits10 n.natAbs).length < 19
      · left; omega
      · right
        rw [hp, show 20 - (digits10 n.natAbs).length = 1 by omega]
        omega
  · subst hn; rfl
  · obtain ⟨hne, hs, ht, hl, hid, hval, hp, hnd⟩ := intPairs_int n.natAbs (by omega) (by omega)
    rw [packInt_pos_shape n hn, unpack_packed_pos_int _ _ hne hs ht hl hid, hval]
    · congr 1; omega
    · by_cases h19 : (digits10 n.natAbs).length < 19
      · left; omega
      · right
        rw [hp, show 20 - (digits10 n.natAbs).length = 1 by omega]
        omega

/-! ## `SuDnum.Pack` -/

/-- the digit pairs of a normalised coefficient, seen as 10 pairs -/
theorem coefBytes7_pv10 (c : Nat) (h1 : coefMin ≤ c) (h2 : c ≤ coefMax) :
    coefBytes 7 c ≠ [] ∧ Small (coefBytes 7 c) ∧ NoTrail0 (coefBytes 7 c) ∧
      (coefBytes 7 c).length ≤ 10 ∧ pv 10 (coefBytes 7 c) = c * 10 ^ 4 := by
  obtain ⟨hs, ht, hl, hp, _⟩ := coefBytes7_facts c h1 h2
  refine ⟨coefBytes_ne_nil 7 c, hs, ht, by omega, ?_⟩
  have a := ofMsd_pv 8 _ hl
  have b := ofMsd_pv 10 (coefBytes 7 c) (by omega)
  have e : 100 ^ (10 - (coefBytes 7 c).length) = 100 ^ (8 - (coefBytes 7 c).length) * 10 ^ 4 := by
    rw [show (10 : Nat) ^ 4 = 100 ^ 2 by norm_num, ← Nat.pow_add]; congr 1; omega
  rw [← b, e, ← Nat.mul_assoc, a, hp]

/-- value of the integer on the `intable` path: `U · 10^16 = coef · 10^exp` -/
theorem intVal_coef (ps : List Nat) (e : Int) (c : Nat) (h : IntDigits ps e) (hl : ps.length ≤ 10)
    (hp : pv 10 ps = c * 10 ^ 4) : intVal ps e * 10 ^ 16 = c * 10 ^ e.toNat := by
  have h1 := intVal_pv ps e h hl
  obtain ⟨_, _, _, _⟩ := h
  rw [hp] at h1
  have e1 : (10 : Nat) ^ 16 * 10 ^ 4 = 10 ^ (20 - e.toNat) * 10 ^ e.toNat := by
    rw [← Nat.pow_add, ← Nat.pow_add]; congr 1; omega
  have : intVal ps e * 10 ^ 16 * 10 ^ 4 = c * 10 ^ e.toNat * 10 ^ 4 := by
    rw [Nat.mul_assoc, e1, ← Nat.mul_assoc, ← h1]; ring
  exact Nat.eq_of_mul_eq_mul_right (by decide) this

/-- FULL round trip of `SuDnum.Pack`: a normalised finite number unpacks as exactly itself, or —
when its exponent is 0…19, it has at most `exp` significant digits and it lies in the int64
range, i.e. on `intable`'s path — as the int64 `n` of equal value (`|n|·10^16 = coef·10^exp`,
same sign). -/
theorem unpack_packDnum_full (d : Dnum) (h : d.Norm) :
    unpackNumber (packDnum d) = .dnum d ∨
      ∃ n : Int, unpackNumber (packDnum d) = .int n ∧ 0 ≤ d.exp ∧ d.exp ≤ 19 ∧
        n.natAbs * 10 ^ 16 = d.coef * 10 ^ d.exp.toNat ∧ (n < 0 ↔ d.sign < 0) ∧
        minInt64 ≤ n ∧ n ≤ maxInt64 := by
  obtain ⟨s, c, e⟩ := d
  obtain ⟨hs, a1, a2, a3, a4⟩ := h
  simp only at hs a1 a2 a3 a4
  obtain ⟨hne, hsm, ht, hl, hp⟩ := coefBytes7_pv10 c a1 a2
  have hcoef := unpackDnumCoef_coefBytes c a1 a2
  have hcpos : 0 < c := by simp only [coefMin] at a1; omega
  rcases hs with hs | hs <;> subst hs
  · rw [packDnum_pos]
    by_cases hc : IntDigits (coefBytes 7 c) e ∧ (e < 19 ∨ pv 10 (coefBytes 7 c) ≤ 92233720368547758070)
    · obtain ⟨hid, hr⟩ := hc
      right
      have hv := intVal_coef _ e c hid hl hp
      have hle := intVal_le _ e hid hsm hl 9223372036854775807 (by decide) hr
      have hpos : 0 < intVal (coefBytes 7 c) e := by
        rcases Nat.eq_zero_or_pos (intVal (coefBytes 7 c) e) with h0 | h0
        · rw [h0, Nat.zero_mul] at hv
          have := Nat.mul_pos hcpos (Nat.pow_pos (n := e.toNat) (show 0 < 10 by decide))
          omega
        · exact h0
      refine ⟨(intVal (coefBytes 7 c) e : Int), unpack_packed_pos_int e _ hne hsm ht hl hid hr,
        hid.1, hid.2.1, ?_, ?_, ?_, ?_⟩
      · simpa using hv
      · simp only [show ¬ ((1 : Int) < 0) by decide, iff_false]; omega
      · simp only [minInt64]; omega
      · simp only [maxInt64]; omega
    · left
      rw [unpack_packed_pos_dnum e _ hne hsm ht hl a3 a4 hc, hcoef]
  · rw [packDnum_neg]
    by_cases hc : IntDigits (coefBytes 7 c) e ∧ (e < 19 ∨ pv 10 (coefBytes 7 c) ≤ 92233720368547758080)
    · obtain ⟨hid, hr⟩ := hc
      right
      have hv := intVal_coef _ e c hid hl hp
      have hle := intVal_le _ e hid hsm hl 9223372036854775808 (by decide) hr
      have hpos : 0 < intVal (coefBytes 7 c) e := by
        rcases Nat.eq_zero_or_pos (intVal (coefBytes 7 c) e) with h0 | h0
        · rw [h0, Nat.zero_mul] at hv
          have := Nat.mul_pos hcpos (Nat.pow_pos (n := e.toNat) (show 0 < 10 by decide))
          omega
        · exact h0
      refine ⟨-(intVal (coefBytes 7 c) e : Int), unpack_packed_neg_int e _ hne hsm ht hl hid hr,
        hid.1, hid.2.1, ?_, ?_, ?_, ?_⟩
      · simpa using hv
      · simp only [show ((-1 : Int) < 0) by decide, iff_true]; omega
      · simp only [minInt64]; omega
      · simp only [maxInt64]; omega
    · left
      rw [unpack_packed_neg_dnum e _ hne hsm ht hl a3 a4 hc, hcoef]

/-! ## exactly when the integer path is taken -/

theorem pow10_split (a b : Nat) (h : b ≤ a) : 10 ^ a = 10 ^ (a - b) * 10 ^ b := by
  rw [← Nat.pow_add]; congr 1; omega

/-- an integer-valued digit-pair string (no trailing zero pair) passes `intable`'s digit tests -/
theorem intDigits_of_int (ps : List Nat) (e : Int) (c U : Nat) (hs : Small ps) (ht : NoTrail0 ps)
    (hne : ps ≠ []) (hl : ps.length ≤ 10) (hp : pv 10 ps = c * 10 ^ 4) (h0 : 0 ≤ e) (h19 : e ≤ 19)
    (hU : U * 10 ^ 16 = c * 10 ^ e.toNat) : IntDigits ps e := by
  obtain ⟨E, rfl⟩ : ∃ E : Nat, e = E := ⟨e.toNat, by omega⟩
  simp only [Int.toNat_natCast] at hU
  have hV := ofMsd_pv 10 ps hl
  rw [hp] at hV
  rcases List.eq_nil_or_concat ps with h | ⟨init, l, h⟩
  · exact absurd h hne
  rw [List.concat_eq_append] at h
  subst h
  have hl0 : l ≠ 0 := by
    intro h; subst h
    simp [NoTrail0] at ht
  have hll : l < 100 := hs l (by simp)
  simp only [List.length_append, List.length_singleton] at hl hV ⊢
  generalize hm : init.length + 1 = m at hl hV ⊢
  have hm1 : 1 ≤ m := by omega
  rw [ofMsd_append1] at hV
  generalize hVv : ofMsd 100 init * 100 + l = V at hV
  -- U · 10^20 = V · 10^(20 - 2m + E)
  have key : U * 10 ^ 20 = V * 10 ^ (20 - 2 * m + E) := by
    have e1 : (100 : Nat) ^ (10 - m) = 10 ^ (20 - 2 * m) := by
      rw [show (100 : Nat) = 10 ^ 2 by norm_num, ← Nat.pow_mul]; congr 1; omega
    rw [e1] at hV
    calc U * 10 ^ 20 = U * 10 ^ 16 * 10 ^ 4 := by rw [Nat.mul_assoc, ← Nat.pow_add]
      _ = c * 10 ^ 4 * 10 ^ E := by rw [hU]; ring
      _ = V * 10 ^ (20 - 2 * m + E) := by rw [← hV, Nat.pow_add]; ring
  refine ⟨by omega, h19, ?_, ?_⟩
  · -- fewer integer digits than significant digits: then 100 ∣ V, but the last pair is not 0
    by_cases hc : 2 * (m : Int) - 1 ≤ (E : Int)
    · simp only [List.length_append, List.length_singleton, hm]; exact hc
    · exfalso
      have hj : 20 - 2 * m + E ≤ 18 := by omega
      rw [pow10_split 20 (20 - 2 * m + E) (by omega), ← Nat.mul_assoc] at key
      have key' := Nat.eq_of_mul_eq_mul_right (Nat.pow_pos (by decide)) key
      rw [pow10_split (20 - (20 - 2 * m + E)) 2 (by omega), ← Nat.mul_assoc] at key'
      omega
  · intro hc
    simp only [List.length_append, List.length_singleton, hm] at hc
    have hj : 20 - 2 * m + E = 19 := by omega
    rw [hj, pow10_split 20 19 (by omega), ← Nat.mul_assoc] at key
    have key' := Nat.eq_of_mul_eq_mul_right (Nat.pow_pos (by decide)) key
    simp only [List.getLast?_append, List.getLast?_singleton, Option.some_or, Option.getD_some]
    omega

/-- Converse of `unpack_packDnum_full`: whenever the value of a normalised finite number is an
integer `n` of the int64 range, it does unpack as that integer. -/
theorem unpack_packDnum_int (d : Dnum) (h : d.Norm) (n : Int) (h1 : minInt64 ≤ n)
    (h2 : n ≤ maxInt64) (he : 0 ≤ d.exp) (hv : n.natAbs * 10 ^ 16 = d.coef * 10 ^ d.exp.toNat)
    (hsg : n < 0 ↔ d.sign < 0) : unpackNumber (packDnum d) = .int n := by
  obtain ⟨s, c, e⟩ := d
  obtain ⟨hs, a1, a2, a3, a4⟩ := h
  simp only at hs a1 a2 a3 a4 he hv hsg
  simp only [minInt64, maxInt64] at h1 h2
  obtain ⟨hne, hsm, ht, hl, hp⟩ := coefBytes7_pv10 c a1 a2
  -- the exponent is at most 19: otherwise the value exceeds 2^63
  have h19 : e ≤ 19 := by
    by_cases hc : e ≤ 19
    · exact hc
    · exfalso
      have p1 : 10 ^ 20 ≤ 10 ^ e.toNat := Nat.pow_le_pow_right (by decide) (by omega)
      have p2 : coefMin * 10 ^ 20 ≤ c * 10 ^ e.toNat := Nat.mul_le_mul a1 p1
      have p3 : n.natAbs ≤ 9223372036854775808 := by omega
      have p4 := Nat.mul_le_mul_right (10 ^ 16) p3
      simp only [coefMin] at p2
      omega
  have hid := intDigits_of_int _ e c n.natAbs hsm ht hne hl hp he h19 hv
  have hval : intVal (coefBytes 7 c) e = n.natAbs := by
    have := intVal_coef _ e c hid hl hp
    rw [← hv] at this
    exact Nat.eq_of_mul_eq_mul_right (by decide) this
  have hpv := intVal_pv _ e hid hl
  rw [hval] at hpv
  have hrange : ∀ M : Nat, n.natAbs ≤ M → e < 19 ∨ pv 10 (coefBytes 7 c) ≤ M * 10 := by
    intro M hM
    by_cases hc : e < 19
    · exact Or.inl hc
    · right
      have : e = 19 := by omega
      subst this
      rw [hpv]; simp only [show 20 - (19 : Int).toNat = 1 by decide, Nat.pow_one]
      omega
  rcases hs with hs | hs <;> subst hs
  · have hn : ¬ n < 0 := by simpa using hsg
    rw [packDnum_pos,
      unpack_packed_pos_int e _ hne hsm ht hl hid (hrange 9223372036854775807 (by omega)), hval]
    congr 1; omega
  · have hn : n < 0 := by simpa using hsg
    rw [packDnum_neg,
      unpack_packed_neg_int e _ hne hsm ht hl hid (hrange 9223372036854775808 (by omega)), hval]
    congr 1; omega

/-- … and when it is not an int64-valued integer it unpacks as exactly itself. -/
theorem unpack_packDnum_nonint (d : Dnum) (h : d.Norm)
    (hno : ¬ ∃ n : Int, minInt64 ≤ n ∧ n ≤ maxInt64 ∧ 0 ≤ d.exp ∧
      n.natAbs * 10 ^ 16 = d.coef * 10 ^ d.exp.toNat ∧ (n < 0 ↔ d.sign < 0)) :
    unpackNumber (packDnum d) = .dnum d := by
  rcases unpack_packDnum_full d h with h | ⟨n, _, b1, _, b3, b4, b5, b6⟩
  · exact h
  · exact absurd ⟨n, b5, b6, b1, b3, b4⟩ hno

/-! ## through the tag dispatch of `Unpack` -/

theorem unpack_num (t : UInt8) (rest : Bytes) (ht : t = tagPlus ∨ t = tagMinus)
    (hne : unpackNumber (t :: rest) ≠ .err) :
    unpack (t :: rest) = .num (unpackNumber (t :: rest)) := by
  have h1 : ¬ t = tagFalse := by rcases ht with h | h <;> subst h <;> decide
  have h2 : ¬ t = tagTrue := by rcases ht with h | h <;> subst h <;> decide
  have h3 : ¬ t = tagString := by rcases ht with h | h <;> subst h <;> decide
  have h4 : ¬ t = tagDate := by rcases ht with h | h <;> subst h <;> decide
  -- the overlapping `match` alternative is discharged with `hne`
  simp only [unpack, h1, h2, h3, h4, ht, if_false, if_true]

theorem packInt_head (n : Int) : ∃ t rest, packInt n = t :: rest ∧ (t = tagPlus ∨ t = tagMinus) := by
  rcases Int.lt_trichotomy n 0 with hn | hn | hn
  · exact ⟨_, _, packInt_neg_shape n hn, Or.inr rfl⟩
  · subst hn; exact ⟨tagPlus, [], rfl, Or.inl rfl⟩
  · exact ⟨_, _, packInt_pos_shape n hn, Or.inl rfl⟩

/-- `Unpack(SuInt64.Pack(n))` is the integer `n` -/
theorem unpack_packInt (n : Int) (h1 : minInt64 ≤ n) (h2 : n ≤ maxInt64) :
    unpack (packInt n) = .num (.int n) := by
  obtain ⟨t, rest, hs, ht⟩ := packInt_head n
  have := packInt_unpack n h1 h2
  rw [hs] at this ⊢
  rw [unpack_num t rest ht (by rw [this]; exact fun h => nomatch h), this]

theorem packDnum_head (d : Dnum) : ∃ t rest, packDnum d = t :: rest ∧ (t = tagPlus ∨ t = tagMinus) := by
  simp only [packDnum]
  split_ifs <;> first
    | exact ⟨_, _, rfl, Or.inl rfl⟩
    | exact ⟨_, _, rfl, Or.inr rfl⟩

/-- `Unpack(SuDnum.Pack(d))` is the number `UnpackNumber` returns (never an error) -/
theorem unpack_packDnum_num (d : Dnum) (h : d.Norm) :
    unpack (packDnum d) = .num (unpackNumber (packDnum d)) := by
  obtain ⟨t, rest, hs, ht⟩ := packDnum_head d
  have hne : unpackNumber (packDnum d) ≠ .err := by
    rcases unpack_packDnum_full d h with h | ⟨n, h, _⟩ <;> rw [h] <;> exact fun h => nomatch h
  rw [hs] at hne ⊢
  exact unpack_num t rest ht hne

end Gsu.Pack
