import Gsu.Proofs.Ixkey3
namespace Gsu.Ixkey
open Gsu.Proto

theorem cmpB_nil_left (b : Bytes) : cmpB [] b = if b = [] then .eq else .lt := by
  cases b <;> simp [cmpB]
theorem cmpB_nil_right (a : Bytes) : cmpB a [] = if a = [] then .eq else .gt := by
  cases a <;> simp [cmpB]

theorem cmpB_cons_same (x : UInt8) (a b : Bytes) : cmpB (x :: a) (x :: b) = cmpB a b := by
  simp [cmpB, UInt8.lt_irrefl]

theorem cmpB_swap (a b : Bytes) : cmpB b a = (cmpB a b).swap := by
  induction a generalizing b with
  | nil => cases b <;> simp [cmpB]
  | cons x a ih =>
    cases b with
    | nil => simp [cmpB]
    | cons y b =>
      simp only [cmpB]
      by_cases h1 : x < y
      · have := UInt8.lt_asymm h1
        simp [h1, this]
      · by_cases h2 : y < x
        · simp [h1, h2]
        · simp [h1, h2, ih]

theorem cmpB_eq_iff (a b : Bytes) : cmpB a b = .eq ↔ a = b := by
  induction a generalizing b with
  | nil => cases b <;> simp [cmpB]
  | cons x a ih =>
    cases b with
    | nil => simp [cmpB]
    | cons y b =>
      simp only [cmpB]
      by_cases h1 : x < y
      · have : x ≠ y := by intro h; subst h; exact UInt8.lt_irrefl _ h1
        simp [h1, this]
      · by_cases h2 : y < x
        · have : x ≠ y := by intro h; subst h; exact UInt8.lt_irrefl _ h2
          simp [h1, h2, this]
        · have : x = y := UInt8.le_antisymm (UInt8.not_lt.mp h2) (UInt8.not_lt.mp h1)
          simp [this, ih]

theorem cmpB_self (a : Bytes) : cmpB a a = .eq := (cmpB_eq_iff a a).mpr rfl

/-- what follows the first field in a trimmed key -/
def tailT (a : List Bytes) : Bytes :=
  if trimEmpty a = [] then [] else 0 :: 0 :: joinEnc (trimEmpty a)

theorem tailT_isTail (a : List Bytes) : IsTail (tailT a) := by
  unfold tailT; by_cases h : trimEmpty a = []
  · simp [h, IsTail]
  · simp [h, IsTail]

theorem joinTrim_cons (x : Bytes) (a : List Bytes) :
    joinEnc (trimEmpty (x :: a)) = enc x ++ tailT a := by
  rw [trimEmpty_cons]; unfold tailT
  by_cases h : trimEmpty a = []
  · by_cases hx : x = [] <;> simp [h, hx, joinEnc, enc]
  · simp [h, joinEnc_cons]

theorem cmpB_tailT {a b : List Bytes}
    (ih : cmpB (joinEnc (trimEmpty a)) (joinEnc (trimEmpty b)) = cmpFields a b) :
    cmpB (tailT a) (tailT b) = cmpFields a b := by
  unfold tailT
  by_cases ha : trimEmpty a = [] <;> by_cases hb : trimEmpty b = []
  · rw [ha, hb] at ih; simp [ha, hb]; exact ih
  · have := joinEnc_trim_ne_nil hb
    rw [ha] at ih
    simp [joinEnc, cmpB_nil_left, this] at ih
    simp [ha, hb, cmpB, ← ih]
  · have := joinEnc_trim_ne_nil ha
    rw [hb] at ih
    simp [joinEnc, cmpB_nil_right, this] at ih
    simp [ha, hb, cmpB, ← ih]
  · simp [ha, hb, cmpB_cons_same, ih]

/-- Lemma J -/
theorem cmpB_joinTrim (a b : List Bytes) (h : a.length = b.length) :
    cmpB (joinEnc (trimEmpty a)) (joinEnc (trimEmpty b)) = cmpFields a b := by
  induction a generalizing b with
  | nil =>
    cases b with
    | nil => simp [trimEmpty, joinEnc, cmpB, cmpFields]
    | cons y b => simp at h
  | cons x a ih =>
    cases b with
    | nil => simp at h
    | cons y b =>
      have hl : a.length = b.length := by simpa using h
      rw [joinTrim_cons, joinTrim_cons, enc_cmp _ _ _ _ (tailT_isTail a) (tailT_isTail b),
        cmpB_tailT (ih b hl)]
      simp only [cmpFields]
      cases cmpB x y <;> rfl

/-- Lemma JE -/
theorem cmpB_joinEnc (a b : List Bytes) (h : a.length = b.length) :
    cmpB (joinEnc a) (joinEnc b) = cmpFields a b := by
  induction a generalizing b with
  | nil =>
    cases b with
    | nil => simp [joinEnc, cmpB, cmpFields]
    | cons y b => simp at h
  | cons x a ih =>
    cases b with
    | nil => simp at h
    | cons y b =>
      have hl : a.length = b.length := by simpa using h
      rw [joinEnc_cons, joinEnc_cons]
      have ta : IsTail (if a = [] then [] else 0 :: 0 :: joinEnc a) := by
        by_cases h : a = [] <;> simp [h, IsTail]
      have tb : IsTail (if b = [] then [] else 0 :: 0 :: joinEnc b) := by
        by_cases h : b = [] <;> simp [h, IsTail]
      rw [enc_cmp _ _ _ _ ta tb]
      simp only [cmpFields]
      have : cmpB (if a = [] then [] else 0 :: 0 :: joinEnc a) (if b = [] then [] else 0 :: 0 :: joinEnc b)
          = cmpFields a b := by
        by_cases ha : a = []
        · subst ha
          have hb : b = [] := by cases b with | nil => rfl | cons _ _ => simp at hl
          subst hb; simp [cmpB, cmpFields]
        · have hb : b ≠ [] := by intro hb; subst hb; cases a with | nil => exact ha rfl | cons _ _ => simp at hl
          simp [ha, hb, cmpB_cons_same, ih b hl]
      rw [this]
      cases cmpB x y <;> rfl

theorem seps_cons {α : Type} (n : α) (l : List α) :
    (n :: l).flatMap (fun _ => sep) = 0 :: 0 :: l.flatMap (fun _ => sep) := by
  simp [sep]

/-- Lemma S -/
theorem cmpB_seps_lt {α : Type} (l : List α) (a : List Bytes) (hl : l.length = a.length)
    (h : trimEmpty a ≠ []) (X : Bytes) :
    cmpB (l.flatMap (fun _ => sep) ++ X) (joinEnc (trimEmpty a)) = .lt := by
  induction a generalizing l with
  | nil => exact absurd rfl h
  | cons x a ih =>
    cases l with
    | nil => simp at hl
    | cons n l =>
      have hl' : l.length = a.length := by simpa using hl
      rw [seps_cons, joinTrim_cons]
      cases x with
      | nil =>
        have ha : trimEmpty a ≠ [] := by
          intro ha; rw [trimEmpty_cons] at h; simp [ha] at h
        simp only [enc, List.nil_append, tailT, ha, if_false, List.cons_append]
        rw [cmpB_cons_same, cmpB_cons_same]
        exact ih l hl' ha
      | cons c cs =>
        by_cases hc : c = 0
        · subst hc
          rw [enc_zero]
          simp [cmpB, UInt8.lt_irrefl]
        · rw [enc_nz hc]
          simp [cmpB, zpos hc]

theorem cmpB_seps_gt {α : Type} (l : List α) (a : List Bytes) (hl : l.length = a.length)
    (h : trimEmpty a ≠ []) (X : Bytes) :
    cmpB (joinEnc (trimEmpty a)) (l.flatMap (fun _ => sep) ++ X) = .gt := by
  rw [cmpB_swap, cmpB_seps_lt l a hl h X]; rfl

theorem cmpFields_allE_eq (a b : List Bytes)
    (ha : a.all (· = []) = true) (hb : b.all (· = []) = true) : cmpFields a b = .eq := by
  induction a generalizing b with
  | nil => simp [cmpFields]
  | cons x a ih =>
    cases b with
    | nil => simp [cmpFields]
    | cons y b =>
      simp only [List.all_cons, Bool.and_eq_true, decide_eq_true_eq] at ha hb
      rw [ha.1, hb.1]
      simp only [cmpFields, cmpB]
      exact ih b ha.2 hb.2

theorem cmpFields_allE_lt (a b : List Bytes) (hl : a.length = b.length)
    (ha : a.all (· = []) = true) (hb : ¬ b.all (· = []) = true) : cmpFields a b = .lt := by
  induction a generalizing b with
  | nil =>
    cases b with
    | nil => simp at hb
    | cons y b => simp at hl
  | cons x a ih =>
    cases b with
    | nil => simp at hl
    | cons y b =>
      have hl' : a.length = b.length := by simpa using hl
      simp only [List.all_cons, Bool.and_eq_true, decide_eq_true_eq] at ha hb
      rw [ha.1]
      simp only [cmpFields]
      by_cases hy : y = []
      · subst hy
        simp only [cmpB]
        exact ih b hl' ha.2 (fun h => hb ⟨rfl, h⟩)
      · simp [cmpB_nil_left, hy]

theorem cmpFields_swap (a b : List Bytes) : cmpFields b a = (cmpFields a b).swap := by
  induction a generalizing b with
  | nil => cases b <;> simp [cmpFields]
  | cons x a ih =>
    cases b with
    | nil => simp [cmpFields]
    | cons y b =>
      simp only [cmpFields]
      rw [cmpB_swap x y, ih b]
      cases cmpB x y <;> rfl

theorem cmpFields_allE_gt (a b : List Bytes) (hl : a.length = b.length)
    (ha : ¬ a.all (· = []) = true) (hb : b.all (· = []) = true) : cmpFields a b = .gt := by
  rw [cmpFields_swap, cmpFields_allE_lt b a hl.symm hb ha]; rfl

end Gsu.Ixkey
