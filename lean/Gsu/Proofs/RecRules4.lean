/-
C35, global coherence of the record-rule cache, part 3: every operation (`put` of a plain field,
`get`/`delete`/`Invalidate` of any field, `Copy`, attaching an observer) preserves the top-level
invariant `TInv`, hence it holds after every history from the empty record (`run_tinv`).
-/
import Gsu.Proofs.RecRules3
namespace Gsu.RecRules

/-- the invariant of a record between operations: `NInv` with nothing exempted, for the
environment given by the record's own plain fields -/
def TInv (rules : Rules) (rank : Field → Nat) (r : Rec) : Prop :=
  NInv rules rank (plainEnv r.vals) r []

theorem spec_congr (rules : Rules) (rank : Field → Nat) (g g' : Field → Val)
    (h : ∀ f, lk rules f = none → g f = g' f) (k : Field) :
    spec rules rank g k = spec rules rank g' k := specN_congr rules g g' h _ k

theorem NInv.congr {rules : Rules} {rank : Field → Nat} {g g' : Field → Val} {r : Rec}
    {P : List Field} (h : NInv rules rank g r P) (hg : ∀ f, lk rules f = none → g f = g' f) :
    NInv rules rank g' r P := by
  refine ⟨?_, h.ds, h.cl, h.nd⟩
  intro k rule v hr hv hi hp
  obtain ⟨h1, h2⟩ := h.coh k rule v hr hv hi hp
  exact ⟨by rw [h1, spec_congr rules rank g g' hg], h2⟩

/-- the invariant only looks at values, invalid set and dependencies -/
theorem NInv.of_same {rules : Rules} {rank : Field → Nat} {g : Field → Val} {r r' : Rec}
    {P : List Field} (h : NInv rules rank g r P) (hv : r'.vals = r.vals)
    (hi : r'.invalid = r.invalid) (hd : r'.deps = r.deps) : NInv rules rank g r' P := by
  obtain ⟨v, i, d, q, l, o⟩ := r'
  simp only at hv hi hd
  subst hv hi hd
  exact ⟨h.coh, h.ds, h.cl, h.nd⟩

/-- storing a plain field (and marking it valid) -/
theorem NInv.put0 {rules : Rules} {rank : Field → Nat} {g : Field → Val} {r : Rec}
    (h : NInv rules rank g r []) {k : Field} (hk : lk rules k = none) (w : Val) :
    NInv rules rank g { r with invalid := r.invalid.erase k, vals := setv r.vals k w } [] := by
  refine ⟨?_, h.ds, ?_, h.nd.erase k⟩
  · intro j rule v hr hv hi hp
    have hjk : j ≠ k := by rintro rfl; rw [hk] at hr; cases hr
    simp only [lk_setv, hjk, if_false] at hv
    have hi' : j ∉ r.invalid := fun hm => hi ((List.mem_erase_of_ne hjk).2 hm)
    obtain ⟨h1, h2⟩ := h.coh j rule v hr hv hi' hp
    refine ⟨h1, ?_⟩
    intro f hf
    obtain ⟨h3, h4⟩ := h2 f hf
    refine ⟨h3, ?_⟩
    intro rf hrf
    refine ⟨fun hm => (h4 rf hrf).1 (List.mem_of_mem_erase hm), ?_⟩
    simp only [lk_setv]
    split
    · exact ⟨_, rfl⟩
    · exact (h4 rf hrf).2
  · intro f hf d hd
    rcases h.cl f (List.mem_of_mem_erase hf) d hd with hm | hm
    · have hdk : d ≠ k := by
        rintro rfl
        exact h.ds.plain_not_dep hk f hd
      exact Or.inl ((List.mem_erase_of_ne hdk).2 hm)
    · exact Or.inr hm

/-- removing a plain field -/
theorem NInv.del0 {rules : Rules} {rank : Field → Nat} {g : Field → Val} {r : Rec}
    (h : NInv rules rank g r []) {k : Field} (hk : lk rules k = none) :
    NInv rules rank g { r with vals := delv r.vals k } [] := by
  refine ⟨?_, h.ds, h.cl, h.nd⟩
  intro j rule v hr hv hi hp
  have hjk : j ≠ k := by rintro rfl; rw [hk] at hr; cases hr
  simp only [lk_delv, hjk, if_false] at hv
  obtain ⟨h1, h2⟩ := h.coh j rule v hr hv hi hp
  refine ⟨h1, ?_⟩
  intro f hf
  obtain ⟨h3, h4⟩ := h2 f hf
  refine ⟨h3, ?_⟩
  intro rf hrf
  refine ⟨(h4 rf hrf).1, ?_⟩
  have hfk : f ≠ k := by rintro rfl; rw [hk] at hrf; cases hrf
  simp only [lk_delv, hfk, if_false]
  exact (h4 rf hrf).2

/-- a cached rule field that is still valid after the invalidation caused by a change of the
plain field `k` does not (transitively) read `k`: its specification value is unchanged -/
theorem spec_unchanged {rules : Rules} {rank : Field → Nat} {g g' : Field → Val} {r0 ri : Rec}
    {k : Field} (h0 : NInv rules rank g r0 []) (hs : InvStep r0 ri) (hcl : ClosedX ri [])
    (hk : ∀ d ∈ depsOf r0 k, d ∈ ri.invalid)
    (hg : ∀ f, f ≠ k → lk rules f = none → g' f = g f) (m : Nat) :
    ∀ j rule v, lk rules j = some rule → lk r0.vals j = some v → j ∉ ri.invalid →
      specN m rules g j = specN m rules g' j := by
  induction m with
  | zero => intro j rule v hr _ _; simp [specN, hr]
  | succ m ih =>
    intro j rule v hr hv hi
    rw [specN_rule _ _ _ _ _ hr, specN_rule _ _ _ _ _ hr]
    apply specE_congr
    intro f hf
    have hi0 : j ∉ r0.invalid := fun hm => hi (hs.sub j hm)
    obtain ⟨_, h2⟩ := h0.coh j rule v hr hv hi0 (by simp)
    obtain ⟨h3, h4⟩ := h2 f hf
    have hfi : f ∉ ri.invalid := by
      intro hm
      have hd : j ∈ depsOf ri f := by rw [depsOf_eq_of_deps hs.deps]; exact h3
      rcases hcl f hm j hd with h | h
      · exact hi h
      · simp at h
    have hfk : f ≠ k := by
      rintro rfl
      exact hi (hk j h3)
    cases hrf : lk rules f with
    | none => rw [specN_plain _ _ _ _ hrf, specN_plain _ _ _ _ hrf, hg f hfk hrf]
    | some rf =>
      obtain ⟨_, w, hw⟩ := h4 rf hrf
      exact ih f rf w hrf hw hfi

/-- after a complete invalidation of the dependents of a changed plain field `k` the invariant
holds for the new environment -/
theorem NInv.after_invalidate {rules : Rules} {rank : Field → Nat} {g g' : Field → Val}
    {r0 ri : Rec} {k : Field} (h0 : NInv rules rank g r0 []) (hs : InvStep r0 ri)
    (hcl : ClosedX ri []) (hk : ∀ d ∈ depsOf r0 k, d ∈ ri.invalid)
    (hg : ∀ f, f ≠ k → lk rules f = none → g' f = g f) : NInv rules rank g' ri [] := by
  refine ⟨?_, ?_, hcl, hs.nd h0.nd⟩
  · intro j rule v hr hv hi hp
    rw [hs.vals] at hv
    have hi0 : j ∉ r0.invalid := fun hm => hi (hs.sub j hm)
    obtain ⟨h1, h2⟩ := h0.coh j rule v hr hv hi0 hp
    refine ⟨?_, ?_⟩
    · rw [h1]
      exact spec_unchanged h0 hs hcl hk hg _ j rule v hr hv hi
    · intro f hf
      obtain ⟨h3, h4⟩ := h2 f hf
      have hd : j ∈ depsOf ri f := by rw [depsOf_eq_of_deps hs.deps]; exact h3
      refine ⟨hd, ?_⟩
      intro rf hrf
      refine ⟨?_, ?_⟩
      · intro hm
        rcases hcl f hm j hd with h | h
        · exact hi h
        · simp at h
      · rw [hs.vals]; exact (h4 rf hrf).2
  · intro f d hd
    rw [depsOf_eq_of_deps hs.deps] at hd
    exact h0.ds f d hd

theorem callObservers_same (r : Rec) (k : Field) :
    (callObservers r k).vals = r.vals ∧ (callObservers r k).invalid = r.invalid ∧
      (callObservers r k).deps = r.deps := ⟨rfl, rfl, rfl⟩

/-- `invalidateDependents(k)` with full fuel: closed afterwards, all dependents of `k` invalid -/
theorem invalidateDependents_closed {rules : Rules} {rank : Field → Nat}
    (ha : Acyc rules rank) {n : Nat} (hN : ∀ k, rank k < n) {r : Rec}
    (hds : DepsSound rules r) (hc : ClosedX r []) (k : Field) :
    ClosedX (invalidateDependents n r k) [] ∧
      ∀ d ∈ depsOf r k, d ∈ (invalidateDependents n r k).invalid := by
  unfold invalidateDependents
  exact foldl_closed rank n n (invalidateN_closed rank n hN n) [] (depsOf r k) r
    (hds.rank_lt ha) (fun d _ => by omega) (hc.mono (fun d hd => by simp at hd))

/-- deleting the cached member of a rule field `k` and invalidating its dependents: the plain
fields are untouched, and every reader of `k` is invalid afterwards -/
theorem NInv.after_delete_rule {rules : Rules} {rank : Field → Nat} {g : Field → Val}
    {r ri : Rec} {k : Field} (h : NInv rules rank g r [])
    (hs : InvStep { r with vals := delv r.vals k } ri) (hcl : ClosedX ri [])
    (hk : ∀ d ∈ depsOf r k, d ∈ ri.invalid) : NInv rules rank g ri [] := by
  have hvals : ri.vals = delv r.vals k := hs.vals
  have hdeps : ri.deps = r.deps := hs.deps
  refine ⟨?_, ?_, hcl, hs.nd h.nd⟩
  · intro j rule v hr hv hi hp
    rw [hvals, lk_delv] at hv
    split at hv
    · cases hv
    · have hi0 : j ∉ r.invalid := fun hm => hi (hs.sub j hm)
      obtain ⟨h1, h2⟩ := h.coh j rule v hr hv hi0 hp
      refine ⟨h1, ?_⟩
      intro f hf
      obtain ⟨h3, h4⟩ := h2 f hf
      have hd : j ∈ depsOf ri f := by rw [depsOf_eq_of_deps hdeps]; exact h3
      refine ⟨hd, ?_⟩
      intro rf hrf
      refine ⟨?_, ?_⟩
      · intro hm
        rcases hcl f hm j hd with h' | h'
        · exact hi h'
        · simp at h'
      · have hfk : f ≠ k := by
          rintro rfl
          exact hi (hk j h3)
        rw [hvals]
        simp only [lk_delv, hfk, if_false]
        exact (h4 rf hrf).2
  · intro f d hd
    rw [depsOf_eq_of_deps hdeps] at hd
    exact h.ds f d hd

/-! ### the operations -/

theorem put_tinv {rules : Rules} {rank : Field → Nat} (ha : Acyc rules rank) {n : Nat}
    (hN : ∀ k, rank k < n) {r : Rec} (h : TInv rules rank r) {k : Field}
    (hk : lk rules k = none) (v : Int) : TInv rules rank (put n r k v) := by
  have h0 := NInv.put0 h hk (some v)
  simp only [put]
  split
  · rename_i hold
    apply h0.congr
    intro f _
    simp only [plainEnv, lk_setv]
    split
    · rename_i hfk; subst hfk; rw [hold]
    · rfl
  · obtain ⟨hcl, hdk⟩ := invalidateDependents_closed ha hN h0.ds h0.cl k
    have hs := invalidateDependents_invStep n
      { r with invalid := r.invalid.erase k, vals := setv r.vals k (some v) } k
    have h1 : NInv rules rank (plainEnv (invalidateDependents n
        { r with invalid := r.invalid.erase k, vals := setv r.vals k (some v) } k).vals)
        (invalidateDependents n
          { r with invalid := r.invalid.erase k, vals := setv r.vals k (some v) } k) [] := by
      apply h0.after_invalidate hs hcl hdk
      intro f hfk _
      rw [hs.vals]
      simp [plainEnv, lk_setv, hfk]
    exact h1.of_same rfl rfl rfl

theorem delete_plain_tinv {rules : Rules} {rank : Field → Nat} (ha : Acyc rules rank) {n : Nat}
    (hN : ∀ k, rank k < n) {r : Rec} (h : TInv rules rank r) {k : Field}
    (hk : lk rules k = none) : TInv rules rank (delete n r k).1 := by
  have h0 := NInv.del0 h hk
  simp only [delete]
  split
  · exact h
  · obtain ⟨hcl, hdk⟩ := invalidateDependents_closed ha hN h0.ds h0.cl k
    have hs := invalidateDependents_invStep n { r with vals := delv r.vals k } k
    have h1 : NInv rules rank (plainEnv (invalidateDependents n
        { r with vals := delv r.vals k } k).vals)
        (invalidateDependents n { r with vals := delv r.vals k } k) [] := by
      apply h0.after_invalidate hs hcl hdk
      intro f hfk _
      rw [hs.vals]
      simp [plainEnv, lk_delv, hfk]
    exact h1.of_same rfl rfl rfl

theorem delete_rule_tinv {rules : Rules} {rank : Field → Nat} (ha : Acyc rules rank) {n : Nat}
    (hN : ∀ k, rank k < n) {r : Rec} (h : TInv rules rank r) {k : Field} {rk : Rule}
    (hk : lk rules k = some rk) : TInv rules rank (delete n r k).1 := by
  simp only [delete]
  split
  · exact h
  · have hs := invalidateDependents_invStep n { r with vals := delv r.vals k } k
    obtain ⟨hcl, hdk⟩ := invalidateDependents_closed (r := { r with vals := delv r.vals k })
      ha hN h.ds h.cl k
    have h1 : NInv rules rank (plainEnv r.vals)
        (invalidateDependents n { r with vals := delv r.vals k } k) [] :=
      h.after_delete_rule hs hcl hdk
    have h2 := h1.congr (g' := plainEnv (invalidateDependents n
        { r with vals := delv r.vals k } k).vals) (by
      intro f hf
      have hfk : f ≠ k := by rintro rfl; rw [hk] at hf; cases hf
      rw [hs.vals]
      simp [plainEnv, lk_delv, hfk])
    exact h2.of_same rfl rfl rfl

/-- `delete` of any member (a plain field, or the cached value of a rule field) -/
theorem delete_tinv {rules : Rules} {rank : Field → Nat} (ha : Acyc rules rank) {n : Nat}
    (hN : ∀ k, rank k < n) {r : Rec} (h : TInv rules rank r) (k : Field) :
    TInv rules rank (delete n r k).1 := by
  cases hk : lk rules k with
  | none => exact delete_plain_tinv ha hN h hk
  | some rk => exact delete_rule_tinv ha hN h hk

theorem invalidateOp_tinv {rules : Rules} {rank : Field → Nat} (ha : Acyc rules rank) {n : Nat}
    (hN : ∀ k, rank k < n) {r : Rec} (h : TInv rules rank r) (k : Field) :
    TInv rules rank (invalidateOp n r k) := by
  have hs := invalidateN_invStep n r k
  obtain ⟨hcl, hki⟩ := invalidateN_closed rank n hN n r k [] (h.ds.rank_lt ha) (by omega)
    (h.cl.mono (fun d hd => by simp at hd))
  have hdk : ∀ d ∈ depsOf r k, d ∈ (invalidateN n r k).invalid := by
    intro d hd
    have hd' : d ∈ depsOf (invalidateN n r k) k := by rw [depsOf_eq_of_deps hs.deps]; exact hd
    rcases hcl k hki d hd' with h | h
    · exact h
    · simp at h
  have h1 : NInv rules rank (plainEnv (invalidateN n r k).vals) (invalidateN n r k) [] := by
    apply NInv.after_invalidate h hs hcl hdk
    intro f _ _
    rw [hs.vals]
  exact h1.of_same rfl rfl rfl

theorem get_post {rules : Rules} {rank : Field → Nat} (ha : Acyc rules rank) {n : Nat}
    (hN : ∀ k, rank k < n) {r : Rec} (h : TInv rules rank r) (k : Field) :
    GetPost rules rank (plainEnv r.vals) [] r k (getN n rules [] r k) :=
  getOK ha (plainEnv r.vals) n [] r k (hN k) (by simp) (by simp) h (fun _ _ => rfl)

theorem get_tinv {rules : Rules} {rank : Field → Nat} (ha : Acyc rules rank) {n : Nat}
    (hN : ∀ k, rank k < n) {r : Rec} (h : TInv rules rank r) (k : Field) :
    TInv rules rank (getN n rules [] r k).1 := by
  have hp := get_post ha hN h k
  exact hp.inv.congr (fun f hf => (hp.pa f hf).symm)

theorem copy_tinv {rules : Rules} {rank : Field → Nat} {r : Rec} (h : TInv rules rank r) :
    TInv rules rank (copy r) := NInv.of_same h rfl rfl rfl

theorem empty_tinv (rules : Rules) (rank : Field → Nat) : TInv rules rank {} := by
  refine ⟨?_, ?_, ?_, List.nodup_nil⟩
  · intro k rule v _ hv; simp [lk] at hv
  · intro f d hd; simp [depsOf, lk] at hd
  · intro f hf; simp at hf

/-! ### histories -/

/-- the operations on one record (`copy`: continue with the record's `Copy()`) -/
inductive Op where
  | put (k : Field) (v : Int)
  | get (k : Field)
  | del (k : Field)
  | inv (k : Field)
  | copy
  | obs
  | clearLog
  deriving Repr, DecidableEq

def stepOp (n : Nat) (rules : Rules) (r : Rec) : Op → Rec
  | .put k v => put n r k v
  | .get k => (getN n rules [] r k).1
  | .del k => (delete n r k).1
  | .inv k => invalidateOp n r k
  | .copy => copy r
  | .obs => { r with obs := true }
  | .clearLog => { r with log := [] }

/-- the record after a history of operations from the empty record -/
def run (n : Nat) (rules : Rules) (ops : List Op) : Rec := ops.foldl (stepOp n rules) {}

/-- `put` acts on plain fields only (assigning a rule field overrides its rule); `delete` may
also remove the cached member of a rule field -/
def Op.ok (rules : Rules) : Op → Prop
  | .put k _ => lk rules k = none
  | _ => True

instance (rules : Rules) (op : Op) : Decidable (op.ok rules) :=
  match op with
  | .put k _ => decidable_of_iff ((lk rules k).isNone = true) (by simp [Op.ok])
  | .del _ => isTrue trivial
  | .get _ => isTrue trivial
  | .inv _ => isTrue trivial
  | .copy => isTrue trivial
  | .obs => isTrue trivial
  | .clearLog => isTrue trivial

theorem stepOp_tinv {rules : Rules} {rank : Field → Nat} (ha : Acyc rules rank) {n : Nat}
    (hN : ∀ k, rank k < n) {r : Rec} (h : TInv rules rank r) (op : Op) (hop : op.ok rules) :
    TInv rules rank (stepOp n rules r op) := by
  cases op with
  | put k v => exact put_tinv ha hN h hop v
  | get k => exact get_tinv ha hN h k
  | del k => exact delete_tinv ha hN h k
  | inv k => exact invalidateOp_tinv ha hN h k
  | copy => exact copy_tinv h
  | obs => exact NInv.of_same h rfl rfl rfl
  | clearLog => exact NInv.of_same h rfl rfl rfl

theorem foldl_tinv {rules : Rules} {rank : Field → Nat} (ha : Acyc rules rank) {n : Nat}
    (hN : ∀ k, rank k < n) (ops : List Op) : ∀ (r : Rec), TInv rules rank r →
    (∀ op ∈ ops, op.ok rules) → TInv rules rank (ops.foldl (stepOp n rules) r) := by
  induction ops with
  | nil => intro r h _; exact h
  | cons op ops ih =>
    intro r h hops
    exact ih _ (stepOp_tinv ha hN h op (hops op (by simp))) (fun o ho => hops o (by simp [ho]))

/-- the invariant holds in every reachable state -/
theorem run_tinv {rules : Rules} {rank : Field → Nat} (ha : Acyc rules rank) {n : Nat}
    (hN : ∀ k, rank k < n) (ops : List Op) (hops : ∀ op ∈ ops, op.ok rules) :
    TInv rules rank (run n rules ops) :=
  foldl_tinv ha hN ops {} (empty_tinv rules rank) hops

end Gsu.RecRules
