/-
C39 (ranges), tree form, part 1: the invariant restated on the flat list of live slots
(`TreeOK'`, equivalent to `TreeOK`), and access lemmas for a tree written `pre ++ X :: post`.
Core-only.
-/
import Gsu.Proofs.RangesIns
namespace Gsu.Ranges
open Gsu.Ordset (Key bs bs_unique Sorted)

/-- all live slots of a tree node, in order -/
def tflat (t : Tree) : List Slot := t.flatMap (·.leaf.live)

theorem tflat_nil : tflat [] = [] := rfl
theorem tflat_cons (s : TSlot) (t : Tree) : tflat (s :: t) = s.leaf.live ++ tflat t := rfl
theorem tflat_append (a b : Tree) : tflat (a ++ b) = tflat a ++ tflat b := by
  simp [tflat]

theorem flat_big (t : Tree) : Ranges.flat (.big t) = tflat t := rfl

theorem mem_tflat {t : Tree} {x : Slot} : x ∈ tflat t ↔ ∃ s ∈ t, x ∈ s.leaf.live := by
  simp [tflat, List.mem_flatMap]

/-- array length, size bound, no empty leaf -/
structure Shape (P : Params) (s : TSlot) : Prop where
  len : s.leaf.slots.length = P.nodeSize
  sz : s.leaf.size ≤ P.nodeSize
  pos : 0 < s.leaf.size

/-- the separator is the start of the first range of the leaf -/
def SepEq (s : TSlot) : Prop := ∃ x rest, s.leaf.live = x :: rest ∧ s.val = x.frm

/-- `TreeOK` on the flat list: shapes, separator invariant, and the whole sequence of live slots
is ascending and disjoint -/
structure TreeOK' (P : Params) (t : Tree) : Prop where
  ne : t ≠ []
  len : t.length ≤ P.nodeSize
  first : ∀ s, t.head? = some s → s.val = []
  shape : ∀ s ∈ t, Shape P s
  sepEq : ∀ s ∈ t.tail, SepEq s
  ds : DisjSorted (tflat t)

theorem DisjSorted.left {a b : List Slot} (h : DisjSorted (a ++ b)) : DisjSorted a :=
  ⟨fun s hs => h.wf s (List.mem_append_left _ hs), (List.pairwise_append.mp h.sep).1⟩

theorem DisjSorted.right {a b : List Slot} (h : DisjSorted (a ++ b)) : DisjSorted b :=
  ⟨fun s hs => h.wf s (List.mem_append_right _ hs), (List.pairwise_append.mp h.sep).2.1⟩

theorem DisjSorted.cross {a b : List Slot} (h : DisjSorted (a ++ b)) :
    ∀ x ∈ a, ∀ y ∈ b, x.to < y.frm := (List.pairwise_append.mp h.sep).2.2

theorem DisjSorted.append {a b : List Slot} (ha : DisjSorted a) (hb : DisjSorted b)
    (hx : ∀ x ∈ a, ∀ y ∈ b, x.to < y.frm) : DisjSorted (a ++ b) :=
  ⟨fun s hs => (List.mem_append.mp hs).elim (ha.wf s) (hb.wf s),
    List.pairwise_append.mpr ⟨ha.sep, hb.sep, hx⟩⟩

theorem DisjSorted.nil : DisjSorted [] := ⟨by simp, List.Pairwise.nil⟩

theorem nil_le_key (k : Key) : ([] : Key) ≤ k := List.nil_le k

/-- in a disjoint sorted list the head starts lowest -/
theorem ds_head_le {x : Slot} {rest : List Slot} (h : DisjSorted (x :: rest)) :
    ∀ y ∈ x :: rest, x.frm ≤ y.frm := by
  intro y hy
  rcases List.mem_cons.mp hy with rfl | hy
  · exact Std.le_refl _
  · have h1 := (List.pairwise_cons.mp h.sep).1 y hy
    have h2 := h.wf x List.mem_cons_self
    grind

theorem leaf_ds_of_tflat {t : Tree} (h : DisjSorted (tflat t)) : ∀ s ∈ t, DisjSorted s.leaf.live := by
  induction t with
  | nil => intro s hs; cases hs
  | cons a t ih =>
    rw [tflat_cons] at h
    intro s hs
    rcases List.mem_cons.mp hs with rfl | hs
    · exact h.left
    · exact ih h.right s hs

theorem tflat_ds_of {t : Tree} (hl : ∀ s ∈ t, DisjSorted s.leaf.live)
    (ho : t.Pairwise Before) (hlow : ∀ s ∈ t, ∀ x ∈ s.leaf.live, s.val ≤ x.frm) :
    DisjSorted (tflat t) := by
  induction t with
  | nil => exact DisjSorted.nil
  | cons a t ih =>
    rw [tflat_cons]
    rw [List.pairwise_cons] at ho
    refine DisjSorted.append (hl a List.mem_cons_self)
      (ih (fun s hs => hl s (List.mem_cons_of_mem _ hs)) ho.2
        (fun s hs => hlow s (List.mem_cons_of_mem _ hs))) ?_
    intro x hx y hy
    obtain ⟨b, hb, hyb⟩ := mem_tflat.mp hy
    have h1 := (ho.1 b hb).2 x hx
    have h2 := hlow b (List.mem_cons_of_mem _ hb) y hyb
    grind

theorem treeOK'_of_treeOK {P : Params} {t : Tree} (h : TreeOK P t) : TreeOK' P t :=
  ⟨h.ne, h.len, h.first,
    fun s hs => ⟨(h.slots s hs).leaf.len, (h.slots s hs).leaf.sz, (h.slots s hs).pos⟩,
    h.sepEq,
    tflat_ds_of (fun s hs => (h.slots s hs).leaf.ds) h.ordered (fun s hs => (h.slots s hs).lower)⟩

theorem live_ne_nil {P : Params} {s : TSlot} (h : Shape P s) : s.leaf.live ≠ [] := by
  intro h0
  have := congrArg List.length h0
  simp only [Leaf.live, List.length_take, h.len, List.length_nil] at this
  have := h.sz; have := h.pos
  omega

theorem before_of {t : Tree} (hne : ∀ s ∈ t, s.leaf.live ≠ [])
    (hsep : ∀ s ∈ t.tail, SepEq s) (hlow : ∀ s ∈ t, ∀ x ∈ s.leaf.live, s.val ≤ x.frm)
    (hds : DisjSorted (tflat t)) : t.Pairwise Before := by
  induction t with
  | nil => exact List.Pairwise.nil
  | cons a t ih =>
    rw [tflat_cons] at hds
    rw [List.pairwise_cons]
    refine ⟨?_, ih (fun s hs => hne s (List.mem_cons_of_mem _ hs))
      (fun s hs => hsep s (List.mem_of_mem_tail hs))
      (fun s hs => hlow s (List.mem_cons_of_mem _ hs)) hds.right⟩
    intro b hb
    obtain ⟨x, rest, hx, hv⟩ := hsep b hb
    have hxb : x ∈ tflat t := mem_tflat.mpr ⟨b, hb, by rw [hx]; exact List.mem_cons_self⟩
    have hcross := hds.cross
    refine ⟨?_, fun y hy => by rw [hv]; exact hcross y hy x hxb⟩
    cases ha : a.leaf.live with
    | nil => exact absurd ha (hne a List.mem_cons_self)
    | cons y0 r0 =>
      have hy0 : y0 ∈ a.leaf.live := by rw [ha]; exact List.mem_cons_self
      have h1 := hlow a List.mem_cons_self y0 hy0
      have h2 := hds.left.wf y0 hy0
      have h3 := hcross y0 hy0 x hxb
      rw [hv]
      grind

theorem lower_of {t : Tree} (hfirst : ∀ s, t.head? = some s → s.val = [])
    (hsep : ∀ s ∈ t.tail, SepEq s) (hds : ∀ s ∈ t, DisjSorted s.leaf.live) :
    ∀ s ∈ t, ∀ x ∈ s.leaf.live, s.val ≤ x.frm := by
  intro s hs x hx
  cases t with
  | nil => cases hs
  | cons a t =>
    rcases List.mem_cons.mp hs with rfl | hs
    · rw [hfirst s rfl]; exact nil_le_key _
    · obtain ⟨y, rest, hy, hv⟩ := hsep s hs
      have hd := hds s (List.mem_cons_of_mem _ hs)
      rw [hy] at hd hx
      rw [hv]
      exact ds_head_le hd x hx

theorem treeOK_of_treeOK' {P : Params} {t : Tree} (h : TreeOK' P t) : TreeOK P t := by
  have hl := leaf_ds_of_tflat h.ds
  have hlow := lower_of h.first h.sepEq hl
  exact ⟨h.ne, h.len, h.first,
    fun s hs => ⟨⟨(h.shape s hs).len, (h.shape s hs).sz, hl s hs⟩, (h.shape s hs).pos, hlow s hs⟩,
    before_of (fun s hs => live_ne_nil (h.shape s hs)) h.sepEq hlow h.ds, h.sepEq⟩

theorem treeOK_iff {P : Params} {t : Tree} : TreeOK P t ↔ TreeOK' P t :=
  ⟨treeOK'_of_treeOK, treeOK_of_treeOK'⟩

end Gsu.Ranges
