import Gsu.Proofs.SchemaAlg2
/-!
C21, part 3: `dropFkeys` in closed form and `drop` preserves `LWF`.
-/
namespace Gsu.SchemaAlg

/-- the entries that the `dropFkeys` step for index `c` of table `tn` (as it is in `old`)
removes from the `fkToHere` list of index `ic` of table `n` -/
def dropQ (old : Db) (tn : String) (whole : Bool) (c : List String) (n : String)
    (ic : List String) (f : Fkey) : Bool :=
  match getT old tn with
  | none => false
  | some sch =>
    match findIdx sch c with
    | none => false
    | some i =>
      !((getIdx sch i).fk.table == "" || (whole && (getIdx sch i).fk.table == tn)) &&
      (n == (getIdx sch i).fk.table &&
       (ic == (if (getIdx sch i).fk.columns.isEmpty then (getIdx sch i).columns else (getIdx sch i).fk.columns) &&
        (f.table == tn && f.columns == (getIdx sch i).columns)))

/-- an index with its `fkToHere` filtered -/
def filtBack (p : Fkey → Bool) (ix : Index) : Index := { ix with fkToHere := ix.fkToHere.filter p }

theorem filtBack_true (ix : Index) : filtBack (fun _ => true) ix = ix := by
  cases ix; simp [filtBack]

/-- one iteration of `dropFkeys` -/
def dropStep (old db : Db) (tn : String) (whole : Bool) (cols : List String) : Db :=
  match getT old tn with
  | none => db
  | some sch =>
    match findIdx sch cols with
    | none => db
    | some i =>
      let idx := getIdx sch i
      let fk := idx.fk
      if fk.table == "" || (whole && fk.table == tn) then db else
      let fkCols := if fk.columns.isEmpty then idx.columns else fk.columns
      db.map (fun t => if t.name == fk.table then
        { t with indexes := t.indexes.map (fun ix =>
            if ix.columns == fkCols then
              { ix with fkToHere := ix.fkToHere.filter (fun f => !(f.table == tn && f.columns == idx.columns)) }
            else ix) } else t)

theorem dropFkeys_cons (old db : Db) (tn : String) (whole : Bool) (c : List String) (r : List (List String)) :
    dropFkeys old db tn whole (c :: r) = dropFkeys old (dropStep old db tn whole c) tn whole r := rfl

theorem look_dropStep (old db : Db) (tn : String) (whole : Bool) (c : List String)
    (n : String) (j : Nat) :
    look (dropStep old db tn whole c) n j =
      (look db n j).map (fun ix => filtBack (fun f => !dropQ old tn whole c n ix.columns f) ix) := by
  unfold dropStep
  cases hg : getT old tn with
  | none =>
    simp only [dropQ, hg, Bool.not_false]
    exact (Option.map_id'' _ _ filtBack_true).symm
  | some sch =>
    cases hf : findIdx sch c with
    | none =>
      simp only [dropQ, hg, hf, Bool.not_false]
      exact (Option.map_id'' _ _ filtBack_true).symm
    | some i =>
      simp only [hf]
      by_cases hc : ((getIdx sch i).fk.table == "" || (whole && (getIdx sch i).fk.table == tn)) = true
      · rw [if_pos hc]
        have : ∀ ix : Index, (fun f => !dropQ old tn whole c n ix.columns f) = fun _ => true := by
          intro ix; funext f
          simp only [dropQ, hg, hf, hc, Bool.not_true, Bool.false_and, Bool.not_false]
        simp only [this]
        exact (Option.map_id'' _ _ filtBack_true).symm
      · rw [if_neg hc]
        rw [look_mapOf]
        have hc' : ((getIdx sch i).fk.table == "" || (whole && (getIdx sch i).fk.table == tn)) = false := by
          simpa using hc
        split
        · rename_i hn
          congr 1
          funext ix
          by_cases hcols : ix.columns = (if (getIdx sch i).fk.columns.isEmpty then (getIdx sch i).columns else (getIdx sch i).fk.columns)
          · simp only [filtBack, dropQ, hg, hf, hc', hn, hcols, beq_self_eq_true, Bool.not_false, Bool.true_and, if_true]
          · have h1 : (ix.columns == (if (getIdx sch i).fk.columns.isEmpty then (getIdx sch i).columns else (getIdx sch i).fk.columns)) = false := by
              simpa using hcols
            simp only [filtBack, dropQ, hg, hf, h1, Bool.false_and, Bool.and_false, Bool.not_false, Bool.false_eq_true, if_false]
            exact (filtBack_true ix).symm
        · rename_i hn
          have h1 : (n == (getIdx sch i).fk.table) = false := by simpa using hn
          have : ∀ ix : Index, (fun f => !dropQ old tn whole c n ix.columns f) = fun _ => true := by
            intro ix; funext f
            simp only [dropQ, hg, hf, h1, Bool.false_and, Bool.and_false, Bool.not_false]
          simp only [this]
          exact (Option.map_id'' _ _ filtBack_true).symm

end Gsu.SchemaAlg

namespace Gsu.SchemaAlg

theorem filtBack_filtBack (p q : Fkey → Bool) (ix : Index) :
    filtBack q (filtBack p ix) = filtBack (fun f => p f && q f) ix := by
  simp only [filtBack, List.filter_filter]
  congr 2
  funext f
  exact Bool.and_comm _ _

/-- `dropFkeys` in closed form: every `fkToHere` list is filtered -/
theorem look_dropFkeys (old : Db) (tn : String) (whole : Bool) (n : String) (j : Nat) :
    ∀ (L : List (List String)) (db : Db),
    look (dropFkeys old db tn whole L) n j =
      (look db n j).map (fun ix => filtBack (fun f => !(L.any (fun c => dropQ old tn whole c n ix.columns f))) ix)
  | [], db => by
    simp only [dropFkeys, List.any_nil, Bool.not_false]
    exact (Option.map_id'' _ _ filtBack_true).symm
  | c :: r, db => by
    rw [dropFkeys_cons, look_dropFkeys old tn whole n j r, look_dropStep, Option.map_map]
    congr 1
    funext ix
    simp only [Function.comp, filtBack_filtBack]
    congr 1
    funext f
    simp only [List.any_cons, Bool.not_or]
    rfl

theorem names_dropStep (old db : Db) (tn : String) (whole : Bool) (c : List String) :
    names (dropStep old db tn whole c) = names db := by
  unfold dropStep
  split
  · rfl
  · split
    · rfl
    · simp only
      split
      · rfl
      · exact names_mapOf _ _ _

theorem names_dropFkeys (old : Db) (tn : String) (whole : Bool) :
    ∀ (L : List (List String)) (db : Db), names (dropFkeys old db tn whole L) = names db
  | [], db => rfl
  | c :: r, db => by rw [dropFkeys_cons, names_dropFkeys old tn whole r, names_dropStep]

theorem dropQ_false_of_table {old : Db} {tn : String} {whole : Bool} {c : List String} {n : String}
    {ic : List String} {f : Fkey} (h : f.table ≠ tn) : dropQ old tn whole c n ic f = false := by
  unfold dropQ
  have : (f.table == tn) = false := by simpa using h
  split
  · rfl
  · split
    · rfl
    · simp [this]

theorem dropQ_elim {old : Db} {tn : String} {whole : Bool} {c : List String} {n : String}
    {ic : List String} {f : Fkey} (h : dropQ old tn whole c n ic f = true) :
    ∃ (sch : Table) (i : Nat) (six : Index), getT old tn = some sch ∧ sch.indexes[i]? = some six ∧ six.columns = c ∧
      six.fk.table ≠ "" ∧ ¬(whole = true ∧ six.fk.table = tn) ∧ n = six.fk.table ∧ ic = fkCols six ∧
      f.table = tn ∧ f.columns = c := by
  unfold dropQ at h
  split at h
  · cases h
  · rename_i sch hg
    split at h
    · cases h
    · rename_i i hf
      obtain ⟨six, h1, h2, h3⟩ := findIdx_some hf
      rw [h3] at h
      simp only [Bool.and_eq_true, Bool.not_eq_true', Bool.or_eq_false_iff, beq_iff_eq,
        beq_eq_false_iff_ne, Bool.and_eq_false_iff] at h
      refine ⟨sch, i, six, hg, h1, h2, h.1.1, ?_, h.2.1, ?_, h.2.2.2.1, ?_⟩
      · rintro ⟨hw, ht⟩
        rcases h.1.2 with h' | h'
        · rw [hw] at h'; cases h'
        · exact h' ht
      · exact h.2.2.1
      · rw [h.2.2.2.2, h2]

theorem dropQ_intro {old : Db} {tn : String} {whole : Bool} {sch : Table} {i : Nat} {six : Index}
    (hg : getT old tn = some sch) (hu : TUniq sch) (hi : sch.indexes[i]? = some six)
    (h1 : six.fk.table ≠ "") (h2 : ¬(whole = true ∧ six.fk.table = tn)) {f : Fkey}
    (h3 : f.table = tn) (h4 : f.columns = six.columns) :
    dropQ old tn whole six.columns six.fk.table (fkCols six) f = true := by
  unfold dropQ
  rw [hg]
  simp only
  rw [findIdx_of_tuniq hu hi]
  simp only [getIdx_of_getElem? hi]
  simp only [Bool.and_eq_true, Bool.not_eq_true', Bool.or_eq_false_iff, beq_iff_eq,
    beq_eq_false_iff_ne, Bool.and_eq_false_iff]
  refine ⟨⟨h1, ?_⟩, trivial, ?_, h3, h4⟩
  · by_cases hw : whole = true
    · right; exact fun h => h2 ⟨hw, h⟩
    · left; simpa using hw
  · rfl

end Gsu.SchemaAlg

namespace Gsu.SchemaAlg

theorem nodup_filter {α} {l : List α} (p : α → Bool) (h : l.Nodup) : (l.filter p).Nodup :=
  List.Nodup.sublist List.filter_sublist h

/-- the parts of `drop` -/
theorem drop_inv {db : Db} {name : String} {db' : Db} (h : drop db name = some db') :
    ∃ ts, getT db name = some ts ∧
      (∀ ix ∈ ts.indexes, ∀ f ∈ ix.fkToHere, f.table = name) ∧
      db' = dropFkeys db (delT db name) name true (ts.indexes.map (·.columns)) := by
  unfold drop at h
  split at h
  · cases h
  · rename_i ts hg
    split at h
    · cases h
    · rename_i hc
      dsimp only at h
      split at h
      · simp only [Option.some.injEq] at h
        refine ⟨ts, hg, ?_, h.symm⟩
        intro ix hix f hf
        simp only [List.any_eq_true, not_exists, not_and, bne_iff_ne, ne_eq, Decidable.not_not] at hc
        exact hc ix hix f hf
      · cases h

theorem drop_lwf {db : Db} {name : String} {db' : Db} (w : LWF db) (h : drop db name = some db') :
    LWF db' := by
  have hv := drop_valid h
  obtain ⟨ts, hg, hself, hdb'⟩ := drop_inv h
  have hlook : ∀ n j, look db' n j = if n = name then none else
      (look db n j).map (fun ix => filtBack (fun f =>
        !((ts.indexes.map (·.columns)).any (fun c => dropQ db name true c n ix.columns f))) ix) := by
    intro n j
    rw [hdb', look_dropFkeys, look_delT]
    split <;> rfl
  have hu : TUniq ts := idxUniq_of_validate w.valid name ts hg
  refine ⟨hv, ?_, ?_, ?_⟩
  · unfold NamesNodup
    rw [hdb', names_dropFkeys]
    exact namesNodup_delT name w.names
  · intro n j ix hl hfk
    rw [hlook] at hl
    split at hl
    · cases hl
    · obtain ⟨ix0, hl0, rfl⟩ := Option.map_eq_some_iff.mp hl
      exact w.fkc n j ix0 hl0 hfk
  · intro n j ix hl
    rw [hlook] at hl
    split at hl
    · cases hl
    · rename_i hn
      obtain ⟨ix0, hl0, rfl⟩ := Option.map_eq_some_iff.mp hl
      obtain ⟨hnd, hmem⟩ := w.linv n j ix0 hl0
      refine ⟨nodup_filter _ hnd, ?_⟩
      intro f
      show f ∈ List.filter _ ix0.fkToHere ↔ Link db' n ix0.columns f
      rw [List.mem_filter, hmem f]
      constructor
      · rintro ⟨⟨hne, six, hls, h1, h2, h3, h4⟩, hp⟩
        -- the source is not in the dropped table
        have hft : f.table ≠ name := by
          intro hft
          have hsi : ts.indexes[f.iindex]? = some six := by
            rw [← look_of_getT hg, ← hft]; exact hls
          have hfk : six.fk.table ≠ "" := by rw [h3]; exact hne
          have hq := dropQ_intro (whole := true) hg hu hsi hfk
            (by rintro ⟨_, hc⟩; exact hn (by rw [← h3, hc])) hft h1.symm
          rw [fkCols_eq (w.fkc _ _ _ hls hfk), h3, h4] at hq
          simp only [Bool.not_eq_true', List.any_eq_false, List.mem_map] at hp
          have := hp six.columns ⟨six, List.mem_of_getElem? hsi, rfl⟩
          rw [hq] at this
          exact this rfl
        have : ∃ six', look db' f.table f.iindex = some six' ∧ six'.columns = six.columns ∧
            six'.fk = six.fk := by
          rw [hlook, if_neg hft, hls]; exact ⟨_, rfl, rfl, rfl⟩
        obtain ⟨six', hl', hc', hfk'⟩ := this
        exact ⟨hne, six', hl', by rw [hc', h1], by rw [hfk', h2], by rw [hfk', h3], by rw [hfk', h4]⟩
      · rintro ⟨hne, six', hls, h1, h2, h3, h4⟩
        rw [hlook] at hls
        split at hls
        · cases hls
        · rename_i hft
          obtain ⟨six, hls0, rfl⟩ := Option.map_eq_some_iff.mp hls
          refine ⟨⟨hne, six, hls0, h1, h2, h3, h4⟩, ?_⟩
          simp only [Bool.not_eq_true', List.any_eq_false]
          intro c _
          rw [dropQ_false_of_table hft]
          simp

end Gsu.SchemaAlg
