/-
C11, goal `mergeChunks_flat`, part 3: one iteration of the loop of `merge.merge` preserves the
flat meaning `Spec`, the invariants and decreases the number of remaining slots; the loop; `merge`.
Core Lean only.
-/
import Gsu.Proofs.IxbufMerge2
namespace Gsu.Ixbuf
open Gsu.Proto

/-- the input selected by the minimum search: earlier inputs start above `k`, later ones not below -/
structure Sel (st : MS) (pre post : List (Chunk × List Chunk)) (k : Bytes) (c : Chg) (tl : Chunk)
    (rest : List Chunk) : Prop where
  hins : st.ins = pre ++ ((k, c) :: tl, rest) :: post
  hi : minIdx (st.ins.map (fun p => firstKey p.1)) = pre.length
  hpre : ∀ q ∈ pre, k < firstKey q.1
  hpost : ∀ q ∈ post, ¬ firstKey q.1 < k

theorem select (st : MS) (hI : InsOK st.ins) (hne : st.ins ≠ []) :
    ∃ pre post k c tl rest, Sel st pre post k c tl rest := by
  have hks : st.ins.map (fun p => firstKey p.1) ≠ [] := by simpa using hne
  obtain ⟨preK, k, postK, hk, hi, hlt, hge⟩ := minIdx_spec _ hks
  obtain ⟨pre, l2, hins, hpre, hl2⟩ := List.map_eq_append_iff.1 hk
  obtain ⟨p, post, rfl, hp, hpost⟩ := List.map_eq_cons_iff.1 hl2
  have hlen : preK.length = pre.length := by rw [← hpre]; simp
  rw [hlen] at hi
  obtain ⟨cur, rest⟩ := p
  have hpok := hI (cur, rest) (by rw [hins]; simp)
  cases cur with
  | nil => exact absurd rfl hpok.1
  | cons s tl =>
    obtain ⟨kk, c⟩ := s
    simp only [firstKey_cons] at hp
    subst hp
    refine ⟨pre, post, kk, c, tl, rest, hins, hi, ?_, ?_⟩
    · intro q hq
      exact hlt _ (by rw [← hpre]; exact List.mem_map_of_mem hq)
    · intro q hq
      exact hge _ (by rw [← hpost]; exact List.mem_map_of_mem hq)

theorem rem_ge (q : Chunk × List Chunk) (h1 : q.1 ≠ []) (h2 : Sorted (rem q)) :
    ∀ y ∈ rem q, ¬ y.1 < firstKey q.1 := by
  obtain ⟨cur, rest⟩ := q
  cases cur with
  | nil => exact absurd rfl h1
  | cons s tl => exact sorted_first s (tl ++ rest.flatten) h2

theorem lastKey_mem (c : Chunk) (h : c ≠ []) : ∃ x ∈ c, x.1 = lastKey c := by
  rcases List.eq_nil_or_concat c with rfl | ⟨ys, a, rfl⟩
  · exact absurd rfl h
  · exact ⟨a, by simp, by simp [lastKey]⟩

theorem done_lt (out : List Chunk) (buf : Chunk) (R : List Layer) (k : Bytes)
    (hB : Below out buf R) (hk : ∃ l ∈ R, ∃ y ∈ l, y.1 = k) (hl : ∀ s1 ∈ buf.getLast?, k ≠ s1.1) :
    ∀ x ∈ out.flatten ++ buf, x.1 < k := by
  obtain ⟨lk, hlk, yk, hyk, rfl⟩ := hk
  intro x hx
  rcases List.eq_nil_or_concat buf with hb | ⟨bd, s1, hb⟩
  · subst hb
    exact hB.1 x (by simpa using hx) lk hlk yk hyk
  · rw [List.concat_eq_append] at hb
    subst hb
    rw [← List.append_assoc] at hx
    rcases List.mem_append.1 hx with hx | hx
    · exact hB.1 x (by rw [List.dropLast_concat]; exact hx) lk hlk yk hyk
    · simp only [List.mem_singleton] at hx
      subst hx
      have h1 := hB.2 x (by simp) lk hlk yk hyk
      have h2 := hl x (by simp)
      grind

section cases
variable {g : Nat} {st : MS} {pre post : List (Chunk × List Chunk)} {k : Bytes} {c : Chg} {tl : Chunk}
  {rest : List Chunk}

theorem Sel.rems_eq (h : Sel st pre post k c tl rest) :
    rems st.ins = rems pre ++ ((k, c) :: (tl ++ rest.flatten)) :: rems post := by
  rw [h.hins]; simp [rems, rem]

theorem Sel.pre_lb (h : Sel st pre post k c tl rest) (hI : InsOK st.ins) : ∀ l ∈ rems pre, LB k l := by
  intro l hl y hy
  obtain ⟨q, hq, rfl⟩ := List.mem_map.1 hl
  have hq' := hI q (by rw [h.hins]; exact List.mem_append_left _ hq)
  have h1 := rem_ge q hq'.1 hq'.2.2 y hy
  have h2 := h.hpre q hq
  grind

theorem Sel.post_ge (h : Sel st pre post k c tl rest) (hI : InsOK st.ins) : KeysGE k (rems post) := by
  intro l hl y hy
  obtain ⟨q, hq, rfl⟩ := List.mem_map.1 hl
  have hq' := hI q (by rw [h.hins]; exact List.mem_append_right _ (List.mem_cons_of_mem _ hq))
  have h1 := rem_ge q hq'.1 hq'.2.2 y hy
  have h2 := h.hpost q hq
  grind

theorem Sel.ok (h : Sel st pre post k c tl rest) (hI : InsOK st.ins) :
    (∀ x ∈ rest, x ≠ []) ∧ Sorted ((k, c) :: (tl ++ rest.flatten)) := by
  have := hI ((k, c) :: tl, rest) (by rw [h.hins]; simp)
  exact ⟨this.2.1, this.2.2⟩

theorem Sel.key_mem (h : Sel st pre post k c tl rest) : ∃ l ∈ rems st.ins, ∃ y ∈ l, y.1 = k :=
  ⟨(k, c) :: (tl ++ rest.flatten), by rw [h.rems_eq]; exact List.mem_append_right _ (List.mem_cons_self ..),
    (k, c), List.mem_cons_self .., rfl⟩

theorem Sel.slots_eq (h : Sel st pre post k c tl rest) :
    slots st.ins = slots pre + (tl.length + rest.flatten.length + 1) + slots post := by
  simp only [slots, h.rems_eq]
  simp only [List.flatten_append, List.flatten_cons, List.length_append, List.length_cons]
  omega

/-- the slot case of `step` -/
theorem slot_case (h : Sel st pre post k c tl rest) (hI : InsOK st.ins)
    (hB : Below st.out st.buf (rems st.ins)) :
    let res : Option MS := match outputSlot g st (k, c) with
      | none => none
      | some st' =>
        if tl.isEmpty then some (advance st' pre.length rest)
        else some { st' with ins := st'.ins.set pre.length (tl, rest) }
    res.bind Spec = Spec st ∧
      ∀ st', res = some st' → InsOK st'.ins ∧ Below st'.out st'.buf (rems st'.ins) ∧
        slots st'.ins < slots st.ins := by
  intro res
  obtain ⟨hrne, hsorted⟩ := h.ok hI
  have hr : LB k (tl ++ rest.flatten) := ((sorted_cons _ _).1 hsorted).1
  have hsr : Sorted (tl ++ rest.flatten) := ((sorted_cons _ _).1 hsorted).2
  obtain ⟨D, e, hdone, hDlt, hnone, hsome⟩ := outputSlot_spec g st k c (rems st.ins) hB h.key_mem
  have hspec : Spec st = (mergeStep e c).bind
      (fun m => F (D ++ eL k m) (rems pre ++ (tl ++ rest.flatten) :: rems post)) := by
    have := fold_slot k c (tl ++ rest.flatten) (rems post) hr D hDlt e (rems pre) []
      (h.pre_lb hI) (by intro x hx; cases hx)
    simp only [List.append_nil] at this
    rw [Spec, hdone, h.rems_eq, this]
  cases hm : mergeStep e c with
  | none =>
    have : res = none := by simp only [res, hnone hm]
    rw [this, hspec, hm]
    exact ⟨rfl, fun _ h => by cases h⟩
  | some m =>
    obtain ⟨st1, ho, hd1, hins1, _, hbel⟩ := hsome m hm
    have hsub : ∀ l ∈ rems pre ++ (tl ++ rest.flatten) :: rems post, ∀ y ∈ l, ∃ l0 ∈ rems st.ins, y ∈ l0 := by
      intro l hl y hy
      rw [h.rems_eq]
      simp only [List.mem_append, List.mem_cons] at hl
      rcases hl with hl | rfl | hl
      · exact ⟨l, List.mem_append_left _ hl, hy⟩
      · exact ⟨(k, c) :: (tl ++ rest.flatten), List.mem_append_right _ (List.mem_cons_self ..),
          List.mem_cons_of_mem _ hy⟩
      · exact ⟨l, List.mem_append_right _ (List.mem_cons_of_mem _ hl), hy⟩
    have hge : KeysGE k (rems pre ++ (tl ++ rest.flatten) :: rems post) := by
      intro l hl y hy
      simp only [List.mem_append, List.mem_cons] at hl
      rcases hl with hl | rfl | hl
      · have := h.pre_lb hI l hl y hy; grind
      · have := hr y hy; grind
      · exact h.post_ge hI l hl y hy
    have hb1 := hbel _ hsub hge
    have hok : InsOK (pre ++ ((k, c) :: tl, rest) :: post) := by rw [← h.hins]; exact hI
    have fin : ∀ st', st'.out = st1.out → st'.buf = st1.buf →
        NewIns pre post (tl ++ rest.flatten) st'.ins → res = some st' →
        res.bind Spec = Spec st ∧
        ∀ st'', res = some st'' → InsOK st''.ins ∧ Below st''.out st''.buf (rems st''.ins) ∧
          slots st''.ins < slots st.ins := by
      intro st' e1 e2 hn hres
      obtain ⟨f1, f2, f3, f4⟩ := finish st' st1.out st1.buf pre post _ _ e1 e2 hn hok hsr hb1
      refine ⟨?_, ?_⟩
      · rw [hres, Option.bind_some, f1, hspec, hm, Option.bind_some]
        have : st1.out.flatten ++ st1.buf = D ++ eL k m := hd1
        rw [this]
      · intro st'' hst''
        rw [hres] at hst''
        cases hst''
        refine ⟨f2, f3, ?_⟩
        rw [f4, h.slots_eq]
        simp only [List.length_append]
        omega
    by_cases htl : tl = []
    · subst htl
      obtain ⟨hn, e1, e2⟩ := advance_new st1 _ rest pre post (by rw [hins1]; exact h.hins) hrne
      exact fin _ e1 e2 (by simpa using hn) (by simp only [res, ho]; simp)
    · have hn := set_new ((k, c) :: tl) tl rest pre post htl hrne
      refine fin { st1 with ins := st1.ins.set pre.length (tl, rest) } rfl rfl ?_ ?_
      · show NewIns pre post (tl ++ rest.flatten) (st1.ins.set pre.length (tl, rest))
        rw [hins1, h.hins]; exact hn
      · simp only [res, ho]
        simp [htl]

/-- the pass-through case of `step` -/
theorem pass_case (h : Sel st pre post k c tl rest) (hI : InsOK st.ins)
    (hB : Below st.out st.buf (rems st.ins)) (st1 : MS)
    (hp : tryPass g st pre.length ((k, c) :: tl) = some st1) :
    Spec (advance st1 pre.length rest) = Spec st ∧ InsOK (advance st1 pre.length rest).ins ∧
      Below (advance st1 pre.length rest).out (advance st1 pre.length rest).buf
        (rems (advance st1 pre.length rest).ins) ∧
      slots (advance st1 pre.length rest).ins < slots st.ins := by
  obtain ⟨h1, h2, rfl⟩ := tryPass_spec g st st1 _ rest pre post h.hins hp
  obtain ⟨hrne, hsorted⟩ := h.ok hI
  have hsorted' : Sorted (((k, c) :: tl) ++ rest.flatten) := hsorted
  obtain ⟨hcs, hrs, hcr⟩ := sorted_append.1 hsorted'
  obtain ⟨xl, hxl, hxlk⟩ := lastKey_mem ((k, c) :: tl) (by simp)
  have hkl : ¬ lastKey ((k, c) :: tl) < k := by
    rw [← hxlk]; exact sorted_first _ _ hcs xl hxl
  -- every key that remains afterwards is above the chunk
  have hRlt : ∀ l ∈ rems pre ++ rest.flatten :: rems post, ∀ y ∈ l, lastKey ((k, c) :: tl) < y.1 := by
    have hqq : ∀ q ∈ pre ++ post, ∀ y ∈ rem q, lastKey ((k, c) :: tl) < y.1 := by
      intro q hq y hy
      have hq' := hI q (by
        rw [h.hins]
        rcases List.mem_append.1 hq with hq | hq
        · exact List.mem_append_left _ hq
        · exact List.mem_append_right _ (List.mem_cons_of_mem _ hq))
      have a := rem_ge q hq'.1 hq'.2.2 y hy
      have b := h1 q hq
      grind
    intro l hl y hy
    simp only [List.mem_append, List.mem_cons] at hl
    rcases hl with hl | rfl | hl
    · obtain ⟨q, hq, rfl⟩ := List.mem_map.1 hl
      exact hqq q (List.mem_append_left _ hq) y hy
    · rw [← hxlk]; exact hcr xl hxl y hy
    · obtain ⟨q, hq, rfl⟩ := List.mem_map.1 hl
      exact hqq q (List.mem_append_right _ hq) y hy
  have hD : ∀ x ∈ doneOf st, x.1 < k :=
    done_lt st.out st.buf _ k hB h.key_mem (by simpa [firstKey_cons] using h2)
  have hAB : AB (doneOf st ++ ((k, c) :: tl)) (rems pre ++ rest.flatten :: rems post) := by
    intro x hx l hl y hy
    have hy' := hRlt l hl y hy
    rcases List.mem_append.1 hx with hx | hx
    · have := hD x hx; grind
    · have := sorted_last _ hcs x hx; grind
  obtain ⟨hn, e1, e2⟩ := advance_new (outputChunk g st ((k, c) :: tl)) _ rest pre post
    (by rw [outputChunk_ins]; exact h.hins) hrne
  have hok : InsOK (pre ++ ((k, c) :: tl, rest) :: post) := by rw [← h.hins]; exact hI
  have hb1 : Below (outputChunk g st ((k, c) :: tl)).out (outputChunk g st ((k, c) :: tl)).buf
      (rems pre ++ rest.flatten :: rems post) := by
    apply below_of_AB
    have := outputChunk_done g st ((k, c) :: tl)
    rw [doneOf] at this
    rw [this]; exact hAB
  obtain ⟨f1, f2, f3, f4⟩ := finish _ _ _ pre post _ _ e1 e2 hn hok hrs hb1
  refine ⟨?_, f2, f3, ?_⟩
  · rw [f1]
    have e : (outputChunk g st ((k, c) :: tl)).out.flatten ++ (outputChunk g st ((k, c) :: tl)).buf =
        doneOf st ++ ((k, c) :: tl) := outputChunk_done g st _
    rw [e, Spec, h.rems_eq]
    have := fold_chunk rest.flatten (rems pre) (rems post) ((k, c) :: tl) (doneOf st) hsorted'
      (by
        intro s hs x hx
        have a := hD s hs
        have b := sorted_first _ _ hcs x hx
        grind)
      (by
        intro p hp x hx y hy
        have a := hRlt p (List.mem_append_left _ hp) y hy
        have b := sorted_last _ hcs x hx
        grind)
    exact this.symm
  · rw [f4, h.slots_eq]; omega

end cases

/-- one iteration of the loop of `merge.merge`: the flat meaning is unchanged (a panic of the
iteration is a panic of the flat fold), the invariants are kept, a slot is consumed -/
theorem step_spec (g : Nat) (st : MS) (hI : InsOK st.ins) (hB : Below st.out st.buf (rems st.ins))
    (hne : st.ins ≠ []) :
    (step g st).bind Spec = Spec st ∧
      ∀ st', step g st = some st' → InsOK st'.ins ∧ Below st'.out st'.buf (rems st'.ins) ∧
        slots st'.ins < slots st.ins := by
  obtain ⟨pre, post, k, c, tl, rest, h⟩ := select st hI hne
  rw [step_eq g st (k, c) tl rest pre post h.hins h.hi]
  cases hp : (if st.pass then tryPass g st pre.length ((k, c) :: tl) else none) with
  | some st1 =>
    have hp' : tryPass g st pre.length ((k, c) :: tl) = some st1 := by
      split at hp
      · exact hp
      · cases hp
    obtain ⟨a, b, c', d⟩ := pass_case h hI hB st1 hp'
    refine ⟨a, ?_⟩
    intro st' hst'
    cases hst'
    exact ⟨b, c', d⟩
  | none => exact slot_case h hI hB

theorem slots_pos (ins : List (Chunk × List Chunk)) (hI : InsOK ins) (hne : ins ≠ []) : 0 < slots ins := by
  cases ins with
  | nil => exact absurd rfl hne
  | cons p r =>
    have := (hI p (List.mem_cons_self ..)).1
    obtain ⟨cur, rest⟩ := p
    cases cur with
    | nil => exact absurd rfl this
    | cons s tl => simp [slots, rems, rem]

theorem Spec_done (st : MS) (h : st.ins = []) : Spec st = some (doneOf st) := by
  simp [Spec, h, F]

/-- the loop of `merge.merge`, with enough fuel, produces the flat fold of the remaining inputs
into what has been produced -/
theorem loop_spec (g : Nat) : ∀ (f : Nat) (st : MS), InsOK st.ins → Below st.out st.buf (rems st.ins) →
    slots st.ins ≤ f → (loop g f st).map doneOf = Spec st := by
  intro f
  induction f with
  | zero =>
    intro st hI _ hf
    by_cases hne : st.ins = []
    · simp [loop, hne, Spec_done]
    · have := slots_pos st.ins hI hne; omega
  | succ f ih =>
    intro st hI hB hf
    by_cases hne : st.ins = []
    · simp [loop, hne, Spec_done]
    · obtain ⟨h1, h2⟩ := step_spec g st hI hB hne
      have : loop g (f + 1) st = (step g st).bind (loop g f) := by
        simp [loop, hne]
      rw [this, ← h1]
      cases hs : step g st with
      | none => rfl
      | some st' =>
        obtain ⟨a, b, c⟩ := h2 st' hs
        simp only [Option.bind_some]
        exact ih st' a b (by omega)

/-! ## `Merge` -/

theorem flatten_len_le (ins : List Buf) :
    ((ins.map Buf.flatten).flatten).length ≤ (ins.map (fun b => b.chunks.length + b.chunks.flatten.length)).sum := by
  induction ins with
  | nil => simp
  | cons b r ih =>
    simp only [List.map_cons, List.flatten_cons, List.length_append, List.sum_cons, Buf.flatten] at ih ⊢
    omega

/-- initial input state of `merge.merge` -/
def toIn (b : Buf) : Chunk × List Chunk := match b.chunks with | c :: r => (c, r) | [] => ([], [])

theorem rem_toIn (b : Buf) : rem (toIn b) = b.flatten := by
  unfold toIn Buf.flatten
  cases b.chunks <;> simp [rem]

/-- **`mergeChunks_flat`**: for well-formed buffers with strictly sorted keys the chunked k-way
merge (minimum selection, chunk pass-through, the `goal/2` rule, buffer flushing) flattens to the
flat left fold of two-way merges of the non-empty inputs; it panics exactly when that fold does. -/
theorem merge_flat (bs : List Buf) (hlen : 2 ≤ bs.length) (hwf : ∀ b ∈ bs, b.WF)
    (hs : ∀ b ∈ bs, Sorted b.flatten) :
    (merge bs).map Buf.flatten = mergeFlat ((bs.filter (fun b => b.size ≠ 0)).map Buf.flatten) := by
  have hprop : ∀ b ∈ bs.filter (fun b => b.size ≠ 0), b.WF ∧ Sorted b.flatten ∧ b.size ≠ 0 := by
    intro b hb
    obtain ⟨h1, h2⟩ := List.mem_filter.1 hb
    exact ⟨hwf b h1, hs b h1, by simpa using h2⟩
  simp only [merge]
  rw [if_neg (by omega)]
  generalize bs.filter (fun b => b.size ≠ 0) = ins at hprop
  match ins, hprop with
  | [], _ => simp [mergeFlat, Buf.flatten]
  | [b], _ => simp [mergeFlat, merge2_nil_left]
  | b1 :: b2 :: r, hprop =>
    simp only
    have hchunks : ∀ b ∈ b1 :: b2 :: r, b.chunks ≠ [] ∧ ∀ c ∈ b.chunks, c ≠ [] := by
      intro b hb
      obtain ⟨⟨w1, w2⟩, _, w3⟩ := hprop b hb
      refine ⟨?_, w1⟩
      intro e
      rw [w2, Buf.flatten, e] at w3
      exact w3 rfl
    have hany : ((b1 :: b2 :: r).any (fun b => b.chunks.isEmpty || b.chunks.any List.isEmpty)) = false := by
      rw [List.any_eq_false]
      intro b hb
      obtain ⟨c1, c2⟩ := hchunks b hb
      simp only [Bool.or_eq_true, List.isEmpty_iff, List.any_eq_true, not_or, not_exists, not_and]
      exact ⟨c1, fun c hc => c2 c hc⟩
    rw [hany]
    simp only [Bool.false_eq_true, if_false]
    generalize hins : b1 :: b2 :: r = ins at *
    show Option.map Buf.flatten (Option.map _ (loop _ _
      { ins := ins.map toIn, buf := [], out := [], sz := 0, pass := false })) = _
    have hrems : rems (ins.map toIn) = ins.map Buf.flatten := by
      simp [rems, rem_toIn]
    have hI : InsOK (ins.map toIn) := by
      intro p hp
      obtain ⟨b, hb, rfl⟩ := List.mem_map.1 hp
      obtain ⟨c1, c2⟩ := hchunks b hb
      obtain ⟨_, w, _⟩ := hprop b hb
      refine ⟨?_, ?_, by rw [rem_toIn]; exact w⟩
      · unfold toIn
        cases hc : b.chunks with
        | nil => exact absurd hc c1
        | cons c r => exact c2 c (by rw [hc]; exact List.mem_cons_self ..)
      · unfold toIn
        cases hc : b.chunks with
        | nil => intro c hc'; cases hc'
        | cons c r => intro x hx; exact c2 x (by rw [hc]; exact List.mem_cons_of_mem _ hx)
    have hB : Below [] [] (rems (ins.map toIn)) := by
      refine ⟨?_, ?_⟩
      · intro x hx; cases hx
      · intro x hx; cases hx
    have hfuel : slots (ins.map toIn) ≤ mergeFuel ins := by
      rw [slots, hrems, mergeFuel]
      have := flatten_len_le ins
      omega
    have := loop_spec (goalN (ins.map (·.size)).sum) (mergeFuel ins)
      { ins := ins.map toIn, buf := [], out := [], sz := 0, pass := false } hI hB hfuel
    simp only [Spec, doneOf, List.flatten_nil, List.append_nil, hrems] at this
    rw [mergeFlat]
    show _ = F [] (List.map Buf.flatten ins)
    rw [← this, Option.map_map]
    congr 1
    funext st
    have h1 := flushbuf_done st
    have h2 := flushbuf_buf st
    simp only [doneOf, h2, List.append_nil] at h1
    simp only [Function.comp, Buf.flatten, h1]
    rfl

theorem applyLayers_filter (bs : List Buf) (m : Map) (hwf : ∀ b ∈ bs, b.WF) :
    applyLayers m ((bs.filter (fun b => b.size ≠ 0)).map Buf.flatten) = applyLayers m (bs.map Buf.flatten) := by
  induction bs generalizing m with
  | nil => rfl
  | cons b r ih =>
    have ihr := fun m => ih m (fun x hx => hwf x (List.mem_cons_of_mem _ hx))
    by_cases hz : b.size = 0
    · have hf : b.flatten = [] := by
        have := (hwf b (List.mem_cons_self ..)).2
        rw [hz] at this
        exact List.eq_nil_of_length_eq_zero this.symm
      simp only [List.filter_cons, hz, ne_eq, not_true_eq_false, decide_false, Bool.false_eq_true, if_false,
        List.map_cons, hf]
      rw [ihr]
      simp [applyLayers, List.foldlM_cons, applyLayer]
    · simp only [List.filter_cons, hz, ne_eq, not_false_eq_true, decide_true, if_true, List.map_cons]
      simp only [applyLayers, List.foldlM_cons] at ihr ⊢
      cases applyLayer m b.flatten with
      | none => rfl
      | some m1 => exact ihr m1

/-- **`merge_spec`**: `Merge` of at least two well-formed sorted buffers that are valid when
applied in order does not panic; its result is well formed, strictly sorted (unique keys), and
applying it to `m` gives the same map as applying the buffers one after another. -/
theorem merge_spec (bs : List Buf) (m m' : Map) (hlen : 2 ≤ bs.length) (hwf : ∀ b ∈ bs, b.WF)
    (hs : ∀ b ∈ bs, Sorted b.flatten) (h : applyLayers m (bs.map Buf.flatten) = some m') :
    ∃ r, merge bs = some r ∧ r.WF ∧ Sorted r.flatten ∧ applyLayer m r.flatten = some m' := by
  rw [← applyLayers_filter bs m hwf] at h
  obtain ⟨out, h1, h2, h3⟩ := mergeFlat_spec _ m m' (by
    intro l hl
    obtain ⟨b, hb, rfl⟩ := List.mem_map.1 hl
    exact hs b (List.mem_filter.1 hb).1) h
  have hf := merge_flat bs hlen hwf hs
  rw [h1] at hf
  cases hm : merge bs with
  | none => rw [hm] at hf; cases hf
  | some r =>
    rw [hm] at hf
    simp only [Option.map_some, Option.some.injEq] at hf
    exact ⟨r, rfl, merge_wf bs r hwf hm, by rw [hf]; exact h3, by rw [hf]; exact h2⟩

theorem F_sorted (ls : List Layer) : ∀ (acc out : Layer), (∀ l ∈ ls, Sorted l) → Sorted acc →
    F acc ls = some out → Sorted out := by
  induction ls with
  | nil => intro acc out _ ha h; simp only [F_nil, Option.some.injEq] at h; subst h; exact ha
  | cons l ls ih =>
    intro acc out hs ha h
    rw [F_cons] at h
    cases hm : merge2 acc l with
    | none => rw [hm] at h; cases h
    | some a =>
      rw [hm, Option.bind_some] at h
      exact ih a out (fun x hx => hs x (List.mem_cons_of_mem _ hx))
        (merge2_sorted acc l a ha (hs l (List.mem_cons_self ..)) hm) h

/-- closure: whenever `Merge` of well-formed sorted buffers does not panic (valid changes or not),
its result is again well formed with strictly sorted keys, so it can be an input of a later merge -/
theorem merge_inv (bs : List Buf) (r : Buf) (hlen : 2 ≤ bs.length) (hwf : ∀ b ∈ bs, b.WF)
    (hs : ∀ b ∈ bs, Sorted b.flatten) (h : merge bs = some r) : r.WF ∧ Sorted r.flatten := by
  refine ⟨merge_wf bs r hwf h, ?_⟩
  have hf := merge_flat bs hlen hwf hs
  rw [h, Option.map_some, mergeFlat] at hf
  refine F_sorted _ [] r.flatten ?_ sorted_nil hf.symm
  intro l hl
  obtain ⟨b, hb, rfl⟩ := List.mem_map.1 hl
  exact hs b (List.mem_filter.1 hb).1

end Gsu.Ixbuf
