/-
C11 `insert_split_inv`: correctness of the binary searches of `ixbuf.Insert`
(`bsearch`, `search`, `searchChunks`) on the model Gsu.Model.Ixbuf.  Core Lean only.
Continued in IxbufIns2.lean (insert_flat / insert_inv / chunk bounds / histories).
-/
import Gsu.Proofs.Ixbuf
namespace Gsu.Ixbuf
open Gsu.Proto

/-! ## order facts on `Bytes` -/

theorem blt_trans {a b c : Bytes} (h1 : a < b) (h2 : b < c) : a < c := by grind
theorem blt_of_lt_of_le {a b c : Bytes} (h1 : a < b) (h2 : ¬ c < b) : a < c := by grind
theorem blt_of_le_of_lt {a b c : Bytes} (h1 : ¬ b < a) (h2 : b < c) : a < c := by grind
theorem blt_irrefl (a : Bytes) : ¬ a < a := by grind
theorem blt_of_le_of_ne {a b : Bytes} (h1 : ¬ b < a) (h2 : a ≠ b) : a < b := by grind
theorem ble_trans {a b c : Bytes} (h1 : ¬ b < a) (h2 : ¬ c < b) : ¬ c < a := by grind
theorem blt_asymm {a b : Bytes} (h : a < b) : ¬ b < a := by grind

/-! ## the binary search loop -/

/-- `bsearch` returns the partition point of a predicate that is downward closed on `[lo,hi)`
(true … true false … false), provided the fuel exceeds the width of the interval. -/
theorem bsearch_spec (p : Nat → Bool) (fuel lo hi : Nat) (hf : hi - lo < fuel) (hle : lo ≤ hi)
    (hmono : ∀ a b, lo ≤ a → a ≤ b → b < hi → p b = true → p a = true) :
    lo ≤ bsearch p fuel lo hi ∧ bsearch p fuel lo hi ≤ hi ∧
    (∀ h, lo ≤ h → h < bsearch p fuel lo hi → p h = true) ∧
    (∀ h, bsearch p fuel lo hi ≤ h → h < hi → p h = false) := by
  induction fuel generalizing lo hi with
  | zero => omega
  | succ f ih =>
    simp only [bsearch]
    split
    · rename_i hlt
      split
      · rename_i hp
        have := ih ((lo + hi) / 2 + 1) hi (by omega) (by omega)
          (fun a b ha hab hb => hmono a b (by omega) hab hb)
        obtain ⟨h1, h2, h3, h4⟩ := this
        refine ⟨by omega, h2, ?_, h4⟩
        intro h hlo hh
        by_cases hc : (lo + hi) / 2 + 1 ≤ h
        · exact h3 h hc hh
        · exact hmono h ((lo + hi) / 2) hlo (by omega) (by omega) hp
      · rename_i hp
        have := ih lo ((lo + hi) / 2) (by omega) (by omega)
          (fun a b ha hab hb => hmono a b ha hab (by omega))
        obtain ⟨h1, h2, h3, h4⟩ := this
        refine ⟨h1, by omega, h3, ?_⟩
        intro h hlo hh
        by_cases hc : h < (lo + hi) / 2
        · exact h4 h hlo hc
        · cases hq : p h with
          | false => rfl
          | true => exact absurd (hmono ((lo + hi) / 2) h (by omega) (by omega) hh hq) hp
    · refine ⟨by omega, by omega, fun h a b => by omega, fun h a b => by omega⟩

theorem firstKey_drop (ch : Chunk) (h : Nat) (hh : h < ch.length) :
    firstKey (ch.drop h) = ch[h].1 := by
  rw [List.drop_eq_getElem_cons hh]; rfl

theorem sorted_getElem {l : Layer} (hs : Sorted l) (i j : Nat) (hi : i < l.length) (hj : j < l.length)
    (hij : i < j) : l[i].1 < l[j].1 :=
  (List.pairwise_iff_getElem.1 hs) i j hi hj hij

/-- `search` on a sorted chunk returns the partition point of "key < k" -/
theorem search_spec_idx (ch : Chunk) (k : Bytes) (hs : Sorted ch) :
    search ch k ≤ ch.length ∧
    (∀ j (hj : j < ch.length), j < search ch k → ch[j].1 < k) ∧
    (∀ j (hj : j < ch.length), search ch k ≤ j → ¬ ch[j].1 < k) := by
  have := bsearch_spec (fun h => decide (firstKey (ch.drop h) < k)) (ch.length + 1) 0 ch.length
    (by omega) (by omega) (by
      intro a b _ hab hb hp
      simp only [decide_eq_true_eq] at hp ⊢
      rw [firstKey_drop _ _ hb] at hp
      rw [firstKey_drop _ _ (by omega)]
      by_cases e : a = b
      · subst e; exact hp
      · exact blt_trans (sorted_getElem hs a b (by omega) hb (by omega)) hp)
  obtain ⟨_, h2, h3, h4⟩ := this
  refine ⟨h2, ?_, ?_⟩
  · intro j hj hlt
    have := h3 j (by omega) hlt
    simp only [decide_eq_true_eq] at this
    rwa [firstKey_drop _ _ hj] at this
  · intro j hj hle
    have := h4 j hle hj
    simp only [decide_eq_false_iff_not] at this
    rwa [firstKey_drop _ _ hj] at this

theorem search_spec (ch : Chunk) (k : Bytes) (hs : Sorted ch) :
    search ch k ≤ ch.length ∧
    (∀ s ∈ ch.take (search ch k), s.1 < k) ∧
    (∀ s ∈ ch.drop (search ch k), ¬ s.1 < k) := by
  obtain ⟨h1, h2, h3⟩ := search_spec_idx ch k hs
  refine ⟨h1, ?_, ?_⟩
  · intro s hs
    obtain ⟨j, hm, rfl⟩ := List.mem_take_iff_getElem.1 hs
    exact h2 j (by omega) (by omega)
  · intro s hs
    obtain ⟨j, hm, rfl⟩ := List.mem_drop_iff_getElem.1 hs
    exact h3 (search ch k + j) (by omega) (by omega)

/-- for a sorted chunk `search ch k` = number of slots with key `< k` -/
theorem search_count (ch : Chunk) (k : Bytes) (hs : Sorted ch) :
    search ch k = ch.countP (fun s => decide (s.1 < k)) := by
  obtain ⟨h1, h2, h3⟩ := search_spec ch k hs
  conv => rhs; rw [← List.take_append_drop (search ch k) ch]
  rw [List.countP_append, List.countP_eq_length.2 (by simpa using h2),
    List.countP_eq_zero.2 (by simpa using h3), List.length_take]
  omega

/-! ## `searchChunks` -/

theorem lastKey_eq (c : Chunk) (h : c ≠ []) : lastKey c = (c[c.length - 1]'(by
    have := List.length_pos_iff.2 h; omega)).1 := by
  simp only [lastKey, List.getLast?_eq_some_getLast h, List.getLast_eq_getElem]

/-- in a sorted chunk no key exceeds the last key -/
theorem le_lastKey (c : Chunk) (hs : Sorted c) (s : Slot) (hm : s ∈ c) : ¬ lastKey c < s.1 := by
  have hne : c ≠ [] := List.ne_nil_of_mem hm
  obtain ⟨j, hj, rfl⟩ := List.getElem_of_mem hm
  rw [lastKey_eq c hne]
  by_cases e : j = c.length - 1
  · subst e; exact blt_irrefl _
  · exact blt_asymm (sorted_getElem hs j (c.length - 1) hj (by omega) (by omega))

theorem getD_chunk (cs : List Chunk) (h : Nat) (hh : h < cs.length) : cs.getD h [] = cs[h] := by
  simp [List.getD, hh]

theorem chunk_sorted {cs : List Chunk} (hs : Sorted cs.flatten) (c : Chunk) (hc : c ∈ cs) : Sorted c :=
  (List.pairwise_flatten.1 hs).1 c hc

/-- keys of an earlier chunk are below the keys of a later chunk -/
theorem chunks_lt {cs : List Chunk} (hs : Sorted cs.flatten) (i j : Nat) (hi : i < cs.length)
    (hj : j < cs.length) (hij : i < j) (x y : Slot) (hx : x ∈ cs[i]) (hy : y ∈ cs[j]) : x.1 < y.1 :=
  (List.pairwise_iff_getElem.1 (List.pairwise_flatten.1 hs).2) i j hi hj hij x hx y hy

theorem lastKey_mem_ins (c : Chunk) (h : c ≠ []) : ∃ s ∈ c, s.1 = lastKey c :=
  ⟨_, List.getElem_mem _, (lastKey_eq c h).symm⟩

/-- `searchChunks` on a buffer with non-empty chunks and sorted keys returns the first chunk
whose last key is `≥ k`, or the last chunk when there is none -/
theorem searchChunks_spec (cs : List Chunk) (k : Bytes) (hne : ∀ c ∈ cs, c ≠ [])
    (hs : Sorted cs.flatten) (h0 : cs ≠ []) :
    ∃ hci : searchChunks cs k < cs.length,
      (∀ h (hh : h < cs.length), h < searchChunks cs k → lastKey cs[h] < k) ∧
      (¬ lastKey cs[searchChunks cs k] < k ∨ searchChunks cs k = cs.length - 1) ∧
      (∀ s ∈ (cs.take (searchChunks cs k)).flatten, s.1 < k) ∧
      (∀ s ∈ (cs.drop (searchChunks cs k + 1)).flatten, k < s.1) := by
  have hlen := List.length_pos_iff.2 h0
  have := bsearch_spec (fun h => decide (lastKey (cs.getD h []) < k)) (cs.length + 1) 0 cs.length
    (by omega) (by omega) (by
      intro a b _ hab hb hp
      simp only [decide_eq_true_eq] at hp ⊢
      rw [getD_chunk _ _ hb] at hp
      rw [getD_chunk _ _ (by omega)]
      by_cases e : a = b
      · subst e; exact hp
      · obtain ⟨x, hx, hxe⟩ := lastKey_mem_ins cs[a] (hne _ (List.getElem_mem _))
        obtain ⟨y, hy, hye⟩ := lastKey_mem_ins cs[b] (hne _ (List.getElem_mem _))
        rw [← hxe]; rw [← hye] at hp
        exact blt_trans (chunks_lt hs a b (by omega) hb (by omega) x y hx hy) hp)
  obtain ⟨_, h2, h3, h4⟩ := this
  have hdef : searchChunks cs k = min (bsearch (fun h => decide (lastKey (cs.getD h []) < k)) (cs.length + 1) 0 cs.length) (cs.length - 1) := rfl
  generalize bsearch (fun h => decide (lastKey (cs.getD h []) < k)) (cs.length + 1) 0 cs.length = r at *
  generalize searchChunks cs k = ci at *
  have hci : ci < cs.length := by omega
  have hlow : ∀ h (hh : h < cs.length), h < ci → lastKey cs[h] < k := by
    intro h hh hlt
    have := h3 h (by omega) (by omega)
    simp only [decide_eq_true_eq] at this
    rwa [getD_chunk _ _ hh] at this
  refine ⟨hci, hlow, ?_, ?_, ?_⟩
  · by_cases hr : r < cs.length
    · left
      have := h4 ci (by omega) hci
      simp only [decide_eq_false_iff_not] at this
      rwa [getD_chunk _ _ hci] at this
    · right; omega
  · intro s hs'
    obtain ⟨c, hc, hsc⟩ := List.mem_flatten.1 hs'
    obtain ⟨j, hj, rfl⟩ := List.mem_take_iff_getElem.1 hc
    have hj' : j < cs.length := by omega
    exact blt_of_le_of_lt (le_lastKey _ (chunk_sorted hs _ (List.getElem_mem _)) s hsc) (hlow j hj' (by omega))
  · intro s hs'
    obtain ⟨c, hc, hsc⟩ := List.mem_flatten.1 hs'
    obtain ⟨j, hj, rfl⟩ := List.mem_drop_iff_getElem.1 hc
    have hr : r < cs.length := by omega
    have := h4 ci (by omega) hci
    simp only [decide_eq_false_iff_not] at this
    rw [getD_chunk _ _ hci] at this
    obtain ⟨x, hx, hxe⟩ := lastKey_mem_ins cs[ci] (hne _ (List.getElem_mem _))
    rw [← hxe] at this
    have hlt := chunks_lt hs ci (ci + 1 + j) hci (by omega) (by omega) x s hx hsc
    exact blt_of_le_of_lt this hlt

/-! ## the flat merge with a singleton layer -/

theorem merge2_nil_r (l : Layer) : merge2 l [] = some l := by
  cases l <;> simp [merge2]

theorem merge2_single_lt (L R : Layer) (k : Bytes) (c : Chg) (hL : ∀ s ∈ L, s.1 < k) :
    merge2 (L ++ R) [(k, c)] = (merge2 R [(k, c)]).map (L ++ ·) := by
  induction L with
  | nil => simp
  | cons s L ih =>
    obtain ⟨k1, c1⟩ := s
    have h1 : k1 < k := hL (k1, c1) (List.mem_cons_self ..)
    rw [List.cons_append, merge2, if_pos h1, ih (fun s hs => hL s (List.mem_cons_of_mem _ hs))]
    simp [Option.map_map, Function.comp_def]

theorem merge2_single_gt (R : Layer) (k : Bytes) (c : Chg) (hR : ∀ s ∈ R, k < s.1) :
    merge2 R [(k, c)] = some ((k, c) :: R) := by
  cases R with
  | nil => simp [merge2]
  | cons s R =>
    obtain ⟨k1, c1⟩ := s
    have h1 : k < k1 := hR (k1, c1) (List.mem_cons_self ..)
    rw [merge2, if_neg (blt_asymm h1), if_pos h1, merge2_nil_r]
    rfl

theorem merge2_single_eq (R : Layer) (k : Bytes) (c1 c : Chg) :
    merge2 ((k, c1) :: R) [(k, c)] =
      match combine c1 c with
      | none => none
      | some none => some R
      | some (some c') => some ((k, c') :: R) := by
  rw [merge2, if_neg (blt_irrefl k), if_neg (blt_irrefl k)]
  cases combine c1 c with
  | none => rfl
  | some o => cases o <;> simp [merge2_nil_r]

/-- merging a singleton whose key is absent inserts it at its sorted position -/
theorem merge2_absent (L R : Layer) (k : Bytes) (c : Chg) (hL : ∀ s ∈ L, s.1 < k)
    (hR : ∀ s ∈ R, k < s.1) : merge2 (L ++ R) [(k, c)] = some (L ++ (k, c) :: R) := by
  rw [merge2_single_lt L R k c hL, merge2_single_gt R k c hR]; rfl

/-- merging a singleton whose key is present combines the two changes (old one on the left) -/
theorem merge2_present (L R : Layer) (k : Bytes) (c1 c : Chg) (hL : ∀ s ∈ L, s.1 < k) :
    merge2 (L ++ (k, c1) :: R) [(k, c)] =
      match combine c1 c with
      | none => none
      | some none => some (L ++ R)
      | some (some c') => some (L ++ (k, c') :: R) := by
  rw [merge2_single_lt L _ k c hL, merge2_single_eq]
  cases combine c1 c with
  | none => rfl
  | some o => cases o <;> rfl

end Gsu.Ixbuf
