import Gsu.Proofs.SchemaAlg6
/-!
C21, part 7: `alterDrop` preserves `LWF`.  `updateFkeysIIndex` only rewrites `iindex` fields:
`Fk.iindex` (ignored by `LInv`) and the `iindex` of `fkToHere` entries (tracked by `LookRel`).
-/
namespace Gsu.SchemaAlg

/-- `db'` is `db` with every `fkToHere` entry rewritten by `G table indexColumns`, up to
`bestKey` / `Fk.iindex` -/
def LookRel (G : String → List String → Fkey → Fkey) (db db' : Db) : Prop :=
  ∀ n j, (look db' n j).map sk2 = (look db n j).map (fun a => (sk a, a.fkToHere.map (G n a.columns)))

theorem LookRel.comp {G1 G2 : String → List String → Fkey → Fkey} {a b c : Db}
    (h1 : LookRel G1 a b) (h2 : LookRel G2 b c) :
    LookRel (fun n cs f => G2 n cs (G1 n cs f)) a c := by
  intro n j
  have e2 := h2 n j
  have e1 := h1 n j
  have hfac : (fun x : Index => (sk x, x.fkToHere.map (G2 n x.columns))) =
      (fun p : (Char × List String × String × List String × Nat) × List Fkey =>
        (p.1, p.2.map (G2 n p.1.2.1))) ∘ sk2 := by
    funext x; rfl
  rw [e2, hfac, ← Option.map_map, e1, Option.map_map]
  congr 1
  funext x
  simp only [Function.comp, List.map_map]
  rfl

theorem LookRel.congr {G G' : String → List String → Fkey → Fkey} {a b : Db}
    (h : LookRel G a b) (hg : ∀ n cs f, G n cs f = G' n cs f) : LookRel G' a b := by
  have : G = G' := by funext n cs f; exact hg n cs f
  rw [← this]; exact h

theorem LookRel.bwd {G : String → List String → Fkey → Fkey} {db db' : Db} (h : LookRel G db db')
    {n : String} {j : Nat} {b : Index} (hl : look db' n j = some b) :
    ∃ a, look db n j = some a ∧ sk a = sk b ∧ b.fkToHere = a.fkToHere.map (G n a.columns) := by
  have := h n j
  rw [hl] at this
  cases h0 : look db n j with
  | none => rw [h0] at this; cases this
  | some a =>
    rw [h0] at this
    simp only [Option.map_some, Option.some.injEq, sk2, Prod.mk.injEq] at this
    exact ⟨a, rfl, this.1.symm, this.2⟩

theorem LookRel.fwd {G : String → List String → Fkey → Fkey} {db db' : Db} (h : LookRel G db db')
    {n : String} {j : Nat} {a : Index} (hl : look db n j = some a) :
    ∃ b, look db' n j = some b ∧ sk a = sk b ∧ b.fkToHere = a.fkToHere.map (G n a.columns) := by
  have := h n j
  rw [hl] at this
  cases h0 : look db' n j with
  | none => rw [h0] at this; cases this
  | some b =>
    rw [h0] at this
    simp only [Option.map_some, Option.some.injEq, sk2, Prod.mk.injEq] at this
    exact ⟨b, rfl, this.1.symm, this.2⟩

theorem LookRel.skel {G : String → List String → Fkey → Fkey} {db db' : Db} (h : LookRel G db db') :
    Skel db db' := by
  intro n j
  have := congrArg (Option.map Prod.fst) (h n j)
  rw [Option.map_map, Option.map_map] at this
  exact this

theorem lookRel_refl (db : Db) : LookRel (fun _ _ f => f) db db := by
  intro n j
  congr 1
  funext a
  simp [sk2]

theorem lookRel_updFk (db : Db) (table : String) (fk : Fkey) (i : Nat) :
    LookRel (fun _ _ f => f) db (updFk db table fk i) := by
  intro n j
  unfold updFk
  rw [look_mapOf]
  simp only [List.map_id']
  split
  · rw [Option.map_map]
    congr 1
    funext ix
    simp only [Function.comp]
    split <;> rfl
  · rfl

theorem names_updFk (db : Db) (table : String) (fk : Fkey) (i : Nat) :
    names (updFk db table fk i) = names db := names_mapOf _ _ _

theorem lookRel_updFkToHere (db : Db) (table : String) (srcCols : List String) (fk : Fkey) (i : Nat) :
    LookRel (fun n cs f => if n = fk.table ∧ cs = fk.columns ∧ f.table = table ∧ f.columns = srcCols
      then { f with iindex := i } else f) db (updFkToHere db table srcCols fk i) := by
  intro n j
  unfold updFkToHere
  rw [look_mapOf]
  split
  · rename_i hn
    rw [Option.map_map]
    congr 1
    funext ix
    simp only [Function.comp]
    by_cases hc : ix.columns = fk.columns
    · simp only [hc, beq_self_eq_true, if_true, sk2, sk, hn, true_and]
      congr 2
      funext f
      by_cases h1 : f.table = table <;> by_cases h2 : f.columns = srcCols <;> simp [h1, h2]
    · have : (ix.columns == fk.columns) = false := by simpa using hc
      simp only [this, Bool.false_eq_true, if_false, sk2, hc, false_and, and_false]
      simp
  · rename_i hn
    congr 1
    funext ix
    simp [sk2, hn]

theorem names_updFkToHere (db : Db) (table : String) (srcCols : List String) (fk : Fkey) (i : Nat) :
    names (updFkToHere db table srcCols fk i) = names db := names_mapOf _ _ _

theorem lookRel_foldl_updFk (table : String) (i : Nat) : ∀ (l : List Fkey) (db : Db),
    LookRel (fun _ _ f => f) db (l.foldl (fun db f => updFk db table f i) db) ∧
    names (l.foldl (fun db f => updFk db table f i) db) = names db
  | [], db => ⟨lookRel_refl db, rfl⟩
  | f :: r, db => by
    obtain ⟨h1, h2⟩ := lookRel_foldl_updFk table i r (updFk db table f i)
    exact ⟨(lookRel_updFk db table f i).comp h1, h2.trans (names_updFk _ _ _ _)⟩

/-- the entry rewrite of one iteration of `updateFkeysIIndex` (index `six` at position `i`) -/
def eStep (sname : String) (six : Index) (i : Nat) (n : String) (cs : List String) (f : Fkey) : Fkey :=
  if six.fk.table ≠ "" ∧ n = six.fk.table ∧ cs = six.fk.columns ∧ f.table = sname ∧ f.columns = six.columns
  then { f with iindex := i } else f

/-- one iteration of `updateFkeysIIndex` -/
def updStep (sname : String) (db : Db) (p : Index × Nat) : Db :=
  let db1 := if p.1.fk.table != "" then updFkToHere db sname p.1.columns p.1.fk p.2 else db
  p.1.fkToHere.foldl (fun db f => updFk db sname f p.2) db1

theorem updateFkeysIIndex_eq (db : Db) (sch : Table) :
    updateFkeysIIndex db sch = sch.indexes.zipIdx.foldl (updStep sch.name) db := rfl

theorem lookRel_updStep (sname : String) (db : Db) (p : Index × Nat) :
    LookRel (eStep sname p.1 p.2) db (updStep sname db p) ∧ names (updStep sname db p) = names db := by
  unfold updStep
  by_cases hfk : p.1.fk.table = ""
  · have : (p.1.fk.table != "") = false := by simp [hfk]
    simp only [this, Bool.false_eq_true, if_false]
    obtain ⟨h1, h2⟩ := lookRel_foldl_updFk sname p.2 p.1.fkToHere db
    refine ⟨h1.congr ?_, h2⟩
    intro n cs f
    simp [eStep, hfk]
  · have : (p.1.fk.table != "") = true := by simp [hfk]
    simp only [this, if_true]
    obtain ⟨h1, h2⟩ := lookRel_foldl_updFk sname p.2 p.1.fkToHere
      (updFkToHere db sname p.1.columns p.1.fk p.2)
    refine ⟨((lookRel_updFkToHere db sname p.1.columns p.1.fk p.2).comp h1).congr ?_,
      h2.trans (names_updFkToHere _ _ _ _ _)⟩
    intro n cs f
    simp [eStep, hfk]

/-- the entry rewrite of the whole `updateFkeysIIndex` -/
def eAll (sname : String) (L : List (Index × Nat)) (n : String) (cs : List String) (f : Fkey) : Fkey :=
  L.foldl (fun f p => eStep sname p.1 p.2 n cs f) f

theorem lookRel_updFold (sname : String) : ∀ (L : List (Index × Nat)) (db : Db),
    LookRel (eAll sname L) db (L.foldl (updStep sname) db) ∧ names (L.foldl (updStep sname) db) = names db
  | [], db => ⟨(lookRel_refl db).congr (fun _ _ _ => rfl), rfl⟩
  | p :: r, db => by
    obtain ⟨h1, h2⟩ := lookRel_updFold sname r (updStep sname db p)
    obtain ⟨g1, g2⟩ := lookRel_updStep sname db p
    exact ⟨(g1.comp h1).congr (fun _ _ _ => rfl), h2.trans g2⟩

end Gsu.SchemaAlg

namespace Gsu.SchemaAlg

theorem eStep_fields (sname : String) (six : Index) (i : Nat) (n : String) (cs : List String) (f : Fkey) :
    (eStep sname six i n cs f).table = f.table ∧ (eStep sname six i n cs f).columns = f.columns ∧
    (eStep sname six i n cs f).mode = f.mode := by
  unfold eStep
  split <;> exact ⟨rfl, rfl, rfl⟩

theorem eAll_fields (sname : String) (n : String) (cs : List String) :
    ∀ (L : List (Index × Nat)) (f : Fkey),
    (eAll sname L n cs f).table = f.table ∧ (eAll sname L n cs f).columns = f.columns ∧
    (eAll sname L n cs f).mode = f.mode
  | [], f => ⟨rfl, rfl, rfl⟩
  | p :: r, f => by
    obtain ⟨a, b, c⟩ := eAll_fields sname n cs r (eStep sname p.1 p.2 n cs f)
    obtain ⟨a', b', c'⟩ := eStep_fields sname p.1 p.2 n cs f
    exact ⟨a.trans a', b.trans b', c.trans c'⟩

theorem eAll_id (sname : String) (n : String) (cs : List String) :
    ∀ (L : List (Index × Nat)) (f : Fkey),
    (∀ p ∈ L, ¬(f.table = sname ∧ f.columns = p.1.columns)) → eAll sname L n cs f = f
  | [], f, _ => rfl
  | p :: r, f, h => by
    have h1 : eStep sname p.1 p.2 n cs f = f := by
      unfold eStep
      rw [if_neg]
      rintro ⟨_, _, _, a, b⟩
      exact h p (by simp) ⟨a, b⟩
    show eAll sname r n cs (eStep sname p.1 p.2 n cs f) = f
    rw [h1]
    exact eAll_id sname n cs r f (fun q hq => h q (List.mem_cons_of_mem _ hq))

theorem eAll_hit (sname : String) (n : String) (cs : List String) :
    ∀ (L : List (Index × Nat)) (f : Fkey) (six : Index) (i : Nat),
    (L.map (·.1.columns)).Nodup → (six, i) ∈ L → six.fk.table ≠ "" → n = six.fk.table →
    cs = six.fk.columns → f.table = sname → f.columns = six.columns →
    eAll sname L n cs f = { f with iindex := i }
  | [], _, _, _, _, hm, _, _, _, _, _ => by cases hm
  | p :: r, f, six, i, hnd, hm, h1, h2, h3, h4, h5 => by
    rw [List.map_cons, List.nodup_cons] at hnd
    show eAll sname r n cs (eStep sname p.1 p.2 n cs f) = _
    rcases List.mem_cons.mp hm with e | e
    · subst e
      have : eStep sname six i n cs f = { f with iindex := i } := by
        unfold eStep
        rw [if_pos ⟨h1, h2, h3, h4, h5⟩]
      simp only
      rw [this]
      apply eAll_id
      intro q hq hc
      apply hnd.1
      simp only at hc
      rw [← h5, hc.2]
      exact List.mem_map_of_mem (f := fun x : Index × Nat => x.1.columns) hq
    · have hne : p.1.columns ≠ six.columns := by
        intro hc
        apply hnd.1
        rw [hc]
        exact List.mem_map_of_mem (f := fun x : Index × Nat => x.1.columns) e
      have : eStep sname p.1 p.2 n cs f = f := by
        unfold eStep
        rw [if_neg]
        rintro ⟨_, _, _, _, b⟩
        exact hne (by rw [← b, h5])
      rw [this]
      exact eAll_hit sname n cs r f six i hnd.2 e h1 h2 h3 h4 h5

theorem nodup_map_on {α β} (g : α → β) : ∀ {l : List α}, l.Nodup →
    (∀ a ∈ l, ∀ b ∈ l, g a = g b → a = b) → (l.map g).Nodup
  | [], _, _ => by simp
  | x :: r, hnd, hinj => by
    rw [List.nodup_cons] at hnd
    rw [List.map_cons, List.nodup_cons]
    refine ⟨?_, nodup_map_on g hnd.2 (fun a ha b hb => hinj a (List.mem_cons_of_mem _ ha) b
      (List.mem_cons_of_mem _ hb))⟩
    intro hm
    obtain ⟨y, hy, hg⟩ := List.mem_map.mp hm
    have := hinj y (List.mem_cons_of_mem _ hy) x (by simp) hg
    rw [this] at hy
    exact hnd.1 hy

end Gsu.SchemaAlg

namespace Gsu.SchemaAlg

theorem dropColumn_inv {t t1 : Table} {c : String} (h : dropColumn t c = some t1) :
    t1.name = t.name ∧ t1.indexes = t.indexes := by
  unfold dropColumn at h
  split at h
  · cases h
  · split at h
    · simp only [Option.some.injEq] at h; subst h; exact ⟨rfl, rfl⟩
    · cases h

theorem dropColumns_inv : ∀ (cols : List String) (t t1 : Table), dropColumns t cols = some t1 →
    t1.name = t.name ∧ t1.indexes = t.indexes
  | [], t, t1, h => by
    simp only [dropColumns, Option.some.injEq] at h; subst h; exact ⟨rfl, rfl⟩
  | c :: r, t, t1, h => by
    simp only [dropColumns] at h
    split at h
    · cases h
    · rename_i t' ht'
      obtain ⟨a, b⟩ := dropColumn_inv ht'
      obtain ⟨a', b'⟩ := dropColumns_inv r t' t1 h
      exact ⟨a'.trans a, b'.trans b⟩

theorem alterDrop_inv {db : Db} {name : String} {cols : List String} {idxs : List (List String)} {db' : Db}
    (h : alterDrop db name cols idxs = some db') :
    ∃ ts ts1, getT db name = some ts ∧
      dropColumns { ts with indexes := ts.indexes.filter (fun ix => !idxs.contains ix.columns) } cols = some ts1 ∧
      db' = updateFkeysIIndex (dropFkeys db (putT db ts1) name false idxs)
        ((getT (dropFkeys db (putT db ts1) name false idxs) name).getD ts1) := by
  unfold alterDrop at h
  split at h
  · cases h
  · rename_i ts hts
    split at h
    · cases h
    · dsimp only at h
      split at h
      · cases h
      · split at h
        · cases h
        · rename_i ts1 h1
          split at h
          · simp only [Option.some.injEq] at h
            exact ⟨ts, ts1, hts, h1, h.symm⟩
          · cases h

end Gsu.SchemaAlg

namespace Gsu.SchemaAlg

theorem nodup_cols_of_uniq : ∀ {l : List Index},
    (∀ (i j : Nat) (a b : Index), l[i]? = some a → l[j]? = some b → a.columns = b.columns → i = j) →
    (l.map (·.columns)).Nodup
  | [], _ => by simp
  | x :: r, h => by
    rw [List.map_cons, List.nodup_cons]
    constructor
    · intro hm
      obtain ⟨y, hy, hc⟩ := List.mem_map.mp hm
      obtain ⟨k, hk⟩ := List.mem_iff_getElem?.mp hy
      have := h (k + 1) 0 y x (by simpa using hk) (by simp) hc
      omega
    · apply nodup_cols_of_uniq
      intro i j a b ha hb hab
      have := h (i + 1) (j + 1) a b (by simpa using ha) (by simpa using hb) hab
      omega

theorem zipIdx_map_cols (l : List Index) (k : Nat) :
    (l.zipIdx k).map (fun p => p.1.columns) = l.map (·.columns) := by
  induction l generalizing k with
  | nil => rfl
  | cons a r ih => simp [List.zipIdx_cons, ih]

/-- which entries survive the `dropFkeys` of `alterDrop` -/
theorem alterDrop_keep {db : Db} {name : String} {idxs : List (List String)} {ts : Table} (w : LWF db)
    (hts : getT db name = some ts) {n : String} {c : List String} {f : Fkey} (hl : Link db n c f) :
    (!(idxs.any (fun cc => dropQ db name false cc n c f))) = true ↔
      (f.table = name → f.columns ∉ idxs) := by
  have hu : TUniq ts := idxUniq_of_validate w.valid name ts hts
  obtain ⟨hne, six0, hls, g1, _, g3, g4⟩ := hl
  constructor
  · intro hp hft hmem
    have hsi : ts.indexes[f.iindex]? = some six0 := by
      rw [← look_of_getT hts, ← hft]; exact hls
    have hfk : six0.fk.table ≠ "" := by rw [g3]; exact hne
    have hq := dropQ_intro (whole := false) hts hu hsi hfk (by simp) hft g1.symm
    rw [fkCols_eq (w.fkc _ _ _ hls hfk), g3, g4] at hq
    simp only [Bool.not_eq_true', List.any_eq_false] at hp
    have := hp six0.columns (by rw [g1]; exact hmem)
    rw [hq] at this
    exact this rfl
  · intro hk
    simp only [Bool.not_eq_true', List.any_eq_false]
    intro cc hcc hq
    obtain ⟨_, _, _, _, _, _, _, _, _, _, e1, e2⟩ := dropQ_elim hq
    exact hk e1 (by rw [e2]; exact hcc)

end Gsu.SchemaAlg
