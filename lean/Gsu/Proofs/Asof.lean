/-
Lemmas for C19 about `Gsu.Model.Asof` (core Lean only).
-/
import Gsu.Model.Asof
namespace Gsu.Asof

/-- the valid states of a file, in file order -/
def valid (f : List Cand) : List Cand := f.filter isValid

/-- candidates are non-overlapping occurrences of `magic1` in file order -/
def Gap (a b : Cand) : Prop := a.off + magicLen ≤ b.off

/-- well-formed store: candidates in file order without overlap, none at offset 0 (the file
starts with the database magic), all inside the used size -/
def WF (s : Store) : Prop :=
  s.cands.Pairwise Gap ∧ ∀ c ∈ s.cands, 0 < c.off ∧ c.off + magicLen ≤ s.size

theorem valid_sub {f : List Cand} {c : Cand} (h : c ∈ valid f) : c ∈ f :=
  (List.mem_filter.mp h).1

theorem valid_isValid {f : List Cand} {c : Cand} (h : c ∈ valid f) : c.t ≠ 0 := by
  have := (List.mem_filter.mp h).2
  simpa [isValid] using this

theorem valid_pairwise {f : List Cand} (h : f.Pairwise Gap) : (valid f).Pairwise Gap :=
  h.filter _

theorem firstValid_eq (l : List Cand) : firstValid l = (valid l).head? := by
  induction l with
  | nil => rfl
  | cons c r ih =>
    by_cases hc : isValid c = true
    · simp [firstValid, valid, List.find?, List.filter, hc]
    · have hc' : isValid c = false := by simpa using hc
      simp only [firstValid, valid, List.find?, List.filter, hc']
      simpa [firstValid, valid] using ih

theorem firstValid_reverse (l : List Cand) : firstValid l.reverse = (valid l).getLast? := by
  rw [firstValid_eq, valid, List.filter_reverse, List.head?_reverse]; rfl

theorem valid_filter (p : Cand → Bool) (f : List Cand) : valid (f.filter p) = (valid f).filter p := by
  simp only [valid, List.filter_filter]
  congr 1; funext c; exact Bool.and_comm _ _

/-- in a gapped list the candidates entirely below the `i`-th are exactly the first `i` -/
theorem filter_below_take {l : List Cand} (hp : l.Pairwise Gap) {i : Nat} {s : Cand}
    (hi : l[i]? = some s) :
    l.filter (fun c => decide (c.off + magicLen ≤ s.off)) = l.take i := by
  induction l generalizing i with
  | nil => simp at hi
  | cons c r ih =>
    rw [List.pairwise_cons] at hp
    cases i with
    | zero =>
      simp only [List.getElem?_cons_zero, Option.some.injEq] at hi
      subst hi
      rw [List.take_zero, List.filter_eq_nil_iff]
      intro b hb
      simp only [List.mem_cons] at hb
      rcases hb with rfl | hb
      · intro hb'
        have hb'' : b.off + magicLen ≤ b.off := of_decide_eq_true hb'
        simp only [magicLen] at hb''; omega
      · have := hp.1 b hb
        intro hb'
        have hb'' : b.off + magicLen ≤ c.off := of_decide_eq_true hb'
        simp only [Gap, magicLen] at this hb''; omega
    | succ j =>
      simp only [List.getElem?_cons_succ] at hi
      have hs : s ∈ r := List.mem_of_getElem? hi
      have hc := hp.1 s hs
      simp only [Gap] at hc
      rw [List.filter_cons_of_pos (by simpa using hc), List.take_succ_cons, ih hp.2 hi]

/-- in a gapped list the candidates starting after the `i`-th are exactly those after index `i` -/
theorem filter_above_drop {l : List Cand} (hp : l.Pairwise Gap) {i : Nat} {s : Cand}
    (hi : l[i]? = some s) :
    l.filter (fun c => decide (s.off + 1 ≤ c.off)) = l.drop (i + 1) := by
  induction l generalizing i with
  | nil => simp at hi
  | cons c r ih =>
    rw [List.pairwise_cons] at hp
    cases i with
    | zero =>
      simp only [List.getElem?_cons_zero, Option.some.injEq] at hi
      subst hi
      rw [List.filter_cons_of_neg (by simp), List.drop_succ_cons, List.drop_zero,
        List.filter_eq_self]
      intro b hb
      have := hp.1 b hb
      simp only [Gap, magicLen] at this
      simp; omega
    | succ j =>
      simp only [List.getElem?_cons_succ] at hi
      have hs : s ∈ r := List.mem_of_getElem? hi
      have hc := hp.1 s hs
      simp only [Gap, magicLen] at hc
      rw [List.filter_cons_of_neg (by simp; omega), List.drop_succ_cons, ih hp.2 hi]

theorem getLast?_take_succ {α} (l : List α) (i : Nat) (h : i < l.length) :
    (l.take (i + 1)).getLast? = l[i]? := by
  rw [List.getLast?_eq_getElem?, List.length_take, List.getElem?_take]
  have : min (i + 1) l.length - 1 = i := by omega
  simp [this]

/-- everything is below `size` -/
theorem below_size {s : Store} (h : WF s) : below s.cands s.size = s.cands.reverse := by
  unfold below
  rw [List.filter_eq_self.mpr]
  intro c hc
  simpa using (h.2 c hc).2

theorem above_zero {s : Store} (h : WF s) : above s.cands 0 = s.cands := by
  unfold above
  rw [List.filter_eq_self]
  intro c hc
  have := (h.2 c hc).1
  simp; omega

/-! ### `PrevState` / `NextState` in index form -/

theorem prev_at {s : Store} (h : WF s) {i : Nat} {c : Cand}
    (hi : (valid s.cands)[i]? = some c) :
    prevState s c.off = if i = 0 then none else (valid s.cands)[i - 1]? := by
  have hc : c ∈ s.cands := valid_sub (List.mem_of_getElem? hi)
  have hpos : c.off ≠ 0 := by have := (h.2 c hc).1; omega
  unfold prevState below
  rw [if_neg hpos, firstValid_reverse, valid_filter, filter_below_take (valid_pairwise h.1) hi]
  cases i with
  | zero => simp
  | succ j =>
    have hlt : j + 1 < (valid s.cands).length := by
      rcases List.getElem?_eq_some_iff.mp hi with ⟨hl, _⟩; exact hl
    rw [getLast?_take_succ _ _ (by omega)]
    simp

theorem prev_cur {s : Store} (h : WF s) : prevState s 0 = (valid s.cands).getLast? := by
  unfold prevState
  rw [if_pos rfl, below_size h, firstValid_reverse]

theorem next_at {s : Store} (h : WF s) {i : Nat} {c : Cand}
    (hi : (valid s.cands)[i]? = some c) :
    nextState s c.off = (valid s.cands)[i + 1]? := by
  unfold nextState above
  rw [firstValid_eq, valid_filter, filter_above_drop (valid_pairwise h.1) hi, List.head?_drop]

theorem next_cur {s : Store} (h : WF s) : nextState s 0 = (valid s.cands).head? := by
  unfold nextState
  rw [above_zero h, firstValid_eq]

/-! ### `stateAsof` -/

theorem asofScan_valid (a : Int) (l : List Cand) (best : Option Cand) :
    asofScan a l best = asofScan a (valid l) best := by
  induction l generalizing best with
  | nil => rfl
  | cons c r ih =>
    by_cases hc : c.t = 0
    · have : isValid c = false := by simp [isValid, hc]
      simp only [valid, List.filter, this, asofScan, hc, if_true]
      simpa [valid] using ih best
    · have : isValid c = true := by simp [isValid, hc]
      simp only [valid, List.filter, this, asofScan, hc, if_false]
      split
      · rfl
      · simpa [valid] using ih (some c)

/-- on valid states, newest first: the newest with `t ≤ asof`, else the oldest, else `best` -/
theorem asofScan_spec (a : Int) (n : List Cand) (hv : ∀ c ∈ n, c.t ≠ 0) (best : Option Cand) :
    asofScan a n best =
      match n.find? (fun c => decide (c.t ≤ a)) with
      | some s => some s
      | none => n.getLast?.or best := by
  induction n generalizing best with
  | nil => simp [asofScan]
  | cons c r ih =>
    have hc : c.t ≠ 0 := hv c (List.mem_cons_self)
    have hr : ∀ x ∈ r, x.t ≠ 0 := fun x hx => hv x (List.mem_cons_of_mem _ hx)
    by_cases hle : c.t ≤ a
    · simp [asofScan, hc, hle]
    · simp only [asofScan, hc, hle, if_false, List.find?, decide_false]
      rw [ih hr]
      cases r.find? (fun c => decide (c.t ≤ a)) with
      | some s => rfl
      | none =>
        cases r with
        | nil => simp
        | cons d r' =>
          cases hgl : (d :: r').getLast? with
          | none => simp at hgl
          | some z => simp [List.getLast?_cons_cons, hgl]

theorem stateAsof_eq {s : Store} (h : WF s) (a : Int) :
    stateAsof s a =
      match (valid s.cands).reverse.find? (fun c => decide (c.t ≤ a)) with
      | some c => some c
      | none => (valid s.cands).head? := by
  unfold stateAsof
  rw [below_size h, asofScan_valid]
  have hrev : valid s.cands.reverse = (valid s.cands).reverse := by
    simp [valid, List.filter_reverse]
  rw [hrev, asofScan_spec]
  · simp [List.getLast?_reverse]
  · intro c hc
    exact valid_isValid (List.mem_reverse.mp hc)

theorem asof_split {s : Store} (h : WF s) (a : Int) (pre post : List Cand) (c : Cand)
    (hs : valid s.cands = pre ++ c :: post) (hc : c.t ≤ a) (hpost : ∀ p ∈ post, a < p.t) :
    stateAsof s a = some c := by
  rw [stateAsof_eq h, hs]
  have : (pre ++ c :: post).reverse = post.reverse ++ c :: pre.reverse := by simp
  rw [this, List.find?_append]
  have hnone : post.reverse.find? (fun c => decide (c.t ≤ a)) = none := by
    rw [List.find?_eq_none]
    intro x hx
    have := hpost x (List.mem_reverse.mp hx)
    simp; omega
  simp [hnone, List.find?, hc]

theorem asof_first {s : Store} (h : WF s) (a : Int) (c : Cand) (rest : List Cand)
    (hs : valid s.cands = c :: rest) (hall : ∀ v ∈ valid s.cands, a < v.t) :
    stateAsof s a = some c := by
  rw [stateAsof_eq h]
  have hnone : (valid s.cands).reverse.find? (fun c => decide (c.t ≤ a)) = none := by
    rw [List.find?_eq_none]
    intro x hx
    have := hall x (List.mem_reverse.mp hx)
    simp; omega
  rw [hnone, hs]; rfl

/-- index (in file order) of the state a time request shows: the last state with `t ≤ a`,
the first state when there is none -/
def idxAsof : List Int → Int → Nat
  | [], _ => 0
  | _ :: r, a => if r.any (fun t => decide (t ≤ a)) then 1 + idxAsof r a else 0

theorem find_rev_idx (v : List Cand) (a : Int) (hne : v ≠ []) :
    (match v.reverse.find? (fun c => decide (c.t ≤ a)) with
      | some c => some c
      | none => v.head?) = v[idxAsof (v.map (·.t)) a]? := by
  induction v with
  | nil => exact absurd rfl hne
  | cons c r ih =>
    simp only [List.reverse_cons, List.find?_append, List.map_cons, idxAsof, List.any_map]
    by_cases hany : r.any ((fun t => decide (t ≤ a)) ∘ fun x => x.t) = true
    · have hr : r ≠ [] := by intro h; subst h; simp at hany
      obtain ⟨x, hx, hxa⟩ := List.any_eq_true.mp hany
      have hsome : (r.reverse.find? (fun c => decide (c.t ≤ a))).isSome := by
        rw [List.find?_isSome]
        exact ⟨x, List.mem_reverse.mpr hx, hxa⟩
      obtain ⟨y, hy⟩ := Option.isSome_iff_exists.mp hsome
      have ih' := ih hr
      rw [hy] at ih'
      simp only [hany, if_true, hy, Option.some_or]
      rw [Nat.add_comm, List.getElem?_cons_succ]
      simpa using ih'
    · have hnone : r.reverse.find? (fun c => decide (c.t ≤ a)) = none := by
        rw [List.find?_eq_none]
        intro x hx hxa
        exact hany (List.any_eq_true.mpr ⟨x, List.mem_reverse.mp hx, hxa⟩)
      simp only [hany, hnone, Option.none_or]
      by_cases hc : c.t ≤ a <;> simp [List.find?, hc]

theorem stateAsof_idx {s : Store} (h : WF s) (a : Int) (hne : valid s.cands ≠ []) :
    stateAsof s a = (valid s.cands)[idxAsof ((valid s.cands).map (·.t)) a]? := by
  rw [stateAsof_eq h, find_rev_idx _ _ hne]

theorem stateAsof_none {s : Store} (h : WF s) (a : Int) (he : valid s.cands = []) :
    stateAsof s a = none := by
  rw [stateAsof_eq h, he]; rfl

theorem idxAsof_lt (ts : List Int) (a : Int) (hne : ts ≠ []) : idxAsof ts a < ts.length := by
  induction ts with
  | nil => exact absurd rfl hne
  | cons t r ih =>
    simp only [idxAsof]
    split
    · next hany =>
      have hr : r ≠ [] := by intro h; subst h; simp at hany
      have := ih hr
      simp; omega
    · simp

/-! ### any request sequence: simulation by an index machine over the valid states -/

/-- abstract position of a read transaction: `none` = on no persisted state (fresh transaction),
`some i` = on the `i`-th valid state in file order. `n` = number of valid states, `ts` their
times, `curPos` the position of `db.GetState()`. -/
def specStep (ts : List Int) (curPos : Option Nat) (pos : Option Nat) (q : Req) : Option Nat :=
  let n := ts.length
  if q.1 = 0 then pos
  else if q.1 = -1 then
    match pos with
    | none => if n = 0 then none else some (n - 1)
    | some i => some (i - 1)
  else if q.1 = 1 then
    match pos with
    | none => if n = 0 then none else some 0
    | some i => if i + 1 < n then some (i + 1) else some i
  else if q.2 then curPos
  else if n = 0 then pos else some (idxAsof ts q.1)

def specRun (ts : List Int) (curPos : Option Nat) : Option Nat → List Req → Option Nat
  | pos, [] => pos
  | pos, q :: qs => specRun ts curPos (specStep ts curPos pos q) qs

/-- the transaction's offset is the offset of the state at the abstract position -/
def Rel (s : Store) (pos : Option Nat) (off : Nat) : Prop :=
  match pos with
  | none => off = 0
  | some i => ∃ c, (valid s.cands)[i]? = some c ∧ c.off = off

theorem rel_pos {s : Store} (h : WF s) {i : Nat} {off : Nat} (hr : Rel s (some i) off) : off ≠ 0 := by
  obtain ⟨c, hc, rfl⟩ := hr
  have := (h.2 c (valid_sub (List.mem_of_getElem? hc))).1
  omega

theorem step_sim {s : Store} (h : WF s) (curPos : Option Nat) (hcur : Rel s curPos s.cur.off)
    (pos : Option Nat) (tr : Tran) (hr : Rel s pos tr.off) (q : Req) :
    Rel s (specStep ((valid s.cands).map (·.t)) curPos pos q) (tranAsof s tr q.1 q.2).1.off := by
  obtain ⟨a, fut⟩ := q
  have e1 : ((-1 : Int) = 0) = False := by decide
  have e2 : ((1 : Int) = 0) = False := by decide
  have e3 : ((1 : Int) = -1) = False := by decide
  unfold specStep tranAsof
  simp only [List.length_map]
  by_cases h0 : a = 0
  · subst h0; simp only [if_true]; exact hr
  by_cases hm : a = -1
  · subst hm
    simp only [e1, if_true, if_false]
    cases pos with
    | none =>
      have hoff : tr.off = 0 := hr
      rw [hoff, prev_cur h]
      cases hgl : (valid s.cands).getLast? with
      | none =>
        have : valid s.cands = [] := List.getLast?_eq_none_iff.mp hgl
        simp [this, Rel, hoff]
      | some c =>
        have hne : (valid s.cands).length ≠ 0 := by
          intro hl
          have : valid s.cands = [] := List.length_eq_zero_iff.mp hl
          rw [this] at hgl; simp at hgl
        simp only [hne, if_false, setTo, Rel]
        refine ⟨c, ?_, rfl⟩
        rw [← hgl, List.getLast?_eq_getElem?]
    | some i =>
      obtain ⟨c, hc, hco⟩ := hr
      rw [← hco, prev_at h hc]
      cases i with
      | zero => simp only [if_true]; exact ⟨c, hc, hco⟩
      | succ j =>
        have hlt : j + 1 < (valid s.cands).length := (List.getElem?_eq_some_iff.mp hc).1
        have hj : j < (valid s.cands).length := by omega
        simp only [Nat.add_one_ne_zero, if_false, Nat.add_sub_cancel, List.getElem?_eq_getElem hj,
          setTo, Rel]
        exact ⟨_, by first | rfl | exact List.getElem?_eq_getElem hj, rfl⟩
  by_cases hp : a = 1
  · subst hp
    simp only [e2, e3, if_true, if_false]
    cases pos with
    | none =>
      have hoff : tr.off = 0 := hr
      rw [hoff, next_cur h]
      cases hv : valid s.cands with
      | nil => simp [Rel, hoff]
      | cons c r =>
        simp only [List.head?_cons, List.length_cons, Nat.add_one_ne_zero, if_false, setTo, Rel]
        exact ⟨c, by rw [hv]; rfl, rfl⟩
    | some i =>
      obtain ⟨c, hc, hco⟩ := hr
      rw [← hco, next_at h hc]
      by_cases hlt : i + 1 < (valid s.cands).length
      · simp only [hlt, if_true, List.getElem?_eq_getElem hlt, setTo, Rel]
        exact ⟨_, by first | rfl | exact List.getElem?_eq_getElem hlt, rfl⟩
      · have : (valid s.cands)[i + 1]? = none := List.getElem?_eq_none (by omega)
        simp only [hlt, if_false, this]
        exact ⟨c, hc, hco⟩
  simp only [h0, hm, hp, if_false]
  by_cases hf : fut = true
  · simp only [hf, if_true, setTo]; exact hcur
  · simp only [hf, if_false]
    by_cases hn : (valid s.cands).length = 0
    · have he : valid s.cands = [] := List.length_eq_zero_iff.mp hn
      simp only [hn, if_true, stateAsof_none h _ he]; exact hr
    · have hne : valid s.cands ≠ [] := fun he => hn (by simp [he])
      have hlt := idxAsof_lt ((valid s.cands).map (·.t)) a (by simpa using hne)
      rw [List.length_map] at hlt
      simp only [hn, if_false, stateAsof_idx h _ hne, List.getElem?_eq_getElem hlt, setTo, Rel]
      exact ⟨_, List.getElem?_eq_getElem hlt, rfl⟩

theorem run_sim {s : Store} (h : WF s) (curPos : Option Nat) (hcur : Rel s curPos s.cur.off)
    (qs : List Req) (pos : Option Nat) (tr : Tran) (hr : Rel s pos tr.off) :
    Rel s (specRun ((valid s.cands).map (·.t)) curPos pos qs) (run s tr qs).off := by
  induction qs generalizing pos tr with
  | nil => exact hr
  | cons q qs ih => exact ih _ _ (step_sim h curPos hcur pos tr hr q)

/-- whatever a request moves the transaction to is a valid state of the file, shown with its
own time and contents (or the current state for a future time) -/
theorem shown_is_state (s : Store) (tr : Tran) (a : Int) (fut : Bool) :
    (tranAsof s tr a fut).1 = tr ∨
    (∃ c ∈ valid s.cands, tranAsof s tr a fut = (⟨c.t, c.off, c.mid⟩, .ret c.t)) ∨
    (fut = true ∧ tranAsof s tr a fut = (⟨s.cur.t, s.cur.off, s.cur.mid⟩, .ret s.cur.t)) := by
  have hfv : ∀ l c, firstValid l = some c → l ⊆ s.cands → c ∈ valid s.cands := by
    intro l c hc hl
    have h1 := List.mem_of_find?_eq_some hc
    have h2 := List.find?_some hc
    exact List.mem_filter.mpr ⟨hl h1, h2⟩
  have hscan : ∀ l best c, asofScan a l best = some c → l ⊆ s.cands →
      (∀ b, best = some b → b ∈ valid s.cands) → c ∈ valid s.cands := by
    intro l
    induction l with
    | nil => intro best c hc _ hb; exact hb c hc
    | cons d r ih =>
      intro best c hc hl hb
      have hd : d ∈ s.cands := hl List.mem_cons_self
      have hr : r ⊆ s.cands := fun x hx => hl (List.mem_cons_of_mem _ hx)
      unfold asofScan at hc
      by_cases hd0 : d.t = 0
      · rw [if_pos hd0] at hc; exact ih best c hc hr hb
      · rw [if_neg hd0] at hc
        have hdv : d ∈ valid s.cands := List.mem_filter.mpr ⟨hd, by simp [isValid, hd0]⟩
        by_cases hle : d.t ≤ a
        · rw [if_pos hle] at hc; cases hc; exact hdv
        · rw [if_neg hle] at hc
          exact ih (some d) c hc hr (fun b hb' => by cases hb'; exact hdv)
  unfold tranAsof
  by_cases h0 : a = 0
  · simp [h0]
  by_cases hm : a = -1
  · simp only [h0, hm, if_true, if_false]
    cases hps : prevState s tr.off with
    | none => simp
    | some c =>
      refine Or.inr (Or.inl ⟨c, hfv _ c hps ?_, rfl⟩)
      intro x hx
      exact (List.mem_filter.mp (List.mem_reverse.mp hx)).1
  by_cases hp : a = 1
  · simp only [h0, hm, hp, if_true, if_false]
    cases hns : nextState s tr.off with
    | none => simp
    | some c =>
      refine Or.inr (Or.inl ⟨c, hfv _ c hns ?_, rfl⟩)
      intro x hx
      exact (List.mem_filter.mp hx).1
  simp only [h0, hm, hp, if_false]
  cases fut with
  | true => exact Or.inr (Or.inr ⟨rfl, rfl⟩)
  | false =>
    simp only [Bool.false_eq_true, if_false]
    cases hsa : stateAsof s a with
    | none => simp
    | some c =>
      refine Or.inr (Or.inl ⟨c, hscan _ none c hsa ?_ (by simp), rfl⟩)
      intro x hx
      exact (List.mem_filter.mp (List.mem_reverse.mp hx)).1

/-- example store for the non-vacuity checks of Props/C19: three states, one invalid candidate -/
def exStore : Store :=
  ⟨[⟨100, 10, 1⟩, ⟨200, 0, 0⟩, ⟨300, 20, 2⟩, ⟨900, 30, 3⟩], 1000, ⟨900, 5, 3⟩⟩

end Gsu.Asof
