/-
Lemmas about the mirrors in Gsu.Model.Str (C38).
-/
import Gsu.Model.Str
namespace Gsu.Str
open Gsu.Proto Gsu.Ascii

/-! ### indexByte -/

theorem indexByte_ge (s : Bytes) (c : UInt8) : indexByte s c ≥ -1 := by
  induction s with
  | nil => simp [indexByte]
  | cons b r ih =>
    simp only [indexByte]
    split
    · omega
    · split <;> omega

theorem indexByte_neg (s : Bytes) (c : UInt8) : indexByte s c = -1 ↔ s.contains c = false := by
  induction s with
  | nil => simp [indexByte]
  | cons b r ih =>
    simp only [indexByte, List.contains_cons]
    have hge := indexByte_ge r c
    by_cases h : b = c
    · subst h; simp
    · have h' : (c == b) = false := by simp; exact fun e => h e.symm
      simp only [h, if_false, h', Bool.false_or]
      rw [← ih]
      constructor
      · intro hh; split at hh <;> omega
      · intro hh; simp [hh]

theorem indexByte_idxOf (s : Bytes) (c : UInt8) (h : s.contains c = true) :
    indexByte s c = (s.idxOf c : Int) := by
  induction s with
  | nil => simp at h
  | cons b r ih =>
    simp only [indexByte, List.idxOf_cons]
    by_cases hb : b = c
    · subst hb; simp
    · have hbc : (b == c) = false := by simp [hb]
      have h' : (c == b) = false := by simp; exact fun e => hb e.symm
      simp only [List.contains_cons, h', Bool.false_or] at h
      have := ih h
      simp only [hb, if_false, hbc]
      rw [this]
      have : ¬ ((r.idxOf c : Int) < 0) := by omega
      simp [this]

/-! ### tr.Replace -/

/-- the `collapse` flag of Replace -/
def col (frm to : Bytes) (allbut : Bool) : Bool :=
  decide (to.length > 0) && (allbut || decide (to.length < frm.length))

/-- the `lastto` of Replace -/
def lt (to : Bytes) : Int := (to.length : Int) - 1

/-- `classify` expressed through what the loop computes (`xindex`) -/
theorem classify_xindex (frm to : Bytes) (allbut : Bool) (c : UInt8) :
    classify frm to allbut c =
      (let i := xindex frm c allbut (lt to)
       if i < 0 then .keep c
       else if lt to < 0 then .del
       else if col frm to allbut = true ∧ i ≥ lt to then .sq
       else .map (toAt to i)) := by
  have hge := indexByte_ge frm c
  have hneg := indexByte_neg frm c
  simp only [classify, xindex, lt, col, toAt]
  cases allbut
  · -- plain set
    by_cases hm : frm.contains c = true
    · have hi := indexByte_idxOf frm c hm
      have hlen : frm.idxOf c < frm.length := by
        apply List.idxOf_lt_length_iff.mpr
        simpa using hm
      simp only [hm, hi, Bool.false_eq_true, if_false, Bool.not_true]
      have h0 : ¬ ((frm.idxOf c : Int) < 0) := by omega
      simp only [h0, if_false]
      by_cases he : to.isEmpty = true
      · have : to.length = 0 := by simpa using he
        simp [he, this]
      · have hl : to.length ≠ 0 := by simpa using he
        have h1 : ¬ ((to.length : Int) - 1 < 0) := by omega
        simp only [he, h1, if_false, Bool.false_or, Bool.and_eq_true, decide_eq_true_eq]
        have : (frm.idxOf c ≥ to.length - 1 ∧ (False ∨ to.length < frm.length)) ↔
            ((to.length > 0 ∧ to.length < frm.length) ∧ (frm.idxOf c : Int) ≥ (to.length : Int) - 1) := by
          constructor
          · rintro ⟨a, b⟩; rcases b with b | b
            · exact absurd b id
            · exact ⟨⟨by omega, b⟩, by omega⟩
          · rintro ⟨⟨_, b⟩, a⟩; exact ⟨by omega, Or.inr b⟩
        simp only [Bool.false_eq_true, this, Int.toNat_natCast, if_false]
    · have hm' : frm.contains c = false := by simpa using hm
      have : indexByte frm c = -1 := hneg.mpr hm'
      have hmem : c ∉ frm := by simpa using hm'
      simp [this, hmem]
  · -- complemented set
    by_cases hm : frm.contains c = true
    · have hi := indexByte_idxOf frm c hm
      have h0 : ¬ (indexByte frm c = -1) := by omega
      have hmem : c ∈ frm := by simpa using hm
      simp [h0, hmem]
    · have hm' : frm.contains c = false := by simpa using hm
      have hi : indexByte frm c = -1 := hneg.mpr hm'
      simp only [hm', hi, if_true, Bool.not_false, Bool.not_true, Bool.false_eq_true, if_false]
      by_cases he : to.isEmpty = true
      · have : to.length = 0 := by simpa using he
        simp [he, this]
      · have hl : to.length ≠ 0 := by simpa using he
        have h1 : ¬ ((to.length : Int) - 1 + 1 < 0) := by omega
        have h2 : ¬ ((to.length : Int) - 1 < 0) := by omega
        have h3 : to.length ≥ to.length - 1 := by omega
        have h4 : to.length > 0 := by omega
        have h5 : ¬ ((to.length : Int) < 0) := by omega
        have h6 : (to.length : Int) - 1 ≤ to.length := by omega
        simp [he, h2, h3, h4, h5, h6]

theorem toAt_last (to : Bytes) (h : ¬ lt to < 0) : toAt to (lt to) = to.getLastD 0 := by
  simp only [lt] at h
  simp only [toAt, lt]
  have h1 : ((to.length : Int) - 1).toNat = to.length - 1 := by omega
  rw [h1]
  cases to with
  | nil => simp at h
  | cons a r =>
    simp only [List.getLastD_cons, List.length_cons, Nat.add_sub_cancel]
    rw [List.getD_eq_getElem?_getD, List.getLastD_eq_getLast?]
    simp [List.getLast?_eq_getElem?]
    cases r <;> simp [List.getLast?_eq_getElem?]

theorem col_lt (frm to : Bytes) (allbut : Bool) (h : col frm to allbut = true) : ¬ lt to < 0 := by
  simp only [col, Bool.and_eq_true, decide_eq_true_eq] at h
  simp only [lt]; omega

/-- the scan loop computes classify-then-squeeze (abstract in the flag values) -/
theorem scan_spec' (frm to : Bytes) (allbut cl : Bool) (lastto : Int) (last : UInt8)
    (hcls : ∀ c, classify frm to allbut c =
      (if xindex frm c allbut lastto < 0 then .keep c
       else if lastto < 0 then .del
       else if cl = true ∧ xindex frm c allbut lastto ≥ lastto then .sq
       else .map (toAt to (xindex frm c allbut lastto))))
    (hlt : cl = true → ¬ lastto < 0)
    (hlast : ¬ lastto < 0 → toAt to lastto = last)
    (flag : Bool) (r : Bytes) (hf : flag = true → cl = true) :
    scan frm to allbut cl lastto flag r =
      squeeze last flag (r.map (classify frm to allbut)) := by
  induction r generalizing flag with
  | nil => cases flag <;> simp [scan, squeeze]
  | cons c r ih =>
    simp only [List.map_cons]
    rw [hcls c]
    cases flag
    · simp only [scan]
      generalize xindex frm c allbut lastto = i
      by_cases hneg : i < 0
      · have : ¬ (cl = true ∧ i ≥ lastto) := by
          rintro ⟨h1, h2⟩; have := hlt h1; omega
        rw [if_neg this, if_pos hneg, ih false (by simp)]
        simp [emit, hneg, squeeze]
      · rw [if_neg hneg]
        by_cases hl : lastto < 0
        · have : ¬ (cl = true ∧ i ≥ lastto) := by
            rintro ⟨h1, _⟩; exact hlt h1 hl
          have hl' : ¬ lastto ≥ 0 := by omega
          rw [if_neg this, if_pos hl, ih false (by simp)]
          simp [emit, hneg, hl', squeeze]
        · rw [if_neg hl]
          by_cases hc : cl = true ∧ i ≥ lastto
          · rw [if_pos hc, if_pos hc, ih true (fun _ => hc.1), hlast hl]
            simp [squeeze]
          · have hl' : lastto ≥ 0 := by omega
            rw [if_neg hc, if_neg hc, ih false (by simp)]
            simp [emit, hneg, hl', squeeze]
    · have hcol := hf rfl
      have hl := hlt hcol
      have hl' : lastto ≥ 0 := by omega
      simp only [scan]
      generalize xindex frm c allbut lastto = i
      by_cases hneg : i < 0
      · have : i < lastto := by omega
        rw [if_pos this, if_pos hneg, ih false (by simp)]
        simp [emit, hneg, squeeze]
      · rw [if_neg hneg, if_neg hl]
        by_cases hc : i < lastto
        · have : ¬ (cl = true ∧ i ≥ lastto) := by
            rintro ⟨_, h2⟩; omega
          rw [if_pos hc, if_neg this, ih false (by simp)]
          simp [emit, hneg, hl', squeeze]
        · have : cl = true ∧ i ≥ lastto := ⟨hcol, by omega⟩
          rw [if_neg hc, if_pos this, ih true (fun _ => hcol)]
          simp [squeeze]

theorem scan_spec (frm to : Bytes) (allbut : Bool) (flag : Bool) (r : Bytes)
    (hf : flag = true → col frm to allbut = true) :
    scan frm to allbut (col frm to allbut) (lt to) flag r =
      squeeze (to.getLastD 0) flag (r.map (classify frm to allbut)) :=
  scan_spec' frm to allbut _ _ _ (fun c => classify_xindex frm to allbut c)
    (col_lt frm to allbut) (toAt_last to) flag r hf

/-- the first loop only skips bytes the scan loop would copy unchanged -/
theorem scan_firstHit (frm to : Bytes) (allbut : Bool) (src : Bytes) :
    src.take (firstHit frm allbut src) ++
        scan frm to allbut (col frm to allbut) (lt to) false (src.drop (firstHit frm allbut src)) =
      scan frm to allbut (col frm to allbut) (lt to) false src := by
  induction src with
  | nil => simp [firstHit]
  | cons c r ih =>
    simp only [firstHit]
    by_cases h : allbut = decide (indexByte frm c = -1)
    · simp [h]
    · simp only [h, if_false]
      have e : 1 + firstHit frm allbut r = firstHit frm allbut r + 1 := by omega
      rw [e, List.take_succ_cons, List.drop_succ_cons, List.cons_append, ih]
      have hx : xindex frm c allbut (lt to) = -1 := by
        simp only [xindex]
        cases allbut
        · simp only [Bool.false_eq_true, if_false]
          simp only [Bool.false_eq, decide_eq_false_iff_not, Decidable.not_not] at h
          exact h
        · simp only [if_true]
          simp only [Bool.true_eq, decide_eq_true_eq] at h
          simp [h]
      simp only [scan, hx]
      have : ¬ (col frm to allbut = true ∧ (-1 : Int) ≥ lt to) := by
        rintro ⟨h1, h2⟩; have := col_lt _ _ _ h1; omega
      simp [this, emit]

theorem squeeze_keep (last : UInt8) (src : Bytes) :
    squeeze last false (src.map Cls.keep) = src := by
  induction src with
  | nil => rfl
  | cons c r ih => simp [squeeze, ih]

theorem replace_spec (src frm0 to : Bytes) : replace src frm0 to = trSpec src frm0 to := by
  simp only [replace, trSpec]
  by_cases h0 : (src.isEmpty || frm0.isEmpty) = true
  · simp only [h0, if_true]
    rcases Bool.or_eq_true _ _ |>.mp h0 with h | h
    · have : src = [] := by simpa using h
      subst this; simp [squeeze]
    · have : frm0 = [] := by simpa using h
      subst this
      have : (fun c => classify [] to false c) = Cls.keep := by
        funext c; simp [classify]
      simp [this, squeeze_keep]
  · simp only [h0, Bool.false_eq_true, if_false]
    generalize (frm0.head? == some 94) = allbut
    generalize (if allbut = true then frm0.tail else frm0) = frm
    have hs := scan_firstHit frm to allbut src
    have hspec := scan_spec frm to allbut false src (by simp)
    simp only [col, lt] at hs hspec
    split
    · rename_i hlen
      rw [hlen, List.take_length, List.drop_length] at hs
      simp only [scan, List.append_nil] at hs
      rw [← hspec, ← hs]
    · rw [hs, hspec]

/-! ### tr.New / expandRanges -/

theorem rangeLoop_spec (c hi f : Nat) (h : f ≥ hi + 1 - c) :
    rangeLoop c hi f = (List.range' c (hi + 1 - c)).map UInt8.ofNat := by
  induction f generalizing c with
  | zero =>
    have : hi + 1 - c = 0 := by omega
    simp [rangeLoop, this]
  | succ f ih =>
    simp only [rangeLoop]
    by_cases hc : c ≤ hi
    · have e : hi + 1 - c = (hi + 1 - (c + 1)) + 1 := by omega
      simp only [hc, if_true]
      rw [ih (c + 1) (by omega), e, List.range'_succ]
      simp
    · have : hi + 1 - c = 0 := by omega
      simp [hc, this]

theorem rangeBytes_spec (a b : UInt8) : rangeBytes a b = (Item.range a b).denote := by
  simp only [rangeBytes, Item.denote]
  apply rangeLoop_spec
  have := a.toNat_lt; have := b.toNat_lt
  omega

theorem mem_rangeBytes (a b c : UInt8) : c ∈ rangeBytes a b ↔ a ≤ c ∧ c ≤ b := by
  rw [rangeBytes_spec]
  simp only [Item.denote, List.mem_map, List.mem_range'_1]
  have hb := b.toNat_lt
  constructor
  · rintro ⟨n, ⟨h1, h2⟩, rfl⟩
    have hn : n < 256 := by omega
    have : (UInt8.ofNat n).toNat = n := by simp [UInt8.toNat_ofNat, Nat.mod_eq_of_lt hn]
    exact ⟨by rw [UInt8.le_iff_toNat_le, this]; exact h1,
           by rw [UInt8.le_iff_toNat_le, this]; omega⟩
  · rintro ⟨h1, h2⟩
    rw [UInt8.le_iff_toNat_le] at h1 h2
    exact ⟨c.toNat, ⟨h1, by omega⟩, by simp⟩

theorem expandLoop_spec (s : Bytes) : expandLoop s = (parseItems s).flatMap Item.denote := by
  fun_induction expandLoop s with
  | case1 a b rest ih => simp [parseItems, ih, rangeBytes_spec]
  | case2 a rest hne ih =>
    rw [parseItems.eq_2 _ _ hne]
    simp [ih, Item.denote]
  | case3 => simp [parseItems]

/-- a set without a `-` strictly inside is left alone by the expansion loop -/
theorem expandLoop_id (s : Bytes) (h : indexByte (s.drop 1 |>.dropLast) 45 = -1) :
    expandLoop s = s := by
  fun_induction expandLoop s with
  | case1 a b rest ih =>
    exfalso
    simp only [List.drop_succ_cons, List.drop_zero] at h
    cases rest <;> simp [indexByte, List.dropLast] at h
  | case2 a rest hne ih =>
    congr 1
    apply ih
    rw [indexByte_neg] at h ⊢
    simp only [List.drop_succ_cons, List.drop_zero] at h
    cases rest with
    | nil => simp
    | cons x r =>
      simp only [List.drop_succ_cons, List.drop_zero]
      cases r with
      | nil => simp
      | cons y r' =>
        simp only [List.dropLast_cons_cons] at h
        simp only [List.contains_cons, Bool.or_eq_false_iff] at h
        exact h.2
  | case3 => rfl

theorem trNew_eq_expandRanges (s : Bytes) : trNew s = expandRanges s := by
  have key : ∀ t : Bytes, indexByte ((t.drop 1).take (t.length - 1 - 1)) 45 = -1 → expandLoop t = t := by
    intro t h
    apply expandLoop_id
    rw [List.dropLast_eq_take, List.length_drop]
    exact h
  unfold trNew
  by_cases hlen : s.length < 3
  · rw [if_pos hlen]
    cases s with
    | nil => simp [expandRanges, expandLoop]
    | cons a r =>
      have short : ∀ t : Bytes, t.length < 3 → expandLoop t = t := by
        intro t ht
        apply key
        have : t.length - 1 - 1 = 0 ∨ (t.drop 1) = [] := by
          left; omega
        rcases this with h | h <;> simp [h, indexByte]
      by_cases ha : a = 94
      · subst ha
        simp only [expandRanges]
        rw [short r (by simp at hlen; omega)]
      · have : expandRanges (a :: r) = expandLoop (a :: r) := by
          unfold expandRanges
          split
          · rename_i h; cases h; exact absurd rfl ha
          · rfl
        rw [this, short _ hlen]
  · rw [if_neg hlen]
    cases s with
    | nil => simp at hlen
    | cons a r =>
      by_cases ha : a = 94
      · subst ha
        simp only [List.head?_cons, beq_self_eq_true, if_true, List.length_cons, expandRanges]
        split
        · rename_i h
          rw [key r]
          have e : r.length + 1 - 1 - (1 + 1) = r.length - 1 - 1 := by omega
          rw [e] at h
          simpa using h
        · rfl
      · have hx : expandRanges (a :: r) = expandLoop (a :: r) := by
          unfold expandRanges
          split
          · rename_i h; cases h; exact absurd rfl ha
          · rfl
        have hb : ((a :: r).head? == some 94) = false := by simp [ha]
        simp only [hb, Bool.false_eq_true, if_false]
        split
        · rename_i h
          rw [hx, key (a :: r)]
          simpa using h
        · rfl

/-! ### util/str -/

theorem toLowerStr_spec (s : Bytes) : toLowerStr s = s.map toLower := by
  induction s with
  | nil => rfl
  | cons c r ih =>
    simp only [toLowerStr, List.map_cons]
    split
    · rename_i h; simp only [toLower, h, and_self, if_true]; rfl
    · rename_i h; rw [ih]; simp only [toLower, h, if_false]

theorem toUpperStr_spec (s : Bytes) : toUpperStr s = s.map toUpper := by
  induction s with
  | nil => rfl
  | cons c r ih =>
    simp only [toUpperStr, List.map_cons]
    split
    · rename_i h; simp only [toUpper, h, and_self, if_true]; rfl
    · rename_i h; rw [ih]; simp only [toUpper, h, if_false]

theorem cmpLower_spec (s t : Bytes) :
    cmpLower s t = cmpBytes (s.map toLower) (t.map toLower) := by
  induction s generalizing t with
  | nil => cases t <;> simp [cmpLower, cmpBytes, cmpNat]
  | cons a s ih =>
    cases t with
    | nil => simp [cmpLower, cmpBytes, cmpNat]
    | cons b t => simp only [cmpLower, List.map_cons, cmpBytes]; rw [ih]

theorem cmpBytes_eq_zero (a b : Bytes) : cmpBytes a b = 0 ↔ a = b := by
  induction a generalizing b with
  | nil => cases b <;> simp [cmpBytes]
  | cons x a ih =>
    cases b with
    | nil => simp [cmpBytes]
    | cons y b =>
      simp only [cmpBytes, List.cons.injEq]
      by_cases h1 : x < y
      · have : x ≠ y := fun e => by subst e; exact absurd h1 (UInt8.lt_irrefl x)
        simp [h1, this]
      · by_cases h2 : x > y
        · have : x ≠ y := fun e => by subst e; exact absurd h2 (UInt8.lt_irrefl x)
          simp [h1, h2, this]
        · have : x = y := by
            apply UInt8.le_antisymm
            · exact UInt8.not_lt.mp h2
            · exact UInt8.not_lt.mp h1
          simp [h1, h2, this, ih]

theorem cmpBytes_swap (a b : Bytes) : cmpBytes b a = - cmpBytes a b := by
  induction a generalizing b with
  | nil => cases b <;> simp [cmpBytes]
  | cons x a ih =>
    cases b with
    | nil => simp [cmpBytes]
    | cons y b =>
      simp only [cmpBytes]
      by_cases h1 : x < y
      · have h2 : ¬ y < x := UInt8.not_lt.mpr (UInt8.le_of_lt h1)
        have h3 : y > x := h1
        simp [h1, h2, h3]
      · by_cases h2 : y < x
        · have h3 : x > y := h2
          simp [h1, h2, h3]
        · have h3 : ¬ x > y := h2
          have h4 : ¬ y > x := h1
          simp [h1, h2, h3, h4, ih]

theorem equalCILoop_spec (x y : Bytes) (h : x.length = y.length) :
    equalCILoop x y = true ↔ x.map toLower = y.map toLower := by
  induction x generalizing y with
  | nil => cases y <;> simp_all [equalCILoop]
  | cons a x ih =>
    cases y with
    | nil => simp at h
    | cons b y =>
      simp only [List.length_cons, Nat.add_right_cancel_iff] at h
      simp only [equalCILoop, List.map_cons, List.cons.injEq]
      by_cases hab : toLower a = toLower b
      · simp [hab, ih y h]
      · simp [hab]

theorem equalCI_spec (x y : Bytes) : equalCI x y = true ↔ x.map toLower = y.map toLower := by
  unfold equalCI
  by_cases h : x.length = y.length
  · simp only [h, ne_eq, not_true_eq_false, if_false]
    exact equalCILoop_spec x y h
  · simp only [ne_eq, h, not_false_eq_true, if_true, Bool.false_eq_true, false_iff]
    intro e
    apply h
    have := congrArg List.length e
    simpa using this

theorem hasPrefix_append (s p : Bytes) (h : hasPrefix s p = true) : p ++ s.drop p.length = s := by
  induction p generalizing s with
  | nil => simp
  | cons b p ih =>
    cases s with
    | nil => simp [hasPrefix] at h
    | cons a s =>
      simp only [hasPrefix, Bool.and_eq_true, beq_iff_eq] at h
      simp [h.1, ih s h.2]

theorem joinLoop_splitGo (sep : Bytes) (f : Nat) (cur s : Bytes) (first : Bool) :
    joinLoop sep first (splitGo sep f cur s) =
      (if first then [] else sep) ++ cur.reverse ++ s := by
  induction f generalizing cur s first with
  | zero => simp [splitGo, joinLoop]
  | succ f ih =>
    cases s with
    | nil => simp [splitGo, joinLoop]
    | cons c r =>
      simp only [splitGo]
      split
      · rename_i h
        simp only [joinLoop, ih]
        have := hasPrefix_append (c :: r) sep h
        simp only [Bool.false_eq_true, if_false, List.reverse_nil, List.append_nil, List.append_assoc]
        rw [this]
      · rw [ih]; simp

/-- for a one byte separator no piece contains the separator: together with
`joinLoop_splitGo` this determines the split uniquely -/
theorem splitGo_single_free (b : UInt8) (f : Nat) (cur s : Bytes) (hf : f ≥ s.length + 1)
    (hc : b ∉ cur) : ∀ p ∈ splitGo [b] f cur s, b ∉ p := by
  induction f generalizing cur s with
  | zero => omega
  | succ f ih =>
    cases s with
    | nil => intro p hp; simp only [splitGo, List.mem_singleton] at hp; subst hp; simpa using hc
    | cons c r =>
      simp only [List.length_cons] at hf
      simp only [splitGo, hasPrefix, Bool.and_true, beq_iff_eq]
      split
      · intro p hp
        simp only [List.length_cons, List.length_nil, Nat.zero_add, List.drop_succ_cons,
          List.drop_zero, List.mem_cons] at hp
        rcases hp with hp | hp
        · subst hp; simpa using hc
        · exact ih [] r (by omega) (by simp) p hp
      · rename_i hne
        apply ih (c :: cur) r (by omega)
        simp only [List.mem_cons, not_or]
        exact ⟨fun e => hne e.symm, hc⟩

end Gsu.Str
