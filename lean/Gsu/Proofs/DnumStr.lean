/-
C27: `FromStr (String d) = d` for every finite normalised decimal (all four output formats),
zero and the infinities. Core tactics only.
-/
import Gsu.Proofs.Dnum2
namespace Gsu.Dnum

/-- the digit character `'0' + q` -/
def dch (q : Nat) : Char := Char.ofNat (48 + q)

theorem dch_facts : ∀ q, q < 10 → isDigit (dch q) = true ∧ (dch q).toNat - 48 = q ∧
    (dch q = '0' ↔ q = 0) := by decide

def AllDig (ds : List Char) : Prop := ∀ c ∈ ds, isDigit c = true

theorem AllDig_cons {c : Char} {r : List Char} (h : AllDig (c :: r)) : isDigit c = true ∧ AllDig r :=
  ⟨h c (List.mem_cons_self ..), fun x hx => h x (List.mem_cons_of_mem _ hx)⟩

theorem AllDig_append {a b : List Char} (ha : AllDig a) (hb : AllDig b) : AllDig (a ++ b) := by
  intro c hc
  rcases List.mem_append.1 hc with h | h
  · exact ha c h
  · exact hb c h

theorem AllDig_take {a : List Char} (k : Nat) (ha : AllDig a) : AllDig (a.take k) :=
  fun c hc => ha c (List.mem_of_mem_take hc)

theorem AllDig_drop {a : List Char} (k : Nat) (ha : AllDig a) : AllDig (a.drop k) :=
  fun c hc => ha c (List.mem_of_mem_drop hc)

theorem AllDig_zeros (k : Nat) : AllDig (zeros k) := by
  intro c hc
  have := List.eq_of_mem_replicate hc
  subst this; decide

/-- what the digit loops of `getCoef` add to `n` for a run of digits starting at position `p` -/
def dval : List Char → Int → Nat
  | [], _ => 0
  | c :: r, p => (if c ≠ '0' ∧ p ≥ 0 then (c.toNat - 48) * pow10 p.toNat else 0) + dval r (p - 1)

theorem dval_append : ∀ (a b : List Char) (p : Int), dval (a ++ b) p = dval a p + dval b (p - a.length)
  | [], b, p => by simp [dval]
  | c :: r, b, p => by
    simp only [List.cons_append, dval, dval_append r b (p - 1), List.length_cons]
    have : p - 1 - (r.length : Int) = p - ((r.length + 1 : Nat) : Int) := by omega
    rw [this]; omega

theorem dval_zeros : ∀ (k : Nat) (p : Int), dval (zeros k) p = 0
  | 0, _ => rfl
  | k + 1, p => by
    have : zeros (k + 1) = '0' :: zeros k := rfl
    rw [this]
    simp only [dval, dval_zeros k (p - 1)]
    simp

theorem ite_add_eq (C : Prop) [Decidable C] (n X D : Nat) :
    (if C then n + X else n) + D = n + ((if C then X else 0) + D) := by
  split <;> omega

theorem afterPoint_digits : ∀ (ds rest : List Char) (n : Nat) (exp p : Int) (dg : Bool), AllDig ds →
    coefLoop.afterPoint (ds ++ rest) n exp p dg =
      coefLoop.afterPoint rest (n + dval ds p) exp (p - ds.length) (dg || !ds.isEmpty)
  | [], rest, n, exp, p, dg, _ => by simp [dval]
  | c :: r, rest, n, exp, p, dg, h => by
    obtain ⟨hc, hr⟩ := AllDig_cons h
    have e2 : p - 1 - (r.length : Int) = p - ((r.length + 1 : Nat) : Int) := by omega
    simp only [List.cons_append, coefLoop.afterPoint, hc, if_true]
    rw [afterPoint_digits r rest _ exp (p - 1) true hr, e2]
    simp only [dval, ite_add_eq, List.length_cons, List.isEmpty_cons, Bool.not_false, Bool.or_true,
      Bool.true_or]

theorem coefLoop_digits : ∀ (ds rest : List Char) (n : Nat) (exp p : Int) (dg : Bool), AllDig ds →
    coefLoop (ds ++ rest) n exp p dg true =
      coefLoop rest (n + dval ds p) exp (p - ds.length) (dg || !ds.isEmpty) true
  | [], rest, n, exp, p, dg, _ => by simp [dval]
  | c :: r, rest, n, exp, p, dg, h => by
    obtain ⟨hc, hr⟩ := AllDig_cons h
    have e2 : p - 1 - (r.length : Int) = p - ((r.length + 1 : Nat) : Int) := by omega
    simp only [List.cons_append, coefLoop, hc, if_true]
    rw [coefLoop_digits r rest _ exp (p - 1) true hr, e2]
    simp only [dval, ite_add_eq, List.length_cons, List.isEmpty_cons, Bool.not_false, Bool.or_true,
      Bool.true_or]

/-- `getDigits` yields digit characters whose positional value is the coefficient; the first one
is non-zero when the coefficient has its top digit at position `i` -/
theorem getDigits_spec : ∀ (fuel coef i : Nat), i < fuel → coef < 10 ^ (i + 1) → i ≤ 15 →
    AllDig (getDigits fuel coef i) ∧ dval (getDigits fuel coef i) i = coef ∧
    (getDigits fuel coef i).length ≤ i + 1 ∧
    (10 ^ i ≤ coef → ∃ c r, getDigits fuel coef i = c :: r ∧ c ≠ '0' ∧ isDigit c = true)
  | 0, _, _, h, _, _ => by omega
  | fuel + 1, coef, i, hf, hc, hi => by
    by_cases h0 : coef = 0
    · subst h0
      refine ⟨by simp [getDigits, AllDig], by simp [getDigits, dval], by simp [getDigits], ?_⟩
      intro h; have := Nat.pow_pos (n := i) (show 0 < 10 by decide); omega
    · have hp : pow10 i = 10 ^ i := by simp only [pow10]; rw [if_pos (by omega)]
      have hpos : 0 < 10 ^ i := Nat.pow_pos (by decide)
      have hq : coef / 10 ^ i < 10 := by
        rw [Nat.div_lt_iff_lt_mul hpos, Nat.mul_comm, ← Nat.pow_succ]; exact hc
      obtain ⟨d1, d2, d3⟩ := dch_facts _ hq
      have hdm := Nat.div_add_mod coef (10 ^ i)
      have hmod := Nat.mod_lt coef hpos
      have hg : getDigits (fuel + 1) coef i = dch (coef / 10 ^ i) :: getDigits fuel (coef % 10 ^ i) (i - 1) := by
        simp only [getDigits, h0, if_false, hp]; rfl
      -- the tail
      have htail : AllDig (getDigits fuel (coef % 10 ^ i) (i - 1)) ∧
          dval (getDigits fuel (coef % 10 ^ i) (i - 1)) ((i : Int) - 1) = coef % 10 ^ i ∧
          (getDigits fuel (coef % 10 ^ i) (i - 1)).length ≤ i := by
        by_cases hi0 : i = 0
        · subst hi0
          have : coef % 10 ^ 0 = 0 := by simp [Nat.mod_one]
          rw [this]
          have : getDigits fuel 0 (0 - 1) = [] := by cases fuel <;> simp [getDigits]
          rw [this]; simp [AllDig, dval]
        · have hi1 : i - 1 + 1 = i := by omega
          obtain ⟨t1, t2, t3, _⟩ := getDigits_spec fuel (coef % 10 ^ i) (i - 1) (by omega)
            (by rw [hi1]; exact hmod) (by omega)
          have hcast : ((i - 1 : Nat) : Int) = (i : Int) - 1 := by omega
          rw [hcast] at t2
          exact ⟨t1, t2, by omega⟩
      obtain ⟨t1, t2, t3⟩ := htail
      rw [hg]
      refine ⟨?_, ?_, by simp only [List.length_cons]; omega, fun _ => ⟨_, _, rfl, ?_, d1⟩⟩
      · intro c hc
        rcases List.mem_cons.1 hc with h | h
        · rw [h]; exact d1
        · exact t1 c h
      · simp only [dval, t2, d2, hp, Int.toNat_natCast]
        by_cases hq0 : coef / 10 ^ i = 0
        · have : dch (coef / 10 ^ i) = '0' := d3.2 hq0
          simp only [this, ne_eq, not_true_eq_false, false_and, if_false]
          rw [hq0] at hdm; omega
        · have : dch (coef / 10 ^ i) ≠ '0' := fun h => hq0 (d3.1 h)
          have hnn : (i : Int) ≥ 0 := by omega
          simp only [this, ne_eq, not_false_eq_true, hnn, and_self, if_true]
          rw [Nat.mul_comm]; exact hdm
      · intro h
        have : coef / 10 ^ i = 0 := d3.1 h
        rw [this] at hdm
        rename_i hge
        omega

/-! ### the parser -/

/-- `FromStr` after the sign -/
def parseBody (sign : Int) (s1 : List Char) : Option Dnum :=
  match getCoef s1 with
  | none => none
  | some (s2, coef, exp) =>
    let (e, s3) := getExp s2
    let exp := exp + e
    if s3 ≠ [] then none
    else if coef = 0 ∨ exp < -128 then some zero
    else if exp > 127 then some (inf sign)
    else some ⟨coef, sign, exp⟩

theorem fromChars_pos (c : Char) (r : List Char) (h1 : c ≠ '-') (h2 : c ≠ '+') (h3 : c ≠ 'i') :
    fromChars (c :: r) = parseBody 1 (c :: r) := by
  have hs : getSign (c :: r) = (1, c :: r) := by
    unfold getSign; split <;> simp_all
  simp only [fromChars, hs]
  split
  · simp_all
  · rfl

theorem fromChars_neg (c : Char) (r : List Char) (h3 : c ≠ 'i') :
    fromChars ('-' :: c :: r) = parseBody (-1) (c :: r) := by
  have hs : getSign ('-' :: c :: r) = (-1, c :: r) := rfl
  simp only [fromChars, hs]
  split
  · simp_all
  · rfl

theorem parseBody_of (sign : Int) (s1 s2 : List Char) (coef : Nat) (exp e : Int)
    (hg : getCoef s1 = some (s2, coef, exp)) (he : getExp s2 = (e, []))
    (hc : coef ≠ 0) (h1 : -128 ≤ exp + e) (h2 : exp + e ≤ 127) :
    parseBody sign s1 = some ⟨coef, sign, exp + e⟩ := by
  simp only [parseBody, hg, he]
  simp only [ne_eq, not_true_eq_false, if_false, hc, false_or]
  rw [if_neg (by omega), if_neg (by omega)]

theorem isDigit_ne {c : Char} (h : isDigit c = true) :
    c ≠ '.' ∧ c ≠ 'e' ∧ c ≠ 'E' ∧ c ≠ '-' ∧ c ≠ '+' ∧ c ≠ 'i' := by
  refine ⟨?_, ?_, ?_, ?_, ?_, ?_⟩ <;> (intro hh; subst hh; revert h; decide)

theorem dropZeros_nz (c : Char) (r : List Char) (h : c ≠ '0') : dropZeros (c :: r) = (c :: r, 0) := by
  unfold dropZeros; split <;> simp_all

theorem dropZeros_zeros : ∀ (k : Nat) (c : Char) (r : List Char), c ≠ '0' →
    dropZeros (zeros k ++ c :: r) = (c :: r, k)
  | 0, c, r, h => by simpa [zeros] using dropZeros_nz c r h
  | k + 1, c, r, h => by
    have : zeros (k + 1) ++ c :: r = '0' :: (zeros k ++ c :: r) := rfl
    rw [this]
    simp only [dropZeros, dropZeros_zeros k c r h]

/-- `getCoef` on text starting with a non-zero digit -/
theorem getCoef_nz (c : Char) (r : List Char) (hd : isDigit c = true) (hnz : c ≠ '0') :
    getCoef (c :: r) =
      (if !(coefLoop (c :: r) 0 0 15 false true).2.2.2 then none
       else some ((coefLoop (c :: r) 0 0 15 false true).1, (coefLoop (c :: r) 0 0 15 false true).2.1,
         (coefLoop (c :: r) 0 0 15 false true).2.2.1)) := by
  have hdot := (isDigit_ne hd).1
  simp only [getCoef, dropZeros_nz c r hnz]
  split
  · simp_all
  · simp

/-- `getCoef` on `.000ddd` -/
theorem getCoef_point (k : Nat) (c : Char) (r : List Char) (hd : isDigit c = true) (hnz : c ≠ '0')
    (hr : AllDig r) :
    getCoef ('.' :: (zeros k ++ c :: r)) = some ([], dval (c :: r) 15, -(k : Int)) := by
  have hne : zeros k ++ c :: r ≠ [] := by simp
  have hdz : dropZeros ('.' :: (zeros k ++ c :: r)) = ('.' :: (zeros k ++ c :: r), 0) :=
    dropZeros_nz _ _ (by decide)
  have hall : AllDig (c :: r) := by
    intro x hx
    rcases List.mem_cons.1 hx with h | h
    · rw [h]; exact hd
    · exact hr x h
  have hap := afterPoint_digits (c :: r) [] 0 (0 - (k : Int)) 15 (decide (k > 0)) hall
  simp only [List.append_nil] at hap
  have hcl : coefLoop ('.' :: (zeros k ++ c :: r)) 0 0 15 false true
      = ([], 0 + dval (c :: r) 15, 0 - (k : Int), true) := by
    have hnd : isDigit '.' = false := by decide
    simp only [coefLoop, hnd, Bool.false_eq_true, if_false, if_true, Bool.not_false,
      dropZeros_zeros k c r hnz, Int.sub_self]
    rw [hap]
    simp [coefLoop.afterPoint]
  obtain ⟨x, t, hxt⟩ : ∃ x t, zeros k ++ c :: r = x :: t := by
    cases k with
    | zero => exact ⟨c, r, rfl⟩
    | succ k => exact ⟨'0', zeros k ++ c :: r, rfl⟩
  simp only [getCoef, hdz]
  split
  · simp only [hcl]; simp
  · rename_i hno
    exact absurd (by rw [hxt]) (hno x t)

theorem coefLoop_point (t : List Char) (n : Nat) (e p : Int) :
    coefLoop ('.' :: t) n e p true true = coefLoop.afterPoint t n (15 - p) p true := by
  have hnd : isDigit '.' = false := by decide
  simp [coefLoop, hnd]

theorem coefLoop_e (t : List Char) (n : Nat) (e p : Int) (dg : Bool) :
    coefLoop ('e' :: t) n e p dg true = ('e' :: t, n, 15 - p, dg) := by
  have hnd : isDigit 'e' = false := by decide
  simp [coefLoop, hnd]

theorem afterPoint_e (t : List Char) (n : Nat) (e p : Int) (dg : Bool) :
    coefLoop.afterPoint ('e' :: t) n e p dg = ('e' :: t, n, e, dg) := by
  have hnd : isDigit 'e' = false := by decide
  simp [coefLoop.afterPoint, hnd]

set_option maxRecDepth 4000 in
theorem getExp_int_a : ∀ n : Nat, n < 128 →
    getExp ('e' :: intToChars ((n : Int) - 129)) = ((n : Int) - 129, []) := by decide

set_option maxRecDepth 4000 in
theorem getExp_int_b : ∀ n : Nat, n < 128 →
    getExp ('e' :: intToChars ((n : Int) - 1)) = ((n : Int) - 1, []) := by decide

/-- the exponent text written by `String` (−129 … 126) is read back by `getExp` -/
theorem getExp_int (x : Int) (h1 : -129 ≤ x) (h2 : x ≤ 126) :
    getExp ('e' :: intToChars x) = (x, []) := by
  by_cases h : x < -1
  · have := getExp_int_a (x + 129).toNat (by omega)
    have e : (((x + 129).toNat : Nat) : Int) - 129 = x := by omega
    rw [e] at this; exact this
  · have := getExp_int_b (x + 1).toNat (by omega)
    have e : (((x + 1).toNat : Nat) : Int) - 1 = x := by omega
    rw [e] at this; exact this

/-- `String` after the sign -/
def bodyChars (coef : Nat) (exp : Int) : List Char :=
  let digits := getDigits 16 coef 15
  let nd : Int := digits.length
  let e : Int := exp - nd
  if -7 ≤ exp ∧ exp ≤ 0 then '.' :: (zeros (-e - nd).toNat ++ digits)
  else if -nd < e ∧ e ≤ -1 then digits.take (nd + e).toNat ++ '.' :: digits.drop (nd + e).toNat
  else if 0 < exp ∧ exp ≤ 16 then digits ++ zeros e.toNat
  else digits.take 1 ++ ((if nd > 1 then '.' :: digits.drop 1 else []) ++ 'e' :: intToChars (exp - 1))

theorem toChars_eq (coef : Nat) (sign exp : Int) (hs : sign = 1 ∨ sign = -1) :
    toChars ⟨coef, sign, exp⟩ = (if sign < 0 then ['-'] else []) ++ bodyChars coef exp := by
  have h0 : ¬ sign = 0 := by omega
  have hi : isInf ⟨coef, sign, exp⟩ = false := by rcases hs with rfl | rfl <;> rfl
  simp only [toChars, bodyChars, h0, hi, if_false, Bool.false_eq_true]
  repeat' split
  all_goals simp [List.append_assoc]

theorem getExp_nil : getExp [] = (0, []) := rfl

theorem coefLoop_nil (n : Nat) (e p : Int) (dg : Bool) : coefLoop [] n e p dg true = ([], n, 15 - p, dg) := by
  simp [coefLoop]

theorem afterPoint_nil (n : Nat) (e p : Int) (dg : Bool) :
    coefLoop.afterPoint [] n e p dg = ([], n, e, dg) := by
  simp [coefLoop.afterPoint]

/-- the text of a finite normalised decimal starts with `.` or a non-zero digit, and parses back -/
theorem body_parse (sg : Int) (coef : Nat) (exp : Int) (c1 : 10 ^ 15 ≤ coef) (c2 : coef < 10 ^ 16)
    (h1 : -128 ≤ exp) (h2 : exp ≤ 127) :
    (∃ c r, bodyChars coef exp = c :: r ∧ c ≠ '-' ∧ c ≠ '+' ∧ c ≠ 'i') ∧
    parseBody sg (bodyChars coef exp) = some ⟨coef, sg, exp⟩ := by
  obtain ⟨g1, g2, g3, g4⟩ := getDigits_spec 16 coef 15 (by omega) (by omega) (by omega)
  obtain ⟨c, r, hds, hcnz, hcd⟩ := g4 c1
  simp only [bodyChars]
  rw [hds] at g1 g2 g3 ⊢
  obtain ⟨_, hr⟩ := AllDig_cons g1
  obtain ⟨n1, n2, n3, n4, n5, n6⟩ := isDigit_ne hcd
  have hc0 : coef ≠ 0 := by omega
  simp only [List.length_cons] at g3 ⊢
  have g2' : dval (c :: r) 15 = coef := g2
  by_cases f1 : -7 ≤ exp ∧ exp ≤ 0
  · -- .000ddd
    rw [if_pos f1]
    refine ⟨⟨_, _, rfl, by decide, by decide, by decide⟩, ?_⟩
    have hk : ((-(exp - ((r.length + 1 : Nat) : Int)) - ((r.length + 1 : Nat) : Int)).toNat : Int) = -exp := by
      omega
    generalize (-(exp - ((r.length + 1 : Nat) : Int)) - ((r.length + 1 : Nat) : Int)).toNat = k at *
    have := parseBody_of sg _ _ _ _ 0 (getCoef_point k c r hcd hcnz hr) getExp_nil
      (by rw [g2']; exact hc0) (by omega) (by omega)
    rw [this, g2']
    simp only [Option.some.injEq, Dnum.mk.injEq, true_and]; omega
  · rw [if_neg f1]
    by_cases f2 : -((r.length + 1 : Nat) : Int) < exp - ((r.length + 1 : Nat) : Int) ∧
        exp - ((r.length + 1 : Nat) : Int) ≤ -1
    · -- dd.ddd
      rw [if_pos f2]
      have hdec : (((r.length + 1 : Nat) : Int) + (exp - ((r.length + 1 : Nat) : Int))).toNat = exp.toNat := by
        congr 1; omega
      rw [hdec]
      obtain ⟨m, hm⟩ : ∃ m, exp.toNat = m + 1 := ⟨exp.toNat - 1, by omega⟩
      have htk : (c :: r).take exp.toNat = c :: r.take m := by rw [hm]; rfl
      have hlen : ((c :: r).take exp.toNat).length = exp.toNat := by
        rw [List.length_take, List.length_cons]; omega
      refine ⟨⟨c, r.take m ++ '.' :: (c :: r).drop exp.toNat, by rw [htk]; rfl, n4, n5, n6⟩, ?_⟩
      have hcl : coefLoop ((c :: r).take exp.toNat ++ '.' :: (c :: r).drop exp.toNat) 0 0 15 false true
          = ([], coef, exp, true) := by
        rw [coefLoop_digits _ _ _ _ _ _ (AllDig_take _ g1)]
        have : (false || !((c :: r).take exp.toNat).isEmpty) = true := by rw [htk]; rfl
        rw [this, coefLoop_point]
        have := afterPoint_digits ((c :: r).drop exp.toNat) [] (0 + dval ((c :: r).take exp.toNat) 15)
          (15 - (15 - (((c :: r).take exp.toNat).length : Int))) (15 - (((c :: r).take exp.toNat).length : Int)) true
          (AllDig_drop _ g1)
        rw [List.append_nil] at this
        rw [this, afterPoint_nil]
        have hv := dval_append ((c :: r).take exp.toNat) ((c :: r).drop exp.toNat) 15
        rw [List.take_append_drop, g2'] at hv
        rw [hlen] at hv ⊢
        simp only [Prod.mk.injEq, true_and, Bool.true_or, and_true]
        omega
      have hgc : getCoef ((c :: r).take exp.toNat ++ '.' :: (c :: r).drop exp.toNat)
          = some ([], coef, exp) := by
        have := getCoef_nz c (r.take m ++ '.' :: (c :: r).drop exp.toNat) hcd hcnz
        rw [htk] at hcl ⊢
        rw [List.cons_append] at hcl ⊢
        rw [this, hcl]; rfl
      have := parseBody_of sg _ _ _ _ 0 hgc getExp_nil hc0 (by omega) (by omega)
      rw [this, Int.add_zero]
    · rw [if_neg f2]
      by_cases f3 : 0 < exp ∧ exp ≤ 16
      · -- ddd000
        rw [if_pos f3]
        refine ⟨⟨c, r ++ zeros _, rfl, n4, n5, n6⟩, ?_⟩
        have hz : (((exp - ((r.length + 1 : Nat) : Int)).toNat : Nat) : Int) = exp - ((r.length + 1 : Nat) : Int) := by
          omega
        generalize (exp - ((r.length + 1 : Nat) : Int)).toNat = z at *
        have hall : AllDig ((c :: r) ++ zeros z) := AllDig_append g1 (AllDig_zeros z)
        have hcl : coefLoop ((c :: r) ++ zeros z) 0 0 15 false true = ([], coef, exp, true) := by
          have := coefLoop_digits ((c :: r) ++ zeros z) [] 0 0 15 false hall
          rw [List.append_nil] at this
          rw [this, coefLoop_nil, dval_append, dval_zeros, g2']
          simp only [List.length_append, List.length_cons, zeros, List.length_replicate, Prod.mk.injEq,
            true_and]
          refine ⟨by omega, by push_cast; omega, by simp⟩
        have hgc : getCoef ((c :: r) ++ zeros z) = some ([], coef, exp) := by
          have := getCoef_nz c (r ++ zeros z) hcd hcnz
          rw [List.cons_append] at hcl ⊢
          rw [this, hcl]; rfl
        have := parseBody_of sg _ _ _ _ 0 hgc getExp_nil hc0 (by omega) (by omega)
        rw [this, Int.add_zero]
      · -- d.ddde±x
        rw [if_neg f3]
        have htk : (c :: r).take 1 = [c] := rfl
        have hdr : (c :: r).drop 1 = r := rfl
        rw [htk, hdr]
        refine ⟨⟨c, _, rfl, n4, n5, n6⟩, ?_⟩
        have hge := getExp_int (exp - 1) (by omega) (by omega)
        generalize intToChars (exp - 1) = E at *
        have hcl : coefLoop ([c] ++ ((if ((r.length + 1 : Nat) : Int) > 1 then '.' :: r else []) ++ 'e' :: E))
            0 0 15 false true = ('e' :: E, coef, 1, true) := by
          have hc1 : AllDig [c] := fun x hx => by
            rw [List.mem_singleton] at hx; rw [hx]; exact hcd
          rw [coefLoop_digits [c] _ _ _ _ _ hc1]
          have hv := dval_append [c] r 15
          have : [c] ++ r = c :: r := rfl
          rw [this, g2'] at hv
          by_cases hnd : ((r.length + 1 : Nat) : Int) > 1
          · rw [if_pos hnd]
            simp only [List.cons_append, List.length_singleton, List.isEmpty_cons, Bool.not_false,
              Bool.or_true]
            rw [coefLoop_point, afterPoint_digits r _ _ _ _ _ hr, afterPoint_e]
            simp only [Prod.mk.injEq, true_and, Bool.true_or, and_true]
            simp only [List.length_singleton] at hv
            exact ⟨by omega, by omega⟩
          · rw [if_neg hnd]
            have hr0 : r = [] := by
              cases r with
              | nil => rfl
              | cons a b => simp only [List.length_cons] at hnd; omega
            subst hr0
            simp only [List.nil_append, List.length_singleton, List.isEmpty_cons, Bool.not_false,
              Bool.or_true]
            rw [coefLoop_e]
            simp only [Prod.mk.injEq, true_and, and_true]
            simp only [dval] at hv
            simp only [dval]
            exact ⟨by omega, by omega⟩
        have hgc : getCoef ([c] ++ ((if ((r.length + 1 : Nat) : Int) > 1 then '.' :: r else []) ++ 'e' :: E))
            = some ('e' :: E, coef, 1) := by
          have := getCoef_nz c ((if ((r.length + 1 : Nat) : Int) > 1 then '.' :: r else []) ++ 'e' :: E) hcd hcnz
          rw [List.singleton_append] at hcl ⊢
          rw [this, hcl]; rfl
        have := parseBody_of sg _ _ _ _ (exp - 1) hgc hge hc0 (by omega) (by omega)
        rw [this]; simp only [Option.some.injEq, Dnum.mk.injEq, true_and]; omega

/-- string_roundtrip on finite normalised decimals -/
theorem roundtrip_finite (d : Dnum) (hw : WF d) (h1 : -128 ≤ d.exp) (h2 : d.exp ≤ 127) :
    fromChars (toChars d) = some d := by
  obtain ⟨coef, sign, exp⟩ := d
  obtain ⟨hs, c1, c2⟩ := hw
  simp only at hs c1 c2 h1 h2
  rw [toChars_eq coef sign exp hs]
  obtain ⟨⟨c, r, hb, n1, n2, n3⟩, hp⟩ := body_parse sign coef exp c1 c2 h1 h2
  rcases hs with rfl | rfl
  · simp only [show ¬ ((1 : Int) < 0) by decide, if_false, List.nil_append]
    rw [hb, fromChars_pos c r n1 n2 n3, ← hb]; exact hp
  · simp only [show ((-1 : Int) < 0) by decide, if_true]
    rw [hb]
    show fromChars ('-' :: c :: r) = _
    rw [fromChars_neg c r n3, ← hb]; exact hp

theorem roundtrip_special :
    fromChars (toChars zero) = some zero ∧ fromChars (toChars posInf) = some posInf ∧
    fromChars (toChars negInf) = some negInf := by decide

end Gsu.Dnum
