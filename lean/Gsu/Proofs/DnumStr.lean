/-
C27: `FromStr (String d) = d` for every finite normalised decimal (all four output formats),
zero and the infinities. Core tactics only.
-/
import Gsu.Proofs.Dnum2
namespace Gsu.Dnum

/-- the digit character `'0' + q` -/
def dch (q : Nat) : Char := Char.ofNat (48 + q)

theorem dch_facts : ∀ q, q < 10 → isDigit (dch q) = true ∧ (dch q).toNat - 48 = q ∧
    (dch q = '0' ↔ q = 0) := by decide

def AllDig (ds : List Char) : Prop := ∀ c ∈ ds, isDigit c = true

theorem AllDig_cons {c : Char} {r : List Char} (h : AllDig (c :: r)) : isDigit c = true ∧ AllDig r :=
  ⟨h c (List.mem_cons_self ..), fun x hx => h x (List.mem_cons_of_mem _ hx)⟩

theorem AllDig_append {a b : List Char} (ha : AllDig a) (hb : AllDig b) : AllDig (a ++ b) := by
  intro c hc
  rcases List.mem_append.1 hc with h | h
  · exact ha c h
  · exact hb c h

theorem AllDig_take {a : List Char} (k : Nat) (ha : AllDig a) : AllDig (a.take k) :=
  fun c hc => ha c (List.mem_of_mem_take hc)

theorem AllDig_drop {a : List Char} (k : Nat) (ha : AllDig a) : AllDig (a.drop k) :=
  fun c hc => ha c (List.mem_of_mem_drop hc)

theorem AllDig_zeros (k : Nat) : AllDig (zeros k) := by
  intro c hc
  have := List.eq_of_mem_replicate hc
  subst this; decide

/-- what the digit loops of `getCoef` add to `n` for a run of digits starting at position `p` -/
def dval : List Char → Int → Nat
  | [], _ => 0
  | c :: r, p => (if c ≠ '0' ∧ p ≥ 0 then (c.toNat - 48) * pow10 p.toNat else 0) + dval r (p - 1)

theorem dval_append : ∀ (a b : List Char) (p : Int), dval (a ++ b) p = dval a p + dval b (p - a.length)
  | [], b, p => by simp [dval]
  | c :: r, b, p => by
    simp only [List.cons_append, dval, dval_append r b (p - 1), List.length_cons]
    have : p - 1 - (r.length : Int) = p - ((r.length + 1 : Nat) : Int) := by omega
    rw [this]; omega

theorem dval_zeros : ∀ (k : Nat) (p : Int), dval (zeros k) p = 0
  | 0, _ => rfl
  | k + 1, p => by
    have : zeros (k + 1) = '0' :: zeros k := rfl
    rw [this]
    simp only [dval, dval_zeros k (p - 1)]
    simp

theorem ite_add_eq (C : Prop) [Decidable C] (n X D : Nat) :
    (if C then n + X else n) + D = n + ((if C then X else 0) + D) := by
  split <;> omega

theorem afterPoint_digits : ∀ (ds rest : List Char) (n : Nat) (exp p : Int) (dg : Bool), AllDig ds →
    coefLoop.afterPoint (ds ++ rest) n exp p dg =
      coefLoop.afterPoint rest (n + dval ds p) exp (p - ds.length) (dg || !ds.isEmpty)
  | [], rest, n, exp, p, dg, _ => by simp [dval]
  | c :: r, rest, n, exp, p, dg, h => by
    obtain ⟨hc, hr⟩ := AllDig_cons h
    have e2 : p - 1 - (r.length : Int) = p - ((r.length + 1 : Nat) : Int) := by omega
    simp only [List.cons_append, coefLoop.afterPoint, hc, if_true]
    rw [afterPoint_digits r rest _ exp (p - 1) true hr, e2]
    simp only [dval, ite_add_eq, List.length_cons, List.isEmpty_cons, Bool.not_false, Bool.or_true,
      Bool.true_or]

theorem coefLoop_digits : ∀ (ds rest : List Char) (n : Nat) (exp p : Int) (dg : Bool), AllDig ds →
    coefLoop (ds ++ rest) n exp p dg true =
      coefLoop rest (n + dval ds p) exp (p - ds.length) (dg || !ds.isEmpty) true
  | [], rest, n, exp, p, dg, _ => by simp [dval]
  | c :: r, rest, n, exp, p, dg, h => by
    obtain ⟨hc, hr⟩ := AllDig_cons h
    have e2 : p - 1 - (r.length : Int) = p - ((r.length + 1 : Nat) : Int) := by omega
    simp only [List.cons_append, coefLoop, hc, if_true]
    rw [coefLoop_digits r rest _ exp (p - 1) true hr, e2]
    simp only [dval, ite_add_eq, List.length_cons, List.isEmpty_cons, Bool.not_false, Bool.or_true,
      Bool.true_or]

/-- `getDigits` yields digit characters whose positional value is the coefficient; the first one
is non-zero when the coefficient has its top digit at position `i` -/
theorem getDigits_spec : ∀ (fuel coef i : Nat), i < fuel → coef < 10 ^ (i + 1) → i ≤ 15 →
    AllDig (getDigits fuel coef i) ∧ dval (getDigits fuel coef i) i = coef ∧
    (getDigits fuel coef i).length ≤ i + 1 ∧
    (10 ^ i ≤ coef → ∃ c r, getDigits fuel coef i = c :: r ∧ c ≠ '0' ∧ isDigit c = true)
  | 0, _, _, h, _, _ => by omega
  | fuel + 1, coef, i, hf, hc, hi => by
    by_cases h0 : coef = 0
    · subst h0
      refine ⟨by simp [getDigits, AllDig], by simp [getDigits, dval], by simp [getDigits], ?_⟩
      intro h; have := Nat.pow_pos (n := i) (show 0 < 10 by decide); omega
    · have hp : pow10 i = 10 ^ i := by simp only [pow10]; rw [if_pos (by omega)]
      have hpos : 0 < 10 ^ i := Nat.pow_pos (by decide)
      have hq : coef / 10 ^ i < 10 := by
        rw [Nat.div_lt_iff_lt_mul hpos, Nat.mul_comm, ← Nat.pow_succ]; exact hc
      obtain ⟨d1, d2, d3⟩ := dch_facts _ hq
      have hdm := Nat.div_add_mod coef (10 ^ i)
      have hmod := Nat.mod_lt coef hpos
      have hg : getDigits (fuel + 1) coef i = dch (coef / 10 ^ i) :: getDigits fuel (coef % 10 ^ i) (i - 1) := by
        simp only [getDigits, h0, if_false, hp]; rfl
      -- the tail
      have htail : AllDig (getDigits fuel (coef % 10 ^ i) (i - 1)) ∧
          dval (getDigits fuel (coef % 10 ^ i) (i - 1)) ((i : Int) - 1) = coef % 10 ^ i ∧
          (getDigits fuel (coef % 10 ^ i) (i - 1)).length ≤ i := by
        by_cases hi0 : i = 0
        · subst hi0
          have : coef % 10 ^ 0 = 0 := by simp [Nat.mod_one]
          rw [this]
          have : getDigits fuel 0 (0 - 1) = [] := by cases fuel <;> simp [getDigits]
          rw [this]; simp [AllDig, dval]
        · have hi1 : i - 1 + 1 = i := by omega
          obtain ⟨t1, t2, t3, _⟩ := getDigits_spec fuel (coef % 10 ^ i) (i - 1) (by omega)
            (by rw [hi1]; exact hmod) (by omega)
          have hcast : ((i - 1 : Nat) : Int) = (i : Int) - 1 := by omega
          rw [hcast] at t2
          exact ⟨t1, t2, by omega⟩
      obtain ⟨t1, t2, t3⟩ := htail
      rw [hg]
      refine ⟨?_, ?_, by simp only [List.length_cons]; omega, fun _ => ⟨_, _, rfl, ?_, d1⟩⟩
      · intro c hc
        rcases List.mem_cons.1 hc with h | h
        · rw [h]; exact d1
        · exact t1 c h
      · simp only [dval, t2, d2, hp, Int.toNat_natCast]
        by_cases hq0 : coef / 10 ^ i = 0
        · have : dch (coef / 10 ^ i) = '0' := d3.2 hq0
          simp only [this, ne_eq, not_true_eq_false, false_and, if_false]
          rw [hq0] at hdm; omega
        · have : dch (coef / 10 ^ i) ≠ '0' := fun h => hq0 (d3.1 h)
          have hnn : (i : Int) ≥ 0 := by omega
          simp only [this, ne_eq, not_false_eq_true, hnn, and_self, if_true]
          rw [Nat.mul_comm]; exact hdm
      · intro h
        have : coef / 10 ^ i = 0 := d3.1 h
        rw [this] at hdm
        rename_i hge
        omega

end Gsu.Dnum
