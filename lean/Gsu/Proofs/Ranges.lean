/-
Lemmas for C39 (ranges): the invariant of DESIGN Appendix A.3 and what `Contains` computes under it.
Core-only. Reuses the search lemmas of `Gsu.Proofs.Ordset`.
-/
import Gsu.Model.Ranges
import Gsu.Proofs.Ordset
namespace Gsu.Ranges
open Gsu.Ordset (Key bsearch bs bs_spec bs_unique bsearch_congr Sorted)

/-- `v` lies in the closed interval of the slot -/
def Slot.covers (s : Slot) (v : Key) : Prop := s.frm ≤ v ∧ v ≤ s.to

/-- a slot list as the code keeps it: every slot non-empty as an interval, ascending and
pairwise disjoint (`prev.to < next.from`) -/
structure DisjSorted (l : List Slot) : Prop where
  wf : ∀ s ∈ l, s.frm ≤ s.to
  sep : l.Pairwise (fun a b => a.to < b.frm)

def froms (l : List Slot) : List Key := l.map (·.frm)

theorem froms_sorted {l : List Slot} (h : DisjSorted l) : Sorted (froms l) := by
  unfold Sorted froms
  rw [List.pairwise_map]
  have hw := h.wf
  have hp := h.sep
  clear h
  induction l with
  | nil => exact List.Pairwise.nil
  | cons a l ih =>
    rw [List.pairwise_cons] at hp ⊢
    refine ⟨fun b hb => ?_, ih (fun s hs => hw s (List.mem_cons_of_mem _ hs)) hp.2⟩
    have := hw a List.mem_cons_self
    have := hp.1 b hb
    grind

structure LeafOK (P : Params) (l : Leaf) : Prop where
  len : l.slots.length = P.nodeSize
  sz : l.size ≤ P.nodeSize
  ds : DisjSorted l.live

theorem live_length {P : Params} {l : Leaf} (h : LeafOK P l) : l.live.length = l.size := by
  simp only [Leaf.live, List.length_take, h.len]; have := h.sz; omega

theorem get_eq_live (l : Leaf) (x : Nat) (hx : x < l.size) : l.get x = l.live[x]?.getD Slot.zero := by
  simp only [Leaf.get, Leaf.live, List.getElem?_take, hx, ↓reduceIte]

theorem lt_closed (v : Key) : ∀ a b : Key, a < b → decide (b < v) = true → decide (a < v) = true := by
  intro a b hab hb
  simp only [decide_eq_true_eq] at hb ⊢
  grind

theorem le_closed (v : Key) : ∀ a b : Key, a < b → decide (b ≤ v) = true → decide (a ≤ v) = true := by
  intro a b hab hb
  simp only [decide_eq_true_eq] at hb ⊢
  grind

theorem search_eq_bs {P : Params} {l : Leaf} (h : LeafOK P l) (v : Key) :
    l.search v = bs (froms l.live) (fun y => decide (y < v)) := by
  unfold Leaf.search bs froms
  rw [List.length_map, live_length h]
  apply bsearch_congr
  intro x _ hx
  rw [get_eq_live l x hx]
  simp only [List.getElem?_map]
  cases l.live[x]? <;> rfl

/-- what the leaf search finds: slots before `li` start below `v`, slots from `li` on start at or above `v` -/
theorem leaf_search_spec {P : Params} {l : Leaf} (h : LeafOK P l) (v : Key) :
    l.search v ≤ l.size ∧ (∀ s ∈ l.live.take (l.search v), s.frm < v) ∧
      (∀ s ∈ l.live.drop (l.search v), v ≤ s.frm) := by
  obtain ⟨h1, h2, h3⟩ := bs_spec (froms l.live) (fun y => decide (y < v)) (froms_sorted h.ds) (lt_closed v)
  rw [← search_eq_bs h] at h1 h2 h3
  have hl : (froms l.live).length = l.size := by simp [froms, live_length h]
  refine ⟨by omega, ?_, ?_⟩
  · intro s hs
    have : s.frm ∈ (froms l.live).take (l.search v) := by
      simp only [froms, ← List.map_take]; exact List.mem_map_of_mem hs
    simpa using h2 _ this
  · intro s hs
    have : s.frm ∈ (froms l.live).drop (l.search v) := by
      simp only [froms, ← List.map_drop]; exact List.mem_map_of_mem hs
    have := h3 _ this
    simp only [decide_eq_false_iff_not] at this
    grind

/-- in a disjoint sorted list split around position `i` by `v` (starts below `v` before, at or above
`v` from `i` on), `v` is covered iff the slot at `i` starts at `v` or the slot at `i-1` covers it:
exactly the two tests of `Contains` -/
theorem covers_split (a b : List Slot) (v : Key) (h : DisjSorted (a ++ b))
    (ha : ∀ s ∈ a, s.frm < v) (hb : ∀ s ∈ b, v ≤ s.frm) :
    (∃ s ∈ a ++ b, s.covers v) ↔
      ((∃ s, b.head? = some s ∧ s.frm = v) ∨ (∃ s, a.getLast? = some s ∧ s.covers v)) := by
  have hp := h.sep
  rw [List.pairwise_append] at hp
  obtain ⟨hpa, hpb, hx⟩ := hp
  constructor
  · rintro ⟨s, hs, hc⟩
    rcases List.mem_append.mp hs with hsa | hsb
    · right
      -- s must be the last of a: any later slot of a starts above s.to ≥ v
      rcases List.eq_nil_or_concat a with rfl | ⟨a', z, hz⟩
      · cases hsa
      · rw [List.concat_eq_append] at hz; subst hz
        refine ⟨z, by simp, ?_⟩
        rcases List.mem_append.mp hsa with hsa' | hz
        · rw [List.pairwise_append] at hpa
          have h1 := hpa.2.2 s hsa' z (by simp)
          have h2 := ha z (by simp)
          have := hc.2
          exfalso; grind
        · simp at hz; subst hz; exact hc
    · left
      cases b with
      | nil => cases hsb
      | cons b0 b' =>
        refine ⟨b0, rfl, ?_⟩
        rcases List.mem_cons.mp hsb with rfl | hsb'
        · have := hb s List.mem_cons_self; have := hc.1; grind
        · have h1 := (List.pairwise_cons.mp hpb).1 s hsb'
          have h2 := hb b0 List.mem_cons_self
          have h3 := h.wf b0 (by simp)
          have := hc.1
          exfalso; grind
  · rintro (⟨s, hs, he⟩ | ⟨s, hs, hc⟩)
    · cases b with
      | nil => cases hs
      | cons b0 b' =>
        simp only [List.head?_cons, Option.some.injEq] at hs; subst hs
        refine ⟨b0, by simp, ?_, ?_⟩
        · rw [he]; exact Std.le_refl _
        · have := h.wf b0 (by simp); rw [← he]; exact this
    · exact ⟨s, List.mem_append_left _ (List.mem_of_getLast? hs), hc⟩

/-- the two tests of `Contains` on the routed leaf -/
def leafContains (l : Leaf) (v : Key) : Bool :=
  if decide (l.search v < l.size) && (l.get (l.search v)).frm == v then true
  else if l.search v > 0 then
    decide ((l.get (l.search v - 1)).frm ≤ v) && decide (v ≤ (l.get (l.search v - 1)).to)
  else false

theorem leaf_contains_spec {P : Params} {l : Leaf} (h : LeafOK P l) (v : Key) :
    leafContains l v = true ↔ ∃ s ∈ l.live, s.covers v := by
  obtain ⟨h1, h2, h3⟩ := leaf_search_spec h v
  have hlen := live_length h
  have hds : DisjSorted (l.live.take (l.search v) ++ l.live.drop (l.search v)) := by
    rw [List.take_append_drop]; exact h.ds
  have hc := covers_split _ _ v hds h2 h3
  rw [List.take_append_drop] at hc
  rw [hc]
  unfold leafContains
  generalize l.search v = li at *
  have hhead : ∀ s, (l.live.drop li).head? = some s ↔ (li < l.size ∧ l.get li = s) := by
    intro s
    rw [List.head?_drop]
    by_cases hlt : li < l.size
    · have hlt' : li < l.live.length := by omega
      rw [get_eq_live l li hlt, List.getElem?_eq_getElem hlt']
      simp [hlt]
    · have : l.live.length ≤ li := by omega
      rw [List.getElem?_eq_none this]
      simp [hlt]
  have hlast : ∀ s, (l.live.take li).getLast? = some s ↔ (li > 0 ∧ l.get (li - 1) = s) := by
    intro s
    rcases Nat.eq_zero_or_pos li with rfl | hpos
    · simp
    · obtain ⟨m, rfl⟩ : ∃ m, li = m + 1 := ⟨li - 1, by omega⟩
      have hm : m < l.live.length := by omega
      rw [List.take_succ_eq_append_getElem hm, List.getLast?_append]
      have hm' : m < l.size := by omega
      simp only [List.getLast?_singleton, Option.some_or, Option.some.injEq, Nat.add_sub_cancel,
        gt_iff_lt, Nat.zero_lt_succ, true_and]
      rw [get_eq_live l m hm', List.getElem?_eq_getElem hm, Option.getD_some]
  constructor
  · intro hT
    by_cases c1 : (decide (li < l.size) && (l.get li).frm == v) = true
    · left
      simp only [Bool.and_eq_true, decide_eq_true_eq, beq_iff_eq] at c1
      exact ⟨l.get li, (hhead _).mpr ⟨c1.1, rfl⟩, c1.2⟩
    · right
      simp only [c1, Bool.false_eq_true, ↓reduceIte] at hT
      by_cases c2 : li > 0
      · simp only [c2, ↓reduceIte, Bool.and_eq_true, decide_eq_true_eq] at hT
        exact ⟨l.get (li - 1), (hlast _).mpr ⟨c2, rfl⟩, hT⟩
      · simp [c2] at hT
  · rintro (⟨s, hs, he⟩ | ⟨s, hs, hcov⟩)
    · obtain ⟨q1, q2⟩ := (hhead s).mp hs
      have : (decide (li < l.size) && (l.get li).frm == v) = true := by
        simp only [Bool.and_eq_true, decide_eq_true_eq, beq_iff_eq]; exact ⟨q1, by rw [q2]; exact he⟩
      simp only [this, ↓reduceIte]
    · obtain ⟨q1, q2⟩ := (hlast s).mp hs
      by_cases c1 : (decide (li < l.size) && (l.get li).frm == v) = true
      · simp only [c1, ↓reduceIte]
      · simp only [c1, Bool.false_eq_true, ↓reduceIte, q1, Bool.and_eq_true, decide_eq_true_eq]
        rw [q2]; exact hcov

/-! ### the tree node and the invariant (DESIGN Appendix A.3) -/

def vals (t : Tree) : List Key := t.map (·.val)

theorem tsearch_eq_bs (t : Tree) (v : Key) : t.search v = bs (vals t) (fun y => decide (y ≤ v)) := by
  unfold Tree.search bs vals
  rw [List.length_map]
  apply bsearch_congr
  intro x _ _
  simp only [Tree.valAt, List.getElem?_map]
  rfl

/-- separators ascend and every range of `a`'s leaf ends below `b`'s separator -/
def Before (a b : TSlot) : Prop := a.val < b.val ∧ ∀ x ∈ a.leaf.live, x.to < b.val

structure SlotOK (P : Params) (s : TSlot) : Prop where
  leaf : LeafOK P s.leaf
  pos : 0 < s.leaf.size
  lower : ∀ x ∈ s.leaf.live, s.val ≤ x.frm

structure TreeOK (P : Params) (t : Tree) : Prop where
  ne : t ≠ []
  len : t.length ≤ P.nodeSize
  first : ∀ s, t.head? = some s → s.val = []
  slots : ∀ s ∈ t, SlotOK P s
  ordered : t.Pairwise Before
  /-- the separator invariant: `tree.slots[ti].val = leaf_ti.slots[0].from` for `ti > 0` -/
  sepEq : ∀ s ∈ t.tail, ∃ x rest, s.leaf.live = x :: rest ∧ s.val = x.frm

def RangesOK (P : Params) : Ranges → Prop
  | .small l => LeafOK P l
  | .big t => TreeOK P t

theorem vals_sorted {t : Tree} (h : t.Pairwise Before) : Sorted (vals t) := by
  unfold Sorted vals
  rw [List.pairwise_map]
  exact h.imp (fun h => h.1)

theorem route (t : Tree) (hs : Sorted (vals t)) (hne : t ≠ [])
    (hf : ∀ s, t.head? = some s → s.val = []) (k : Key) :
    ∃ pre s post, t = pre ++ s :: post ∧ t.search k = pre.length + 1 ∧ s.val ≤ k ∧
      ∀ s' ∈ post, k < s'.val := by
  obtain ⟨h1, h2, h3⟩ := bs_spec (vals t) (fun y => decide (y ≤ k)) hs (le_closed k)
  rw [← tsearch_eq_bs] at h1 h2 h3
  have hlen : (vals t).length = t.length := by simp [vals]
  rw [hlen] at h1
  have hr : t.search k ≠ 0 := by
    intro h0
    rw [h0] at h3
    cases t with
    | nil => exact hne rfl
    | cons s0 rest =>
      have := hf s0 rfl
      have h := h3 s0.val (by simp [vals])
      rw [this] at h
      simp at h
  obtain ⟨m, hm⟩ : ∃ m, t.search k = m + 1 := ⟨t.search k - 1, by omega⟩
  rw [hm] at h1 h2 h3
  rw [hm]
  have hlt : m < t.length := by omega
  refine ⟨t.take m, t[m], t.drop (m + 1), ?_, ?_, ?_, ?_⟩
  · rw [← List.drop_eq_getElem_cons hlt, List.take_append_drop]
  · rw [List.length_take]; omega
  · have hmm : t[m].val ∈ (vals t).take (m + 1) := by
      simp only [vals, ← List.map_take]
      apply List.mem_map_of_mem
      rw [List.mem_take_iff_getElem]
      exact ⟨m, by omega, rfl⟩
    simpa using h2 _ hmm
  · intro s' hs'
    have hmm : s'.val ∈ (vals t).drop (m + 1) := by
      simp only [vals, ← List.map_drop]
      exact List.mem_map_of_mem hs'
    have := h3 _ hmm
    simp only [decide_eq_false_iff_not] at this
    grind

theorem leafAt_mid (P : Params) (pre : Tree) (s : TSlot) (post : Tree) :
    Tree.leafAt P (pre ++ s :: post) pre.length = s.leaf := by
  simp [Tree.leafAt]

theorem contains_eq (P : Params) (rs : Ranges) (v : Key) :
    rs.contains P v = leafContains (rs.search P v).2.1 v := by
  cases rs <;> rfl

/-- `Contains(v)` on any state satisfying the invariant: true iff some stored range covers `v` -/
theorem ranges_contains_flat (P : Params) (rs : Ranges) (v : Key) (h : RangesOK P rs) :
    rs.contains P v = true ↔ ∃ s ∈ rs.flat, s.covers v := by
  rw [contains_eq]
  cases rs with
  | small l => exact leaf_contains_spec h v
  | big t =>
    obtain ⟨pre, sl, post, rfl, hr, hk1, hk2⟩ := route t (vals_sorted h.ordered) h.ne h.first v
    have hti : Tree.search (pre ++ sl :: post) v - 1 = pre.length := by omega
    simp only [Ranges.search, hti, leafAt_mid, Ranges.flat]
    rw [leaf_contains_spec (h.slots sl (by simp)).leaf v]
    have hord := h.ordered
    rw [List.pairwise_append, List.pairwise_cons] at hord
    obtain ⟨_, ⟨hs2, _⟩, hx⟩ := hord
    constructor
    · rintro ⟨s, hs, hc⟩
      exact ⟨s, by simp only [List.flatMap_append, List.flatMap_cons, List.mem_append]; exact Or.inr (Or.inl hs), hc⟩
    · rintro ⟨s, hs, hc⟩
      simp only [List.flatMap_append, List.flatMap_cons, List.mem_append] at hs
      rcases hs with hs | hs | hs
      · -- an earlier leaf: its ranges end below this separator ≤ v
        obtain ⟨a, ha, hsa⟩ := List.mem_flatMap.mp hs
        have := (hx a ha sl List.mem_cons_self).2 s hsa
        have := hc.2
        exfalso; grind
      · exact ⟨s, hs, hc⟩
      · obtain ⟨b, hb, hsb⟩ := List.mem_flatMap.mp hs
        have h1 := (h.slots b (by simp [hb])).lower s hsb
        have h2 := hk2 b hb
        have := hc.1
        exfalso; grind

theorem empty_ok (P : Params) : RangesOK P (Ranges.empty P) := by
  refine ⟨by simp [Leaf.empty], Nat.zero_le _, ?_, ?_⟩ <;> simp [Leaf.live, Leaf.empty]

/-! ### the pieces of `Insert` -/

/-- `merge` of two overlapping ranges covers exactly their union -/
theorem merge_covers (p n : Slot) (ho : overlap p n = true) (v : Key) :
    (Slot.mk (kmin p.frm n.frm) (kmax p.to n.to)).covers v ↔ p.covers v ∨ n.covers v := by
  simp only [overlap, Bool.and_eq_true, decide_eq_true_eq] at ho
  simp only [Slot.covers, kmin, kmax]
  split <;> split <;> grind

/-- when the coalescing loop stops at `n` (no overlap) the merged-into range ends below it -/
theorem no_overlap_separated (p n : Slot) (hpn : p.frm ≤ n.frm) (hn : n.frm ≤ n.to)
    (ho : overlap p n = false) : p.to < n.frm := by
  simp only [overlap, Bool.and_eq_false_iff, decide_eq_false_iff_not] at ho
  grind

/-- `leafNode.insert` answers `existing` only if a stored range contains `[f, t]`; the leaf is unchanged -/
theorem leaf_insert_existing {P : Params} {l : Leaf} (h : LeafOK P l) (f t : Key)
    (he : (l.insert P f t).2 = .existing) :
    (l.insert P f t).1 = l ∧ ∃ s ∈ l.live, s.frm ≤ f ∧ t ≤ s.to := by
  obtain ⟨h1, _, _⟩ := leaf_search_spec h f
  have hlen := live_length h
  unfold Leaf.insert at he ⊢
  generalize l.search f = i at *
  by_cases c : ((decide (i < l.size) && (l.get i).contains f t) ||
      (decide (i > 0) && (l.get (i - 1)).contains f t)) = true
  · simp only [c, ↓reduceIte, true_and]
    have hmem : ∀ j, j < l.size → l.get j ∈ l.live := by
      intro j hj
      have hj' : j < l.live.length := by omega
      rw [get_eq_live l j hj, List.getElem?_eq_getElem hj', Option.getD_some]
      exact List.getElem_mem _
    simp only [Bool.or_eq_true, Bool.and_eq_true, decide_eq_true_eq, Slot.contains] at c
    rcases c with ⟨c1, c2⟩ | ⟨c1, c2⟩
    · exact ⟨_, hmem i c1, c2⟩
    · exact ⟨_, hmem (i - 1) (by omega), c2⟩
  · exfalso
    simp only [c, Bool.false_eq_true, ↓reduceIte] at he
    split at he <;> cases he

end Gsu.Ranges
