/-
Lemmas for C09 (OverIter). Core-only.
-/
import Gsu.Model.Iter
namespace Gsu.Iter

/-! ### well-formedness -/

def SortedL (L : Layer) : Prop := L.Pairwise (fun a b => a.key < b.key)

structure LWF (L : Layer) : Prop where
  sorted : SortedL L
  ltmax : ∀ e ∈ L, e.key < maxKey

def WF (Ls : List Layer) : Prop := ∀ L ∈ Ls, LWF L

/-- canonical forward cursor: first entry satisfying the bound, eof when there is none below
the end of the range -/
def cB (L : Layer) (r : Rng) (bd : Bd) : Cur :=
  match L.find? (fun e => bd.ok e.key) with
  | some e => if e.key < r.end_ then atE e else eofC
  | none => eofC

theorem bd_mono {bd : Bd} {m k : Key} (h : bd.ok m = true) (hk : m < k) : bd.ok k = true := by
  cases bd <;> simp [Bd.ok] at * <;> grind

theorem bd_not {bd : Bd} {m x : Key} (h : bd.ok m = true) (hx : bd.ok x = false) : x < m := by
  cases bd <;> simp [Bd.ok] at * <;> grind

theorem LWF.tail {x : Ent} {xs : Layer} (h : LWF (x :: xs)) : LWF xs :=
  ⟨(List.pairwise_cons.mp h.sorted).2, fun e he => h.ltmax e (List.mem_cons_of_mem _ he)⟩

theorem LWF.head_lt {x : Ent} {xs : Layer} (h : LWF (x :: xs)) : ∀ e ∈ xs, x.key < e.key :=
  (List.pairwise_cons.mp h.sorted).1

theorem eofC_key : eofC.key = maxKey := rfl
theorem atE_key (e : Ent) : (atE e).key = e.key := rfl
theorem atE_st (e : Ent) : (atE e).st = .within := rfl

/-- the canonical cursor is either eof or sits on an entry of the layer that satisfies the bound -/
theorem cB_cases (L : Layer) (r : Rng) (bd : Bd) :
    cB L r bd = eofC ∨ ∃ e ∈ L, cB L r bd = atE e ∧ bd.ok e.key = true ∧ e.key < r.end_ := by
  unfold cB
  split
  · next e he =>
    split
    · right; exact ⟨e, List.mem_of_find?_eq_some he, rfl, by simpa using List.find?_some he, ‹_›⟩
    · left; rfl
  · left; rfl

/-- no entry satisfying the bound and inside the range lies below the canonical cursor -/
theorem cB_least {L : Layer} (hL : LWF L) (r : Rng) (bd : Bd) :
    ∀ e ∈ L, bd.ok e.key = true → e.key < r.end_ →
      (cB L r bd).st = .within ∧ ¬ e.key < (cB L r bd).key := by
  induction L with
  | nil => intro e he; cases he
  | cons x xs ih =>
    intro e he hok hend
    have hlt := hL.head_lt
    unfold cB
    simp only [List.find?_cons]
    by_cases hx : bd.ok x.key = true
    · simp only [hx]
      rcases List.mem_cons.mp he with rfl | he'
      · simp [hend, atE]
      · have h1 := hlt e he'
        have : x.key < r.end_ := by grind
        simp only [this, if_true, atE]
        exact ⟨trivial, by grind⟩
    · simp only [hx]
      rcases List.mem_cons.mp he with rfl | he'
      · exact absurd hok hx
      · exact ih hL.tail e he' hok hend

theorem curNext_cB (L : Layer) (r : Rng) (bd : Bd) (m : Key) (hm : m < maxKey)
    (h : (cB L r bd).key = m) : curNext L r (cB L r bd) = cB L r (.gt m) := by
  rcases cB_cases L r bd with he | ⟨e, _, he, _, _⟩
  · rw [he] at h; simp [eofC] at h; subst h; exact absurd hm (by grind)
  · rw [he] at h ⊢
    simp only [atE] at h
    simp only [curNext, atE, firstGT, cB, Bd.ok, h]
    cases List.find? (fun e => decide (m < e.key)) L <;> rfl

/-- raising the bound to a key strictly below the cursor does not move it -/
theorem cB_gt_of_lt {L : Layer} (hL : LWF L) (r : Rng) (bd : Bd) (m : Key)
    (hok : bd.ok m = true) (hend : m < r.end_) (h : m < (cB L r bd).key) :
    cB L r (.gt m) = cB L r bd := by
  induction L with
  | nil => rfl
  | cons x xs ih =>
    have hlt := hL.head_lt
    unfold cB at h ⊢
    simp only [List.find?_cons] at h ⊢
    by_cases hx : bd.ok x.key = true
    · simp only [hx] at h ⊢
      have hmx : m < x.key := by
        by_cases hxe : x.key < r.end_
        · simpa [hxe, atE] using h
        · grind
      simp [Bd.ok, hmx]
    · simp only [hx] at h ⊢
      have hxm : x.key < m := bd_not hok (by simpa using hx)
      have : ¬ m < x.key := by grind
      simp only [Bd.ok, this, decide_false]
      exact ih hL.tail h

theorem cB_ge_of_le {L : Layer} (hL : LWF L) (r : Rng) (bd : Bd) (m : Key)
    (hok : bd.ok m = true) (hend : m < r.end_) (h : ¬ (cB L r bd).key < m) :
    cB L r (.ge m) = cB L r bd := by
  induction L with
  | nil => rfl
  | cons x xs ih =>
    have hlt := hL.head_lt
    unfold cB at h ⊢
    simp only [List.find?_cons] at h ⊢
    by_cases hx : bd.ok x.key = true
    · simp only [hx] at h ⊢
      have hmx : ¬ x.key < m := by
        by_cases hxe : x.key < r.end_
        · simpa [hxe, atE] using h
        · grind
      simp [Bd.ok, hmx]
    · simp only [hx] at h ⊢
      have hxm : x.key < m := bd_not hok (by simpa using hx)
      simp only [Bd.ok, hxm, decide_true, Bool.not_true]
      exact ih hL.tail h


/-! ### the scan of `minIter` -/

theorem minStep_km (s : Scan) (i : Nat) (c : Cur) :
    (minStep s i c).km = if c.key < s.km then c.key else s.km := by
  unfold minStep; grind

theorem minStep_res (s : Scan) (i : Nat) (c : Cur) :
    (minStep s i c).res = if c.key < s.km ∨ c.key = s.km then val c.op c.off else s.res := by
  unfold minStep; grind

/-- value recorded for key `k` by a left-to-right pass (the last iterator on `k` wins) -/
def resOf (k : Key) : Option Nat → List Cur → Option Nat
  | r0, [] => r0
  | r0, c :: cs => resOf k (if c.key = k then val c.op c.off else r0) cs

theorem scan_km (s : Scan) (i : Nat) (cs : List Cur) :
    (¬ s.km < (scanFrom minStep s i cs).km) ∧
    (∀ c ∈ cs, ¬ c.key < (scanFrom minStep s i cs).km) ∧
    ((scanFrom minStep s i cs).km = s.km ∨ ∃ c ∈ cs, c.key = (scanFrom minStep s i cs).km) := by
  induction cs generalizing s i with
  | nil => simp [scanFrom]
  | cons c cs ih =>
    simp only [scanFrom]
    have h := ih (minStep s i c) (i + 1)
    rw [minStep_km] at h
    refine ⟨by grind, ?_, ?_⟩
    · intro d hd
      rcases List.mem_cons.mp hd with rfl | hd
      · grind
      · exact h.2.1 d hd
    · rcases h.2.2 with h2 | ⟨d, hd, h2⟩
      · by_cases hc : c.key < s.km
        · right; exact ⟨c, List.mem_cons_self, by grind⟩
        · left; grind
      · right; exact ⟨d, List.mem_cons_of_mem _ hd, h2⟩

theorem scan_res (s : Scan) (i : Nat) (cs : List Cur) :
    (scanFrom minStep s i cs).res =
      resOf (scanFrom minStep s i cs).km
        (if (scanFrom minStep s i cs).km = s.km then s.res else none) cs := by
  induction cs generalizing s i with
  | nil => simp [scanFrom, resOf]
  | cons c cs ih =>
    simp only [scanFrom, resOf]
    rw [ih (minStep s i c) (i + 1)]
    have h := (scan_km (minStep s i c) (i + 1) cs).1
    rw [minStep_km] at h
    rw [minStep_km, minStep_res]
    congr 1
    grind

theorem minScan_spec (cs : List Cur) :
    (∀ c ∈ cs, ¬ c.key < (minScan cs).km) ∧
    ((minScan cs).km = maxKey ∨ ∃ c ∈ cs, c.key = (minScan cs).km) ∧
    (minScan cs).res = resOf (minScan cs).km none cs := by
  unfold minScan
  have h := scan_km ⟨maxKey, maxKey, none, none, false⟩ 0 cs
  have h2 := scan_res ⟨maxKey, maxKey, none, none, false⟩ 0 cs
  refine ⟨h.2.1, h.2.2, ?_⟩
  rw [h2]; simp

/-! ### link with `top`/`sem` -/

theorem sorted_key_inj {L : Layer} (hL : SortedL L) {a b : Ent} (ha : a ∈ L) (hb : b ∈ L)
    (h : a.key = b.key) : a = b := by
  induction L with
  | nil => cases ha
  | cons x xs ih =>
    have hp := List.pairwise_cons.mp hL
    rcases List.mem_cons.mp ha with rfl | ha' <;> rcases List.mem_cons.mp hb with rfl | hb'
    · rfl
    · have := hp.1 b hb'; grind
    · have := hp.1 a ha'; grind
    · exact ih hp.2 ha' hb'

/-- a canonical cursor that is not below `m` sits on `m` exactly when the layer mentions `m` -/
theorem cB_at {L : Layer} (hL : LWF L) (r : Rng) (bd : Bd) (m : Key)
    (hok : bd.ok m = true) (hend : m < r.end_) (hmax : m < maxKey)
    (hge : ¬ (cB L r bd).key < m) :
    match lookupL L m with
    | some e => cB L r bd = atE e ∧ e.key = m
    | none => (cB L r bd).key ≠ m := by
  unfold lookupL
  split
  · next e he =>
    have hem : e ∈ L := List.mem_of_find?_eq_some he
    have hek : e.key = m := by simpa using List.find?_some he
    have h1 := cB_least hL r bd e hem (by rw [hek]; exact hok) (by rw [hek]; exact hend)
    rcases cB_cases L r bd with h | ⟨e', he', h, _, _⟩
    · rw [h] at h1; simp [eofC] at h1
    · rw [h] at h1 hge ⊢
      simp only [atE_key] at h1 hge
      have : e'.key = e.key := by grind
      have := sorted_key_inj hL.sorted he' hem this
      subst this
      exact ⟨rfl, hek⟩
  · next hn =>
    have hn' : ∀ e ∈ L, e.key ≠ m := by
      intro e he; simpa using List.find?_eq_none.mp hn e he
    rcases cB_cases L r bd with h | ⟨e', he', h, _, _⟩
    · rw [h]; simp only [eofC_key]; grind
    · rw [h]; exact hn' e' he'

theorem WF.tail {L : Layer} {Ls : List Layer} (h : WF (L :: Ls)) : WF Ls :=
  fun M hM => h M (List.mem_cons_of_mem _ hM)

theorem resOf_top {Ls : List Layer} (hwf : WF Ls) (r : Rng) (bd : Bd) (m : Key)
    (hok : bd.ok m = true) (hend : m < r.end_) (hmax : m < maxKey)
    (hge : ∀ L ∈ Ls, ¬ (cB L r bd).key < m) (r0 : Option Nat) :
    resOf m r0 (Ls.map (fun L => cB L r bd)) =
      match top Ls m with
      | some e => val e.op e.off
      | none => r0 := by
  induction Ls generalizing r0 with
  | nil => simp [resOf, top]
  | cons L Ls ih =>
    simp only [List.map_cons, resOf, top]
    rw [ih hwf.tail (fun M hM => hge M (List.mem_cons_of_mem _ hM))]
    have h := cB_at (hwf L List.mem_cons_self) r bd m hok hend hmax (hge L List.mem_cons_self)
    cases ht : top Ls m with
    | some e => rfl
    | none =>
      simp only
      cases hl : lookupL L m with
      | some e => rw [hl] at h; simp [h.1, atE, h.2]
      | none => rw [hl] at h; simp at h; simp [h]


theorem top_some_mem {Ls : List Layer} {k : Key} {e : Ent} (h : top Ls k = some e) :
    ∃ L ∈ Ls, e ∈ L ∧ e.key = k := by
  induction Ls with
  | nil => simp [top] at h
  | cons L Ls ih =>
    simp only [top] at h
    cases ht : top Ls k with
    | some e' =>
      rw [ht] at h; simp at h; subst h
      obtain ⟨M, hM, h1, h2⟩ := ih ht
      exact ⟨M, List.mem_cons_of_mem _ hM, h1, h2⟩
    | none =>
      rw [ht] at h; simp only [lookupL] at h
      exact ⟨L, List.mem_cons_self, List.mem_of_find?_eq_some h, by simpa using List.find?_some h⟩

theorem advAt_cB {Ls : List Layer} (hwf : WF Ls) (r : Rng) (bd : Bd) (m : Key)
    (hok : bd.ok m = true) (hend : m < r.end_) (hmax : m < maxKey)
    (hge : ∀ L ∈ Ls, ¬ (cB L r bd).key < m) :
    advAt r m Ls (Ls.map (fun L => cB L r bd)) = Ls.map (fun L => cB L r (.gt m)) := by
  induction Ls with
  | nil => simp [advAt]
  | cons L Ls ih =>
    simp only [List.map_cons, advAt]
    rw [ih hwf.tail (fun M hM => hge M (List.mem_cons_of_mem _ hM))]
    congr 1
    by_cases h : (cB L r bd).key = m
    · simp only [h, if_true]; exact curNext_cB L r bd m hmax h
    · simp only [h, if_false]
      have := hge L List.mem_cons_self
      exact (cB_gt_of_lt (hwf L List.mem_cons_self) r bd m hok hend (by grind)).symm

/-! ### termination measure of the `minIter` loop -/

def cnt (bd : Bd) : List Layer → Nat
  | [] => 0
  | L :: Ls => (L.filter (fun e => bd.ok e.key)).length + cnt bd Ls

theorem cnt_le_total (bd : Bd) (Ls : List Layer) : cnt bd Ls ≤ totalLen Ls := by
  induction Ls with
  | nil => simp [cnt, totalLen]
  | cons L Ls ih =>
    simp only [cnt, totalLen, List.map_cons, List.sum_cons] at ih ⊢
    have := List.length_filter_le (fun e : Ent => bd.ok e.key) L
    omega

theorem filter_gt_le (bd : Bd) (m : Key) (hok : bd.ok m = true) (L : Layer) :
    (L.filter (fun e => (Bd.gt m).ok e.key)).length ≤ (L.filter (fun e => bd.ok e.key)).length := by
  induction L with
  | nil => simp
  | cons x xs ih =>
    simp only [List.filter_cons]
    by_cases h1 : (Bd.gt m).ok x.key = true
    · have : bd.ok x.key = true := bd_mono hok (by simpa [Bd.ok] using h1)
      simp [h1, this]; exact ih
    · by_cases h2 : bd.ok x.key = true <;> simp [h1, h2] <;> omega

theorem filter_gt_lt (bd : Bd) (m : Key) (hok : bd.ok m = true) (L : Layer)
    (hex : ∃ e ∈ L, e.key = m) :
    (L.filter (fun e => (Bd.gt m).ok e.key)).length < (L.filter (fun e => bd.ok e.key)).length := by
  induction L with
  | nil => obtain ⟨e, he, _⟩ := hex; cases he
  | cons x xs ih =>
    simp only [List.filter_cons]
    by_cases hx : x.key = m
    · have h1 : (Bd.gt m).ok x.key = false := by simp [Bd.ok, hx]
      have h2 : bd.ok x.key = true := by rw [hx]; exact hok
      have := filter_gt_le bd m hok xs
      simp [h1, h2]; omega
    · obtain ⟨e, he, hem⟩ := hex
      rcases List.mem_cons.mp he with rfl | he'
      · exact absurd hem hx
      · have := ih ⟨e, he', hem⟩
        by_cases h1 : (Bd.gt m).ok x.key = true
        · have : bd.ok x.key = true := bd_mono hok (by simpa [Bd.ok] using h1)
          simp [h1, this]; omega
        · by_cases h2 : bd.ok x.key = true <;> simp [h1, h2] <;> omega

theorem cnt_le (bd : Bd) (m : Key) (hok : bd.ok m = true) (Ls : List Layer) :
    cnt (.gt m) Ls ≤ cnt bd Ls := by
  induction Ls with
  | nil => simp [cnt]
  | cons L Ls ih => simp only [cnt]; have := filter_gt_le bd m hok L; omega

theorem cnt_lt (bd : Bd) (m : Key) (hok : bd.ok m = true) (Ls : List Layer)
    (hex : ∃ L ∈ Ls, ∃ e ∈ L, e.key = m) : cnt (.gt m) Ls < cnt bd Ls := by
  induction Ls with
  | nil => obtain ⟨L, hL, _⟩ := hex; cases hL
  | cons L Ls ih =>
    simp only [cnt]
    obtain ⟨M, hM, hex'⟩ := hex
    rcases List.mem_cons.mp hM with rfl | hM'
    · have := filter_gt_lt bd m hok M hex'
      have := cnt_le bd m hok Ls
      omega
    · have := ih ⟨M, hM', hex'⟩
      have := filter_gt_le bd m hok L
      omega

/-! ### specification of one forward step -/

/-- `res` is the least live key of the range satisfying the bound (with its offset), or there
is none -/
def IsNext (Ls : List Layer) (r : Rng) (bd : Bd) : Option (Key × Nat) → Prop
  | none => ∀ k, bd.ok k = true → k < r.end_ → sem Ls k = none
  | some (k, off) => bd.ok k = true ∧ k < r.end_ ∧ sem Ls k = some off ∧
      ∀ k', bd.ok k' = true → k' < r.end_ → (sem Ls k').isSome → ¬ k' < k

def MRes.out (m : MRes) : Option (Key × Nat) := if m.found then some (m.key, m.off) else none

/-- every entry of every layer that satisfies the bound inside the range is at or above the
layer's canonical cursor -/
theorem cB_cover {Ls : List Layer} (hwf : WF Ls) (r : Rng) (bd : Bd) (m : Key)
    (hge : ∀ L ∈ Ls, ¬ (cB L r bd).key < m) (k : Key) (hk : bd.ok k = true) (hke : k < r.end_)
    (hs : (sem Ls k).isSome) : ¬ k < m := by
  unfold sem at hs
  cases ht : top Ls k with
  | none => rw [ht] at hs; simp at hs
  | some e =>
    obtain ⟨L, hL, heL, hek⟩ := top_some_mem ht
    have h1 := cB_least (hwf L hL) r bd e heL (by rw [hek]; exact hk) (by rw [hek]; exact hke)
    have h2 := hge L hL
    grind

theorem minIter_spec {Ls : List Layer} (hwf : WF Ls) (r : Rng) :
    ∀ (fuel : Nat) (bd : Bd), cnt bd Ls < fuel →
      let m := minIter r Ls fuel (Ls.map (fun L => cB L r bd))
      m.stuck = false ∧ IsNext Ls r bd m.out ∧
      (m.found = true → m.curs = Ls.map (fun L => cB L r (.ge m.key)) ∧
          bd.ok m.key = true ∧ m.key < r.end_ ∧ m.key < maxKey) := by
  intro fuel
  induction fuel with
  | zero => intro bd h; omega
  | succ fuel ih =>
    intro bd hfuel
    simp only [minIter]
    have hs := minScan_spec (Ls.map (fun L => cB L r bd))
    generalize hsd : minScan (Ls.map (fun L => cB L r bd)) = s at hs
    obtain ⟨hmin, hex, hres⟩ := hs
    have hge : ∀ L ∈ Ls, ¬ (cB L r bd).key < s.km := fun L hL =>
      hmin _ (List.mem_map.mpr ⟨L, hL, rfl⟩)
    by_cases hkm : s.km = maxKey
    · -- nothing left
      simp only [hkm, if_true]
      refine ⟨trivial, ?_, by simp⟩
      simp only [MRes.out]
      intro k hk hke
      cases hsem : sem Ls k with
      | none => rfl
      | some v =>
        exfalso
        unfold sem at hsem
        cases ht : top Ls k with
        | none => rw [ht] at hsem; simp at hsem
        | some e =>
          obtain ⟨L, hL, heL, hek⟩ := top_some_mem ht
          have h1 := cB_least (hwf L hL) r bd e heL (by rw [hek]; exact hk) (by rw [hek]; exact hke)
          have h2 := hge L hL
          have h3 := (hwf L hL).ltmax e heL
          rw [hkm] at h2
          grind
    · simp only [hkm, if_false]
      -- the minimum is the key of a canonical cursor sitting on an entry
      have hcur : ∃ L ∈ Ls, (cB L r bd).key = s.km := by
        rcases hex with h | ⟨c, hc, h⟩
        · exact absurd h hkm
        · obtain ⟨L, hL, rfl⟩ := List.mem_map.mp hc
          exact ⟨L, hL, h⟩
      obtain ⟨L0, hL0, hk0⟩ := hcur
      have hfacts : bd.ok s.km = true ∧ s.km < r.end_ ∧ s.km < maxKey ∧ ∃ e ∈ L0, e.key = s.km := by
        rcases cB_cases L0 r bd with h | ⟨e, he, h, h1, h2⟩
        · rw [h] at hk0; exact absurd hk0.symm hkm
        · rw [h] at hk0; simp only [atE_key] at hk0
          rw [← hk0]
          exact ⟨h1, h2, (hwf L0 hL0).ltmax e he, e, he, rfl⟩
      obtain ⟨hok, hend, hmax, hmem⟩ := hfacts
      have hsem : sem Ls s.km = s.res := by
        rw [hres, resOf_top hwf r bd s.km hok hend hmax hge none]
        unfold sem; cases top Ls s.km <;> rfl
      cases hr : s.res with
      | some off =>
        simp only
        refine ⟨trivial, ?_, ?_⟩
        · simp only [MRes.out, if_true]
          refine ⟨hok, hend, by rw [hsem, hr], ?_⟩
          intro k' hk' hke' hs'
          exact cB_cover hwf r bd s.km hge k' hk' hke' hs'
        · intro _
          refine ⟨?_, hok, hend, hmax⟩
          apply List.map_congr_left
          intro L hL
          exact (cB_ge_of_le (hwf L hL) r bd s.km hok hend (hge L hL)).symm
      | none =>
        simp only
        rw [advAt_cB hwf r bd s.km hok hend hmax hge]
        have hlt := cnt_lt bd s.km hok Ls ⟨L0, hL0, hmem⟩
        have h := ih (.gt s.km) (by omega)
        simp only at h
        obtain ⟨h1, h2, h3⟩ := h
        refine ⟨h1, ?_, ?_⟩
        · -- lift the result from the bound `gt km` to `bd`
          generalize (minIter r Ls fuel (Ls.map fun L => cB L r (.gt s.km))).out = res at h2
          have hlive : ∀ k, bd.ok k = true → k < r.end_ → (sem Ls k).isSome → (Bd.gt s.km).ok k = true := by
            intro k hk hke hs
            have := cB_cover hwf r bd s.km hge k hk hke hs
            have hne : k ≠ s.km := by
              intro h; rw [h, hsem, hr] at hs; simp at hs
            simp [Bd.ok]; grind
          cases res with
          | none =>
            intro k hk hke
            cases hsk : sem Ls k with
            | none => rfl
            | some v =>
              have := h2 k (hlive k hk hke (by simp [hsk])) hke
              rw [this] at hsk; cases hsk
          | some p =>
            obtain ⟨k, off⟩ := p
            obtain ⟨a, b, c, d⟩ := h2
            refine ⟨bd_mono hok (by simpa [Bd.ok] using a), b, c, ?_⟩
            intro k' hk' hke' hs'
            exact d k' (hlive k' hk' hke' hs') hke' hs'
        · intro hf
          obtain ⟨a, b, c, d⟩ := h3 hf
          exact ⟨a, bd_mono hok (by simpa [Bd.ok] using b), c, d⟩


/-! ### positioning the cursors (`modNext`, rewound `Next`) -/

theorem ge_ok (k x : Key) : (Bd.ge k).ok x = !decide (x < k) := rfl

theorem cB_ge_key_ge (L : Layer) (r : Rng) (k : Key) (hmax : k < maxKey) :
    ¬ (cB L r (.ge k)).key < k := by
  rcases cB_cases L r (.ge k) with h | ⟨e, _, h, h1, _⟩
  · rw [h, eofC_key]; grind
  · rw [h, atE_key]; simpa [Bd.ok] using h1

theorem sorted_last_max {L : Layer} (hL : SortedL L) {e : Ent} (h : L.getLast? = some e) :
    ∀ e' ∈ L, ¬ e.key < e'.key := by
  obtain ⟨ys, rfl⟩ := List.getLast?_eq_some_iff.mp h
  intro e' he'
  rcases List.mem_append.mp he' with h1 | h1
  · have := (List.pairwise_append.mp hL).2.2 e' h1 e (by simp); grind
  · simp at h1; subst h1; grind

/-- `Seek(k)` lands on the canonical cursor, or (no entry ≥ k) on the last entry of the layer -/
theorem curSeek_cases {L : Layer} (hL : LWF L) (r : Rng) (k : Key) (horg : ¬ k < r.org) :
    curSeek L r k = cB L r (.ge k) ∨
    (cB L r (.gt k) = eofC ∧ ∃ e ∈ L, curSeek L r k = atE e ∧ e.key < k ∧ ∀ e' ∈ L, ¬ e.key < e'.key) := by
  unfold curSeek seekAll firstGE
  cases hf : L.find? (fun e => !decide (e.key < k)) with
  | some e =>
    left
    have hek : ¬ e.key < k := by simpa using List.find?_some hf
    have : ¬ e.key < r.org := by grind
    simp only [cB, ge_ok, hf, atE, inRng, this]
    by_cases h : e.key < r.end_ <;> simp [h]
  | none =>
    have hall : ∀ e ∈ L, e.key < k := by
      intro e he; simpa using List.find?_eq_none.mp hf e he
    have hcb : cB L r (.ge k) = eofC := by simp only [cB, ge_ok, hf]
    cases hl : L.getLast? with
    | none => left; simp only [hcb, eofC]; exact ite_self _
    | some e =>
      simp only
      by_cases hin : inRng r (atE e).key = true
      · right
        have hem : e ∈ L := List.mem_of_getLast? hl
        refine ⟨?_, e, hem, by simp [hin], hall e hem, sorted_last_max hL.sorted hl⟩
        have : L.find? (fun e => (Bd.gt k).ok e.key) = none := by
          apply List.find?_eq_none.mpr
          intro x hx; have := hall x hx; simp [Bd.ok]; grind
        simp only [cB, this]
      · left; simp [hin, hcb]

theorem modNextCur_seek {L : Layer} (hL : LWF L) (r : Rng) (ck : Key) (horg : ¬ ck < r.org)
    (hend : ck < r.end_) (hmax : ck < maxKey) (ld : Bool) (c : Cur) :
    modNextCur r ck true ld L c = cB L r (.gt ck) := by
  simp only [modNextCur, if_true]
  rcases curSeek_cases hL r ck horg with h | ⟨hgt, e, he, h, hlt, hmaxe⟩
  · rw [h]
    have hge := cB_ge_key_ge L r ck hmax
    by_cases hk : ck < (cB L r (.ge ck)).key
    · simp only [hk, decide_true, Bool.not_true]
      exact (cB_gt_of_lt hL r (.ge ck) ck (by simp [Bd.ok]) hend hk).symm
    · simp only [hk, decide_false, Bool.not_false, if_true]
      exact curNext_cB L r (.ge ck) ck hmax (by grind)
  · rw [h, hgt]
    have : ¬ ck < (atE e).key := by simp only [atE_key]; grind
    simp only [this, decide_false, Bool.not_false, if_true]
    have hn : firstGT L e.key = none := by
      apply List.find?_eq_none.mpr
      intro x hx; simpa using hmaxe x hx
    simp [curNext, atE, hn]

theorem modNextCur_same {L : Layer} (hL : LWF L) (r : Rng) (ck : Key)
    (hend : ck < r.end_) (hmax : ck < maxKey) :
    modNextCur r ck false true L (cB L r (.ge ck)) = cB L r (.gt ck) := by
  simp only [modNextCur, Bool.false_eq_true, if_false, Bool.not_true]
  have hge := cB_ge_key_ge L r ck hmax
  by_cases hk : (cB L r (.ge ck)).key = ck
  · simp only [hk, if_true]; exact curNext_cB L r (.ge ck) ck hmax hk
  · simp only [hk, if_false]
    exact (cB_gt_of_lt hL r (.ge ck) ck (by simp [Bd.ok]) hend (by grind)).symm

/-- forward invariant of the iterators: every iterator is the canonical cursor at `curKey`,
except the transaction's own layer when it has been modified since its last `Seek` -/
def FwdInv (r : Rng) (ck : Key) (mod : Bool) : List Layer → List Cur → Prop
  | [L], [c] => mod = true ∨ c = cB L r (.ge ck)
  | L :: Ls, c :: cs => c = cB L r (.ge ck) ∧ FwdInv r ck mod Ls cs
  | [], [] => True
  | _, _ => False

theorem FwdInv_map (r : Rng) (ck : Key) (mod : Bool) (Ls : List Layer) :
    FwdInv r ck mod Ls (Ls.map (fun L => cB L r (.ge ck))) := by
  induction Ls with
  | nil => simp [FwdInv]
  | cons L Ls ih =>
    cases Ls with
    | nil => simp [FwdInv]
    | cons M Ms => simp only [List.map_cons, FwdInv] at ih ⊢; exact ⟨trivial, ih⟩

theorem zipL_seek {Ls : List Layer} (hwf : WF Ls) (r : Rng) (ck : Key) (horg : ¬ ck < r.org)
    (hend : ck < r.end_) (hmax : ck < maxKey) (ld : Bool) (g : Bool → Bool) :
    ∀ cs : List Cur, cs.length = Ls.length →
    zipL (fun last L c => modNextCur r ck (true || g last) ld L c) Ls cs
      = Ls.map (fun L => cB L r (.gt ck)) := by
  induction Ls with
  | nil => intro cs h; cases cs <;> simp [zipL] at *
  | cons L Ls ih =>
    intro cs h
    cases cs with
    | nil => simp at h
    | cons c cs =>
      have h1 := modNextCur_seek (hwf L List.mem_cons_self) r ck horg hend hmax ld c
      cases Ls with
      | nil =>
        cases cs with
        | nil => simp [zipL, h1]
        | cons _ _ => simp at h
      | cons M Ms =>
        cases cs with
        | nil => simp at h
        | cons d ds =>
          simp only [zipL, Bool.true_or, List.map_cons] at ih ⊢
          rw [h1]
          congr 1
          exact ih hwf.tail (d :: ds) (by simpa using h)

theorem zipL_same {Ls : List Layer} (hwf : WF Ls) (r : Rng) (ck : Key) (horg : ¬ ck < r.org)
    (hend : ck < r.end_) (hmax : ck < maxKey) (mod : Bool) :
    ∀ cs : List Cur, FwdInv r ck mod Ls cs →
    zipL (fun last L c => modNextCur r ck (false || (last && mod)) true L c) Ls cs
      = Ls.map (fun L => cB L r (.gt ck)) := by
  induction Ls with
  | nil => intro cs h; cases cs <;> simp [zipL, FwdInv] at *
  | cons L Ls ih =>
    intro cs h
    have hL := hwf L List.mem_cons_self
    cases cs with
    | nil => cases Ls <;> simp [FwdInv] at h
    | cons c cs =>
      cases Ls with
      | nil =>
        cases cs with
        | nil =>
          simp only [FwdInv] at h
          simp only [zipL, Bool.false_or, Bool.true_and, List.map_cons, List.map_nil]
          congr 1
          cases mod with
          | true => exact modNextCur_seek hL r ck horg hend hmax true c
          | false =>
            rcases h with h | h
            · cases h
            · rw [h]; exact modNextCur_same hL r ck hend hmax
        | cons _ _ => simp [FwdInv] at h
      | cons M Ms =>
        cases cs with
        | nil => simp [FwdInv] at h
        | cons d ds =>
          simp only [FwdInv] at h
          simp only [zipL, Bool.false_or, Bool.false_and, List.map_cons] at ih ⊢
          rw [h.1, modNextCur_same hL r ck hend hmax]
          congr 1
          exact ih hwf.tail (d :: ds) h.2

/-- `Next` on rewound iterators positions them on the first entry of the range -/
theorem curNext_rewound {L : Layer} (hL : LWF L) (r : Rng) (c : Cur) (h : c.st = .rewound) :
    curNext L r c = cB L r (.ge r.org) := by
  simp only [curNext, h]
  rcases curSeek_cases hL r r.org (by grind) with h | ⟨_, e, he, h, hlt, _⟩
  · exact h
  · -- landing below org is outside the range
    exfalso
    have : curSeek L r r.org = eofC := by
      unfold curSeek at h ⊢
      by_cases hin : inRng r (seekAll L r.org).key = true
      · simp only [hin, if_true] at h
        rw [h] at hin; simp [inRng, atE, hlt] at hin
      · simp [hin]
    rw [this] at h; simp [eofC, atE] at h

theorem zipL_rewound {Ls : List Layer} (hwf : WF Ls) (r : Rng) :
    ∀ cs : List Cur, cs.length = Ls.length → (∀ c ∈ cs, c.st = .rewound) →
    zipL (fun _ L c => curNext L r c) Ls cs = Ls.map (fun L => cB L r (.ge r.org)) := by
  induction Ls with
  | nil => intro cs h _; cases cs <;> simp [zipL] at *
  | cons L Ls ih =>
    intro cs h hr
    cases cs with
    | nil => simp at h
    | cons c cs =>
      have h1 := curNext_rewound (hwf L List.mem_cons_self) r c (hr c List.mem_cons_self)
      cases Ls with
      | nil =>
        cases cs with
        | nil => simp [zipL, h1]
        | cons _ _ => simp at h
      | cons M Ms =>
        cases cs with
        | nil => simp at h
        | cons d ds =>
          simp only [zipL, List.map_cons] at ih ⊢
          rw [h1]; congr 1
          exact ih hwf.tail (d :: ds) (by simpa using h)
            (fun x hx => hr x (List.mem_cons_of_mem _ hx))


/-! ### the whole step -/

theorem advAt_len (r : Rng) (k : Key) : ∀ (Ls : List Layer) (cs : List Cur),
    cs.length = Ls.length → (advAt r k Ls cs).length = Ls.length := by
  intro Ls
  induction Ls with
  | nil => intro cs h; cases cs <;> simp [advAt] at *
  | cons L Ls ih =>
    intro cs h
    cases cs with
    | nil => simp at h
    | cons c cs => simp only [advAt, List.length_cons]; rw [ih cs (by simpa using h)]

theorem minIter_len (r : Rng) (Ls : List Layer) : ∀ (fuel : Nat) (cs : List Cur),
    cs.length = Ls.length → (minIter r Ls fuel cs).curs.length = Ls.length := by
  intro fuel
  induction fuel with
  | zero => intro cs h; simpa [minIter] using h
  | succ fuel ih =>
    intro cs h
    simp only [minIter]
    split
    · exact h
    · split
      · exact h
      · exact ih _ (advAt_len r _ Ls cs h)

/-- what `Cur()` shows after a step -/
def OI.result (oi : OI) : Option (Key × Nat) :=
  if oi.st = .within then some (oi.curKey, oi.curOff) else none

/-- the bound of a forward step: from the start of the range after a rewind, else past curKey -/
def nextBd (oi : OI) : Bd := if oi.st = .rewound then .ge oi.rng.org else .gt oi.curKey

/-- invariant of the mirror between steps -/
structure Good (oi : OI) : Prop where
  wf : WF oi.layers
  wfp : ∀ Ls, oi.pend = some Ls → WF Ls
  len : oi.curs.length = oi.layers.length
  rew : oi.st = .rewound → ∀ c ∈ oi.curs, c.st = .rewound
  inr : oi.st = .within → ¬ oi.curKey < oi.rng.org ∧ oi.curKey < oi.rng.end_ ∧ oi.curKey < maxKey
  fwd : oi.st = .within → oi.lastDir = .next → oi.pend = none →
    FwdInv oi.rng oi.curKey oi.mod oi.layers oi.curs
  stuck : oi.stuck = false

theorem finishNext_spec (oi : OI) (bd : Bd) (hwf : WF oi.layers) (hst : oi.st = .within)
    (hpend : oi.pend = none) (hstuck : oi.stuck = false)
    (horg : ∀ k, bd.ok k = true → ¬ k < oi.rng.org)
    (hc : oi.curs = oi.layers.map (fun L => cB L oi.rng bd)) :
    Good (finishNext oi) ∧ IsNext oi.layers oi.rng bd (finishNext oi).result ∧
      ((finishNext oi).st = .within → (finishNext oi).curOp = .add) ∧
      (finishNext oi).rng = oi.rng ∧ (finishNext oi).lastDir = .next := by
  have h := minIter_spec hwf oi.rng (fuelOf oi) bd
    (by have := cnt_le_total bd oi.layers; simp only [fuelOf]; omega)
  simp only at h
  rw [← hc] at h
  obtain ⟨h1, h2, h3⟩ := h
  have hlen := minIter_len oi.rng oi.layers (fuelOf oi) oi.curs (by simp [hc])
  unfold finishNext
  generalize minIter oi.rng oi.layers (fuelOf oi) oi.curs = m at h1 h2 h3 hlen
  simp only [MRes.out] at h2
  cases hf : m.found with
  | true =>
    obtain ⟨hcs, hok, hend, hmax⟩ := h3 hf
    simp only [hf, if_true] at h2 ⊢
    refine ⟨?_, ?_, ?_, by first | rfl | trivial, by first | rfl | trivial⟩
    · refine ⟨hwf, ?_, ?_, ?_, ?_, ?_, ?_⟩
      · intro Ls h; simp [hpend] at h
      · simp [hcs]
      · intro h; simp [hst] at h
      · intro _; exact ⟨horg _ hok, hend, hmax⟩
      · intro _ _ _; simp only [hcs]; exact FwdInv_map _ _ _ _
      · simp [hstuck, h1]
    · simpa [OI.result, hst] using h2
    · intro _; trivial
  | false =>
    simp only [hf, Bool.false_eq_true, if_false] at h2 ⊢
    refine ⟨?_, ?_, ?_, by first | rfl | trivial, by first | rfl | trivial⟩
    · refine ⟨hwf, ?_, ?_, ?_, ?_, ?_, ?_⟩
      · intro Ls h; simp [hpend] at h
      · exact hlen
      · intro h; simp at h
      · intro h; simp at h
      · intro h; simp at h
      · simp [hstuck, h1]
    · simpa [OI.result] using h2
    · intro h; simp at h


theorem gt_org {r : Rng} {ck : Key} (h : ¬ ck < r.org) : ∀ k, (Bd.gt ck).ok k = true → ¬ k < r.org := by
  intro k hk; simp [Bd.ok] at hk; grind

theorem ge_org (r : Rng) : ∀ k, (Bd.ge r.org).ok k = true → ¬ k < r.org := by
  intro k hk; simpa [Bd.ok] using hk

/-- the iterator after `update` found a different overlay -/
def updNew (oi : OI) (Ls : List Layer) : OI :=
  { oi with layers := Ls, curs := Ls.map (fun _ => rewoundC), pend := none, mod := false }

theorem update_some {oi : OI} {Ls : List Layer} (h : oi.pend = some Ls) :
    update oi = (updNew oi Ls, true) := by
  simp [update, h, updNew]

theorem update_none {oi : OI} (h : oi.pend = none) : update oi = (oi, false) := by
  simp [update, h]

/-- the state `nextRewound` hands to `finishNext`, with the cursors in canonical form -/
def rewSt (oi : OI) : OI :=
  { oi with curs := oi.layers.map (fun L => cB L oi.rng (.ge oi.rng.org)),
            st := .within, fastIdx := none,
            mod := if oi.mod && lastRewound oi.curs then modAfterSeek oi else oi.mod }

theorem nextRewound_spec (oi : OI) (hwf : WF oi.layers) (hp : oi.pend = none)
    (hlen : oi.curs.length = oi.layers.length) (hrew : ∀ c ∈ oi.curs, c.st = .rewound)
    (hstuck : oi.stuck = false) :
    Good (nextRewound oi) ∧ IsNext oi.layers oi.rng (.ge oi.rng.org) (nextRewound oi).result ∧
      ((nextRewound oi).st = .within → (nextRewound oi).curOp = .add) := by
  have he : nextRewound oi = finishNext (rewSt oi) := by
    unfold nextRewound rewSt
    rw [zipL_rewound hwf oi.rng _ hlen hrew]
  rw [he]
  have := finishNext_spec (rewSt oi) (.ge oi.rng.org) (by exact hwf) rfl (by exact hp)
      (by exact hstuck) (ge_org oi.rng) rfl
  exact ⟨this.1, this.2.1, this.2.2.1⟩

theorem nextSlow_seek (oi : OI) (hwf : WF oi.layers) (hp : oi.pend = none)
    (hlen : oi.curs.length = oi.layers.length) (hst : oi.st = .within)
    (hin : ¬ oi.curKey < oi.rng.org ∧ oi.curKey < oi.rng.end_ ∧ oi.curKey < maxKey)
    (hstuck : oi.stuck = false) :
    Good (nextSlow oi true) ∧ IsNext oi.layers oi.rng (.gt oi.curKey) (nextSlow oi true).result ∧
      ((nextSlow oi true).st = .within → (nextSlow oi true).curOp = .add) := by
  obtain ⟨horg, hend, hmax⟩ := hin
  unfold nextSlow
  have hz := zipL_seek hwf oi.rng oi.curKey horg hend hmax (decide (oi.lastDir = .next))
    (fun last => last && oi.mod) oi.curs hlen
  have := finishNext_spec (modNext { oi with fastIdx := none } true) (.gt oi.curKey)
    (by exact hwf) (by exact hst) (by exact hp) (by exact hstuck) (gt_org horg)
    (by simp only [modNext]; exact hz)
  exact ⟨this.1, this.2.1, this.2.2.1⟩

theorem nextSlow_same (oi : OI) (hwf : WF oi.layers) (hp : oi.pend = none)
    (hst : oi.st = .within) (hd : oi.lastDir = .next)
    (hin : ¬ oi.curKey < oi.rng.org ∧ oi.curKey < oi.rng.end_ ∧ oi.curKey < maxKey)
    (hfwd : FwdInv oi.rng oi.curKey oi.mod oi.layers oi.curs)
    (hstuck : oi.stuck = false) :
    Good (nextSlow oi false) ∧ IsNext oi.layers oi.rng (.gt oi.curKey) (nextSlow oi false).result ∧
      ((nextSlow oi false).st = .within → (nextSlow oi false).curOp = .add) := by
  obtain ⟨horg, hend, hmax⟩ := hin
  unfold nextSlow
  have hz := zipL_same hwf oi.rng oi.curKey horg hend hmax oi.mod oi.curs hfwd
  have := finishNext_spec (modNext { oi with fastIdx := none } false) (.gt oi.curKey)
    (by exact hwf) (by exact hst) (by exact hp) (by exact hstuck) (gt_org horg)
    (by simp only [modNext, hd, decide_true]; exact hz)
  exact ⟨this.1, this.2.1, this.2.2.1⟩

/-- a step of `Next` that does not take the fast path and does not reverse direction -/
theorem next_slow (oi : OI) (hg : Good oi) (hne : oi.st ≠ .eof)
    (hdir : oi.st = .within → oi.pend = none → oi.lastDir = .next)
    (hslow : oi.st = .within → canFast (update oi).1 (update oi).2 .next = false) :
    Good (next oi) ∧ IsNext (curLayers oi) oi.rng (nextBd oi) (next oi).result ∧
      ((next oi).st = .within → (next oi).curOp = .add) := by
  unfold next
  simp only [hne, if_false]
  cases hp : oi.pend with
  | some Ls =>
    have hwf := hg.wfp Ls hp
    rw [update_some hp]
    simp only [curLayers, hp, Option.getD_some, nextCore]
    cases hst : oi.st with
    | eof => exact absurd hst hne
    | rewound =>
      have h := nextRewound_spec (updNew oi Ls) hwf rfl (by simp [updNew]) (by simp [updNew, rewoundC])
        hg.stuck
      simpa [updNew, hst, nextBd] using h
    | within =>
      have h := nextSlow_seek (updNew oi Ls) hwf rfl (by simp [updNew]) hst (hg.inr hst) hg.stuck
      simpa [updNew, hst, nextBd, canFast] using h
  | none =>
    rw [update_none hp] at hslow ⊢
    simp only [curLayers, hp, Option.getD_none, nextCore]
    cases hst : oi.st with
    | eof => exact absurd hst hne
    | rewound =>
      have h := nextRewound_spec oi hg.wf hp hg.len (hg.rew hst) hg.stuck
      simpa [hst, nextBd] using h
    | within =>
      have hd := hdir hst hp
      have hslow' := hslow hst
      have h := nextSlow_same oi hg.wf hp hst hd (hg.inr hst) (hg.fwd hst hd hp) hg.stuck
      simpa [hst, nextBd, hslow'] using h


/-! ### the other operations keep the invariant -/

theorem good_start {Ls : List Layer} (h : WF Ls) : Good (newOverlay {} Ls) := by
  refine ⟨?_, ?_, rfl, ?_, ?_, ?_, rfl⟩
  · intro L hL; cases hL
  · intro Ms hM; simp [newOverlay] at hM; subst hM; exact h
  · intro _ c hc; cases hc
  · intro h; cases h
  · intro h; cases h

theorem good_newOverlay {oi : OI} (hg : Good oi) {Ls : List Layer} (h : WF Ls) :
    Good (newOverlay oi Ls) := by
  refine ⟨hg.wf, ?_, hg.len, hg.rew, hg.inr, ?_, hg.stuck⟩
  · intro Ms hM; simp [newOverlay] at hM; subst hM; exact h
  · intro _ _ hp; simp [newOverlay] at hp

theorem good_rewind {oi : OI} (hg : Good oi) : Good (rewind oi) := by
  refine ⟨hg.wf, hg.wfp, by simp [rewind, hg.len], ?_, ?_, ?_, hg.stuck⟩
  · intro _ c hc
    simp only [rewind, List.mem_map] at hc
    obtain ⟨d, _, rfl⟩ := hc; rfl
  · intro h; simp [rewind] at h
  · intro h; simp [rewind] at h

theorem good_range {oi : OI} (hg : Good oi) (r : Rng) : Good (range oi r) := by
  refine ⟨hg.wf, hg.wfp, by simp [range, hg.len], ?_, ?_, ?_, hg.stuck⟩
  · intro _ c hc
    simp only [range, List.mem_map] at hc
    obtain ⟨d, _, rfl⟩ := hc; rfl
  · intro h; simp [range] at h
  · intro h; simp [range] at h

theorem FwdInv_mutate (r : Rng) (ck : Key) (mod : Bool) (L : Layer) :
    ∀ (Ls : List Layer) (cs : List Cur), Ls ≠ [] → FwdInv r ck mod Ls cs →
      FwdInv r ck true (Ls.dropLast ++ [L]) cs := by
  intro Ls
  induction Ls with
  | nil => intro cs h; exact absurd rfl h
  | cons M Ms ih =>
    intro cs _ h
    cases Ms with
    | nil =>
      cases cs with
      | nil => simp [FwdInv] at h
      | cons c cs =>
        cases cs with
        | nil => simp [FwdInv]
        | cons _ _ => simp [FwdInv] at h
    | cons N Ns =>
      cases cs with
      | nil => simp [FwdInv] at h
      | cons c cs =>
        cases cs with
        | nil => simp [FwdInv] at h
        | cons d ds =>
          simp only [FwdInv] at h
          have := ih (d :: ds) (by simp) h.2
          simp only [List.dropLast_cons_cons, List.cons_append] at this ⊢
          cases hx : (N :: Ns).dropLast ++ [L] with
          | nil => simp at hx
          | cons X Xs =>
            rw [hx] at this
            simp only [FwdInv]
            exact ⟨h.1, this⟩

theorem WF_mutate {Ls : List Layer} (h : WF Ls) {L : Layer} (hL : LWF L) :
    WF (Ls.dropLast ++ [L]) := by
  intro M hM
  rcases List.mem_append.mp hM with h1 | h1
  · exact h M (List.dropLast_subset _ h1)
  · simp at h1; subst h1; exact hL

/-- the transaction changes its own layer between steps -/
theorem good_mutate {oi : OI} (hg : Good oi) (hne : curLayers oi ≠ []) {L : Layer} (hL : LWF L) :
    Good (mutate oi L) := by
  unfold mutate
  cases hp : oi.pend with
  | some Ls =>
    simp only
    refine ⟨hg.wf, ?_, hg.len, hg.rew, hg.inr, ?_, hg.stuck⟩
    · intro Ms hM; simp at hM; subst hM; exact WF_mutate (hg.wfp Ls hp) hL
    · intro _ _ h; simp at h
  | none =>
    simp only
    have hne' : oi.layers ≠ [] := by simpa [curLayers, hp] using hne
    refine ⟨WF_mutate hg.wf hL, ?_, ?_, hg.rew, hg.inr, ?_, hg.stuck⟩
    · intro Ms hM; simp at hM
    · simp only [List.length_append, List.length_dropLast, List.length_cons, List.length_nil, hg.len]
      have : oi.layers.length ≠ 0 := by simpa using hne'
      omega
    · intro hst hd _
      exact FwdInv_mutate oi.rng oi.curKey oi.mod L oi.layers oi.curs hne' (hg.fwd hst hd hp)


/-! ### corollaries -/

theorem rewind_next (oi : OI) (hg : Good oi) :
    IsNext (curLayers oi) oi.rng (.ge oi.rng.org) (next (rewind oi)).result := by
  have h := next_slow (rewind oi) (good_rewind hg) (by simp [rewind])
    (by intro h; simp [rewind] at h) (by intro h; simp [rewind] at h)
  simpa [nextBd, rewind, curLayers] using h.2.1

theorem range_next (oi : OI) (hg : Good oi) (r : Rng) :
    IsNext (curLayers oi) r (.ge r.org) (next (range oi r)).result := by
  have h := next_slow (range oi r) (good_range hg r) (by simp [range])
    (by intro h; simp [range] at h) (by intro h; simp [range] at h)
  simpa [nextBd, range, curLayers] using h.2.1

theorem mutate_next (oi : OI) (hg : Good oi) (hst : oi.st = .within)
    (hdir : oi.pend = none → oi.lastDir = .next) (hne : curLayers oi ≠ [])
    (L : Layer) (hL : LWF L) :
    Good (next (mutate oi L)) ∧
    IsNext (curLayers (mutate oi L)) oi.rng (.gt oi.curKey) (next (mutate oi L)).result := by
  have hg' := good_mutate hg hne hL
  have hst' : (mutate oi L).st = .within := by unfold mutate; split <;> exact hst
  have h := next_slow (mutate oi L) hg' (by rw [hst']; simp)
    (by
      intro _ hp
      unfold mutate at hp ⊢
      cases hq : oi.pend with
      | some Ls => rw [hq] at hp; simp at hp
      | none => simp only; exact hdir hq)
    (by
      intro _
      unfold mutate
      cases hq : oi.pend with
      | some Ls => simp [update, canFast]
      | none => simp [update, canFast])
  refine ⟨h.1, ?_⟩
  have h2 := h.2.1
  have hr : (mutate oi L).rng = oi.rng := by unfold mutate; split <;> rfl
  have hk : (mutate oi L).curKey = oi.curKey := by unfold mutate; split <;> rfl
  simpa [nextBd, hst', hr, hk] using h2

theorem newOverlay_next (oi : OI) (hg : Good oi) (hst : oi.st = .within)
    (Ls : List Layer) (hwf : WF Ls) :
    Good (next (newOverlay oi Ls)) ∧
    IsNext Ls oi.rng (.gt oi.curKey) (next (newOverlay oi Ls)).result := by
  have h := next_slow (newOverlay oi Ls) (good_newOverlay hg hwf) (by simp [newOverlay, hst])
    (by intro _ hp; simp [newOverlay] at hp)
    (by intro _; simp [newOverlay, update, canFast])
  refine ⟨h.1, ?_⟩
  simpa [nextBd, newOverlay, hst, curLayers] using h.2.1

theorem next_increasing (oi : OI) (hg : Good oi) (hst : oi.st = .within)
    (hdir : oi.pend = none → oi.lastDir = .next)
    (hslow : canFast (update oi).1 (update oi).2 .next = false)
    (hw : (next oi).st = .within) : oi.curKey < (next oi).curKey := by
  have h := (next_slow oi hg (by simp [hst]) (fun _ => hdir) (fun _ => hslow)).2.1
  simp only [OI.result, hw, if_true, nextBd, hst] at h
  have := h.1
  simpa [Bd.ok] using this

/-! ### skip-scan: content of the filtered layers -/

theorem lookupL_filter (p : Key → Bool) (L : Layer) (k : Key) :
    lookupL (L.filter (fun e => p e.key)) k = if p k then lookupL L k else none := by
  unfold lookupL
  rw [List.find?_filter]
  induction L with
  | nil => simp
  | cons x xs ih =>
    simp only [List.find?_cons]
    by_cases hx : x.key = k
    · subst hx
      by_cases hp : p x.key = true
      · simp [hp]
      · simp only [hp, Bool.false_and, Bool.false_eq_true, if_false] at ih ⊢; exact ih
    · simp only [hx, decide_false, Bool.false_eq_true, and_false]; exact ih

theorem top_filter (p : Key → Bool) (Ls : List Layer) (k : Key) :
    top (Ls.map (fun L => L.filter (fun e => p e.key))) k = if p k then top Ls k else none := by
  induction Ls with
  | nil => simp [top]
  | cons L Ls ih =>
    simp only [List.map_cons, top, ih, lookupL_filter]
    by_cases hp : p k = true
    · simp [hp]
    · simp [hp]

theorem sem_filter (pr sr : Rng) (n : Nat) (Ls : List Layer) (k : Key) :
    sem (Ls.map (filterL pr sr n)) k = if visible pr sr n k then sem Ls k else none := by
  have := top_filter (visible pr sr n) Ls k
  unfold sem filterL
  rw [this]
  by_cases hv : visible pr sr n k = true <;> simp [hv]

end Gsu.Iter
