/-
C13: `UnpackNumber` on well-formed packed finite numbers (`tag :: expByte e :: digit pairs`):
the `unpackInt` arithmetic (`unpackIntU`), `intable`'s tests (digit count, last digit, the int64
range test including the repaired min-prefix case) and from them the full integer round trip
`packInt_unpack` for every int64.
-/
import Gsu.Proofs.PackUnpack
namespace Gsu.Pack
open Gsu.Proto

/-! ## arithmetic of `unpackIntU` -/

theorem ofMsd_append1 (b : Nat) (xs : List Nat) (d : Nat) :
    ofMsd b (xs ++ [d]) = ofMsd b xs * b + d := by
  simp [ofMsd, List.foldl_append]

theorem ofMsd_lt (ds : List Nat) (hs : Small ds) : ofMsd 100 ds < 100 ^ ds.length := by
  have h1 := ofMsd_pv ds.length ds (Nat.le_refl _)
  have h2 := pv_lt ds.length ds hs (Nat.le_refl _)
  simp only [Nat.sub_self, Nat.pow_zero, Nat.mul_one] at h1
  omega

theorem u64_pos : 0 < u64 := by decide

/-- the wrapping uint64 loop `u = u*100 + d` is the plain sum modulo 2^64 -/
theorem foldl_mod (xs : List Nat) (a : Nat) (ha : a < u64) :
    List.foldl (fun u d => (u * 100 + d) % u64) a xs =
      (a * 100 ^ xs.length + ofMsd 100 xs) % u64 := by
  induction xs generalizing a with
  | nil => simp [ofMsd, Nat.mod_eq_of_lt ha]
  | cons d ds ih =>
    rw [List.foldl_cons, ih _ (Nat.mod_lt _ u64_pos), ofMsd_cons, List.length_cons, Nat.pow_succ]
    rw [Nat.add_mod, Nat.mul_mod, Nat.mod_mod, ← Nat.mul_mod, ← Nat.add_mod]
    congr 1; ring

theorem lastOf_small (m : Nat) (h1 : 1 ≤ m) (h2 : m ≤ 64) : lastOf (m : Int) = 2 * (m : Int) - 1 := by
  simp only [lastOf, toInt8, UInt8.toNat_ofNat']
  split <;> omega

/-- `unpackInt` computes the integer `U` whose decimal digits are the digit pairs `ps` followed by
zeros up to `e` digits: `ofMsd 100 ps · 10^(e+1-2m) = 10·U` (no uint64 wrap as long as `U < 2^64`) -/
theorem unpackIntU_val (ps : List Nat) (e : Int) (U : Nat) (hne : ps ≠ []) (hl : ps.length ≤ 10)
    (hs : Small ps) (he : 2 * (ps.length : Int) - 1 ≤ e)
    (hv : ofMsd 100 ps * 10 ^ (e + 1 - 2 * (ps.length : Int)).toNat = U * 10) (hU : U < u64) :
    unpackIntU ps e = U := by
  rcases List.eq_nil_or_concat ps with h | ⟨init, l, h⟩
  · exact absurd h hne
  rw [List.concat_eq_append] at h
  subst h
  have hl' : init.length + 1 ≤ 10 := by simpa using hl
  have hsi : Small init := fun x hx => hs x (by simp [hx])
  have hll : l < 100 := hs l (by simp)
  have hI := ofMsd_lt init hsi
  have hI' : ofMsd 100 init < 100 ^ 9 :=
    Nat.lt_of_lt_of_le hI (Nat.pow_le_pow_right (by decide) (by omega))
  have hlast := lastOf_small (init.length + 1) (by omega) (by omega)
  have hu0 : List.foldl (fun u d => (u * 100 + d) % u64) 0 init = ofMsd 100 init := by
    rw [foldl_mod _ _ u64_pos, Nat.zero_mul, Nat.zero_add]
    apply Nat.mod_eq_of_lt
    simp only [u64]; omega
  rw [ofMsd_append1] at hv
  simp only [List.length_append, List.length_singleton] at hv he
  simp only [unpackIntU, List.length_append, List.length_singleton, List.dropLast_concat,
    List.getLast?_append, List.getLast?_singleton, Option.some_or, Option.getD_some, hu0]
  rw [hlast]
  by_cases hc : e = 2 * ((init.length + 1 : Nat) : Int) - 1
  · rw [if_pos hc]
    have : (e + 1 - 2 * ((init.length + 1 : Nat) : Int)).toNat = 0 := by omega
    rw [this, Nat.pow_zero, Nat.mul_one] at hv
    have hr : ofMsd 100 init * 10 + l / 10 = U := by omega
    rw [hr, Nat.mod_eq_of_lt hU]
  · rw [if_neg hc]
    obtain ⟨k, hk⟩ : ∃ k : Nat, e = 2 * ((init.length + 1 : Nat) : Int) + k :=
      ⟨(e - 2 * ((init.length + 1 : Nat) : Int)).toNat, by omega⟩
    have e1 : (e + 1 - 2 * ((init.length + 1 : Nat) : Int)).toNat = k + 1 := by omega
    have e2 : (e - (2 * ((init.length + 1 : Nat) : Int) - 1) - 1).toNat = k := by omega
    rw [e1, Nat.pow_succ, ← Nat.mul_assoc] at hv
    have hv' : (ofMsd 100 init * 100 + l) * 10 ^ k = U := by omega
    have hle : ofMsd 100 init * 100 + l ≤ U := by
      rw [← hv']; exact Nat.le_mul_of_pos_right _ (Nat.pow_pos (by decide))
    have hlt : ofMsd 100 init * 100 + l < u64 := by omega
    rw [e2, Nat.mod_eq_of_lt hlt, hv', Nat.mod_eq_of_lt hU]

/-! ## `UnpackNumber` on `tag :: expByte e :: digit pairs` -/

theorem xorBytes_length (x : UInt8) (ps : List Nat) : (xorBytes x ps).length = ps.length := by
  simp [xorBytes]

theorem xorBytes_append1 (x : UInt8) (ps : List Nat) (l : Nat) :
    xorBytes x (ps ++ [l]) = xorBytes x ps ++ [UInt8.ofNat l ^^^ x] := by
  simp [xorBytes]

theorem getLast?_cons_snoc {α : Type} (a : α) (A : List α) (b : α) :
    (a :: (A ++ [b])).getLast? = some b := by
  have h : a :: (A ++ [b]) = (a :: A) ++ [b] := rfl
  rw [h, List.getLast?_append]; simp

/-- `intable`'s range test -/
def inRange (s : Bytes) : Bool :=
  (cmpB packedMinInt64 s != .gt || isPrefix s packedMinInt64) && cmpB s packedMaxInt64 != .gt

/-- `intable` on a packed finite number with `m` digit pairs: exponent in 0…19, at most `e`
significant digits (`2m-1 ≤ e`, and the last digit is 0 when `e = 2m-1`), and the range test -/
theorem intable_packed (t eb x : UInt8) (ps : List Nat) (e : Int) (hne : ps ≠ [])
    (h256 : ∀ p ∈ ps, p < 256) (hl : ps.length ≤ 10) :
    intable (t :: eb :: xorBytes x ps) e x =
      if e < 0 ∨ 19 < e then false
      else if e < 2 * (ps.length : Int) - 1 ∨
          (e = 2 * (ps.length : Int) - 1 ∧ (ps.getLast?.getD 0) % 10 ≠ 0) then false
      else inRange (t :: eb :: xorBytes x ps) := by
  rcases List.eq_nil_or_concat ps with h | ⟨init, l, h⟩
  · exact absurd h hne
  rw [List.concat_eq_append] at h
  subst h
  have hlen : (((t :: eb :: xorBytes x (init ++ [l])).length : Nat) : Int) - 2 =
      ((init.length + 1 : Nat) : Int) := by
    simp [xorBytes_length]; omega
  have hlast := lastOf_small (init.length + 1) (by omega) (by simp at hl; omega)
  have hb : (UInt8.ofNat l ^^^ x ^^^ x).toNat = l := xor_cancel_toNat l x (h256 l (by simp))
  simp only [intable, hlen, hlast, inRange]
  simp only [xorBytes_append1, List.length_append, List.length_singleton,
    List.getLast?_cons_cons, getLast?_cons_snoc, Option.getD_some, hb,
    List.getLast?_append, List.getLast?_singleton, Option.some_or]

theorem first_byte_not_inf' (c0 : Nat) (h : c0 < 100) :
    (UInt8.ofNat c0 ^^^ 0xff == ~~~(0xff : UInt8)) = false := by
  have h1 := xorff_toNat' c0 (by omega)
  have : UInt8.ofNat c0 ^^^ 0xff ≠ ~~~(0xff : UInt8) := by
    intro e
    have := congrArg UInt8.toNat e
    rw [h1, show (~~~(0xff : UInt8)).toNat = 0 by decide] at this
    omega
  simpa using this

theorem unpackNumber_packed_pos (e : Int) (ps : List Nat) (hne : ps ≠ []) (hs : Small ps)
    (h1 : -128 ≤ e) (h2 : e ≤ 127) :
    unpackNumber (tagPlus :: expByte e 0 :: xorBytes 0 ps) =
      if intable (tagPlus :: expByte e 0 :: xorBytes 0 ps) e 0 = true then
        .int (toSigned 1 (unpackIntU ps e))
      else match unpackDnumCoef ps with
        | some c => .dnum ⟨1, c, e⟩
        | none => .err := by
  obtain ⟨p, r, rfl⟩ := List.exists_cons_of_ne_nil hne
  have h256 : ∀ q ∈ p :: r, q < 256 := fun q hq => by have := hs q hq; omega
  have hux := unxor_xorBytes 0 (p :: r) h256
  rw [xorBytes_cons] at hux
  rw [xorBytes_cons, unpackNumber_pos _ _ _ (first_byte_not_inf p (hs p (by simp))).1, hux,
    toInt8_expByte e 0 (Or.inl rfl) h1 h2]
  rfl

theorem unpackNumber_packed_neg (e : Int) (ps : List Nat) (hne : ps ≠ []) (hs : Small ps)
    (h1 : -128 ≤ e) (h2 : e ≤ 127) :
    unpackNumber (tagMinus :: expByte e 0xff :: xorBytes 0xff ps) =
      if intable (tagMinus :: expByte e 0xff :: xorBytes 0xff ps) e 0xff = true then
        .int (toSigned (-1) (unpackIntU ps e))
      else match unpackDnumCoef ps with
        | some c => .dnum ⟨-1, c, e⟩
        | none => .err := by
  obtain ⟨p, r, rfl⟩ := List.exists_cons_of_ne_nil hne
  have h256 : ∀ q ∈ p :: r, q < 256 := fun q hq => by have := hs q hq; omega
  have hux := unxor_xorBytes 0xff (p :: r) h256
  rw [xorBytes_cons] at hux
  rw [xorBytes_cons, unpackNumber_neg _ _ _ (first_byte_not_inf' p (hs p (by simp))), hux,
    toInt8_expByte e 0xff (Or.inr rfl) h1 h2]
  rfl

/-! ## the int64 range test of `intable` -/

/-- digit pairs of 9223372036854775808 and 9223372036854775807 -/
def psMin : List Nat := [92, 23, 37, 20, 36, 85, 47, 75, 80, 80]
def psMax : List Nat := [92, 23, 37, 20, 36, 85, 47, 75, 80, 70]

theorem packedMin_eq : packedMinInt64 = tagMinus :: expByte 19 0xff :: xorBytes 0xff psMin := by
  decide
theorem packedMax_eq : packedMaxInt64 = tagPlus :: expByte 19 0 :: xorBytes 0 psMax := by
  decide

theorem psMin_facts : Small psMin ∧ NoTrail0 psMin ∧ psMin.length = 10 ∧
    pv 10 psMin = 92233720368547758080 := by
  refine ⟨?_, ?_, rfl, rfl⟩
  · intro p hp; simp only [psMin, List.mem_cons, List.mem_nil_iff, or_false] at hp; omega
  · simp [NoTrail0, psMin]

theorem psMax_facts : Small psMax ∧ NoTrail0 psMax ∧ psMax.length = 10 ∧
    pv 10 psMax = 92233720368547758070 := by
  refine ⟨?_, ?_, rfl, rfl⟩
  · intro p hp; simp only [psMax, List.mem_cons, List.mem_nil_iff, or_false] at hp; omega
  · simp [NoTrail0, psMax]

theorem Small.lt256 {ps : List Nat} (h : Small ps) : ∀ p ∈ ps, p < 256 :=
  fun p hp => by have := h p hp; omega

theorem cmpL_prefix (ps qs : List Nat) (h : ps <+: qs) : cmpL ps qs ≠ .gt := by
  induction ps generalizing qs with
  | nil => cases qs <;> simp [cmpL]
  | cons p ps ih =>
    cases qs with
    | nil => simp at h
    | cons q qs =>
      obtain ⟨e, hh⟩ := (List.cons_prefix_cons).1 h
      subst e
      simp only [cmpL, Nat.lt_irrefl, if_false]
      exact ih qs hh

theorem isPrefix_xorBytes (x : UInt8) (ps qs : List Nat) (hp : ∀ p ∈ ps, p < 256)
    (hq : ∀ q ∈ qs, q < 256) : isPrefix (xorBytes x ps) (xorBytes x qs) = true ↔ ps <+: qs := by
  induction ps generalizing qs with
  | nil => simp [xorBytes, isPrefix]
  | cons p ps ih =>
    cases qs with
    | nil => simp [xorBytes, isPrefix]
    | cons q qs =>
      have ih' := ih qs (fun a ha => hp a (by simp [ha])) (fun a ha => hq a (by simp [ha]))
      have h1 := xor_cancel_toNat p x (hp p (by simp))
      have h2 := xor_cancel_toNat q x (hq q (by simp))
      have hb : (UInt8.ofNat p ^^^ x == UInt8.ofNat q ^^^ x) = true ↔ p = q := by
        constructor
        · intro h
          have h := congrArg (fun b => (b ^^^ x).toNat) (eq_of_beq h)
          simp only [h1, h2] at h
          exact h
        · intro h; subst h; simp
      simp only [xorBytes, List.map_cons, isPrefix, Bool.and_eq_true, List.cons_prefix_cons] at ih' ⊢
      rw [hb, ih']

/-- range test, positive numbers: below 10^19 digits-wise, or at most MaxInt64 -/
theorem inRange_pos (e : Int) (ps : List Nat) (hs : Small ps) (ht : NoTrail0 ps)
    (hl : ps.length ≤ 10) (h1 : -128 ≤ e) (h2 : e ≤ 19) :
    inRange (tagPlus :: expByte e 0 :: xorBytes 0 ps) = true ↔
      (e < 19 ∨ pv 10 ps ≤ 92233720368547758070) := by
  obtain ⟨ms, mt, ml, mv⟩ := psMax_facts
  have hc := cmpL_eq_cmpNat 10 ps psMax hs ms ht mt hl (by omega)
  have hb := cmpB_xor0 ps psMax hs.lt256 ms.lt256
  have h0 : cmpB packedMinInt64 (tagPlus :: expByte e 0 :: xorBytes 0 ps) = .lt := by
    rw [packedMin_eq]; simp [cmpB, show tagMinus < tagPlus by decide]
  simp only [inRange, h0, packedMax_eq, cmpB_num, hb, hc, mv, expByte_pos e h1 (by omega),
    expByte_pos 19 (by decide) (by decide), cmpNat]
  by_cases hlt : e < 19
  · have : e + 128 < 147 := by omega
    simp [this, hlt]
  · have he : e = 19 := by omega
    subst he
    by_cases hv : pv 10 ps ≤ 92233720368547758070
    · by_cases hv' : pv 10 ps < 92233720368547758070
      · simp [hv, hv']
      · have : ¬ (92233720368547758070 < pv 10 ps) := by omega
        simp [hv, hv', this]
    · have h3 : ¬ pv 10 ps < 92233720368547758070 := by omega
      have h4 : 92233720368547758070 < pv 10 ps := by omega
      simp [hv, h3, h4]

theorem cmpNat_ne_gt (a b : Nat) : cmpNat a b ≠ .gt ↔ a ≤ b := by
  simp only [cmpNat]
  split_ifs <;> simp <;> omega

theorem cmpNat_ne_lt (a b : Nat) : ¬ cmpNat a b = .lt ↔ b ≤ a := by
  simp only [cmpNat]
  split_ifs <;> simp <;> omega

/-- range test, negative numbers (the repaired test): fewer than 19 digits, or magnitude at most
2^63, or — the stored-format quirk of finding 9 — the digit pairs extend those of MinInt64 -/
theorem inRange_neg (e : Int) (ps : List Nat) (hs : Small ps) (ht : NoTrail0 ps)
    (hl : ps.length ≤ 10) (h1 : -128 ≤ e) (h2 : e ≤ 19) :
    inRange (tagMinus :: expByte e 0xff :: xorBytes 0xff ps) = true ↔
      (e < 19 ∨ pv 10 ps ≤ 92233720368547758080 ∨ psMin <+: ps) := by
  obtain ⟨ms, mt, ml, mv⟩ := psMin_facts
  have hc1 := cmpL_eq_cmpNat 10 ps psMin hs ms ht mt hl (by omega)
  have hc2 := cmpL_eq_cmpNat 10 psMin ps ms hs mt ht (by omega) hl
  have hb := cmpB_xorff psMin ps ms.lt256 hs.lt256
  have hp := isPrefix_xorBytes 0xff ps psMin hs.lt256 ms.lt256
  have h0 : cmpB (tagMinus :: expByte e 0xff :: xorBytes 0xff ps) packedMaxInt64 = .lt := by
    rw [packedMax_eq]; simp [cmpB, show tagMinus < tagPlus by decide]
  simp only [inRange, h0, packedMin_eq, cmpB_num, hb, expByte_neg e h1 (by omega),
    expByte_neg 19 (by decide) (by decide), Bool.and_eq_true, Bool.or_eq_true, bne_iff_ne, ne_eq,
    isPrefix, beq_self_eq_true, true_and]
  by_cases hlt : e < 19
  · have : (108 : Int) < 127 - e := by omega
    simp [this, hlt]
  · have he : e = 19 := by omega
    subst he
    simp only [Nat.lt_irrefl, if_false, beq_self_eq_true, true_and, hp, hlt, false_or]
    by_cases pa : ps <+: psMin
    · have := cmpL_prefix _ _ pa
      rw [hc1, cmpNat_ne_gt, mv] at this
      simp [pa, this]
    · by_cases pb : psMin <+: ps
      · have := cmpL_prefix _ _ pb
        rw [cmpLneg_prefix _ _ pb]
        simp [pb, this]
      · rw [cmpLneg_swap _ _ pb pa, hc2, mv]
        have := cmpNat_ne_lt 92233720368547758080 (pv 10 ps)
        simp [pa, pb, this]

/-! ## exactly when a packed finite number unpacks as an integer -/

/-- `intable`'s digit tests: exponent 0…19 and at most `e` significant decimal digits -/
def IntDigits (ps : List Nat) (e : Int) : Prop :=
  0 ≤ e ∧ e ≤ 19 ∧ 2 * (ps.length : Int) - 1 ≤ e ∧
    (e = 2 * (ps.length : Int) - 1 → (ps.getLast?.getD 0) % 10 = 0)

theorem intable_pos_iff (e : Int) (ps : List Nat) (hne : ps ≠ []) (hs : Small ps)
    (ht : NoTrail0 ps) (hl : ps.length ≤ 10) (h1 : -128 ≤ e) :
    intable (tagPlus :: expByte e 0 :: xorBytes 0 ps) e 0 = true ↔
      IntDigits ps e ∧ (e < 19 ∨ pv 10 ps ≤ 92233720368547758070) := by
  rw [intable_packed _ _ _ ps e hne hs.lt256 hl]
  simp only [IntDigits]
  split_ifs with c1 c2
  · simp only [false_iff]; omega
  · simp only [false_iff]; omega
  · rw [inRange_pos e ps hs ht hl h1 (by omega)]
    constructor
    · intro h; refine ⟨⟨?_, ?_, ?_, ?_⟩, h⟩ <;> omega
    · exact fun h => h.2

theorem intable_neg_iff (e : Int) (ps : List Nat) (hne : ps ≠ []) (hs : Small ps)
    (ht : NoTrail0 ps) (hl : ps.length ≤ 10) (h1 : -128 ≤ e) :
    intable (tagMinus :: expByte e 0xff :: xorBytes 0xff ps) e 0xff = true ↔
      IntDigits ps e ∧ (e < 19 ∨ pv 10 ps ≤ 92233720368547758080) := by
  have hpre : psMin <+: ps → pv 10 ps ≤ 92233720368547758080 := by
    intro h
    have hle := h.length_le
    have : psMin = ps := h.eq_of_length (by rw [psMin_facts.2.2.1] at hle ⊢; omega)
    rw [← this, psMin_facts.2.2.2]
  have hor : (e < 19 ∨ pv 10 ps ≤ 92233720368547758080 ∨ psMin <+: ps) ↔
      (e < 19 ∨ pv 10 ps ≤ 92233720368547758080) := by
    constructor
    · rintro (h | h | h)
      · exact Or.inl h
      · exact Or.inr h
      · exact Or.inr (hpre h)
    · rintro (h | h)
      · exact Or.inl h
      · exact Or.inr (Or.inl h)
  rw [← hor]
  rw [intable_packed _ _ _ ps e hne hs.lt256 hl]
  simp only [IntDigits]
  split_ifs with c1 c2
  · simp only [false_iff]; omega
  · simp only [false_iff]; omega
  · rw [inRange_neg e ps hs ht hl h1 (by omega)]
    constructor
    · intro h; refine ⟨⟨?_, ?_, ?_, ?_⟩, h⟩ <;> omega
    · exact fun h => h.2

theorem ofMsd_mod10 (ps : List Nat) : ofMsd 100 ps % 10 = (ps.getLast?.getD 0) % 10 := by
  rcases List.eq_nil_or_concat ps with h | ⟨init, l, h⟩
  · subst h; rfl
  rw [List.concat_eq_append] at h
  subst h
  rw [ofMsd_append1]
  simp only [List.getLast?_append, List.getLast?_singleton, Option.some_or, Option.getD_some]
  omega

/-- the integer denoted by digit pairs `ps` with `e` integer digits, when `IntDigits` holds -/
def intVal (ps : List Nat) (e : Int) : Nat :=
  ofMsd 100 ps * 10 ^ (e + 1 - 2 * (ps.length : Int)).toNat / 10

theorem intVal_spec (ps : List Nat) (e : Int) (h : IntDigits ps e) :
    ofMsd 100 ps * 10 ^ (e + 1 - 2 * (ps.length : Int)).toNat = intVal ps e * 10 := by
  obtain ⟨_, _, h3, h4⟩ := h
  have hd : ofMsd 100 ps * 10 ^ (e + 1 - 2 * (ps.length : Int)).toNat % 10 = 0 := by
    by_cases hc : e = 2 * (ps.length : Int) - 1
    · have : (e + 1 - 2 * (ps.length : Int)).toNat = 0 := by omega
      rw [this, Nat.pow_zero, Nat.mul_one, ofMsd_mod10]
      exact h4 hc
    · obtain ⟨k, hk⟩ : ∃ k : Nat, (e + 1 - 2 * (ps.length : Int)).toNat = k + 1 :=
        ⟨(e + 1 - 2 * (ps.length : Int)).toNat - 1, by omega⟩
      rw [hk, Nat.pow_succ, ← Nat.mul_assoc]
      exact Nat.mul_mod_left _ _
  simp only [intVal]
  omega

/-- relation between the scaled pair value and the integer value -/
theorem intVal_pv (ps : List Nat) (e : Int) (h : IntDigits ps e) (hl : ps.length ≤ 10) :
    pv 10 ps = intVal ps e * 10 ^ (20 - e.toNat) := by
  have hv := intVal_spec ps e h
  obtain ⟨h1, h2, h3, _⟩ := h
  obtain ⟨a, ha⟩ : ∃ a : Nat, (e + 1 - 2 * (ps.length : Int)).toNat = a := ⟨_, rfl⟩
  rw [ha] at hv
  have e1 : 100 ^ (10 - ps.length) = 10 ^ a * 10 ^ (19 - e.toNat) := by
    rw [← Nat.pow_add, show (100 : Nat) = 10 ^ 2 by norm_num, ← Nat.pow_mul]
    congr 1; omega
  have e2 : 10 ^ (20 - e.toNat) = 10 * 10 ^ (19 - e.toNat) := by
    rw [← Nat.pow_succ']; congr 1; omega
  rw [← ofMsd_pv 10 ps hl, e1, e2, ← Nat.mul_assoc, hv, Nat.mul_assoc]

theorem intVal_lt (ps : List Nat) (e : Int) (h : IntDigits ps e) (hs : Small ps)
    (hl : ps.length ≤ 10) : intVal ps e < 10 ^ e.toNat := by
  have h1 := intVal_pv ps e h hl
  have h2 := pv_lt 10 ps hs hl
  obtain ⟨_, _, _, _⟩ := h
  have e1 : (100 : Nat) ^ 10 = 10 ^ e.toNat * 10 ^ (20 - e.toNat) := by
    rw [← Nat.pow_add, show e.toNat + (20 - e.toNat) = 20 by omega]; norm_num
  rw [h1, e1] at h2
  exact Nat.lt_of_mul_lt_mul_right h2

theorem toSigned_pos (U : Nat) (h : U ≤ 9223372036854775807) : toSigned 1 U = U := by
  have : U < 9223372036854775808 := by omega
  simp only [toSigned, show ¬ ((1 : Int) = -1) by decide, if_false, this, if_true]

theorem toSigned_neg (U : Nat) (h : U ≤ 9223372036854775808) : toSigned (-1) U = -(U : Int) := by
  simp only [toSigned, minInt64, u64, if_true, Nat.cast_ofNat]
  split_ifs <;> first | contradiction | omega

/-- in range: fewer than 19 integer digits, or the scaled value is at most the limit -/
theorem intVal_le (ps : List Nat) (e : Int) (h : IntDigits ps e) (hs : Small ps)
    (hl : ps.length ≤ 10) (M : Nat) (hM : 10 ^ 18 ≤ M) (hr : e < 19 ∨ pv 10 ps ≤ M * 10) :
    intVal ps e ≤ M := by
  by_cases h19 : e < 19
  · have h1 := intVal_lt ps e h hs hl
    have : 10 ^ e.toNat ≤ 10 ^ 18 := Nat.pow_le_pow_right (by decide) (by omega)
    omega
  · have he : e = 19 := by have := h.2.1; omega
    have h1 := intVal_pv ps e h hl
    subst he
    rcases hr with hr | hr
    · omega
    · simp only [show 20 - (19 : Int).toNat = 1 by decide, Nat.pow_one] at h1
      omega

/-- A packed positive finite number whose digit pairs pass `intable`'s tests unpacks as the
integer it denotes. -/
theorem unpack_packed_pos_int (e : Int) (ps : List Nat) (hne : ps ≠ []) (hs : Small ps)
    (ht : NoTrail0 ps) (hl : ps.length ≤ 10) (h : IntDigits ps e)
    (hr : e < 19 ∨ pv 10 ps ≤ 92233720368547758070) :
    unpackNumber (tagPlus :: expByte e 0 :: xorBytes 0 ps) = .int (intVal ps e) := by
  have h1 : -128 ≤ e := by have := h.1; omega
  have h2 : e ≤ 127 := by have := h.2.1; omega
  have hle := intVal_le ps e h hs hl 9223372036854775807 (by decide) hr
  rw [unpackNumber_packed_pos e ps hne hs h1 h2,
    if_pos ((intable_pos_iff e ps hne hs ht hl h1).2 ⟨h, hr⟩),
    unpackIntU_val ps e (intVal ps e) hne hl hs h.2.2.1 (intVal_spec ps e h)
      (by simp only [u64]; omega),
    toSigned_pos _ hle]

theorem unpack_packed_neg_int (e : Int) (ps : List Nat) (hne : ps ≠ []) (hs : Small ps)
    (ht : NoTrail0 ps) (hl : ps.length ≤ 10) (h : IntDigits ps e)
    (hr : e < 19 ∨ pv 10 ps ≤ 92233720368547758080) :
    unpackNumber (tagMinus :: expByte e 0xff :: xorBytes 0xff ps) = .int (-(intVal ps e : Int)) := by
  have h1 : -128 ≤ e := by have := h.1; omega
  have h2 : e ≤ 127 := by have := h.2.1; omega
  have hle := intVal_le ps e h hs hl 9223372036854775808 (by decide) hr
  rw [unpackNumber_packed_neg e ps hne hs h1 h2,
    if_pos ((intable_neg_iff e ps hne hs ht hl h1).2 ⟨h, hr⟩),
    unpackIntU_val ps e (intVal ps e) hne hl hs h.2.2.1 (intVal_spec ps e h)
      (by simp only [u64]; omega),
    toSigned_neg _ hle]

/-- … and otherwise it takes the `unpackDnum` path -/
theorem unpack_packed_pos_dnum (e : Int) (ps : List Nat) (hne : ps ≠ []) (hs : Small ps)
    (ht : NoTrail0 ps) (hl : ps.length ≤ 10) (h1 : -128 ≤ e) (h2 : e ≤ 127)
    (h : ¬ (IntDigits ps e ∧ (e < 19 ∨ pv 10 ps ≤ 92233720368547758070))) :
    unpackNumber (tagPlus :: expByte e 0 :: xorBytes 0 ps) =
      match unpackDnumCoef ps with
      | some c => .dnum ⟨1, c, e⟩
      | none => .err := by
  rw [unpackNumber_packed_pos e ps hne hs h1 h2,
    if_neg (fun hi => h ((intable_pos_iff e ps hne hs ht hl h1).1 hi))]

theorem unpack_packed_neg_dnum (e : Int) (ps : List Nat) (hne : ps ≠ []) (hs : Small ps)
    (ht : NoTrail0 ps) (hl : ps.length ≤ 10) (h1 : -128 ≤ e) (h2 : e ≤ 127)
    (h : ¬ (IntDigits ps e ∧ (e < 19 ∨ pv 10 ps ≤ 92233720368547758080))) :
    unpackNumber (tagMinus :: expByte e 0xff :: xorBytes 0xff ps) =
      match unpackDnumCoef ps with
      | some c => .dnum ⟨-1, c, e⟩
      | none => .err := by
  rw [unpackNumber_packed_neg e ps hne hs h1 h2,
    if_neg (fun hi => h ((intable_neg_iff e ps hne hs ht hl h1).1 hi))]

end Gsu.Pack
