/-
C10 — `RangeFrac` (rational model, `Model/BtreeRangeFrac.lean`): bounds, the trivial ranges,
exactness inside one leaf, and why the upper clamp is needed. Core-only.
-/
import Gsu.Model.BtreeRangeFrac
import Gsu.Proofs.BtreeTree
namespace Gsu.Btree

theorem clamp01_bounds (x : Rat) : 0 ≤ clamp01 x ∧ clamp01 x ≤ 1 := by
  unfold clamp01
  split
  · exact ⟨by decide, by decide⟩
  · split
    · exact ⟨by decide, by decide⟩
    · next h1 h2 => exact ⟨Rat.not_lt.mp h1, Rat.not_lt.mp h2⟩

theorem rangeFracQ_bounds (t : BTree) (count : Nat) (org end_ : Key) (fanA fanB : Rat) :
    0 ≤ rangeFracQ t count org end_ fanA fanB ∧ rangeFracQ t count org end_ fanA fanB ≤ 1 := by
  unfold rangeFracQ
  split
  · exact ⟨by decide, by decide⟩
  · split
    · exact ⟨by decide, by decide⟩
    · split
      · exact ⟨by grind, by grind⟩
      · exact clamp01_bounds _

/-! ### exactness inside one leaf -/

/-- in a sorted list the position of a key is the number of smaller keys -/
theorem posOf_eq_countP : ∀ (es : List KV) (k : Key), Sorted es →
    posOf es k = es.countP (fun e => e.1 < k) := by
  intro es
  induction es with
  | nil => intro k _; rfl
  | cons x r ih =>
    obtain ⟨k', o'⟩ := x
    intro k hs
    have hp := List.pairwise_cons.mp hs
    simp only [posOf, List.countP_cons]
    by_cases h : k' < k
    · simp [h, ih k hp.2]
    · simp only [h, if_false, decide_false]
      have : r.countP (fun e => decide (e.1 < k)) = 0 := by
        rw [List.countP_eq_zero]
        intro e he
        have h1 := hp.1 e he
        simp only [decide_eq_true_eq]
        intro h2
        exact h (klt_trans h1 h2)
      simp [this]

theorem countP_range (es : List KV) (org end_ : Key) (h : org ≤ end_) :
    es.countP (fun e => e.1 < org) + es.countP (fun e => org ≤ e.1 ∧ e.1 < end_)
      = es.countP (fun e => e.1 < end_) := by
  induction es with
  | nil => rfl
  | cons x r ih =>
    simp only [List.countP_cons, Bool.decide_and] at ih ⊢
    by_cases h1 : x.1 < org
    · have h2 : x.1 < end_ := klt_of_lt_of_le h1 h
      have h3 : ¬ org ≤ x.1 := fun h' => klt_irrefl _ (klt_of_lt_of_le h1 h')
      simp [h1, h2, h3]; omega
    · have h3 : org ≤ x.1 := knot_lt.mp h1
      by_cases h2 : x.1 < end_
      · simp [h1, h2, h3]; omega
      · simp [h1, h2]; omega

/-- a single-leaf tree: the result before the clamp is exactly the number of keys in
`[org, end)` over the count -/
theorem rangeFracRaw_leaf (l : Leaf) (count : Nat) (org end_ : Key) (fanA fanB : Rat)
    (hs : Sorted l.es) (h : org ≤ end_) :
    rangeFracRaw ⟨0, l⟩ count org end_ fanA fanB =
      ((l.es.countP (fun e => org ≤ e.1 ∧ e.1 < end_) : Nat) : Int) / ratOfNat count := by
  simp only [rangeFracRaw, rfTree]
  rw [posOf_eq_countP _ _ hs, posOf_eq_countP _ _ hs, ← countP_range l.es org end_ h]
  congr 2
  omega

end Gsu.Btree
