/-
C34: the reserved-window invariant of the timestamp machine and its preservation.
-/
import Gsu.Model.Ts
namespace Gsu.Ts
open Gsu.Gen.Ts

/-- what the proofs need from the regenerated constants -/
structure GenFacts : Prop where
  inc : fastInc = 1
  mode : tsInitialBatch = clientBatch
  fits : clientBatch ≤ srvBumpLow
  thr : clientThreshold ≤ srvThreshold
  nowrap : srvThreshold + srvBumpLow ≤ 1000
  lowPos : 0 < srvBumpLow
  highPos : 0 < srvBumpHigh
  extra : extraLimit ≤ 256
  distinct : clientBatch ≠ extraLimit
  batchSmall : clientBatch ≤ 256

theorem genFacts : GenFacts := by
  constructor <;> decide

theorem get_set {α} (l : List α) (i j : Nat) (p q : α) (h : l[i]? = some p) :
    (l.set i q)[j]? = if j = i then some q else l[j]? := by
  have hi : i < l.length := by
    rcases Nat.lt_or_ge i l.length with h' | h'
    · exact h'
    · simp [List.getElem?_eq_none h'] at h
  rw [List.getElem?_set]
  by_cases hji : j = i
  · subst hji; simp [hi]
  · have : ¬ i = j := fun h => hji h.symm
    simp [hji, this]

theorem addMs_one (t : Nat) : addMs t 1 = t + 1 := by unfold addMs; split <;> rfl

theorem bump_gt (ts : Nat) : ts < bump ts := by
  have F := genFacts
  have := F.lowPos; have := F.highPos
  unfold bump addMs
  split <;> split <;> omega

theorem bump_low (ts : Nat) (h : ts % 1000 < srvThreshold) : bump ts = ts + srvBumpLow := by
  have F := genFacts
  have := F.nowrap
  unfold bump addMs
  rw [if_pos h, if_pos (by omega)]

/-- the stamps client state `c` may still hand out without asking the server -/
def reserved (c : Client) (x : Stamp) : Prop :=
  if c.limit = tsInitialBatch then x.2 = 0 ∧ c.last < x.1 ∧ x.1 + c.count < c.last + c.limit
  else x.1 = c.last ∧ c.count < x.2 ∧ x.2 < c.limit

theorem slt_trans {a b c : Stamp} (h1 : slt a b) (h2 : slt b c) : slt a c := by
  unfold slt at *; omega

theorem slt_irrefl (a : Stamp) : ¬ slt a a := by unfold slt; omega

theorem slt_mono {a : Stamp} {t t' : Nat} (h : slt a (t, 0)) (ht : t ≤ t') : slt a (t', 0) := by
  unfold slt at *; simp at *; omega

structure TsInv (s : State) (log : List (Caller × Stamp)) : Prop where
  /-- everything issued is below the server's next stamp -/
  issuedLt : ∀ e ∈ log, slt e.2 (s.ts, 0)
  /-- reserved windows lie below the server's next stamp … -/
  resLt : ∀ (i : Nat) (c : Client), s.clients[i]? = some c → ∀ x, reserved c x → slt x (s.ts, 0)
  /-- … contain nothing issued yet … -/
  resFresh : ∀ (i : Nat) (c : Client), s.clients[i]? = some c → ∀ x, reserved c x → ∀ e ∈ log, e.2 ≠ x
  /-- … are pairwise disjoint … -/
  resDisj : ∀ (i j : Nat) (ci cj : Client), i ≠ j → s.clients[i]? = some ci → s.clients[j]? = some cj →
    ∀ x, reserved ci x → ¬ reserved cj x
  /-- … and lie above everything their own client has received -/
  resAbove : ∀ (i : Nat) (c : Client), s.clients[i]? = some c → ∀ x, reserved c x →
    ∀ e ∈ log, e.1 = some i → slt e.2 x
  limits : ∀ (i : Nat) (c : Client), s.clients[i]? = some c → c.limit ≤ 256
  unique : log.Pairwise (fun a b => a.2 ≠ b.2)
  increasing : log.Pairwise (fun newer older => newer.1 = older.1 → slt older.2 newer.2)

theorem inv_init (ts0 n : Nat) : TsInv (init ts0 n) [] := by
  have hc : ∀ (i : Nat) (c : Client), (init ts0 n).clients[i]? = some c → c = ⟨0, 0, 0⟩ := by
    intro i c h
    simp only [init, List.getElem?_replicate] at h
    split at h <;> cases h; rfl
  have hr : ∀ x, ¬ reserved ⟨0, 0, 0⟩ x := by
    intro x h
    unfold reserved at h
    split at h <;> simp at h <;> omega
  refine ⟨by simp, ?_, ?_, ?_, ?_, ?_, by simp, by simp⟩
  · intro i c h x hx; rw [hc i c h] at hx; exact absurd hx (hr x)
  · intro i c h x hx; rw [hc i c h] at hx; exact absurd hx (hr x)
  · intro i j ci cj _ h _ x hx; rw [hc i ci h] at hx; exact absurd hx (hr x)
  · intro i c h x hx; rw [hc i c h] at hx; exact absurd hx (hr x)
  · intro i c h; rw [hc i c h]; simp

/-- client `i`'s window shrinks, nothing is issued -/
theorem inv_shrink (s : State) (log) (hi : TsInv s log) (i : Nat) (c c' : Client)
    (hc : s.clients[i]? = some c) (hsub : ∀ x, reserved c' x → reserved c x) (hl : c'.limit ≤ 256) :
    TsInv { s with clients := s.clients.set i c' } log := by
  refine ⟨hi.issuedLt, ?_, ?_, ?_, ?_, ?_, hi.unique, hi.increasing⟩
  · intro j cj hj x hx
    simp only [get_set _ _ _ _ _ hc] at hj
    split at hj
    · cases hj; exact hi.resLt i c hc x (hsub x hx)
    · exact hi.resLt j cj hj x hx
  · intro j cj hj x hx
    simp only [get_set _ _ _ _ _ hc] at hj
    split at hj
    · cases hj; exact hi.resFresh i c hc x (hsub x hx)
    · exact hi.resFresh j cj hj x hx
  · intro j k cj ck hjk hj hk x hx
    simp only [get_set _ _ _ _ _ hc] at hj hk
    split at hj <;> split at hk
    · omega
    · next h1 h2 => cases hj; subst h1; exact hi.resDisj j k c ck hjk hc hk x (hsub x hx)
    · next h1 h2 => cases hk; subst h2; exact fun h => hi.resDisj j k cj c hjk hj hc x hx (hsub x h)
    · exact hi.resDisj j k cj ck hjk hj hk x hx
  · intro j cj hj x hx
    simp only [get_set _ _ _ _ _ hc] at hj
    split at hj
    · next h1 => cases hj; subst h1; exact hi.resAbove j c hc x (hsub x hx)
    · exact hi.resAbove j cj hj x hx
  · intro j cj hj
    simp only [get_set _ _ _ _ _ hc] at hj
    split at hj
    · cases hj; exact hl
    · exact hi.limits j cj hj

/-- fast path: client `i` hands out a stamp of its window; the window shrinks to what lies above -/
theorem inv_fast (s : State) (log) (hi : TsInv s log) (i : Nat) (c c' : Client) (x : Stamp)
    (hc : s.clients[i]? = some c) (hx : reserved c x)
    (hsub : ∀ y, reserved c' y → reserved c y ∧ slt x y) (hl : c'.limit ≤ 256) :
    TsInv { s with clients := s.clients.set i c' } ((some i, x) :: log) := by
  have sh := inv_shrink s log hi i c c' hc (fun y hy => (hsub y hy).1) hl
  refine ⟨?_, sh.resLt, ?_, sh.resDisj, ?_, sh.limits, ?_, ?_⟩
  · intro e he
    rcases List.mem_cons.mp he with h | h
    · subst h; exact hi.resLt i c hc x hx
    · exact hi.issuedLt e h
  · intro j cj hj y hy e he
    rcases List.mem_cons.mp he with h | h
    · subst h
      simp only [get_set _ _ _ _ _ hc] at hj
      split at hj
      · cases hj
        intro heq
        have := (hsub y hy).2
        simp only at heq
        rw [heq] at this
        exact slt_irrefl _ this
      · next hne =>
        intro heq
        simp only at heq
        rw [← heq] at hy
        exact hi.resDisj i j c cj (fun h => hne h.symm) hc hj x hx hy
    · exact sh.resFresh j cj hj y hy e h
  · intro j cj hj y hy e he hcaller
    rcases List.mem_cons.mp he with h | h
    · subst h
      simp only [Option.some.injEq] at hcaller
      subst hcaller
      simp only [get_set _ _ _ _ _ hc, ↓reduceIte, Option.some.injEq] at hj
      subst hj
      exact (hsub y hy).2
    · exact sh.resAbove j cj hj y hy e h hcaller
  · refine List.pairwise_cons.mpr ⟨?_, hi.unique⟩
    intro e he
    exact fun h => hi.resFresh i c hc x hx e he h.symm
  · refine List.pairwise_cons.mpr ⟨?_, hi.increasing⟩
    intro e he hcaller
    exact hi.resAbove i c hc x hx e he hcaller.symm

/-- the clock tick -/
theorem inv_tick (s : State) (log) (hi : TsInv s log) (t : Nat) (ht : s.ts ≤ t) :
    TsInv { s with ts := t } log :=
  ⟨fun e he => slt_mono (hi.issuedLt e he) ht,
   fun i c hc x hx => slt_mono (hi.resLt i c hc x hx) ht,
   hi.resFresh, hi.resDisj, hi.resAbove, hi.limits, hi.unique, hi.increasing⟩

/-- a direct server call -/
theorem inv_server (s : State) (log) (hi : TsInv s log) :
    TsInv { s with ts := bump s.ts } ((none, (s.ts, 0)) :: log) := by
  have hb := bump_gt s.ts
  have hlt : slt (s.ts, 0) (bump s.ts, 0) := Or.inl hb
  refine ⟨?_, ?_, ?_, hi.resDisj, ?_, hi.limits, ?_, ?_⟩
  · intro e he
    rcases List.mem_cons.mp he with h | h
    · subst h; exact hlt
    · exact slt_trans (hi.issuedLt e h) hlt
  · intro i c hc x hx; exact slt_trans (hi.resLt i c hc x hx) hlt
  · intro i c hc x hx e he
    rcases List.mem_cons.mp he with h | h
    · subst h
      intro heq; simp only at heq
      have := hi.resLt i c hc x hx
      rw [← heq] at this
      exact slt_irrefl _ this
    · exact hi.resFresh i c hc x hx e h
  · intro i c hc x hx e he hcaller
    rcases List.mem_cons.mp he with h | h
    · subst h; cases hcaller
    · exact hi.resAbove i c hc x hx e h hcaller
  · refine List.pairwise_cons.mpr ⟨?_, hi.unique⟩
    intro e he heq
    have := hi.issuedLt e he
    simp only at heq
    rw [← heq] at this
    exact slt_irrefl _ this
  · refine List.pairwise_cons.mpr ⟨?_, hi.increasing⟩
    intro e he _
    exact hi.issuedLt e he

/-- refill: client `i` fetches the server's stamp and gets a new window just above it -/
theorem inv_refill (s : State) (log) (hi : TsInv s log) (i : Nat) (c : Client)
    (hc : s.clients[i]? = some c) :
    let limit := if s.ts % 1000 < clientThreshold then clientBatch else extraLimit
    TsInv { ts := bump s.ts, clients := s.clients.set i ⟨s.ts, 0, limit⟩ } ((some i, (s.ts, 0)) :: log) := by
  intro limit
  have F := genFacts
  have hb := bump_gt s.ts
  have hlt : slt (s.ts, 0) (bump s.ts, 0) := Or.inl hb
  -- the new window: strictly above (ts,0), strictly below (bump ts, 0)
  have hnew : ∀ y, reserved ⟨s.ts, 0, limit⟩ y → slt (s.ts, 0) y ∧ slt y (bump s.ts, 0) := by
    intro y hy
    obtain ⟨y1, y2⟩ := y
    unfold reserved at hy
    simp only [limit] at hy
    by_cases hm : s.ts % 1000 < clientThreshold
    · have hbl := bump_low s.ts (by have := F.thr; omega)
      have := F.mode; have := F.fits
      simp only [hm, ↓reduceIte] at hy
      rw [if_pos (by omega)] at hy
      unfold slt; simp only; omega
    · have := F.mode; have := F.distinct
      simp only [hm, ↓reduceIte] at hy
      rw [if_neg (by omega)] at hy
      unfold slt; simp only; omega
  have hlim : limit ≤ 256 := by
    have := F.extra; have := F.batchSmall
    simp only [limit]; split <;> omega
  -- first empty the old window, then issue, then open the new one
  refine ⟨?_, ?_, ?_, ?_, ?_, ?_, ?_, ?_⟩
  · intro e he
    rcases List.mem_cons.mp he with h | h
    · subst h; exact hlt
    · exact slt_trans (hi.issuedLt e h) hlt
  · intro j cj hj x hx
    simp only [get_set _ _ _ _ _ hc] at hj
    split at hj
    · cases hj; exact (hnew x hx).2
    · exact slt_trans (hi.resLt j cj hj x hx) hlt
  · intro j cj hj x hx e he
    simp only [get_set _ _ _ _ _ hc] at hj
    rcases List.mem_cons.mp he with h | h
    · subst h
      intro heq; simp only at heq
      split at hj
      · cases hj
        have := (hnew x hx).1
        rw [← heq] at this
        exact slt_irrefl _ this
      · have := hi.resLt j cj hj x hx
        rw [← heq] at this
        exact slt_irrefl _ this
    · split at hj
      · cases hj
        intro heq
        have h1 := hi.issuedLt e h
        have h2 := (hnew x hx).1
        rw [heq] at h1
        exact slt_irrefl _ (slt_trans h1 h2)
      · exact hi.resFresh j cj hj x hx e h
  · intro j k cj ck hjk hj hk x hx
    simp only [get_set _ _ _ _ _ hc] at hj hk
    split at hj <;> split at hk
    · omega
    · cases hj
      intro h
      exact slt_irrefl _ (slt_trans (hi.resLt k ck hk x h) (hnew x hx).1)
    · cases hk
      intro h
      exact slt_irrefl _ (slt_trans (hi.resLt j cj hj x hx) (hnew x h).1)
    · exact hi.resDisj j k cj ck hjk hj hk x hx
  · intro j cj hj x hx e he hcaller
    simp only [get_set _ _ _ _ _ hc] at hj
    rcases List.mem_cons.mp he with h | h
    · subst h
      simp only [Option.some.injEq] at hcaller
      subst hcaller
      simp only [↓reduceIte, Option.some.injEq] at hj
      subst hj
      exact (hnew x hx).1
    · split at hj
      · cases hj
        exact slt_trans (hi.issuedLt e h) (hnew x hx).1
      · exact hi.resAbove j cj hj x hx e h hcaller
  · intro j cj hj
    simp only [get_set _ _ _ _ _ hc] at hj
    split at hj
    · cases hj; exact hlim
    · exact hi.limits j cj hj
  · refine List.pairwise_cons.mpr ⟨?_, hi.unique⟩
    intro e he heq
    have := hi.issuedLt e he
    simp only at heq
    rw [← heq] at this
    exact slt_irrefl _ this
  · refine List.pairwise_cons.mpr ⟨?_, hi.increasing⟩
    intro e he _
    exact hi.issuedLt e he

/-- the log after one operation -/
def logAfter (log : List (Caller × Stamp)) : Option (Caller × Stamp) → List (Caller × Stamp)
  | none => log
  | some e => e :: log

theorem inv_step (s : State) (log) (hi : TsInv s log) (op : Op) :
    TsInv (step s op).1 (logAfter log (step s op).2) := by
  have F := genFacts
  cases op with
  | tick t =>
    simp only [step, logAfter]
    split
    · exact inv_tick s log hi t (by omega)
    · exact hi
  | server => exact inv_server s log hi
  | expire i =>
    simp only [step]
    cases hc : s.clients[i]? with
    | none => exact hi
    | some c =>
      simp only [logAfter]
      apply inv_shrink s log hi i c _ hc
      · intro x hx
        exfalso
        unfold reserved at hx
        simp only at hx
        split at hx <;> omega
      · exact hi.limits i c hc
  | client i =>
    simp only [step]
    cases hc : s.clients[i]? with
    | none => exact hi
    | some c =>
      simp only []
      have hlim := hi.limits i c hc
      by_cases hfast : c.count + 1 < c.limit
      · simp only [hfast, ↓reduceIte]
        by_cases hm : c.limit = tsInitialBatch
        · rw [if_pos hm]
          simp only [logAfter]
          rw [F.inc, addMs_one]
          apply inv_fast s log hi i c _ _ hc
          · unfold reserved; rw [if_pos hm]; dsimp only; omega
          · intro y hy
            obtain ⟨y1, y2⟩ := y
            unfold reserved at hy ⊢
            simp only [hm, ↓reduceIte] at hy ⊢
            unfold slt; simp only; omega
          · exact hlim
        · rw [if_neg hm]
          simp only [logAfter]
          have hmod : (c.count + 1) % 256 = c.count + 1 := Nat.mod_eq_of_lt (by omega)
          rw [hmod]
          apply inv_fast s log hi i c _ _ hc
          · unfold reserved; rw [if_neg hm]; dsimp only; omega
          · intro y hy
            obtain ⟨y1, y2⟩ := y
            unfold reserved at hy ⊢
            simp only [hm, ↓reduceIte] at hy ⊢
            unfold slt; simp only; omega
          · exact hlim
      · simp only [hfast, ↓reduceIte, logAfter]
        exact inv_refill s log hi i c hc

theorem run_inv (ops : List Op) : ∀ (s : State) (log), TsInv s log → TsInv (run s log ops).1 (run s log ops).2 := by
  induction ops with
  | nil => intro s log hi; exact hi
  | cons op ops ih =>
    intro s log hi
    have := inv_step s log hi op
    simp only [run]
    cases hst : step s op with
    | mk s' o =>
      rw [hst] at this
      cases o with
      | none => exact ih s' log this
      | some e => exact ih s' (e :: log) this

end Gsu.Ts
