/-
Lemmas for C35 about the record-rule machine `Gsu.Model.RecRules`.
-/
import Gsu.Model.RecRules
namespace Gsu.RecRules

/-- `r'` is `r` after some invalidations: `new` lists the fields that were marked invalid, in the
order they were marked; each was appended to the observer queue at that moment; nothing else
changed -/
def Invalidated (r r' : Rec) (new : List Field) : Prop :=
  r'.queue = r.queue ++ new ∧ r'.invalid = new.reverse ++ r.invalid ∧
  r'.vals = r.vals ∧ r'.deps = r.deps ∧ r'.log = r.log ∧ r'.obs = r.obs

theorem Invalidated.refl (r : Rec) : Invalidated r r [] := by simp [Invalidated]

theorem Invalidated.trans {a b c : Rec} {n1 n2 : List Field}
    (h1 : Invalidated a b n1) (h2 : Invalidated b c n2) : Invalidated a c (n1 ++ n2) := by
  obtain ⟨q1, i1, v1, d1, l1, o1⟩ := h1
  obtain ⟨q2, i2, v2, d2, l2, o2⟩ := h2
  refine ⟨?_, ?_, v2.trans v1, d2.trans d1, l2.trans l1, o2.trans o1⟩
  · rw [q2, q1, List.append_assoc]
  · rw [i2, i1, List.reverse_append, List.append_assoc]

theorem foldl_invalidated (f : Rec → Field → Rec)
    (hf : ∀ r d, ∃ new, Invalidated r (f r d) new ∧ (r.invalid.Nodup → (f r d).invalid.Nodup))
    (ds : List Field) (r : Rec) :
    ∃ new, Invalidated r (ds.foldl f r) new ∧ (r.invalid.Nodup → (ds.foldl f r).invalid.Nodup) := by
  induction ds generalizing r with
  | nil => exact ⟨[], Invalidated.refl r, id⟩
  | cons d ds ih =>
    obtain ⟨n1, h1, k1⟩ := hf r d
    obtain ⟨n2, h2, k2⟩ := ih (f r d)
    exact ⟨n1 ++ n2, h1.trans h2, fun h => k2 (k1 h)⟩

/-- `invalidate`: marks a set of fields, each exactly once (the invalid set stays duplicate free),
and enqueues exactly the newly marked fields for the observers -/
theorem invalidateN_spec (n : Nat) (r : Rec) (key : Field) :
    ∃ new, Invalidated r (invalidateN n r key) new ∧
      (r.invalid.Nodup → (invalidateN n r key).invalid.Nodup) := by
  induction n generalizing r key with
  | zero => exact ⟨[], Invalidated.refl r, id⟩
  | succ n ih =>
    simp only [invalidateN]
    split
    · exact ⟨[], Invalidated.refl r, id⟩
    · rename_i hk
      let r1 : Rec := { r with queue := r.queue ++ [key], invalid := key :: r.invalid }
      have h1 : Invalidated r r1 [key] := by simp [Invalidated, r1]
      obtain ⟨n2, h2, k2⟩ := foldl_invalidated (fun acc d => invalidateN n acc d)
        (fun r d => ih r d) (depsOf r1 key) r1
      refine ⟨[key] ++ n2, h1.trans h2, ?_⟩
      intro hnd
      apply k2
      simp only [r1, List.nodup_cons]
      exact ⟨hk, hnd⟩

theorem invalidateDependents_spec (n : Nat) (r : Rec) (key : Field) :
    ∃ new, Invalidated r (invalidateDependents n r key) new ∧
      (r.invalid.Nodup → (invalidateDependents n r key).invalid.Nodup) :=
  foldl_invalidated (fun acc d => invalidateN n acc d) (fun r d => invalidateN_spec n r d) _ r

/-- newly marked fields are distinct and were not invalid before -/
theorem Invalidated.fresh {r r' : Rec} {new : List Field} (h : Invalidated r r' new)
    (hn : r'.invalid.Nodup) : new.Nodup ∧ ∀ f ∈ new, f ∉ r.invalid := by
  rw [h.2.1, List.nodup_append] at hn
  refine ⟨by simpa [List.Nodup, List.pairwise_reverse, ne_comm] using hn.1, ?_⟩
  intro f hf hin
  exact hn.2.2 f (List.mem_reverse.2 hf) f hin rfl

/-! ### a cached, valid rule value is returned as is -/

theorem getN_cached (n : Nat) (rules : Rules) (r : Rec) (k : Field) (v : Val)
    (hv : lk r.vals k = some v) (hi : k ∉ r.invalid) :
    getN (n + 1) rules [] r k = (r, some v) := by
  simp [getN, hv, hi]

/-- an absent or invalid rule field is recomputed by its rule on access, cached, and marked valid -/
theorem getN_recompute (n : Nat) (rules : Rules) (r : Rec) (k : Field) (e : Expr)
    (hr : lk rules k = some ⟨none, e⟩) (hi : lk r.vals k = none ∨ k ∈ r.invalid) :
    let x := evalE (fun r f => let y := getN n rules [k] r f; (y.1, y.2.getD none)) e
      { r with invalid := r.invalid.erase k }
    getN (n + 1) rules [] r k = ({ x.1 with vals := setv x.1.vals k x.2 }, some x.2) := by
  have hc : ((lk r.vals k).isNone || decide (k ∈ r.invalid)) = true := by
    rcases hi with h | h
    · simp [h]
    · simp [h]
  simp only [getN, hc, if_true, hr]
  simp

theorem lk_setv {α} (m : List (Field × α)) (k k' : Field) (v : α) :
    lk (setv m k v) k' = if k' = k then some v else lk m k' := by
  simp only [setv, lk]
  by_cases h : k = k'
  · simp [h]
  · have h' : ¬ k' = k := fun e => h e.symm
    simp only [h, if_false, h']
    induction m with
    | nil => simp [lk]
    | cons p r ih =>
      obtain ⟨a, x⟩ := p
      by_cases ha : a = k
      · subst ha; simpa [List.filter, lk, h] using ih
      · simp only [List.filter, ne_eq, ha, not_false_eq_true, decide_true, lk]
        split
        · rfl
        · exact ih

end Gsu.RecRules
