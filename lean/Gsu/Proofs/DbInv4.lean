/-
M-DB global invariant, part 4: the table invariant under the steps that are not a commit —
create table, MergeUpdate, PersistUpdate, the final UpdateState of an index build — and the
stability of a pending merge / persist result under commits. Core only.
-/
import Gsu.Proofs.DbInv3
namespace Gsu.Db

/-! ## create -/

theorem tblinv_newInfo (n : Nat) (hn : 1 ≤ n) : TblInv (newInfo n) := by
  refine ⟨?_, ?_, by simp [DeltasOK, newInfo, sumN, sumS], by simp [newInfo], ?_, PW.nil _,
    fun i _ => PW.nil _, by simp [newInfo], by simp [newInfo]⟩
  · intro i ov hi k
    have : ov = overlayForN FMap.empty 1 := by
      simp only [newInfo, List.getElem?_replicate] at hi
      split at hi
      · exact (Option.some.inj hi).symm
      · cases hi
    subst this
    rw [sem_overlayForN]
    simp [FMap.get_empty, newInfo, keymap]
  · intro ov hov
    have : ov = overlayForN FMap.empty 1 := List.eq_of_mem_replicate (by simpa [newInfo] using hov)
    subst this
    simp [overlayForN, newInfo]
  · intro e
    have : (newInfo n).idx.length = 0 := by rw [e]; rfl
    simp [newInfo] at this
    omega

/-! ## merge -/

theorem layers_ge_of_deltas {ti : Info} (h : LayersOK ti) (n : Nat) (hn : n ≤ ti.deltas.length) :
    ∀ ov ∈ ti.idx, n ≤ ov.layers.length := by
  intro ov hov; rw [h ov hov]; exact hn

theorem applyMerge_idx_length (ti : Info) (n : Nat) :
    (ti.applyMerge n (ti.mergeCompute n)).idx.length = ti.idx.length := by
  simp [Info.applyMerge, Info.mergeCompute]

theorem tblinv_applyMerge {ti : Info} (h : TblInv ti) (n : Nat) (hn : n + 1 ≤ ti.deltas.length) :
    TblInv (ti.applyMerge n (ti.mergeCompute n)) := by
  have hlen := applyMerge_idx_length ti n
  refine ⟨iagree_applyMerge ti ti n (Extends.refl ti) (layers_ge_of_deltas h.layers _ hn) h.agree,
    layersOK_applyMerge ti n _ hn h.layers, deltasOK_applyMerge ti n _ h.deltas,
    by simp [Info.applyMerge], ?_, h.offs, ?_, ?_, h.cnt⟩
  · intro e
    rw [e] at hlen
    exact h.ine (List.length_eq_zero_iff.mp hlen.symm)
  · intro i hi; exact h.keys i (hlen ▸ hi)
  · intro r hr; rw [hlen]; exact h.shape r hr

/-- a commit does not change what a pending merge computed -/
theorem lay_mergeCompute (d : TDif) (ti : Info) (n : Nat) (hm : d.muts.length = ti.idx.length)
    (hn : ∀ ov ∈ ti.idx, n + 1 ≤ ov.layers.length) :
    (lay d ti).mergeCompute n = ti.mergeCompute n := by
  apply List.ext_getElem?
  intro i
  simp only [Info.mergeCompute, List.getElem?_map, lay_idx]
  cases hi : ti.idx[i]? with
  | none => simp
  | some ov =>
    have hlt : i < d.muts.length := hm ▸ (List.getElem?_eq_some_iff.mp hi).1
    have hov : n + 1 ≤ ov.layers.length := hn ov (List.mem_of_getElem? hi)
    simp only [List.getElem?_eq_getElem hlt, Option.map_some, Option.some.injEq]
    simp only [Overlay.merge, Overlay.withMut]
    rw [List.take_append_of_le_length hov]

/-! ## persist -/

theorem applyPersist_idx_length (ti : Info) :
    (ti.applyPersist ti.persistCompute).idx.length = ti.idx.length := by
  simp [Info.applyPersist, Info.persistCompute]

theorem layers_ne_nil {ti : Info} (h : TblInv ti) : ∀ ov ∈ ti.idx, ov.layers ≠ [] := by
  intro ov hov e
  have := h.layers ov hov
  rw [e] at this
  exact h.dne (List.length_eq_zero_iff.mp this.symm)

theorem tblinv_applyPersist {ti : Info} (h : TblInv ti) : TblInv (ti.applyPersist ti.persistCompute) := by
  have hlen := applyPersist_idx_length ti
  refine ⟨iagree_applyPersist ti ti (Extends.refl ti) (layers_ne_nil h) h.agree,
    layersOK_applyPersist ti _ h.dne h.layers, deltasOK_applyPersist ti _ h.deltas,
    by simp [Info.applyPersist], ?_, h.offs, ?_, ?_, h.cnt⟩
  · intro e
    rw [e] at hlen
    exact h.ine (List.length_eq_zero_iff.mp hlen.symm)
  · intro i hi; exact h.keys i (hlen ▸ hi)
  · intro r hr; rw [hlen]; exact h.shape r hr

/-- a commit does not change what a pending persist computed -/
theorem lay_persistCompute (d : TDif) (ti : Info) (hm : d.muts.length = ti.idx.length)
    (hn : ∀ ov ∈ ti.idx, ov.layers ≠ []) :
    (lay d ti).persistCompute = ti.persistCompute := by
  apply List.ext_getElem?
  intro i
  simp only [Info.persistCompute, List.getElem?_map, lay_idx]
  cases hi : ti.idx[i]? with
  | none => simp
  | some ov =>
    have hlt : i < d.muts.length := hm ▸ (List.getElem?_eq_some_iff.mp hi).1
    have hov := hn ov (List.mem_of_getElem? hi)
    simp only [List.getElem?_eq_getElem hlt, Option.map_some, Option.some.injEq]
    simp only [Overlay.save, Overlay.withMut]
    cases hl : ov.layers with
    | nil => exact absurd hl hov
    | cons l ls => rfl

/-! ## index build -/

/-- the btree buildIndexes builds from the snapshot's rows -/
def mkBt (rows : List Row) (nk : List (Off × Key)) : Bt :=
  ⟨rows.map (fun r => nkLookup nk r.off),
   fun k => (rows.find? (fun r => nkLookup nk r.off == k)).map (·.off)⟩

theorem mkBt_get (rows : List Row) (nk : List (Off × Key)) (k : Key) :
    (mkBt rows nk).get k = (rows.find? (fun r => nkLookup nk r.off == k)).map (·.off) := by
  unfold mkBt FMap.get
  simp only
  split
  · rfl
  · next hc =>
    have : rows.find? (fun r => nkLookup nk r.off == k) = none := by
      rw [List.find?_eq_none]
      intro r hr e
      apply hc
      simp only [List.contains_eq_mem, List.mem_map, decide_eq_true_eq]
      exact ⟨r, hr, by simpa using e⟩
    rw [this]; rfl

/-- a row with the key on the new index appended -/
def extRow (nk : List (Off × Key)) (r : Row) : Row := { r with keys := r.keys ++ [nkLookup nk r.off] }

theorem extRow_key_old (nk : List (Off × Key)) (r : Row) (i : Nat) (hi : i < r.keys.length) :
    (extRow nk r).key i = r.key i := by
  simp [extRow, Row.key, List.getD_eq_getElem?_getD, List.getElem?_append_left hi]

theorem extRow_key_new (nk : List (Off × Key)) (r : Row) :
    (extRow nk r).key r.keys.length = nkLookup nk r.off := by
  simp [extRow, Row.key, List.getD_eq_getElem?_getD]

theorem applyBuild_rows (ti : Info) (b : Build) (nl : Nat) :
    (ti.applyBuild b nl).rows = ti.rows.map (extRow b.nk) := rfl

theorem keymap_ext_old (nk : List (Off × Key)) (rows : List Row) (i : Nat) (k : Key)
    (hs : ∀ r ∈ rows, i < r.keys.length) :
    keymap i (rows.map (extRow nk)) k = keymap i rows k := by
  simp only [keymap, List.find?_map, Option.map_map]
  rw [find_congr rows _ (fun r => r.key i == k) (fun r hr => by
    simp only [Function.comp, extRow_key_old nk r i (hs r hr)])]
  rfl

theorem keymap_ext_new (nk : List (Off × Key)) (rows : List Row) (n : Nat) (k : Key)
    (hs : ∀ r ∈ rows, r.keys.length = n) :
    keymap n (rows.map (extRow nk)) k = (mkBt rows nk).get k := by
  rw [mkBt_get]
  simp only [keymap, List.find?_map, Option.map_map]
  rw [find_congr rows _ (fun r => nkLookup nk r.off == k) (fun r hr => by
    simp only [Function.comp, ← hs r hr, extRow_key_new])]
  rfl

theorem tblinv_applyBuild {ti : Info} (h : TblInv ti) (b : Build) (hbt : b.bt = mkBt ti.rows b.nk)
    (hnk : PW (fun r => nkLookup b.nk r.off) ti.rows) :
    TblInv (ti.applyBuild b (buildLayers b ti)) := by
  have hlen : (ti.applyBuild b (buildLayers b ti)).idx.length = ti.idx.length + 1 := by
    simp [Info.applyBuild]
  refine ⟨?_, layersOK_applyBuild ti b h.layers h.ine, h.deltas, h.dne, by simp [Info.applyBuild],
    ?_, ?_, ?_, ?_⟩
  · intro i ov hi k
    rw [applyBuild_rows]
    by_cases hlt : i < ti.idx.length
    · have hi' : ti.idx[i]? = some ov := by
        simpa [Info.applyBuild, List.getElem?_append_left hlt] using hi
      rw [keymap_ext_old b.nk ti.rows i k (fun r hr => by rw [h.shape r hr]; exact hlt)]
      exact h.agree i ov hi' k
    · have hge : ti.idx.length ≤ i := Nat.le_of_not_lt hlt
      have hi' : i = ti.idx.length ∧ ov = overlayForN b.bt (buildLayers b ti) := by
        simp only [Info.applyBuild, List.getElem?_append_right hge] at hi
        cases hd : i - ti.idx.length with
        | zero =>
          simp only [hd, List.getElem?_cons_zero, Option.some.injEq] at hi
          exact ⟨by omega, hi.symm⟩
        | succ x => simp [hd] at hi
      obtain ⟨rfl, rfl⟩ := hi'
      rw [sem_overlayForN, keymap_ext_new b.nk ti.rows _ k h.shape, hbt]
  · rw [applyBuild_rows]
    unfold OffsUniq PW
    rw [List.pairwise_map]
    exact h.offs
  · intro i hi
    rw [hlen] at hi
    rw [applyBuild_rows]
    unfold PW
    rw [List.pairwise_map]
    by_cases hlt : i < ti.idx.length
    · refine List.Pairwise.imp_of_mem ?_ (h.keys i hlt)
      intro a c ha hc hne
      simp only at hne ⊢
      rw [extRow_key_old _ _ _ (by rw [h.shape a ha]; exact hlt),
        extRow_key_old _ _ _ (by rw [h.shape c hc]; exact hlt)]
      exact hne
    · have hi' : i = ti.idx.length := by omega
      subst hi'
      refine List.Pairwise.imp_of_mem ?_ hnk
      intro a c ha hc hne
      have e1 := extRow_key_new b.nk a
      have e2 := extRow_key_new b.nk c
      rw [h.shape a ha] at e1
      rw [h.shape c hc] at e2
      simp only at hne ⊢
      rw [e1, e2]
      exact hne
  · intro r hr
    rw [applyBuild_rows] at hr
    obtain ⟨r0, hr0, rfl⟩ := List.mem_map.mp hr
    rw [hlen]
    simp [extRow, h.shape r0 hr0]
  · rw [applyBuild_rows, List.length_map]
    exact h.cnt

end Gsu.Db
