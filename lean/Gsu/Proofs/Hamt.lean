/-
The trie of `Gsu.Model.Hamt` is a lawful map for every hash function (C15 `hamt_map`). Core only.
-/
import Gsu.Model.Hamt
namespace Gsu.Hamt

/-! ### slots -/

@[simp] theorem slotGet_nil (i : Nat) : slotGet .nil i = (none, .nil) := by
  cases i <;> rfl

@[simp] theorem slotGet_ovf (l : List Item) (i : Nat) : slotGet (.ovf l) i = (none, .nil) := by
  cases i <;> rfl

theorem slotGet_slotSet (t : T) (i : Nat) (v : Option Item) (c : T) (j : Nat) :
    slotGet (slotSet t i v c) j = if j = i then (v, c) else slotGet t j := by
  induction i generalizing t j with
  | zero =>
    cases t <;> cases j <;> simp [slotSet, slotGet]
  | succ i ih =>
    cases t with
    | nil =>
      cases j with
      | zero => simp [slotSet, slotGet]
      | succ j => simp only [slotSet, slotGet, ih, slotGet_nil]; simp
    | ovf l =>
      cases j with
      | zero => simp [slotSet, slotGet]
      | succ j => simp only [slotSet, slotGet, ih, slotGet_nil]; simp
    | cons v' c' r =>
      cases j with
      | zero => simp [slotSet, slotGet]
      | succ j => simp only [slotSet, slotGet, ih]; simp

/-! ### overflow lists -/

theorem find_ovfPut (l : List Item) (x : Item) (k : Nat) :
    (ovfPut l x).find? (·.key == k) = if k = x.key then some x else l.find? (·.key == k) := by
  induction l with
  | nil =>
    by_cases hk : k = x.key
    · simp [ovfPut, hk]
    · have : ¬ x.key = k := fun e => hk e.symm
      simp [ovfPut, hk, this]
  | cons y r ih =>
    simp only [ovfPut]
    by_cases hy : y.key = x.key
    · simp only [hy, beq_self_eq_true, if_true]
      by_cases hk : k = x.key
      · simp [hk]
      · have : ¬ x.key = k := fun e => hk e.symm
        simp [List.find?_cons, hk, this, hy]
    · have hy' : (y.key == x.key) = false := by simpa using hy
      simp only [hy', Bool.false_eq_true, if_false, List.find?_cons]
      by_cases hyk : y.key = k
      · have : ¬ k = x.key := fun e => hy (hyk.trans e)
        simp [hyk, this]
      · have hyk' : (y.key == k) = false := by simpa using hyk
        simp only [hyk', ih]

/-! ### get / put: no invariant needed -/

theorem get_nil (k : Nat) (ds : List Nat) : get k ds .nil = none := by
  induction ds with
  | nil => rfl
  | cons d ds ih => simp only [get, slotGet_nil]; exact ih

/-- `dg` gives the remaining digits of every key at this depth; all have the same length -/
theorem get_put (dg : Nat → List Nat) (n : Nat) (hlen : ∀ k, (dg k).length = n)
    (x : Item) (k : Nat) (t : T) :
    get k (dg k) (put x (dg x.key) t) = if k = x.key then some x else get k (dg k) t := by
  induction n generalizing dg t with
  | zero =>
    have hk : dg k = [] := List.length_eq_zero_iff.mp (hlen k)
    have hx : dg x.key = [] := List.length_eq_zero_iff.mp (hlen x.key)
    rw [hk, hx]
    simp only [put, get, ovfItems]
    exact find_ovfPut _ x k
  | succ n ih =>
    obtain ⟨dk, tk, hk⟩ : ∃ d ds, dg k = d :: ds := by
      cases h : dg k with
      | nil => have := hlen k; rw [h] at this; cases this
      | cons d ds => exact ⟨d, ds, rfl⟩
    obtain ⟨dx, tx, hx⟩ : ∃ d ds, dg x.key = d :: ds := by
      cases h : dg x.key with
      | nil => have := hlen x.key; rw [h] at this; cases this
      | cons d ds => exact ⟨d, ds, rfl⟩
    have hlen' : ∀ j, ((fun j => (dg j).tail) j).length = n := by
      intro j; simp only [List.length_tail, hlen j]; rfl
    have ihk := ih (fun j => (dg j).tail) hlen'
    simp only [hk, hx, List.tail_cons] at ihk
    rw [hk, hx]
    by_cases hkx : k = x.key
    · -- same key, same digits
      have hd : dk = dx ∧ tk = tx := by
        have : dg k = dg x.key := by rw [hkx]
        rw [hk, hx] at this
        exact ⟨(List.cons.inj this).1, (List.cons.inj this).2⟩
      obtain ⟨rfl, rfl⟩ := hd
      rw [if_pos hkx]
      simp only [put]
      cases hs : slotGet t dk with
      | mk v c =>
        cases v with
        | none => simp only [get, slotGet_slotSet, if_true]; simp [hkx]
        | some it =>
          simp only
          by_cases hit : it.key = x.key
          · simp only [hit, beq_self_eq_true, if_true, get, slotGet_slotSet]; simp [hkx]
          · have hit' : (it.key == x.key) = false := by simpa using hit
            simp only [hit', Bool.false_eq_true, if_false, get, slotGet_slotSet, if_true]
            have hik : (it.key == k) = false := by rw [hkx]; exact hit'
            simp only [hik, Bool.false_eq_true, if_false]
            have := ihk c
            rw [if_pos hkx] at this
            exact this
    · rw [if_neg hkx]
      simp only [put]
      cases hs : slotGet t dx with
      | mk v c =>
        by_cases hd : dk = dx
        · subst hd
          cases v with
          | none =>
            simp only [get, slotGet_slotSet, if_true, hs]
            have : (x.key == k) = false := by simpa using fun e : x.key = k => hkx e.symm
            simp [this]
          | some it =>
            simp only
            by_cases hit : it.key = x.key
            · simp only [hit, beq_self_eq_true, if_true, get, slotGet_slotSet, hs]
              have h1 : (x.key == k) = false := by simpa using fun e : x.key = k => hkx e.symm
              simp [h1]
            · have hit' : (it.key == x.key) = false := by simpa using hit
              simp only [hit', Bool.false_eq_true, if_false, get, slotGet_slotSet, if_true, hs]
              by_cases hik : it.key = k
              · simp [hik]
              · have hik' : (it.key == k) = false := by simpa using hik
                simp only [hik', Bool.false_eq_true, if_false]
                have := ihk c
                rw [if_neg hkx] at this
                exact this
        · -- a different slot is untouched
          cases v with
          | none => simp only [get, slotGet_slotSet, if_neg hd]
          | some it =>
            simp only
            by_cases hit : it.key = x.key
            · simp only [hit, beq_self_eq_true, if_true, get, slotGet_slotSet, if_neg hd]
            · have hit' : (it.key == x.key) = false := by simpa using hit
              simp only [hit', Bool.false_eq_true, if_false, get, slotGet_slotSet, if_neg hd]

/-! ### membership in `all` through slots -/

theorem isNil_iff (c : T) : c.isNil = true ↔ c = .nil := by
  cases c <;> simp [T.isNil]

@[simp] theorem all_nil (n : Nat) : all n .nil = [] := by
  cases n <;> simp [all, ovfItems, slotVals, slotChildren]

theorem all_succ_ovf (n : Nat) (l : List Item) : all (n+1) (.ovf l) = [] := by
  simp [all, slotVals, slotChildren]

theorem mem_all_cons (n : Nat) (v : Option Item) (c r : T) (y : Item) :
    y ∈ all (n+1) (.cons v c r) ↔ v = some y ∨ y ∈ all n c ∨ y ∈ all (n+1) r := by
  simp only [all, List.mem_append, List.mem_flatMap]
  cases v with
  | none =>
    simp only [slotVals, slotChildren]
    by_cases hc : c.isNil = true
    · have := (isNil_iff c).mp hc
      subst this
      simp [T.isNil]
    · simp only [hc, Bool.false_eq_true, if_false, List.mem_cons]
      constructor
      · rintro (h | ⟨a, rfl | ha, hy⟩)
        · exact Or.inr (Or.inr (Or.inl h))
        · exact Or.inr (Or.inl hy)
        · exact Or.inr (Or.inr (Or.inr ⟨a, ha, hy⟩))
      · rintro (h | h | h | ⟨a, ha, hy⟩)
        · cases h
        · exact Or.inr ⟨c, Or.inl rfl, h⟩
        · exact Or.inl h
        · exact Or.inr ⟨a, Or.inr ha, hy⟩
  | some x =>
    simp only [slotVals, slotChildren, List.mem_cons, Option.some.injEq]
    by_cases hc : c.isNil = true
    · have := (isNil_iff c).mp hc
      subst this
      simp only [T.isNil, if_true, all_nil, List.not_mem_nil, false_or]
      constructor
      · rintro ((h | h) | h)
        · exact Or.inl h.symm
        · exact Or.inr (Or.inl h)
        · exact Or.inr (Or.inr h)
      · rintro (h | h | h)
        · exact Or.inl (Or.inl h.symm)
        · exact Or.inl (Or.inr h)
        · exact Or.inr h
    · simp only [hc, Bool.false_eq_true, if_false, List.mem_cons]
      constructor
      · rintro ((h | h) | ⟨a, rfl | ha, hy⟩)
        · exact Or.inl h.symm
        · exact Or.inr (Or.inr (Or.inl h))
        · exact Or.inr (Or.inl hy)
        · exact Or.inr (Or.inr (Or.inr ⟨a, ha, hy⟩))
      · rintro (h | h | h | ⟨a, ha, hy⟩)
        · exact Or.inl (Or.inl h.symm)
        · exact Or.inr ⟨c, Or.inl rfl, h⟩
        · exact Or.inl (Or.inr h)
        · exact Or.inr ⟨a, Or.inr ha, hy⟩

/-- an item is in a node iff it is the val of some slot or in the child of some slot -/
theorem mem_all_iff (n : Nat) (t : T) (y : Item) :
    y ∈ all (n+1) t ↔ ∃ d, (slotGet t d).1 = some y ∨ y ∈ all n (slotGet t d).2 := by
  induction t with
  | nil => simp
  | ovf l => simp [all_succ_ovf]
  | cons v c r _ ihr =>
    rw [mem_all_cons, ihr]
    constructor
    · rintro (h | h | ⟨d, h⟩)
      · exact ⟨0, Or.inl h⟩
      · exact ⟨0, Or.inr h⟩
      · exact ⟨d+1, h⟩
    · rintro ⟨d, h⟩
      cases d with
      | zero =>
        rcases h with h | h
        · exact Or.inl h
        · exact Or.inr (Or.inl h)
      | succ d => exact Or.inr (Or.inr ⟨d, h⟩)

/-- what `get` returns is stored in the trie under that key -/
theorem get_mem (k : Nat) (ds : List Nat) (t : T) (x : Item) (h : get k ds t = some x) :
    x ∈ all ds.length t ∧ x.key = k := by
  induction ds generalizing t with
  | nil =>
    simp only [get] at h
    have h1 := List.mem_of_find?_eq_some h
    have h2 := List.find?_some h
    exact ⟨by simpa [all] using h1, by simpa using h2⟩
  | cons d ds ih =>
    simp only [get] at h
    simp only [List.length_cons]
    cases hs : slotGet t d with
    | mk v c =>
      rw [hs] at h
      cases v with
      | none =>
        simp only at h
        obtain ⟨h1, h2⟩ := ih c h
        exact ⟨(mem_all_iff _ t x).mpr ⟨d, Or.inr (by rw [hs]; exact h1)⟩, h2⟩
      | some it =>
        simp only at h
        by_cases hit : it.key = k
        · simp only [hit, beq_self_eq_true, if_true, Option.some.injEq] at h
          subst h
          exact ⟨(mem_all_iff _ t it).mpr ⟨d, Or.inl (by rw [hs])⟩, hit⟩
        · have hit' : (it.key == k) = false := by simpa using hit
          simp only [hit', Bool.false_eq_true, if_false] at h
          obtain ⟨h1, h2⟩ := ih c h
          exact ⟨(mem_all_iff _ t x).mpr ⟨d, Or.inr (by rw [hs]; exact h1)⟩, h2⟩

/-! ### the structural invariant -/

/-- conditions on one slot `(v, c)` at position `d` of a node with `n` levels below it -/
def SlotOK (twf : T → Prop) (n : Nat) (dg : Nat → List Nat) (d : Nat) (v : Option Item) (c : T) : Prop :=
  (∀ x, v = some x → (dg x.key).head? = some d) ∧
  (c ≠ .nil → v ≠ none) ∧
  (c ≠ .nil → all n c ≠ []) ∧
  twf c ∧
  (∀ y ∈ all n c, (dg y.key).head? = some d ∧ ∀ x, v = some x → y.key ≠ x.key)

/-- a node of an inner level is a list of slots ending in `nil` -/
def SlotList : T → Prop
  | .nil => True
  | .ovf _ => False
  | .cons _ _ r => SlotList r

/-- val stored in the slot of its hash digit, child only under a val, children non-empty and
well-formed for the remaining digits, keys of a child differ from the val above them; keys of an
overflow node pairwise distinct -/
def TWF : (n : Nat) → (dg : Nat → List Nat) → T → Prop
  | 0, _, t => ((ovfItems t).map (·.key)).Nodup
  | n+1, dg, t => SlotList t ∧
      ∀ d, SlotOK (TWF n (fun k => (dg k).tail)) n dg d (slotGet t d).1 (slotGet t d).2

theorem slotList_slotSet (t : T) (i : Nat) (v : Option Item) (c : T) (h : SlotList t) :
    SlotList (slotSet t i v c) := by
  induction i generalizing t with
  | zero => cases t <;> simp_all [slotSet, SlotList]
  | succ i ih =>
    cases t with
    | nil => simp only [slotSet, SlotList]; exact ih .nil trivial
    | ovf l => simp [SlotList] at h
    | cons v' c' r => simp only [slotSet, SlotList]; exact ih r h

theorem TWF_nil (n : Nat) (dg : Nat → List Nat) : TWF n dg .nil := by
  induction n generalizing dg with
  | zero => simp [TWF, ovfItems]
  | succ n ih =>
    refine ⟨trivial, fun d => ?_⟩
    simp only [slotGet_nil]
    refine ⟨fun x h => ?_, fun h => absurd rfl h, fun h => absurd rfl h, ih _, fun y h => ?_⟩
    · cases h
    · rw [all_nil] at h; cases h

theorem TWF_slotSet {n : Nat} {dg : Nat → List Nat} {t : T} (h : TWF (n+1) dg t) (i : Nat)
    (v : Option Item) (c : T)
    (hnew : SlotOK (TWF n (fun k => (dg k).tail)) n dg i v c) : TWF (n+1) dg (slotSet t i v c) := by
  refine ⟨slotList_slotSet t i v c h.1, fun d => ?_⟩
  rw [slotGet_slotSet]
  by_cases hd : d = i
  · rw [if_pos hd, hd]; exact hnew
  · rw [if_neg hd]; exact h.2 d

theorem find_of_nodup (l : List Item) (x : Item) (hn : (l.map (·.key)).Nodup) (hx : x ∈ l) :
    l.find? (·.key == x.key) = some x := by
  induction l with
  | nil => cases hx
  | cons y r ih =>
    simp only [List.map_cons, List.nodup_cons] at hn
    simp only [List.mem_cons] at hx
    rcases hx with rfl | hx
    · simp
    · have hne : y.key ≠ x.key := by
        intro e
        exact hn.1 (by rw [e]; exact List.mem_map.mpr ⟨x, hx, rfl⟩)
      have : (y.key == x.key) = false := by simpa using hne
      simp only [List.find?_cons, this]
      exact ih hn.2 hx

theorem head_tail {l : List Nat} {d : Nat} (h : l.head? = some d) : l = d :: l.tail := by
  cases l with
  | nil => cases h
  | cons a r => simp only [List.head?_cons, Option.some.injEq] at h; subst h; rfl

/-- every stored item is found by `get` under its own key -/
theorem mem_get (n : Nat) (dg : Nat → List Nat) (hlen : ∀ k, (dg k).length = n) (t : T)
    (h : TWF n dg t) (x : Item) (hx : x ∈ all n t) : get x.key (dg x.key) t = some x := by
  induction n generalizing dg t with
  | zero =>
    have hk : dg x.key = [] := List.length_eq_zero_iff.mp (hlen x.key)
    rw [hk]
    simp only [get]
    exact find_of_nodup _ x h (by simpa [all] using hx)
  | succ n ih =>
    have hlen' : ∀ j, ((fun j => (dg j).tail) j).length = n := by
      intro j; simp only [List.length_tail, hlen j]; rfl
    obtain ⟨d, hd⟩ := (mem_all_iff n t x).mp hx
    obtain ⟨hA, hB, _, hD, hE⟩ := h.2 d
    rcases hd with hv | hc
    · have := head_tail (hA x hv)
      rw [this]
      simp only [get]
      cases hs : slotGet t d with
      | mk v c =>
        rw [hs] at hv
        simp only at hv
        subst hv
        simp
    · obtain ⟨hhead, hne⟩ := hE x hc
      have := head_tail hhead
      rw [this]
      simp only [get]
      have hcn : (slotGet t d).2 ≠ .nil := by
        intro e; rw [e] at hc; simp at hc
      have hvn := hB hcn
      cases hs : slotGet t d with
      | mk v c =>
        rw [hs] at hvn hne hc hD
        simp only at hvn hne hc hD
        cases v with
        | none => exact absurd rfl hvn
        | some it =>
          have hk : (it.key == x.key) = false := by
            simpa using fun e : it.key = x.key => hne it rfl e.symm
          simp only [hk, Bool.false_eq_true, if_false]
          exact ih (fun j => (dg j).tail) hlen' c hD hc

/-! ### put preserves the invariant -/

theorem mem_ovfPut (l : List Item) (x y : Item) (h : y ∈ ovfPut l x) : y = x ∨ y ∈ l := by
  induction l with
  | nil => simp [ovfPut] at h; exact Or.inl h
  | cons z r ih =>
    simp only [ovfPut] at h
    split at h
    · simp only [List.mem_cons] at h
      rcases h with h | h
      · exact Or.inl h
      · exact Or.inr (by simp [h])
    · simp only [List.mem_cons] at h
      rcases h with h | h
      · exact Or.inr (by simp [h])
      · rcases ih h with h | h
        · exact Or.inl h
        · exact Or.inr (by simp [h])

theorem self_mem_ovfPut (l : List Item) (x : Item) : x ∈ ovfPut l x := by
  induction l with
  | nil => simp [ovfPut]
  | cons z r ih =>
    simp only [ovfPut]
    split
    · simp
    · simp [ih]

theorem ovfPut_keys_nodup (l : List Item) (x : Item) (h : (l.map (·.key)).Nodup) :
    ((ovfPut l x).map (·.key)).Nodup := by
  induction l with
  | nil => simp [ovfPut]
  | cons z r ih =>
    simp only [List.map_cons, List.nodup_cons] at h
    simp only [ovfPut]
    by_cases hz : z.key = x.key
    · simp only [hz, beq_self_eq_true, if_true, List.map_cons, List.nodup_cons]
      rw [← hz]; exact h
    · have hz' : (z.key == x.key) = false := by simpa using hz
      simp only [hz', Bool.false_eq_true, if_false, List.map_cons, List.nodup_cons]
      refine ⟨?_, ih h.2⟩
      intro hm
      obtain ⟨y, hy, hyk⟩ := List.mem_map.mp hm
      rcases mem_ovfPut r x y hy with rfl | hy'
      · exact hz hyk.symm
      · exact h.1 (List.mem_map.mpr ⟨y, hy', hyk⟩)

/-- items of the trie after `put`: the new item and old ones -/
theorem mem_put_sub (n : Nat) (dg : Nat → List Nat) (hlen : ∀ k, (dg k).length = n) (x : Item)
    (t : T) (y : Item) (h : y ∈ all n (put x (dg x.key) t)) : y = x ∨ y ∈ all n t := by
  induction n generalizing dg t with
  | zero =>
    have hx : dg x.key = [] := List.length_eq_zero_iff.mp (hlen x.key)
    rw [hx] at h
    simp only [put, all, ovfItems] at h
    rcases mem_ovfPut _ x y h with h | h
    · exact Or.inl h
    · exact Or.inr h
  | succ n ih =>
    have hlen' : ∀ j, ((fun j => (dg j).tail) j).length = n := by
      intro j; simp only [List.length_tail, hlen j]; rfl
    obtain ⟨dx, tx, hx⟩ : ∃ d ds, dg x.key = d :: ds := by
      cases h' : dg x.key with
      | nil => have := hlen x.key; rw [h'] at this; cases this
      | cons d ds => exact ⟨d, ds, rfl⟩
    have ihc := ih (fun j => (dg j).tail) hlen'
    simp only [hx, List.tail_cons] at ihc
    rw [hx] at h
    simp only [put] at h
    -- in every branch the result is a slotSet at dx
    have key : ∀ (v : Option Item) (c : T), y ∈ all (n+1) (slotSet t dx v c) →
        (v = some y ∨ y ∈ all n c) ∨ y ∈ all (n+1) t := by
      intro v c hy
      obtain ⟨d, hd⟩ := (mem_all_iff n _ y).mp hy
      rw [slotGet_slotSet] at hd
      by_cases hdd : d = dx
      · rw [if_pos hdd] at hd; exact Or.inl hd
      · rw [if_neg hdd] at hd; exact Or.inr ((mem_all_iff n t y).mpr ⟨d, hd⟩)
    cases hs : slotGet t dx with
    | mk v c =>
      rw [hs] at h
      cases v with
      | none =>
        simp only at h
        rcases key _ _ h with (h1 | h1) | h1
        · exact Or.inl (Option.some.inj h1).symm
        · exact Or.inr ((mem_all_iff n t y).mpr ⟨dx, Or.inr (by rw [hs]; exact h1)⟩)
        · exact Or.inr h1
      | some it =>
        simp only at h
        split at h
        · rcases key _ _ h with (h1 | h1) | h1
          · exact Or.inl (Option.some.inj h1).symm
          · exact Or.inr ((mem_all_iff n t y).mpr ⟨dx, Or.inr (by rw [hs]; exact h1)⟩)
          · exact Or.inr h1
        · rcases key _ _ h with (h1 | h1) | h1
          · exact Or.inr ((mem_all_iff n t y).mpr ⟨dx, Or.inl (by rw [hs]; exact h1)⟩)
          · rcases ihc c h1 with h2 | h2
            · exact Or.inl h2
            · exact Or.inr ((mem_all_iff n t y).mpr ⟨dx, Or.inr (by rw [hs]; exact h2)⟩)
          · exact Or.inr h1

theorem self_mem_put (n : Nat) (dg : Nat → List Nat) (hlen : ∀ k, (dg k).length = n) (x : Item)
    (t : T) : x ∈ all n (put x (dg x.key) t) := by
  have := get_put dg n hlen x x.key t
  rw [if_pos rfl] at this
  have h := (get_mem _ _ _ _ this).1
  rw [hlen] at h
  exact h

theorem TWF_put (n : Nat) (dg : Nat → List Nat) (hlen : ∀ k, (dg k).length = n) (x : Item) (t : T)
    (h : TWF n dg t) : TWF n dg (put x (dg x.key) t) := by
  induction n generalizing dg t with
  | zero =>
    have hx : dg x.key = [] := List.length_eq_zero_iff.mp (hlen x.key)
    rw [hx]
    simp only [put, TWF, ovfItems]
    exact ovfPut_keys_nodup _ x h
  | succ n ih =>
    have hlen' : ∀ j, ((fun j => (dg j).tail) j).length = n := by
      intro j; simp only [List.length_tail, hlen j]; rfl
    obtain ⟨dx, tx, hx⟩ : ∃ d ds, dg x.key = d :: ds := by
      cases h' : dg x.key with
      | nil => have := hlen x.key; rw [h'] at this; cases this
      | cons d ds => exact ⟨d, ds, rfl⟩
    have hhead : (dg x.key).head? = some dx := by rw [hx]; rfl
    have ihc := ih (fun j => (dg j).tail) hlen'
    have hself := self_mem_put n (fun j => (dg j).tail) hlen' x
    have hsub := mem_put_sub n (fun j => (dg j).tail) hlen' x
    simp only [hx, List.tail_cons] at ihc hself hsub
    obtain ⟨hA, hB, hC, hD, hE⟩ := h.2 dx
    rw [hx]
    simp only [put]
    cases hs : slotGet t dx with
    | mk v c =>
      rw [hs] at hA hB hC hD hE
      simp only at hA hB hC hD hE
      cases v with
      | none =>
        simp only
        have hc : c = .nil := Classical.byContradiction fun hne => hB hne rfl
        subst hc
        apply TWF_slotSet h
        refine ⟨fun x' hx' => ?_, fun _ => by simp, fun hne => absurd rfl hne, hD, fun y hy => ?_⟩
        · cases hx'; exact hhead
        · rw [all_nil] at hy; cases hy
      | some it =>
        simp only
        by_cases hit : it.key = x.key
        · simp only [hit, beq_self_eq_true, if_true]
          apply TWF_slotSet h
          refine ⟨fun x' hx' => ?_, fun _ => by simp, hC, hD, fun y hy => ⟨(hE y hy).1, fun x' hx' => ?_⟩⟩
          · cases hx'; exact hhead
          · cases hx'; rw [← hit]; exact (hE y hy).2 it rfl
        · have hit' : (it.key == x.key) = false := by simpa using hit
          simp only [hit', Bool.false_eq_true, if_false]
          apply TWF_slotSet h
          refine ⟨hA, fun _ => by simp, fun _ hemp => ?_, ihc c hD, fun y hy => ?_⟩
          · have := hself c; rw [hemp] at this; cases this
          · rcases hsub c y hy with rfl | hy'
            · exact ⟨hhead, fun x' hx' => by cases hx'; exact fun e => hit e.symm⟩
            · exact hE y hy'

/-! ### packaged laws that need no delete -/

theorem digits_length (h : Nat) : (digits h).length = nLevels := by
  simp [digits]

/-- the invariant at the root -/
def WF (hf : Nat → Nat) (t : T) : Prop := TWF nLevels (fun k => digits (hf k)) t

theorem wf_empty (hf : Nat → Nat) : WF hf .nil := TWF_nil _ _

theorem wf_put (hf : Nat → Nat) {t : T} (x : Item) (h : WF hf t) : WF hf ((trieOps hf).put t x) :=
  TWF_put nLevels (fun k => digits (hf k)) (fun k => digits_length _) x t h

theorem trie_get_empty (hf : Nat → Nat) (k : Nat) : (trieOps hf).get (trieOps hf).empty k = none :=
  get_nil k _

theorem trie_get_put (hf : Nat → Nat) (t : T) (x : Item) (k : Nat) :
    (trieOps hf).get ((trieOps hf).put t x) k = if k = x.key then some x else (trieOps hf).get t k :=
  get_put (fun k => digits (hf k)) nLevels (fun k => digits_length _) x k t

theorem trie_get_key (hf : Nat → Nat) (t : T) (k : Nat) (x : Item)
    (h : (trieOps hf).get t k = some x) : x.key = k :=
  (get_mem k _ t x h).2

theorem trie_mem_all (hf : Nat → Nat) {t : T} (x : Item) (h : WF hf t) :
    x ∈ (trieOps hf).all t ↔ (trieOps hf).get t x.key = some x := by
  constructor
  · intro hx
    exact mem_get nLevels (fun k => digits (hf k)) (fun k => digits_length _) t h x hx
  · intro hg
    have := (get_mem _ _ _ _ hg).1
    rw [digits_length] at this
    exact this

/-! ### delete -/

theorem lastChild_some {t : T} {i : Nat} (h : lastChild t = some i) : (slotGet t i).2 ≠ .nil := by
  induction t generalizing i with
  | nil => simp [lastChild] at h
  | ovf l => simp [lastChild] at h
  | cons v c r _ ihr =>
    simp only [lastChild] at h
    cases hr : lastChild r with
    | some j =>
      rw [hr] at h
      simp only [Option.some.injEq] at h
      subst h
      simp only [slotGet]
      exact ihr hr
    | none =>
      rw [hr] at h
      simp only at h
      by_cases hc : c.isNil = true
      · simp [hc] at h
      · simp only [hc, Bool.false_eq_true, if_false, Option.some.injEq] at h
        subst h
        simp only [slotGet]
        intro e; exact hc ((isNil_iff c).mpr e)

theorem lastChild_none {t : T} (h : lastChild t = none) : ∀ d, (slotGet t d).2 = .nil := by
  induction t with
  | nil => intro d; simp
  | ovf l => intro d; simp
  | cons v c r _ ihr =>
    simp only [lastChild] at h
    cases hr : lastChild r with
    | some j => rw [hr] at h; cases h
    | none =>
      rw [hr] at h
      simp only at h
      by_cases hc : c.isNil = true
      · intro d
        cases d with
        | zero => simp only [slotGet]; exact (isNil_iff c).mp hc
        | succ d => simp only [slotGet]; exact ihr hr d
      · simp [hc] at h

theorem lastVal_some {t : T} {i : Nat} (h : lastVal t = some i) : (slotGet t i).1 ≠ none := by
  induction t generalizing i with
  | nil => simp [lastVal] at h
  | ovf l => simp [lastVal] at h
  | cons v c r _ ihr =>
    simp only [lastVal] at h
    cases hr : lastVal r with
    | some j =>
      rw [hr] at h
      simp only [Option.some.injEq] at h
      subst h
      simp only [slotGet]
      exact ihr hr
    | none =>
      rw [hr] at h
      simp only at h
      cases v with
      | none => simp at h
      | some x =>
        simp only [Option.isSome_some, if_true, Option.some.injEq] at h
        subst h
        simp [slotGet]

theorem lastVal_none {t : T} (h : lastVal t = none) : ∀ d, (slotGet t d).1 = none := by
  induction t with
  | nil => intro d; simp
  | ovf l => intro d; simp
  | cons v c r _ ihr =>
    simp only [lastVal] at h
    cases hr : lastVal r with
    | some j => rw [hr] at h; cases h
    | none =>
      rw [hr] at h
      simp only at h
      cases v with
      | some x => simp at h
      | none =>
        intro d
        cases d with
        | zero => simp [slotGet]
        | succ d => simp only [slotGet]; exact ihr hr d

theorem isEmpty_slots {t : T} (h : isEmpty t = true) : ∀ d, slotGet t d = (none, .nil) := by
  induction t with
  | nil => intro d; simp
  | ovf l => intro d; simp
  | cons v c r _ ihr =>
    simp only [isEmpty, Bool.and_eq_true] at h
    obtain ⟨⟨hv, hc⟩, hr⟩ := h
    intro d
    cases d with
    | zero =>
      simp only [slotGet]
      have := (isNil_iff c).mp hc
      cases v with
      | none => rw [this]
      | some x => simp at hv
    | succ d => simp only [slotGet]; exact ihr hr d

theorem slots_isEmpty {t : T} (hs : SlotList t) (h : ∀ d, slotGet t d = (none, .nil)) :
    isEmpty t = true := by
  induction t with
  | nil => rfl
  | ovf l => cases hs
  | cons v c r _ ihr =>
    have h0 := h 0
    simp only [slotGet, Prod.mk.injEq] at h0
    simp only [isEmpty, h0.1, h0.2, T.isNil, Option.isNone_none, Bool.true_and]
    exact ihr hs (fun d => h (d+1))

theorem all_of_slots_empty (n : Nat) {t : T} (h : ∀ d, slotGet t d = (none, .nil)) :
    all (n+1) t = [] := by
  apply List.eq_nil_iff_forall_not_mem.mpr
  intro y hy
  obtain ⟨d, hd⟩ := (mem_all_iff n t y).mp hy
  rw [h d] at hd
  simp at hd

theorem all_normalize (n : Nat) (t : T) : all (n+1) (normalize t) = all (n+1) t := by
  unfold normalize
  split
  · rename_i h; rw [all_of_slots_empty n (isEmpty_slots h), all_nil]
  · rfl

theorem TWF_normalize {n : Nat} {dg : Nat → List Nat} {t : T} (h : TWF n dg t) :
    TWF n dg (normalize t) := by
  unfold normalize
  split
  · exact TWF_nil _ _
  · exact h

/-- a well-formed node with an occupied slot is non-empty -/
theorem nonempty_of_slot {n : Nat} {dg : Nat → List Nat} {t : T} (h : TWF (n+1) dg t) (d : Nat)
    (hd : (slotGet t d).1 ≠ none ∨ (slotGet t d).2 ≠ .nil) : all (n+1) t ≠ [] := by
  have hv : (slotGet t d).1 ≠ none := by
    rcases hd with hd | hd
    · exact hd
    · exact (h.2 d).2.1 hd
  cases hs : (slotGet t d).1 with
  | none => exact absurd hs hv
  | some x =>
    intro e
    have : x ∈ all (n+1) t := (mem_all_iff n t x).mpr ⟨d, Or.inl hs⟩
    rw [e] at this; cases this

theorem normalize_nonempty {n : Nat} {dg : Nat → List Nat} {t : T} (h : TWF (n+1) dg t)
    (hne : normalize t ≠ .nil) : all (n+1) (normalize t) ≠ [] := by
  rw [all_normalize]
  unfold normalize at hne
  by_cases he : isEmpty t = true
  · rw [if_pos he] at hne; exact absurd rfl hne
  · have : ¬ ∀ d, slotGet t d = (none, .nil) := fun hall => he (slots_isEmpty h.1 hall)
    obtain ⟨d, hd⟩ := Classical.not_forall.mp this
    apply nonempty_of_slot h d
    cases hs : slotGet t d with
    | mk v c =>
      rw [hs] at hd
      by_cases hv : v = none
      · right; simp only; intro hc; exact hd (by rw [hv, hc])
      · left; exact hv

/-- keys with different leading digits differ -/
theorem key_ne_of_head {dg : Nat → List Nat} {a b d i : Nat} (ha : (dg a).head? = some d)
    (hb : (dg b).head? = some i) (hdi : d ≠ i) : a ≠ b := by
  intro e; rw [e, hb] at ha; exact hdi (Option.some.inj ha).symm

/-- replacing slot `i` (the slot of key `k`) by a slot that lost exactly the items with key `k` -/
theorem mem_slot_replace {n : Nat} {dg : Nat → List Nat} {t : T} (h : TWF (n+1) dg t) (i k : Nat)
    (hk : (dg k).head? = some i) (v' : Option Item) (c' : T)
    (hrep : ∀ y, (v' = some y ∨ y ∈ all n c') ↔
      (((slotGet t i).1 = some y ∨ y ∈ all n (slotGet t i).2) ∧ y.key ≠ k)) (y : Item) :
    y ∈ all (n+1) (slotSet t i v' c') ↔ y ∈ all (n+1) t ∧ y.key ≠ k := by
  rw [mem_all_iff, mem_all_iff]
  constructor
  · rintro ⟨d, hd⟩
    rw [slotGet_slotSet] at hd
    by_cases hdi : d = i
    · rw [if_pos hdi] at hd
      obtain ⟨h1, h2⟩ := (hrep y).mp hd
      exact ⟨⟨i, h1⟩, h2⟩
    · rw [if_neg hdi] at hd
      refine ⟨⟨d, hd⟩, ?_⟩
      obtain ⟨hA, _, _, _, hE⟩ := h.2 d
      rcases hd with hd | hd
      · exact key_ne_of_head (hA y hd) hk hdi
      · exact key_ne_of_head (hE y hd).1 hk hdi
  · rintro ⟨⟨d, hd⟩, hne⟩
    by_cases hdi : d = i
    · subst hdi
      exact ⟨d, by rw [slotGet_slotSet, if_pos rfl]; exact (hrep y).mpr ⟨hd, hne⟩⟩
    · exact ⟨d, by rw [slotGet_slotSet, if_neg hdi]; exact hd⟩

/-- `t'` is `t` without the items of key `k` -/
structure Removed (n : Nat) (dg : Nat → List Nat) (t t' : T) (k : Nat) : Prop where
  wf : TWF n dg t'
  ne : t' ≠ .nil → all n t' ≠ []
  mem : ∀ y, y ∈ all n t' ↔ y ∈ all n t ∧ y.key ≠ k

theorem nodup_dropLast_keys (l : List Item) (x : Item) (hl : l.getLast? = some x)
    (hn : (l.map (·.key)).Nodup) :
    ((l.dropLast).map (·.key)).Nodup ∧ ∀ y, y ∈ l.dropLast ↔ y ∈ l ∧ y.key ≠ x.key := by
  obtain ⟨pre, hpre⟩ : ∃ pre, l = pre ++ [x] := List.getLast?_eq_some_iff.mp hl
  subst hpre
  simp only [List.dropLast_concat]
  simp only [List.map_append, List.map_cons, List.map_nil] at hn
  rw [List.nodup_append] at hn
  refine ⟨hn.1, fun y => ?_⟩
  simp only [List.mem_append, List.mem_singleton]
  constructor
  · intro hy
    refine ⟨Or.inl hy, fun e => ?_⟩
    exact hn.2.2 y.key (List.mem_map.mpr ⟨y, hy, rfl⟩) x.key (by simp) e
  · rintro ⟨hy | hy, hne⟩
    · exact hy
    · subst hy; exact absurd rfl hne

theorem pullUp_spec (n : Nat) (dg : Nat → List Nat) (hlen : ∀ k, (dg k).length = n) (t : T)
    (h : TWF n dg t) (hne : all n t ≠ []) :
    ∃ t' x, pullUp n t = (t', some x) ∧ x ∈ all n t ∧ Removed n dg t t' x.key := by
  induction n generalizing dg t with
  | zero =>
    simp only [all] at hne
    cases hl : (ovfItems t).getLast? with
    | none => exact absurd (List.getLast?_eq_none_iff.mp hl) hne
    | some x =>
      obtain ⟨hnd, hmem⟩ := nodup_dropLast_keys _ x hl h
      refine ⟨(if (ovfItems t).dropLast.isEmpty then T.nil else T.ovf (ovfItems t).dropLast), x,
        by simp only [pullUp, hl], by simpa [all] using List.mem_of_getLast? hl, ?_⟩
      by_cases he : (ovfItems t).dropLast.isEmpty = true
      · rw [if_pos he]
        refine ⟨TWF_nil _ _, fun h => absurd rfl h, fun y => ?_⟩
        have := hmem y
        rw [List.isEmpty_iff.mp he] at this
        simp only [all_nil, all]
        exact this
      · rw [if_neg he]
        refine ⟨by simpa [TWF, ovfItems] using hnd, fun _ => ?_, fun y => ?_⟩
        · simp only [all, ovfItems]; exact fun e => he (List.isEmpty_iff.mpr e)
        · simp only [all, ovfItems]; exact hmem y
  | succ n ih =>
    have hlen' : ∀ j, ((fun j => (dg j).tail) j).length = n := by
      intro j; simp only [List.length_tail, hlen j]; rfl
    simp only [pullUp]
    cases hlc : lastChild t with
    | some i =>
      simp only
      have hcn := lastChild_some hlc
      obtain ⟨hA, hB, hC, hD, hE⟩ := h.2 i
      obtain ⟨c', x, hpu, hxc, hrem⟩ := ih (fun j => (dg j).tail) hlen' _ hD (hC hcn)
      cases hs : slotGet t i with
      | mk v c =>
        rw [hs] at hA hB hC hD hE hpu hxc hrem hcn
        simp only at hA hB hC hD hE hpu hxc hrem hcn
        simp only [hpu]
        have hxhead := (hE x hxc).1
        refine ⟨_, x, rfl, (mem_all_iff n t x).mpr ⟨i, Or.inr (by rw [hs]; exact hxc)⟩, ?_⟩
        have hwf : TWF (n+1) dg (slotSet t i v c') := by
          apply TWF_slotSet h
          refine ⟨hA, fun _ => hB hcn, hrem.ne, hrem.wf, fun y hy => hE y ((hrem.mem y).mp hy).1⟩
        refine ⟨hwf, fun _ => ?_, ?_⟩
        · apply nonempty_of_slot hwf i
          left; rw [slotGet_slotSet, if_pos rfl]; exact hB hcn
        · apply mem_slot_replace h i x.key hxhead
          intro y
          rw [hs]
          simp only
          constructor
          · rintro (hy | hy)
            · exact ⟨Or.inl hy, fun e => (hE x hxc).2 y hy e.symm⟩
            · exact ⟨Or.inr ((hrem.mem y).mp hy).1, ((hrem.mem y).mp hy).2⟩
          · rintro ⟨hy | hy, hk⟩
            · exact Or.inl hy
            · exact Or.inr ((hrem.mem y).mpr ⟨hy, hk⟩)
    | none =>
      simp only
      have hch := lastChild_none hlc
      cases hlv : lastVal t with
      | none =>
        exfalso
        apply hne
        apply all_of_slots_empty
        intro d
        have h1 := lastVal_none hlv d
        have h2 := hch d
        cases hs : slotGet t d with
        | mk v c => rw [hs] at h1 h2; simp only at h1 h2; rw [h1, h2]
      | some i =>
        simp only
        have hvn := lastVal_some hlv
        cases hs : (slotGet t i).1 with
        | none => exact absurd hs hvn
        | some x =>
          obtain ⟨hA, _, _, _, _⟩ := h.2 i
          have hxhead := hA x hs
          have hwf : TWF (n+1) dg (slotSet t i none .nil) := by
            apply TWF_slotSet h
            refine ⟨fun _ h' => ?_, fun h' => absurd rfl h', fun h' => absurd rfl h',
              TWF_nil _ _, fun y hy => ?_⟩
            · cases h'
            · rw [all_nil] at hy; cases hy
          refine ⟨_, x, rfl, (mem_all_iff n t x).mpr ⟨i, Or.inl hs⟩,
            TWF_normalize hwf, normalize_nonempty hwf, fun y => ?_⟩
          rw [all_normalize]
          apply mem_slot_replace h i x.key hxhead
          intro y
          rw [hch i, hs]
          simp only [all_nil, List.not_mem_nil, or_false]
          constructor
          · intro hy; cases hy
          · rintro ⟨hy, hk⟩
            exact absurd (by rw [Option.some.inj hy]) hk

/-- replacing the first item with key `k` by `last` -/
theorem set_findIdx (pre : List Item) (last : Item) (k i : Nat)
    (hi : pre.findIdx? (·.key == k) = some i) (hn : (pre.map (·.key)).Nodup)
    (hl : last.key ∉ pre.map (·.key)) :
    ((pre.set i last).map (·.key)).Nodup ∧
    ∀ y, y ∈ pre.set i last ↔ (y ∈ pre ∧ y.key ≠ k) ∨ y = last := by
  induction pre generalizing i with
  | nil => simp at hi
  | cons z r ih =>
    simp only [List.map_cons, List.nodup_cons] at hn
    simp only [List.map_cons, List.mem_cons, not_or] at hl
    rw [List.findIdx?_cons] at hi
    by_cases hz : z.key = k
    · simp only [hz, beq_self_eq_true, if_true, Option.some.injEq] at hi
      subst hi
      simp only [List.set_cons_zero, List.map_cons, List.nodup_cons, List.mem_cons]
      refine ⟨⟨hl.2, hn.2⟩, fun y => ?_⟩
      constructor
      · rintro (hy | hy)
        · exact Or.inr hy
        · refine Or.inl ⟨Or.inr hy, fun e => ?_⟩
          exact hn.1 (by rw [hz, ← e]; exact List.mem_map.mpr ⟨y, hy, rfl⟩)
      · rintro (⟨hy | hy, hne⟩ | hy)
        · subst hy; exact absurd hz hne
        · exact Or.inr hy
        · exact Or.inl hy
    · have hz' : (z.key == k) = false := by simpa using hz
      simp only [hz', Bool.false_eq_true, if_false] at hi
      cases hr : r.findIdx? (·.key == k) with
      | none => rw [hr] at hi; cases hi
      | some j =>
        rw [hr] at hi
        simp only [Option.map_some, Option.some.injEq] at hi
        subst hi
        obtain ⟨ih1, ih2⟩ := ih j hr hn.2 hl.2
        simp only [List.set_cons_succ, List.map_cons, List.nodup_cons, List.mem_cons]
        refine ⟨⟨fun hm => ?_, ih1⟩, fun y => ?_⟩
        · obtain ⟨y, hy, hyk⟩ := List.mem_map.mp hm
          rcases (ih2 y).mp hy with ⟨hy', _⟩ | hy'
          · exact hn.1 (List.mem_map.mpr ⟨y, hy', hyk⟩)
          · subst hy'; exact hl.1 hyk
        · rw [ih2 y]
          constructor
          · rintro (hy | ⟨hy, hne⟩ | hy)
            · subst hy; exact Or.inl ⟨Or.inl rfl, hz⟩
            · exact Or.inl ⟨Or.inr hy, hne⟩
            · exact Or.inr hy
          · rintro (⟨hy | hy, hne⟩ | hy)
            · exact Or.inl hy
            · exact Or.inr (Or.inl ⟨hy, hne⟩)
            · exact Or.inr (Or.inr hy)

theorem findIdx_none_keys (l : List Item) (k : Nat) (h : l.findIdx? (·.key == k) = none) :
    ∀ y ∈ l, y.key ≠ k := by
  intro y hy
  have := List.findIdx?_eq_none_iff.mp h y hy
  simpa using this

/-- the overflow delete removes exactly the item with the key -/
theorem ovfDel_spec (l : List Item) (k : Nat) (hn : (l.map (·.key)).Nodup) :
    match ovfDel l k with
    | none => ∀ y ∈ l, y.key ≠ k
    | some l' => (l'.map (·.key)).Nodup ∧ ∀ y, y ∈ l' ↔ y ∈ l ∧ y.key ≠ k := by
  unfold ovfDel
  cases hlast : l.getLast? with
  | none =>
    have : l = [] := List.getLast?_eq_none_iff.mp hlast
    subst this
    simp
  | some last =>
    obtain ⟨pre, hpre⟩ : ∃ pre, l = pre ++ [last] := List.getLast?_eq_some_iff.mp hlast
    subst hpre
    simp only [List.map_append, List.map_cons, List.map_nil] at hn
    rw [List.nodup_append] at hn
    have hlk : last.key ∉ pre.map (·.key) := fun hm => hn.2.2 _ hm last.key (by simp) rfl
    rw [List.findIdx?_append]
    cases hi : pre.findIdx? (·.key == k) with
    | some i =>
      simp only [Option.some_or]
      have hilt : i < pre.length := by
        have := List.findIdx?_eq_some_iff_getElem.mp hi
        exact this.1
      rw [List.set_append_left _ _ hilt, List.dropLast_concat]
      obtain ⟨h1, h2⟩ := set_findIdx pre last k i hi hn.1 hlk
      refine ⟨h1, fun y => ?_⟩
      rw [h2 y]
      simp only [List.mem_append, List.mem_singleton]
      have hik : ∃ z ∈ pre, z.key = k := by
        have := List.findIdx?_eq_some_iff_getElem.mp hi
        exact ⟨pre[i], List.getElem_mem _, by simpa using this.2.1⟩
      have hlastk : last.key ≠ k := by
        obtain ⟨z, hz, hzk⟩ := hik
        intro e
        exact hlk (by rw [e, ← hzk]; exact List.mem_map.mpr ⟨z, hz, rfl⟩)
      constructor
      · rintro (⟨hy, hne⟩ | hy)
        · exact ⟨Or.inl hy, hne⟩
        · subst hy; exact ⟨Or.inr rfl, hlastk⟩
      · rintro ⟨hy | hy, hne⟩
        · exact Or.inl ⟨hy, hne⟩
        · exact Or.inr hy
    | none =>
      simp only [Option.none_or]
      have hpk := findIdx_none_keys pre k hi
      by_cases hl : last.key = k
      · simp only [List.findIdx?_cons, hl, beq_self_eq_true, if_true, Option.map_some, Nat.zero_add]
        rw [List.set_append_right _ _ (Nat.le_refl _)]
        simp only [Nat.sub_self, List.set_cons_zero, List.dropLast_concat]
        refine ⟨hn.1, fun y => ?_⟩
        simp only [List.mem_append, List.mem_singleton]
        constructor
        · intro hy; exact ⟨Or.inl hy, hpk y hy⟩
        · rintro ⟨hy | hy, hne⟩
          · exact hy
          · subst hy; exact absurd hl hne
      · have hl' : (last.key == k) = false := by simpa using hl
        simp only [List.findIdx?_cons, hl', Bool.false_eq_true, if_false, List.findIdx?_nil,
          Option.map_none]
        intro y hy
        simp only [List.mem_append, List.mem_singleton] at hy
        rcases hy with hy | hy
        · exact hpk y hy
        · subst hy; exact hl

/-- two stored items with the same key are the same item -/
theorem key_unique (n : Nat) (dg : Nat → List Nat) (hlen : ∀ k, (dg k).length = n) (t : T)
    (h : TWF n dg t) (x y : Item) (hx : x ∈ all n t) (hy : y ∈ all n t) (hk : y.key = x.key) :
    y = x := by
  have h1 := mem_get n dg hlen t h x hx
  have h2 := mem_get n dg hlen t h y hy
  rw [hk, h1] at h2
  exact (Option.some.inj h2).symm

theorem del_spec (n : Nat) (dg : Nat → List Nat) (hlen : ∀ k, (dg k).length = n) (k : Nat) (t : T)
    (h : TWF n dg t) (hne : t ≠ .nil → all n t ≠ []) : Removed n dg t (del k (dg k) t).1 k := by
  induction n generalizing dg t with
  | zero =>
    have hk : dg k = [] := List.length_eq_zero_iff.mp (hlen k)
    rw [hk]
    simp only [del]
    have hspec := ovfDel_spec (ovfItems t) k h
    cases ho : ovfDel (ovfItems t) k with
    | none =>
      rw [ho] at hspec
      simp only
      refine ⟨h, hne, fun y => ⟨fun hy => ⟨hy, hspec y (by simpa [all] using hy)⟩, fun hy => hy.1⟩⟩
    | some l =>
      rw [ho] at hspec
      simp only
      by_cases he : l.isEmpty = true
      · rw [if_pos he]
        refine ⟨TWF_nil _ _, fun h' => absurd rfl h', fun y => ?_⟩
        have := hspec.2 y
        rw [List.isEmpty_iff.mp he] at this
        simp only [all_nil, all]
        exact this
      · rw [if_neg he]
        refine ⟨by simpa [TWF, ovfItems] using hspec.1, fun _ => ?_, fun y => ?_⟩
        · simp only [all, ovfItems]; exact fun e => he (List.isEmpty_iff.mpr e)
        · simp only [all, ovfItems]; exact hspec.2 y
  | succ n ih =>
    have hlen' : ∀ j, ((fun j => (dg j).tail) j).length = n := by
      intro j; simp only [List.length_tail, hlen j]; rfl
    obtain ⟨d, ds, hk⟩ : ∃ d ds, dg k = d :: ds := by
      cases h' : dg k with
      | nil => have := hlen k; rw [h'] at this; cases this
      | cons d ds => exact ⟨d, ds, rfl⟩
    have hhead : (dg k).head? = some d := by rw [hk]; rfl
    have hdsl : ds.length = n := by
      have := hlen k; rw [hk] at this; simpa using this
    have ihc := ih (fun j => (dg j).tail) hlen'
    simp only [hk, List.tail_cons] at ihc
    obtain ⟨hA, hB, hC, hD, hE⟩ := h.2 d
    rw [hk]
    simp only [del]
    cases hs : slotGet t d with
    | mk v c =>
      rw [hs] at hA hB hC hD hE
      simp only at hA hB hC hD hE
      simp only
      -- the descend branch, for a val that is absent or has another key
      have hdesc : (∀ x, v = some x → x.key ≠ k) →
          Removed (n+1) dg t
            (if c.isNil = true then (t, false)
              else ((slotSet t d v (del k ds c).1), (del k ds c).2)).1 k := by
        intro hvk
        by_cases hcn : c.isNil = true
        · rw [if_pos hcn]
          have hc := (isNil_iff c).mp hcn
          refine ⟨h, hne, fun y => ⟨fun hy => ⟨hy, fun e => ?_⟩, fun hy => hy.1⟩⟩
          have hg := mem_get (n+1) dg hlen t h y hy
          rw [e, hk] at hg
          simp only [get, hs] at hg
          cases v with
          | none => simp only [hc, get_nil] at hg; cases hg
          | some it =>
            simp only at hg
            have : (it.key == k) = false := by simpa using hvk it rfl
            simp only [this, Bool.false_eq_true, if_false, hc, get_nil] at hg
            cases hg
        · rw [if_neg hcn]
          have hcne : c ≠ .nil := fun e => hcn ((isNil_iff c).mpr e)
          have hrem := ihc c hD (fun _ => hC hcne)
          have hwf : TWF (n+1) dg (slotSet t d v (del k ds c).1) := by
            apply TWF_slotSet h
            exact ⟨hA, fun _ => hB hcne, hrem.ne, hrem.wf, fun y hy => hE y ((hrem.mem y).mp hy).1⟩
          refine ⟨hwf, fun _ => ?_, ?_⟩
          · apply nonempty_of_slot hwf d
            left; rw [slotGet_slotSet, if_pos rfl]; exact hB hcne
          · apply mem_slot_replace h d k hhead
            intro y
            rw [hs]
            simp only
            constructor
            · rintro (hy | hy)
              · exact ⟨Or.inl hy, hvk y hy⟩
              · exact ⟨Or.inr ((hrem.mem y).mp hy).1, ((hrem.mem y).mp hy).2⟩
            · rintro ⟨hy | hy, hne'⟩
              · exact Or.inl hy
              · exact Or.inr ((hrem.mem y).mpr ⟨hy, hne'⟩)
      cases v with
      | none =>
        simp only
        have := hdesc (fun x hx => by cases hx)
        split at this <;> split <;> simp_all
      | some it =>
        simp only
        by_cases hit : it.key = k
        · simp only [hit, beq_self_eq_true, if_true]
          by_cases hcn : c.isNil = true
          · rw [if_pos hcn]
            have hc := (isNil_iff c).mp hcn
            have hwf : TWF (n+1) dg (slotSet t d none .nil) := by
              apply TWF_slotSet h
              refine ⟨fun _ h' => ?_, fun h' => absurd rfl h', fun h' => absurd rfl h',
                TWF_nil _ _, fun y hy => ?_⟩
              · cases h'
              · rw [all_nil] at hy; cases hy
            refine ⟨TWF_normalize hwf, normalize_nonempty hwf, fun y => ?_⟩
            rw [all_normalize]
            apply mem_slot_replace h d k hhead
            intro y
            rw [hs, hc]
            simp only [all_nil, List.not_mem_nil, or_false]
            constructor
            · intro hy; cases hy
            · rintro ⟨hy, hk'⟩
              exact absurd (by rw [← Option.some.inj hy]; exact hit) hk'
          · rw [if_neg hcn]
            have hcne : c ≠ .nil := fun e => hcn ((isNil_iff c).mpr e)
            obtain ⟨c', x, hpu, hxc, hrem⟩ :=
              pullUp_spec n (fun j => (dg j).tail) hlen' c hD (hC hcne)
            rw [hdsl, hpu]
            simp only
            have hxE := hE x hxc
            have hwf : TWF (n+1) dg (slotSet t d (some x) c') := by
              apply TWF_slotSet h
              refine ⟨fun x' hx' => ?_, fun _ => by simp, hrem.ne, hrem.wf, fun y hy => ?_⟩
              · cases hx'; exact hxE.1
              · have hy' := (hrem.mem y).mp hy
                exact ⟨(hE y hy'.1).1, fun x' hx' => by cases hx'; exact hy'.2⟩
            refine ⟨hwf, fun _ => ?_, ?_⟩
            · apply nonempty_of_slot hwf d
              left; rw [slotGet_slotSet, if_pos rfl]; simp
            · apply mem_slot_replace h d k hhead
              intro y
              rw [hs]
              simp only
              constructor
              · rintro (hy | hy)
                · have := Option.some.inj hy; subst this
                  exact ⟨Or.inr hxc, fun e => hxE.2 it rfl (e.trans hit.symm)⟩
                · have hy' := (hrem.mem y).mp hy
                  exact ⟨Or.inr hy'.1, fun e => (hE y hy'.1).2 it rfl (e.trans hit.symm)⟩
              · rintro ⟨hy | hy, hk'⟩
                · exact absurd (by rw [← Option.some.inj hy]; exact hit) hk'
                · by_cases hyx : y.key = x.key
                  · left
                    rw [key_unique n (fun j => (dg j).tail) hlen' c hD x y hxc hy hyx]
                  · right; exact (hrem.mem y).mpr ⟨hy, hyx⟩
        · have hit' : (it.key == k) = false := by simpa using hit
          simp only [hit', Bool.false_eq_true, if_false]
          have := hdesc (fun x hx => by cases hx; exact hit)
          split at this <;> split <;> simp_all


/-! ### the trie is a lawful map -/

/-- root invariant: well-formed, and `nil` or non-empty -/
def WFR (hf : Nat → Nat) (t : T) : Prop := WF hf t ∧ (t ≠ .nil → all nLevels t ≠ [])

theorem wfr_empty (hf : Nat → Nat) : WFR hf (trieOps hf).empty := ⟨wf_empty hf, fun h => absurd rfl h⟩

theorem wfr_put (hf : Nat → Nat) (t : T) (x : Item) (h : WFR hf t) : WFR hf ((trieOps hf).put t x) := by
  refine ⟨wf_put hf x h.1, fun _ hemp => ?_⟩
  have := self_mem_put nLevels (fun k => digits (hf k)) (fun k => digits_length _) x t
  simp only [trieOps] at hemp
  rw [hemp] at this; cases this

theorem trie_removed (hf : Nat → Nat) (t : T) (k : Nat) (h : WFR hf t) :
    Removed nLevels (fun k => digits (hf k)) t ((trieOps hf).del t k) k :=
  del_spec nLevels (fun k => digits (hf k)) (fun k => digits_length _) k t h.1 h.2

theorem wfr_del (hf : Nat → Nat) (t : T) (k : Nat) (h : WFR hf t) : WFR hf ((trieOps hf).del t k) :=
  ⟨(trie_removed hf t k h).wf, (trie_removed hf t k h).ne⟩

theorem trie_get_del (hf : Nat → Nat) (t : T) (k k' : Nat) (h : WFR hf t) :
    (trieOps hf).get ((trieOps hf).del t k) k' = if k' = k then none else (trieOps hf).get t k' := by
  have hrem := trie_removed hf t k h
  have hlen : ∀ j, ((fun k => digits (hf k)) j).length = nLevels := fun j => digits_length _
  have hmem' := mem_get nLevels (fun k => digits (hf k)) hlen _ hrem.wf
  have hmem := mem_get nLevels (fun k => digits (hf k)) hlen t h.1
  have gm : ∀ (t : T) (j : Nat) (y : Item), (trieOps hf).get t j = some y →
      y ∈ all nLevels t ∧ y.key = j := by
    intro t j y hg
    have := get_mem j _ t y hg
    rw [digits_length] at this
    exact this
  by_cases hk : k' = k
  · rw [if_pos hk]
    cases hg : (trieOps hf).get ((trieOps hf).del t k) k' with
    | none => rfl
    | some y =>
      obtain ⟨h1, h2⟩ := gm _ _ _ hg
      exact absurd (h2.trans hk) ((hrem.mem y).mp h1).2
  · rw [if_neg hk]
    cases hg : (trieOps hf).get t k' with
    | some y =>
      obtain ⟨h1, h2⟩ := gm _ _ _ hg
      have := hmem' y ((hrem.mem y).mpr ⟨h1, fun e => hk (h2.symm.trans e)⟩)
      rw [h2] at this
      exact this
    | none =>
      cases hg' : (trieOps hf).get ((trieOps hf).del t k) k' with
      | none => rfl
      | some y =>
        obtain ⟨h1, h2⟩ := gm _ _ _ hg'
        have := hmem y ((hrem.mem y).mp h1).1
        rw [h2] at this
        have hg2 : (trieOps hf).get t k' = some y := this
        rw [hg] at hg2; cases hg2

end Gsu.Hamt
