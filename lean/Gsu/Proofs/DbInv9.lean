/-
M-DB global invariant, part 9: consequences for what is READ (Lookup through the latest state and
through a transaction's overlays), and a Bool checker for the well-formedness of a concrete
history (used by the non-vacuity examples). Core only.
-/
import Gsu.Proofs.DbInv8
namespace Gsu.Db

/-! ## what the invariant says about reads -/

/-- an index of an invariant table holds exactly one entry per row, under that row's key, and
nothing else -/
theorem tbl_index_exact {ti : Info} (h : TblInv ti) (i : Nat) (ov : Overlay) (hi : ti.idx[i]? = some ov) :
    (∀ k, ov.lookup k = keymap i ti.rows k) ∧
    (∀ r ∈ ti.rows, ov.lookup (r.key i) = some r.off) ∧
    (∀ k o, ov.lookup k = some o → ∃ r ∈ ti.rows, r.key i = k ∧ r.off = o) := by
  have hl : ∀ k, ov.lookup k = keymap i ti.rows k := fun k => lookup_of_sem ov k _ (h.agree i ov hi k)
  have hlt : i < ti.idx.length := (List.getElem?_eq_some_iff.mp hi).1
  refine ⟨hl, ?_, ?_⟩
  · intro r hr; rw [hl]; exact keymap_of_mem (h.keys i hlt) hr
  · intro k o hk; rw [hl] at hk; exact keymap_some_mem hk

/-- the same for what an open transaction reads through its own overlays: exactly its view -/
theorem tran_index_exact {sti : Info} {d : TDif} (hv : TVInv sti d) (i : Nat) (ov : Overlay)
    (hi : (d.ovs sti)[i]? = some ov) :
    (∀ k, ov.lookup k = keymap i (d.view sti.rows) k) ∧
    (∀ r ∈ d.view sti.rows, ov.lookup (r.key i) = some r.off) ∧
    (∀ k o, ov.lookup k = some o → ∃ r ∈ d.view sti.rows, r.key i = k ∧ r.off = o) := by
  rw [ovs_get] at hi
  cases hs : sti.idx[i]? with
  | none => simp [hs] at hi
  | some ov0 =>
    cases hm : d.muts[i]? with
    | none => simp [hs, hm] at hi
    | some m =>
      simp only [hs, hm, Option.some.injEq] at hi
      subst hi
      have hlt : i < sti.idx.length := (List.getElem?_eq_some_iff.mp hs).1
      have hl : ∀ k, (ov0.withMut m).lookup k = keymap i (d.view sti.rows) k :=
        fun k => lookup_of_sem _ k _ ((hv.pidx i ov0 m hs hm).1 k)
      refine ⟨hl, ?_, ?_⟩
      · intro r hr; rw [hl]; exact keymap_of_mem (hv.keys i hlt) hr
      · intro k o hk; rw [hl] at hk; exact keymap_some_mem hk

/-! ## checking `OpsOK` of a concrete history -/

theorem distinctb_sound (l : List Key) (h : distinctb l = true) : l.Pairwise (· ≠ ·) := by
  induction l with
  | nil => exact List.Pairwise.nil
  | cons k ks ih =>
    simp only [distinctb, Bool.and_eq_true, Bool.not_eq_true', List.contains_eq_mem,
      decide_eq_false_iff_not] at h
    exact List.pairwise_cons.mpr ⟨fun b hb e => h.1 (e ▸ hb), ih h.2⟩

theorem rowOKb_sound (s : State) (id tbl : Nat) (row : Row) (h : rowOKb s id tbl row = true) :
    ∀ t sti, s.tran? id = some t → t.snap[tbl]? = some sti → row.keys.length = sti.idx.length := by
  intro t sti ht hs
  simpa [rowOKb, ht, hs] using h

theorem opOKb_sound (s : State) (op : Op) (h : opOKb s op = true) : OpOK s op := by
  cases op with
  | table n => simpa [opOKb, OpOK] using h
  | out id tbl row => exact rowOKb_sound s id tbl row h
  | upd id tbl off row => exact rowOKb_sound s id tbl row h
  | buildC tbl nk =>
    intro ti hti
    simp only [opOKb, hti] at h
    have := distinctb_sound _ h
    rw [List.pairwise_map] at this
    exact this
  | begin_ _ | del _ _ _ | abort _ | commit _ | mergeC _ _ | mergeA | persistC | persistA | buildA => trivial

def opsOKb : State → List Op → Bool
  | _, [] => true
  | s, op :: ops => opOKb s op && opsOKb (step s op).1 ops

theorem opsOKb_sound : ∀ (ops : List Op) (s : State), opsOKb s ops = true → OpsOK s ops := by
  intro ops
  induction ops with
  | nil => intro _ _; trivial
  | cons op ops ih =>
    intro s h
    simp only [opsOKb, Bool.and_eq_true] at h
    exact ⟨opOKb_sound s op h.1, ih _ h.2⟩

/-! ## the driver checks the hypotheses on every replayed operation -/

theorem freshb_sound (used : List Off) (sz : Off → Nat) (s : State) (op : Op)
    (h : freshb used s op = true) : OpFresh ⟨used, sz⟩ s op := by
  intro row hr
  simpa [freshb, hr] using h

/-- whenever the checking driver (`driveStepOK`, what `drv_c06` / `drv_c03` / `drv_c16` run) does
not answer `!hyp-…` for an operation line, the operation satisfies the hypotheses of the
invariant theorems in the driver's current state, and the driver did exactly `step` -/
theorem driveStepOK_checked (ds : DState) (l : List String) (op : Op) (h : parseOp l = some op)
    (h1 : (driveStepOK ds l).2 ≠ "!hyp-opok") (h2 : (driveStepOK ds l).2 ≠ "!hyp-fresh") :
    OpOK ds.s op ∧ (∀ row, okRow ds.s op = some row → row.off ∉ ds.used) ∧
    driveStepOK ds l = (⟨(step ds.s op).1, usedAfter ds.used ds.s op⟩, (step ds.s op).2) := by
  unfold driveStepOK at h1 h2 ⊢
  split at h1
  · simp [parseOp] at h
  · simp only [h] at h1 h2 ⊢
    by_cases c1 : opOKb ds.s op = true
    · by_cases c2 : freshb ds.used ds.s op = true
      · refine ⟨opOKb_sound _ _ c1, freshb_sound ds.used (fun _ => 0) ds.s op c2, ?_⟩
        simp [c1, c2]
      · simp [c1, c2] at h2
    · simp [c1] at h1

end Gsu.Db
