import Gsu.Proofs.Ixkey6
namespace Gsu.Ixkey
open Gsu.Proto

theorem splitScan_sep (rest : Bytes) (n : Nat) (acc : Bytes) :
    splitScan (0 :: 0 :: rest) n acc =
      if n = 1 then (acc.reverse, some rest) else splitScan rest (n - 1) (0 :: 0 :: acc) :=
  splitScan.eq_3 n acc rest

theorem splitScan_nz {b : UInt8} (hb : b ≠ 0) (c : UInt8) (r : Bytes) (n : Nat) (acc : Bytes) :
    splitScan (b :: c :: r) n acc = splitScan (c :: r) n (b :: acc) :=
  splitScan.eq_4 n acc b c r (fun h _ => hb h)

theorem splitScan_z_nz {c : UInt8} (hc : c ≠ 0) (r : Bytes) (n : Nat) (acc : Bytes) :
    splitScan (0 :: c :: r) n acc = splitScan (c :: r) n (0 :: acc) :=
  splitScan.eq_4 n acc 0 c r (fun _ h => hc h)

theorem splitScan_enc_sep (a rest : Bytes) (n : Nat) (acc : Bytes) :
    splitScan (enc a ++ 0 :: 0 :: rest) n acc =
      if n = 1 then (acc.reverse ++ enc a, some rest)
      else splitScan rest (n - 1) (0 :: 0 :: ((enc a).reverse ++ acc)) := by
  induction a generalizing acc with
  | nil => simp [enc, splitScan_sep]
  | cons b bs ih =>
    -- the remainder is non-empty
    obtain ⟨c, r, hcr⟩ : ∃ c r, enc bs ++ 0 :: 0 :: rest = c :: r := by
      cases h : enc bs with
      | nil => exact ⟨0, 0 :: rest, rfl⟩
      | cons c r => exact ⟨c, r ++ 0 :: 0 :: rest, rfl⟩
    by_cases hb : b = 0
    · subst hb
      rw [enc_zero]
      simp only [List.cons_append]
      rw [splitScan_z_nz (by decide), hcr, splitScan_nz (by decide), ← hcr, ih]
      simp
    · rw [enc_nz hb]
      simp only [List.cons_append]
      rw [hcr, splitScan_nz hb, ← hcr, ih]
      simp

/-- the scan finds the n-th separator of a joined key with more than n fields -/
theorem splitScan_joinEnc (vs : List Bytes) (n : Nat) (acc : Bytes) (hn : 1 ≤ n) (hl : n < vs.length) :
    splitScan (joinEnc vs) n acc =
      (acc.reverse ++ joinEnc (vs.take n), some (joinEnc (vs.drop n))) := by
  induction vs generalizing n acc with
  | nil => simp at hl
  | cons f fs ih =>
    cases fs with
    | nil => simp at hl; omega
    | cons g fs =>
      rw [joinEnc_cons2, splitScan_enc_sep]
      by_cases h1 : n = 1
      · subst h1; simp [joinEnc]
      · simp only [h1, if_false]
        have hl' : n - 1 < (g :: fs).length := by simp at hl ⊢; omega
        rw [ih (n - 1) _ (by omega) hl']
        obtain ⟨m, rfl⟩ : ∃ m, n = m + 2 := ⟨n - 2, by omega⟩
        simp only [List.take_succ_cons, List.drop_succ_cons, Nat.add_one_sub_one]
        rw [joinEnc_cons2]
        simp

end Gsu.Ixkey
