import Gsu.Model.LangBlocks
namespace Gsu.LangBlocks

theorem exprUses_names (v : Nat) : (e : Expr) → exprUses v e = true → v ∈ exprNames e
  | .num _, h => by simp [exprUses] at h
  | .var x, h => by
      simp [exprUses] at h
      simp [exprNames, h]
  | .add a b, h => by
      simp only [exprUses, Bool.or_eq_true] at h
      simp only [exprNames, List.mem_append]
      cases h with
      | inl h => exact Or.inl (exprUses_names v a h)
      | inr h => exact Or.inr (exprUses_names v b h)
  | .call f a, h => by
      simp only [exprUses, Bool.or_eq_true, beq_iff_eq] at h
      simp only [exprNames, List.mem_cons]
      cases h with
      | inl h => exact Or.inl h.symm
      | inr h => exact Or.inr (exprUses_names v a h)
  | .block _, h => by simp [exprUses] at h
  | .fn _, h => by simp [exprUses] at h

theorem stmtUses_names (v : Nat) (st : Stmt) (h : stmtUses v st = true) : v ∈ stmtNames st := by
  cases st with
  | assign x e =>
    simp only [stmtUses, Bool.or_eq_true, beq_iff_eq] at h
    simp only [stmtNames, List.mem_cons]
    cases h with
    | inl h => exact Or.inl h.symm
    | inr h => exact Or.inr (exprUses_names v e h)
  | ifz c x e =>
    simp only [stmtUses, Bool.or_eq_true, beq_iff_eq] at h
    simp only [stmtNames, List.mem_append, List.mem_cons]
    rcases h with (h | h) | h
    · exact Or.inl (exprUses_names v c h)
    · exact Or.inr (Or.inl h.symm)
    · exact Or.inr (Or.inr (exprUses_names v e h))
  | tryc x e w =>
    simp only [stmtUses, Bool.or_eq_true, beq_iff_eq] at h
    simp only [stmtNames, List.mem_append, List.mem_cons]
    rcases h with (h | h) | h
    · exact Or.inl (Or.inl h.symm)
    · exact Or.inl (Or.inr (exprUses_names v e h))
    · exact Or.inr (Or.inl h.symm)
  | ret e =>
    simp only [stmtUses] at h
    simp only [stmtNames]
    exact exprUses_names v e h

theorem usesD_namesD (s : Scope) (v : Nat) (h : usesD s v = true) : v ∈ namesD s := by
  simp only [usesD, Bool.or_eq_true, isParam, List.contains_iff_mem, List.any_eq_true] at h
  simp only [namesD, List.mem_append, List.mem_flatMap]
  rcases h with (h | ⟨st, hm, hu⟩) | h
  · exact Or.inl (Or.inl h)
  · exact Or.inl (Or.inr ⟨st, hm, stmtUses_names v st hu⟩)
  · exact Or.inr (exprUses_names v _ h)

theorem exprNames_uses (v : Nat) : (e : Expr) → v ∈ exprNames e → exprUses v e = true
  | .num _, h => by simp [exprNames] at h
  | .var x, h => by
      simp [exprNames] at h
      simp [exprUses, h]
  | .add a b, h => by
      simp only [exprNames, List.mem_append] at h
      simp only [exprUses, Bool.or_eq_true]
      cases h with
      | inl h => exact Or.inl (exprNames_uses v a h)
      | inr h => exact Or.inr (exprNames_uses v b h)
  | .call f a, h => by
      simp only [exprNames, List.mem_cons] at h
      simp only [exprUses, Bool.or_eq_true, beq_iff_eq]
      cases h with
      | inl h => exact Or.inl h.symm
      | inr h => exact Or.inr (exprNames_uses v a h)
  | .block _, h => by simp [exprNames] at h
  | .fn _, h => by simp [exprNames] at h

theorem stmtNames_uses (v : Nat) (st : Stmt) (h : v ∈ stmtNames st) : stmtUses v st = true := by
  cases st with
  | assign x e =>
    simp only [stmtNames, List.mem_cons] at h
    simp only [stmtUses, Bool.or_eq_true, beq_iff_eq]
    cases h with
    | inl h => exact Or.inl h.symm
    | inr h => exact Or.inr (exprNames_uses v e h)
  | ifz c x e =>
    simp only [stmtNames, List.mem_append, List.mem_cons] at h
    simp only [stmtUses, Bool.or_eq_true, beq_iff_eq]
    rcases h with h | h | h
    · exact Or.inl (Or.inl (exprNames_uses v c h))
    · exact Or.inl (Or.inr h.symm)
    · exact Or.inr (exprNames_uses v e h)
  | tryc x e w =>
    simp only [stmtNames, List.mem_append, List.mem_cons, List.not_mem_nil, or_false] at h
    simp only [stmtUses, Bool.or_eq_true, beq_iff_eq]
    rcases h with (h | h) | h
    · exact Or.inl (Or.inl h.symm)
    · exact Or.inl (Or.inr (exprNames_uses v e h))
    · exact Or.inr h.symm
  | ret e =>
    simp only [stmtNames] at h
    simp only [stmtUses]
    exact exprNames_uses v e h

theorem namesD_usesD (s : Scope) (v : Nat) (h : v ∈ namesD s) : usesD s v = true := by
  simp only [namesD, List.mem_append, List.mem_flatMap] at h
  simp only [usesD, Bool.or_eq_true, isParam, List.contains_iff_mem, List.any_eq_true]
  rcases h with (h | ⟨st, hm, hu⟩) | h
  · exact Or.inl (Or.inl h)
  · exact Or.inl (Or.inr ⟨st, hm, stmtNames_uses v st hu⟩)
  · exact Or.inr (exprNames_uses v _ h)

def lnames (l : List Expr) : List Nat := l.flatMap exprNames
def stN (st : AddSt) : List Nat := lnames st.pre ++ lnames st.post

theorem mem_lnames_append {v : Nat} {l1 l2 : List Expr} :
    v ∈ lnames (l1 ++ l2) ↔ v ∈ lnames l1 ∨ v ∈ lnames l2 := by
  simp only [lnames, List.flatMap_append, List.mem_append]

theorem stN_keep (st : AddSt) (xs : List Expr) (v : Nat) (h : v ∈ stN (st.keep xs)) :
    v ∈ stN st ∨ v ∈ lnames xs := by
  unfold AddSt.keep at h
  split at h
  · simp only [stN, List.mem_append, mem_lnames_append] at h ⊢
    rcases h with (h | h) | h
    · exact Or.inl (Or.inl h)
    · exact Or.inr h
    · exact Or.inl (Or.inr h)
  · simp only [stN, List.mem_append, mem_lnames_append] at h ⊢
    rcases h with h | h | h
    · exact Or.inl (Or.inl h)
    · exact Or.inl (Or.inr h)
    · exact Or.inr h

theorem stN_lit (st : AddSt) (n : Int) (v : Nat) (h : v ∈ stN (st.lit n)) : v ∈ stN st := by
  unfold AddSt.lit at h
  split at h
  · exact h
  · split at h <;> exact h

theorem lnames_single (e : Expr) : lnames [e] = exprNames e := by
  simp [lnames]

theorem stN_item (st : AddSt) (x : Expr) (xs : List Expr) (v : Nat)
    (h : v ∈ stN (st.item x xs)) : v ∈ stN st ∨ v ∈ lnames xs ∨ v ∈ exprNames x := by
  cases x with
  | add a b =>
    simp only [AddSt.item] at h
    split at h
    · exact Or.inl (stN_lit _ _ _ h)
    · rcases stN_keep _ _ _ h with h | h
      · exact Or.inl h
      · exact Or.inr (Or.inl h)
  | num n =>
    simp only [AddSt.item] at h
    exact Or.inl (stN_lit _ _ _ h)
  | var y =>
    simp only [AddSt.item] at h
    rcases stN_keep _ _ _ h with h | h
    · exact Or.inl h
    · rw [lnames_single] at h; exact Or.inr (Or.inr h)
  | call f y =>
    simp only [AddSt.item] at h
    rcases stN_keep _ _ _ h with h | h
    · exact Or.inl h
    · rw [lnames_single] at h; exact Or.inr (Or.inr h)
  | block s =>
    simp only [AddSt.item] at h
    rcases stN_keep _ _ _ h with h | h
    · exact Or.inl h
    · rw [lnames_single] at h; exact Or.inr (Or.inr h)
  | fn s =>
    simp only [AddSt.item] at h
    rcases stN_keep _ _ _ h with h | h
    · exact Or.inl h
    · rw [lnames_single] at h; exact Or.inr (Or.inr h)

theorem stN_finish (st : AddSt) (v : Nat) (h : v ∈ lnames st.finish) : v ∈ stN st := by
  unfold AddSt.finish at h
  split at h
  · simp only [lnames, List.flatMap_append, List.flatMap_cons, exprNames, List.nil_append,
      List.mem_append] at h
    simpa only [stN, lnames, List.mem_append] using h
  · split at h
    · simp [lnames, exprNames] at h
    · rename_i e heq
      simp only [stN, List.mem_append, heq]
      left
      simpa [lnames, exprNames] using h
    · simp only [stN, List.mem_append]
      exact Or.inl h

theorem foldAddList_lnames : (e : Expr) → ∀ v, v ∈ lnames (foldAddList e) → v ∈ exprNames e
  | .add a b, v, h => by
    simp only [foldAddList] at h
    have h1 := stN_finish _ v h
    simp only [exprNames, List.mem_append]
    rcases stN_item _ _ _ v h1 with h2 | h2 | h2
    · rcases stN_item _ _ _ v h2 with h3 | h3 | h3
      · simp [stN, lnames] at h3
      · exact Or.inl (foldAddList_lnames a v h3)
      · exact Or.inl h3
    · exact Or.inr (foldAddList_lnames b v h2)
    · exact Or.inr h2
  | .num n, v, h => by simpa [foldAddList, lnames] using h
  | .var x, v, h => by simpa [foldAddList, lnames] using h
  | .call f a, v, h => by simpa [foldAddList, lnames] using h
  | .block s, v, h => by simpa [foldAddList, lnames] using h
  | .fn s, v, h => by simpa [foldAddList, lnames] using h

theorem foldAddList_names (e : Expr) :
    ∀ e' ∈ foldAddList e, ∀ v ∈ exprNames e', v ∈ exprNames e := by
  intro e' he' v hv
  apply foldAddList_lnames e v
  simp only [lnames, List.mem_flatMap]
  exact ⟨e', he', hv⟩

end Gsu.LangBlocks
