import Gsu.Proofs.SchemaAlg3
/-!
C21, part 4: `createFkeys` — the links of the indexes of table `ptn` whose columns are still in
the pending list are not yet recorded (`LInvX`); every `createFkey1` records one.
-/
namespace Gsu.SchemaAlg

/-! ### skeleton: what the link bookkeeping never changes -/

def sk (ix : Index) : Char × List String × String × List String × Nat :=
  (ix.mode, ix.columns, ix.fk.table, ix.fk.columns, ix.fk.mode)

/-- same tables / index positions / modes / columns / Fk table, columns, mode -/
def Skel (db db' : Db) : Prop := ∀ n j, (look db' n j).map sk = (look db n j).map sk

theorem Skel.refl (db : Db) : Skel db db := fun _ _ => rfl

theorem Skel.trans {a b c : Db} (h1 : Skel a b) (h2 : Skel b c) : Skel a c :=
  fun n j => (h2 n j).trans (h1 n j)

theorem Skel.bwd {db db' : Db} (h : Skel db db') {n : String} {j : Nat} {ix' : Index}
    (hl : look db' n j = some ix') : ∃ ix, look db n j = some ix ∧ sk ix = sk ix' := by
  have := h n j
  rw [hl] at this
  cases h0 : look db n j with
  | none => rw [h0] at this; cases this
  | some ix =>
    rw [h0] at this
    simp only [Option.map_some, Option.some.injEq] at this
    exact ⟨ix, rfl, this.symm⟩

theorem Skel.fwd {db db' : Db} (h : Skel db db') {n : String} {j : Nat} {ix : Index}
    (hl : look db n j = some ix) : ∃ ix', look db' n j = some ix' ∧ sk ix = sk ix' := by
  have := h n j
  rw [hl] at this
  cases h0 : look db' n j with
  | none => rw [h0] at this; cases this
  | some ix' =>
    rw [h0] at this
    simp only [Option.map_some, Option.some.injEq] at this
    exact ⟨ix', rfl, this.symm⟩

theorem sk_columns {a b : Index} (h : sk a = sk b) : a.columns = b.columns := by
  simp only [sk, Prod.mk.injEq] at h; exact h.2.1

theorem sk_fk {a b : Index} (h : sk a = sk b) :
    a.fk.table = b.fk.table ∧ a.fk.columns = b.fk.columns ∧ a.fk.mode = b.fk.mode := by
  simp only [sk, Prod.mk.injEq] at h; exact ⟨h.2.2.1, h.2.2.2.1, h.2.2.2.2⟩

theorem sk_mode {a b : Index} (h : sk a = sk b) : a.mode = b.mode := by
  simp only [sk, Prod.mk.injEq] at h; exact h.1

theorem skel_modT (db : Db) (n : String) (j : Nat) (f : Index → Index) (hf : ∀ ix, sk (f ix) = sk ix) :
    Skel db (modT db n j f) := by
  intro tn i
  rw [look_modT]
  split
  · rw [Option.map_map]; congr 1; funext ix; exact hf ix
  · rfl

/-- index columns identify the index inside a table (lookup form) -/
def LUniq (db : Db) : Prop :=
  ∀ tn i j a b, look db tn i = some a → look db tn j = some b → a.columns = b.columns → i = j

theorem luniq_of_idxUniq {db : Db} (h : IdxUniq db) : LUniq db :=
  fun _ _ _ _ _ ha hb hab => h.look ha hb hab

theorem LUniq.skel {db db' : Db} (h : LUniq db) (hs : Skel db db') : LUniq db' := by
  intro tn i j a b ha hb hab
  obtain ⟨a0, ha0, hsa⟩ := hs.bwd ha
  obtain ⟨b0, hb0, hsb⟩ := hs.bwd hb
  exact h tn i j a0 b0 ha0 hb0 (by rw [sk_columns hsa, sk_columns hsb, hab])

theorem FkCols.skel {db db' : Db} (h : FkCols db) (hs : Skel db db') : FkCols db' := by
  intro tn j ix hl hfk
  obtain ⟨ix0, h0, hsk⟩ := hs.bwd hl
  obtain ⟨h1, h2, _⟩ := sk_fk hsk
  rw [← h2]; exact h tn j ix0 h0 (by rw [h1]; exact hfk)

theorem link_skel {db db' : Db} (hs : Skel db db') (tn : String) (cols : List String) (f : Fkey) :
    Link db' tn cols f ↔ Link db tn cols f := by
  constructor
  · rintro ⟨hne, six', hl, h1, h2, h3, h4⟩
    obtain ⟨six, hl0, hsk⟩ := hs.bwd hl
    obtain ⟨e1, e2, e3⟩ := sk_fk hsk
    exact ⟨hne, six, hl0, by rw [sk_columns hsk, h1], by rw [e3, h2], by rw [e1, h3], by rw [e2, h4]⟩
  · rintro ⟨hne, six, hl, h1, h2, h3, h4⟩
    obtain ⟨six', hl0, hsk⟩ := hs.fwd hl
    obtain ⟨e1, e2, e3⟩ := sk_fk hsk
    exact ⟨hne, six', hl0, by rw [← sk_columns hsk, h1], by rw [← e3, h2], by rw [← e1, h3], by rw [← e2, h4]⟩

/-! ### pending links -/

/-- a link whose source is not one of the pending indexes `pend` of table `ptn` -/
def LinkX (pend : List (List String)) (ptn : String) (db : Db) (tn : String) (cols : List String)
    (f : Fkey) : Prop :=
  Link db tn cols f ∧ ¬(f.table = ptn ∧ f.columns ∈ pend)

def LInvX (pend : List (List String)) (ptn : String) (db : Db) : Prop :=
  ∀ tn j ix, look db tn j = some ix →
    ix.fkToHere.Nodup ∧ ∀ f, f ∈ ix.fkToHere ↔ LinkX pend ptn db tn ix.columns f

theorem linvX_nil {ptn : String} {db : Db} : LInvX [] ptn db ↔ LInv db := by
  unfold LInvX LInv LinkX
  simp

/-- the spec list and the table agree on which indexes have a foreign key -/
def Agree (db : Db) (tn : String) (specs : List Index) : Prop :=
  ∀ spec ∈ specs, ∀ i six, look db tn i = some six → six.columns = spec.columns →
    six.fk.table = spec.fk.table

theorem Agree.skel {db db' : Db} {tn : String} {specs : List Index} (h : Agree db tn specs)
    (hs : Skel db db') : Agree db' tn specs := by
  intro spec hsp i six hl hc
  obtain ⟨six0, h0, hsk⟩ := hs.bwd hl
  rw [← (sk_fk hsk).1]
  exact h spec hsp i six0 h0 (by rw [sk_columns hsk, hc])

/-! ### one step -/

theorem createFkey1_inv {db : Db} {tn : String} {spec : Index} {db' : Db}
    (h : createFkey1 db tn spec = some db') :
    (spec.fk.table = "" ∧ db' = db) ∨
    (spec.fk.table ≠ "" ∧ ∃ (tsi : Nat) (six : Index) (j : Nat) (tix : Index),
      look db tn tsi = some six ∧ six.columns = spec.columns ∧
      look db six.fk.table j = some tix ∧
      tix.columns = (if six.fk.columns.isEmpty then spec.columns else six.fk.columns) ∧
      db' = modT (modT db tn tsi (fun ix => { ix with fk := { ix.fk with iindex := j } }))
        six.fk.table j (fun ix => { ix with fkToHere := ix.fkToHere ++ [⟨tn, spec.columns, tsi, six.fk.mode⟩] })) := by
  unfold createFkey1 at h
  split at h
  · rename_i h0
    left
    simp only [Option.some.injEq] at h
    exact ⟨by simpa using h0, h.symm⟩
  · rename_i h0
    right
    refine ⟨by simpa using h0, ?_⟩
    split at h
    · cases h
    · rename_i ts hts
      split at h
      · cases h
      · rename_i tsi htsi
        obtain ⟨six, h1, h2, h3⟩ := findIdx_some htsi
        simp only [h3] at h
        split at h
        · cases h
        · rename_i target htg
          split at h
          · cases h
          · rename_i j hj
            obtain ⟨tix, g1, g2, _⟩ := findIdx_some hj
            split at h
            · cases h
            · simp only [Option.some.injEq] at h
              refine ⟨tsi, six, j, tix, ?_, h2, ?_, g2, h.symm⟩
              · rw [look_of_getT hts]; exact h1
              · rw [look_of_getT htg]; exact g1

end Gsu.SchemaAlg

namespace Gsu.SchemaAlg

/-- the result of the two `modT`s of `createFkey1`, index by index -/
theorem look_linkStep (db : Db) (tn : String) (tsi : Nat) (S : String) (j : Nat) (e : Fkey)
    (n : String) (i : Nat) (ix' : Index)
    (hl : look (modT (modT db tn tsi (fun ix => { ix with fk := { ix.fk with iindex := j } }))
        S j (fun ix => { ix with fkToHere := ix.fkToHere ++ [e] })) n i = some ix') :
    ∃ ix0, look db n i = some ix0 ∧ ix'.columns = ix0.columns ∧
      ix'.fkToHere = ix0.fkToHere ++ (if n = S ∧ i = j then [e] else []) := by
  rw [look_modT, look_modT] at hl
  by_cases h1 : n = S ∧ i = j
  · rw [if_pos h1] at hl
    by_cases h2 : n = tn ∧ i = tsi
    · rw [if_pos h2, Option.map_map] at hl
      obtain ⟨ix0, h0, rfl⟩ := Option.map_eq_some_iff.mp hl
      exact ⟨ix0, h0, rfl, by simp [h1]⟩
    · rw [if_neg h2] at hl
      obtain ⟨ix0, h0, rfl⟩ := Option.map_eq_some_iff.mp hl
      exact ⟨ix0, h0, rfl, by simp [h1]⟩
  · rw [if_neg h1] at hl
    by_cases h2 : n = tn ∧ i = tsi
    · rw [if_pos h2] at hl
      obtain ⟨ix0, h0, rfl⟩ := Option.map_eq_some_iff.mp hl
      exact ⟨ix0, h0, rfl, by simp [h1]⟩
    · rw [if_neg h2] at hl
      exact ⟨ix', hl, rfl, by simp [h1]⟩

theorem skel_linkStep (db : Db) (tn : String) (tsi : Nat) (S : String) (j : Nat) (e : Fkey) :
    Skel db (modT (modT db tn tsi (fun ix => { ix with fk := { ix.fk with iindex := j } }))
        S j (fun ix => { ix with fkToHere := ix.fkToHere ++ [e] })) := by
  exact Skel.trans
    (skel_modT db tn tsi (fun ix => { ix with fk := { ix.fk with iindex := j } }) (fun _ => rfl))
    (skel_modT _ S j (fun ix => { ix with fkToHere := ix.fkToHere ++ [e] }) (fun _ => rfl))

theorem Fkey.ext' {a b : Fkey} (h1 : a.table = b.table) (h2 : a.columns = b.columns)
    (h3 : a.iindex = b.iindex) (h4 : a.mode = b.mode) : a = b := by
  cases a; cases b; simp_all

/-- one `createFkey1` records the link of the pending index `spec.columns` -/
theorem createFkey1_linvX {db : Db} {tn : String} {spec : Index} {pend : List (List String)} {db' : Db}
    (hu : LUniq db) (hc : FkCols db) (hag : Agree db tn [spec]) (hnp : spec.columns ∉ pend)
    (hinv : LInvX (spec.columns :: pend) tn db) (h : createFkey1 db tn spec = some db') :
    LInvX pend tn db' ∧ Skel db db' ∧ names db' = names db := by
  rcases createFkey1_inv h with ⟨h0, rfl⟩ | ⟨h0, tsi, six, j, tix, hsix, hsc, htix, htc, rfl⟩
  · refine ⟨?_, Skel.refl _, rfl⟩
    intro n i ix hl
    obtain ⟨hnd, hm⟩ := hinv n i ix hl
    refine ⟨hnd, fun f => ?_⟩
    rw [hm f]
    unfold LinkX
    constructor
    · rintro ⟨hlk, hp⟩
      exact ⟨hlk, fun ⟨a, b⟩ => hp ⟨a, List.mem_cons_of_mem _ b⟩⟩
    · rintro ⟨hlk, hp⟩
      refine ⟨hlk, ?_⟩
      rintro ⟨a, b⟩
      rcases List.mem_cons.mp b with b | b
      · obtain ⟨hne, s6, hs6, g1, _, g3, _⟩ := hlk
        have := hag spec (by simp) f.iindex s6 (by rw [← a]; exact hs6) (by rw [g1, b])
        rw [g3, h0] at this
        exact hne this
      · exact hp ⟨a, b⟩
  · have hsk := skel_linkStep db tn tsi six.fk.table j ⟨tn, spec.columns, tsi, six.fk.mode⟩
    refine ⟨?_, hsk, by rw [names_modT, names_modT]⟩
    have hfk : six.fk.table ≠ "" := by
      rw [hag spec (by simp) tsi six hsix hsc]; exact h0
    have hfc : six.fk.columns ≠ [] := hc _ _ _ hsix hfk
    have htc' : tix.columns = six.fk.columns := by
      rw [htc]
      cases hcol : six.fk.columns with
      | nil => exact absurd hcol hfc
      | cons a r => simp
    intro n i ix' hl
    obtain ⟨ix0, hl0, hcols, hback⟩ := look_linkStep _ _ _ _ _ _ _ _ _ hl
    obtain ⟨hnd, hm⟩ := hinv n i ix0 hl0
    -- the new entry belongs exactly here
    have key : ∀ f, (Link db n ix0.columns f ∧ f.table = tn ∧ f.columns = spec.columns) ↔
        ((n = six.fk.table ∧ i = j) ∧ f = ⟨tn, spec.columns, tsi, six.fk.mode⟩) := by
      intro f
      constructor
      · rintro ⟨⟨hne, s6, hs6, g1, g2, g3, g4⟩, a, b⟩
        have hpos : f.iindex = tsi := hu tn f.iindex tsi s6 six (by rw [← a]; exact hs6) hsix
          (by rw [g1, b, hsc])
        rw [a, hpos, hsix] at hs6
        cases hs6
        have hn : n = six.fk.table := g3.symm
        subst hn
        have hi : i = j := hu _ i j ix0 tix hl0 htix (by rw [htc', g4])
        exact ⟨⟨rfl, hi⟩, Fkey.ext' a b hpos g2.symm⟩
      · rintro ⟨⟨hn, hi⟩, rfl⟩
        subst hn; subst hi
        rw [htix] at hl0; cases hl0
        exact ⟨⟨hfk, six, hsix, hsc, rfl, rfl, htc'.symm⟩, rfl, rfl⟩
    rw [hcols, hback]
    constructor
    · rw [List.nodup_append]
      refine ⟨hnd, by split <;> simp, ?_⟩
      intro a ha b hb hab
      subst hab
      split at hb
      · simp only [List.mem_singleton] at hb
        have := ((hm a).mp ha).2
        apply this
        rw [hb]
        exact ⟨rfl, List.mem_cons_self⟩
      · cases hb
    · intro f
      rw [List.mem_append, hm f]
      unfold LinkX
      rw [link_skel hsk]
      constructor
      · rintro (⟨hlk, hp⟩ | hx)
        · exact ⟨hlk, fun ⟨a, b⟩ => hp ⟨a, List.mem_cons_of_mem _ b⟩⟩
        · split at hx
          · rename_i hcond
            simp only [List.mem_singleton] at hx
            have := (key f).mpr ⟨hcond, hx⟩
            refine ⟨this.1, ?_⟩
            rintro ⟨_, b⟩
            rw [this.2.2] at b
            exact hnp b
          · cases hx
      · rintro ⟨hlk, hp⟩
        by_cases hq : f.table = tn ∧ f.columns = spec.columns
        · right
          have := (key f).mp ⟨hlk, hq.1, hq.2⟩
          rw [if_pos this.1]
          simp [this.2]
        · left
          refine ⟨hlk, ?_⟩
          rintro ⟨a, b⟩
          rcases List.mem_cons.mp b with b | b
          · exact hq ⟨a, b⟩
          · exact hp ⟨a, b⟩

end Gsu.SchemaAlg

namespace Gsu.SchemaAlg

/-- `createFkeys` records the links of all pending indexes -/
theorem createFkeys_linv {tn : String} : ∀ (specs : List Index) (db db' : Db),
    LUniq db → FkCols db → Agree db tn specs → (specs.map (·.columns)).Nodup →
    LInvX (specs.map (·.columns)) tn db → createFkeys db tn specs = some db' →
    LInv db' ∧ Skel db db' ∧ names db' = names db
  | [], db, db', _, _, _, _, hinv, h => by
    simp only [createFkeys, Option.some.injEq] at h
    subst h
    exact ⟨linvX_nil.mp hinv, Skel.refl _, rfl⟩
  | spec :: r, db, db', hu, hc, hag, hnd, hinv, h => by
    simp only [createFkeys] at h
    split at h
    · cases h
    · rename_i db1 h1
      rw [List.map_cons, List.nodup_cons] at hnd
      have hag1 : Agree db tn [spec] := fun s hs => hag s (by simp at hs; simp [hs])
      obtain ⟨i1, s1, n1⟩ := createFkey1_linvX hu hc hag1 hnd.1 hinv h1
      have hag2 : Agree db1 tn r := Agree.skel (fun s hs => hag s (List.mem_cons_of_mem _ hs)) s1
      obtain ⟨i2, s2, n2⟩ := createFkeys_linv r db1 db' (hu.skel s1) (hc.skel s1) hag2 hnd.2 i1 h
      exact ⟨i2, s1.trans s2, n2.trans n1⟩

end Gsu.SchemaAlg
