/-
C13: the decimal digit side of `packInt` (`digits10`, `stripZ`, `pairs`) related to the
digit-pair value `pv`, and `pack_canonical` (SuInt64 and smi/SuDnum encodings of the same
integer are byte-identical).
-/
import Gsu.Proofs.Pack
namespace Gsu.Pack
open Gsu.Proto

/-- value of a most-significant-first digit list -/
def val : List Nat → Nat
  | [] => 0
  | d :: ds => d * 10 ^ ds.length + val ds

/-- base-10 analogue of `pv`: digits as a fraction scaled to `k` digits -/
def dv : Nat → List Nat → Nat
  | _, [] => 0
  | k, d :: ds => d * 10 ^ (k - 1) + dv (k - 1) ds

def Dig (ds : List Nat) : Prop := ∀ d ∈ ds, d < 10

theorem Dig.tail {d : Nat} {ds : List Nat} (h : Dig (d :: ds)) : Dig ds :=
  fun x hx => h x (by simp [hx])

theorem dv_eq_val (k : Nat) (ds : List Nat) (h : ds.length ≤ k) :
    dv k ds = val ds * 10 ^ (k - ds.length) := by
  induction ds generalizing k with
  | nil => simp [dv, val]
  | cons d ds ih =>
    obtain ⟨k', rfl⟩ : ∃ k', k = k' + 1 := ⟨k - 1, by simp at h; omega⟩
    have hl : ds.length ≤ k' := by simp at h; omega
    simp only [dv, val, Nat.add_sub_cancel, List.length_cons, Nat.add_sub_add_right, ih k' hl]
    have : 10 ^ k' = 10 ^ ds.length * 10 ^ (k' - ds.length) := by
      rw [← Nat.pow_add]; congr 1; omega
    rw [this]; ring

theorem val_lt (ds : List Nat) (h : Dig ds) : val ds < 10 ^ ds.length := by
  induction ds with
  | nil => simp [val]
  | cons d ds ih =>
    have h1 := ih h.tail
    have h2 : d ≤ 9 := by have := h d (by simp); omega
    have h3 := Nat.mul_le_mul_right (10 ^ ds.length) h2
    simp only [val, List.length_cons, Nat.pow_succ]
    linarith

theorem val_ge (d : Nat) (ds : List Nat) (h : 0 < d) : 10 ^ ds.length ≤ val (d :: ds) := by
  have := Nat.mul_le_mul_right (10 ^ ds.length) (show 1 ≤ d by omega)
  simp only [val]; linarith

/-! ## `digitsF` -/

theorem digitsF_zero (f : Nat) (acc : List Nat) : digitsF f 0 acc = acc := by
  cases f <;> simp [digitsF]

theorem digitsF_val (f n : Nat) (acc : List Nat) (h : n < 10 ^ f) :
    val (digitsF f n acc) = n * 10 ^ acc.length + val acc := by
  induction f generalizing n acc with
  | zero => simp at h; subst h; simp [digitsF]
  | succ f ih =>
    simp only [digitsF]
    split
    · rename_i h0; subst h0; simp
    · have hlt : n / 10 < 10 ^ f := by
        apply Nat.div_lt_of_lt_mul; rw [Nat.pow_succ] at h; omega
      rw [ih (n / 10) _ hlt]
      simp only [val, List.length_cons, Nat.pow_succ]
      have := Nat.div_add_mod n 10
      have e : n * 10 ^ acc.length = (10 * (n / 10) + n % 10) * 10 ^ acc.length := by rw [this]
      rw [e]; ring

theorem digitsF_dig (f n : Nat) (acc : List Nat) (h : Dig acc) : Dig (digitsF f n acc) := by
  induction f generalizing n acc with
  | zero => simpa [digitsF] using h
  | succ f ih =>
    simp only [digitsF]
    split
    · exact h
    · apply ih
      intro d hd
      simp only [List.mem_cons] at hd
      rcases hd with hd | hd
      · subst hd; exact Nat.mod_lt _ (by decide)
      · exact h d hd

theorem digitsF_head (f n : Nat) (acc : List Nat) (h0 : 0 < n) (h : n < 10 ^ f) :
    ∃ d r, digitsF f n acc = d :: r ∧ 0 < d := by
  induction f generalizing n acc with
  | zero => simp at h; omega
  | succ f ih =>
    simp only [digitsF]
    have hn : ¬ n = 0 := by omega
    simp only [hn, if_false]
    by_cases hz : n / 10 = 0
    · rw [hz, digitsF_zero]
      exact ⟨n % 10, acc, rfl, by omega⟩
    · have hlt : n / 10 < 10 ^ f := by
        apply Nat.div_lt_of_lt_mul; rw [Nat.pow_succ] at h; omega
      exact ih (n / 10) _ (by omega) hlt

/-- the decimal digits of `u`: value, digit range, leading digit, and the number of digits -/
theorem digits10_spec (u : Nat) (h0 : 0 < u) (h : u < 10 ^ 20) :
    val (digits10 u) = u ∧ Dig (digits10 u) ∧ (∃ d r, digits10 u = d :: r ∧ 0 < d) ∧
      u < 10 ^ (digits10 u).length ∧ 10 ^ ((digits10 u).length - 1) ≤ u := by
  have hv := digitsF_val 20 u [] h
  simp only [val, List.length_nil, Nat.pow_zero, Nat.mul_one, Nat.add_zero] at hv
  have hd := digitsF_dig 20 u [] (fun _ h => by simp at h)
  obtain ⟨d, r, hr, hpos⟩ := digitsF_head 20 u [] h0 h
  refine ⟨hv, hd, ⟨d, r, hr, hpos⟩, ?_, ?_⟩
  · have := val_lt _ hd
    simp only [digits10] at hv ⊢
    rw [hv] at this; exact this
  · simp only [digits10] at hv ⊢
    rw [hr] at hv ⊢
    have := val_ge d r hpos
    simp only [List.length_cons, Nat.add_sub_cancel]
    omega

/-! ## `stripZ` -/

theorem stripZ_dv (k : Nat) (ds : List Nat) : dv k (stripZ ds) = dv k ds := by
  induction ds generalizing k with
  | nil => rfl
  | cons d ds ih =>
    simp only [stripZ]
    have ih' := ih (k - 1)
    split
    · rename_i hs
      rw [hs] at ih'
      simp only [dv] at ih'
      split
      · rename_i hd; subst hd; simp [dv, ← ih']
      · simp [dv, ← ih']
    · simp only [dv, ih']

theorem stripZ_dig (ds : List Nat) (h : Dig ds) : Dig (stripZ ds) := by
  induction ds with
  | nil => exact h
  | cons d ds ih =>
    simp only [stripZ]
    have ih' := ih h.tail
    split
    · split
      · intro x hx; simp at hx
      · intro x hx; simp at hx; subst hx; exact h x (by simp)
    · intro x hx
      simp only [List.mem_cons] at hx
      rcases hx with hx | hx
      · subst hx; exact h x (by simp)
      · exact ih' x hx

theorem stripZ_notrail (ds : List Nat) : NoTrail0 (stripZ ds) := by
  induction ds with
  | nil => simp [stripZ, NoTrail0]
  | cons d ds ih =>
    simp only [stripZ]
    split
    · split
      · simp [NoTrail0]
      · rename_i hd; simp [NoTrail0]; exact hd
    · rename_i r hne
      cases hr : stripZ ds with
      | nil => exact absurd hr (by simpa using hne)
      | cons x xs =>
        rw [hr] at ih
        simpa [NoTrail0, List.getLast?_cons_cons] using ih

theorem stripZ_length (ds : List Nat) : (stripZ ds).length ≤ ds.length := by
  induction ds with
  | nil => simp [stripZ]
  | cons d ds ih =>
    simp only [stripZ]
    split
    · split <;> simp
    · simp; exact ih

/-! ## `pairs` -/

theorem pairs_pv : ∀ (ds : List Nat) (k : Nat), ds.length ≤ 2 * k → pv k (pairs ds) = dv (2 * k) ds
  | [], _, _ => by simp [pairs, pv, dv]
  | [d], k, h => by
    obtain ⟨k', rfl⟩ : ∃ k', k = k' + 1 := ⟨k - 1, by simp at h; omega⟩
    simp only [pairs, pv, dv, Nat.add_sub_cancel, Nat.add_zero]
    have : 10 ^ (2 * (k' + 1) - 1) = 10 * 100 ^ k' := by
      rw [show 2 * (k' + 1) - 1 = 2 * k' + 1 by omega, Nat.pow_succ, Nat.pow_mul]; norm_num; ring
    rw [this]; ring
  | d :: e :: rest, k, h => by
    obtain ⟨k', rfl⟩ : ∃ k', k = k' + 1 := ⟨k - 1, by simp at h; omega⟩
    have ih := pairs_pv rest k' (by simp at h; omega)
    simp only [pairs, pv, dv, Nat.add_sub_cancel, ih]
    have e1 : 10 ^ (2 * (k' + 1) - 1) = 10 * 100 ^ k' := by
      rw [show 2 * (k' + 1) - 1 = 2 * k' + 1 by omega, Nat.pow_succ, Nat.pow_mul]; norm_num; ring
    have e2 : 10 ^ (2 * (k' + 1) - 1 - 1) = 100 ^ k' := by
      rw [show 2 * (k' + 1) - 1 - 1 = 2 * k' by omega, Nat.pow_mul]
    have e3 : 2 * (k' + 1) - 1 - 1 = 2 * k' := by omega
    rw [e1, e2, e3]; ring

theorem pairs_small : ∀ (ds : List Nat), Dig ds → Small (pairs ds)
  | [], _ => fun _ h => by simp [pairs] at h
  | [d], h => fun x hx => by
    simp only [pairs, List.mem_singleton] at hx
    subst hx
    have := h d (by simp)
    omega
  | d :: e :: rest, h => fun x hx => by
    simp only [pairs, List.mem_cons] at hx
    rcases hx with hx | hx
    · subst hx
      have := h d (by simp); have := h e (by simp); omega
    · exact pairs_small rest (fun y hy => h y (by simp [hy])) x hx

theorem pairs_notrail : ∀ (ds : List Nat), NoTrail0 ds → NoTrail0 (pairs ds)
  | [], _ => by simp [pairs, NoTrail0]
  | [d], h => by
    simp only [NoTrail0, List.getLast?_singleton, ne_eq, Option.some.injEq, pairs] at h ⊢; omega
  | [d, e], h => by
    simp only [NoTrail0, pairs, List.getLast?_singleton, ne_eq, Option.some.injEq] at h ⊢
    simp [List.getLast?_cons_cons] at h
    omega
  | d :: e :: x :: rest, h => by
    have ih := pairs_notrail (x :: rest) (by simpa [NoTrail0, List.getLast?_cons_cons] using h)
    simp only [pairs]
    cases hp : pairs (x :: rest) with
    | nil => cases rest <;> simp [pairs] at hp
    | cons y ys =>
      rw [hp] at ih
      simpa [NoTrail0, List.getLast?_cons_cons] using ih

theorem pairs_length : ∀ (ds : List Nat), (pairs ds).length = (ds.length + 1) / 2
  | [] => rfl
  | [_] => by simp [pairs]
  | _ :: _ :: rest => by simp [pairs, pairs_length rest]; omega

/-- the digit-pair list `packInt` emits for `u`: small entries, no trailing zero pair, value -/
theorem intPairs_facts (u : Nat) (h0 : 0 < u) (h : u < 10 ^ 20) (k : Nat)
    (hk : (digits10 u).length ≤ 2 * k) :
    Small (pairs (stripZ (digits10 u))) ∧ NoTrail0 (pairs (stripZ (digits10 u))) ∧
      (pairs (stripZ (digits10 u))).length ≤ k ∧
      pv k (pairs (stripZ (digits10 u))) = u * 10 ^ (2 * k - (digits10 u).length) := by
  obtain ⟨hv, hd, _, _, _⟩ := digits10_spec u h0 h
  have hl := stripZ_length (digits10 u)
  refine ⟨pairs_small _ (stripZ_dig _ hd), pairs_notrail _ (stripZ_notrail _), ?_, ?_⟩
  · rw [pairs_length]; omega
  · rw [pairs_pv _ k (by omega), stripZ_dv, dv_eq_val _ _ hk, hv]

theorem cmpL_eq (ps qs : List Nat) (h : cmpL ps qs = .eq) : ps = qs := by
  induction ps generalizing qs with
  | nil => cases qs with
    | nil => rfl
    | cons q qs => simp [cmpL] at h
  | cons p ps ih =>
    cases qs with
    | nil => simp [cmpL] at h
    | cons q qs =>
      simp only [cmpL] at h
      split at h
      · cases h
      · split at h
        · cases h
        · have : p = q := by omega
          subst this; rw [ih qs h]

/-- `packInt n = packDnum (fromInt n)` whenever `FromInt` is exact (at most 16 digits):
SuInt64 and smi/SuDnum representations of the same integer pack to identical bytes -/
theorem pack_canonical (n : Int) (h0 : n ≠ 0) (h : n.natAbs ≤ coefMax) :
    packInt n = packDnum (fromInt n) := by
  have hu0 : 0 < n.natAbs := by omega
  have hu : n.natAbs < 10 ^ 20 := by simp only [coefMax] at h; omega
  obtain ⟨hv, hd, _, hlt, hge⟩ := digits10_spec n.natAbs hu0 hu
  have hnd : (digits10 n.natAbs).length ≤ 16 := by
    by_cases hc : (digits10 n.natAbs).length ≤ 16
    · exact hc
    · exfalso
      have : 10 ^ 16 ≤ 10 ^ ((digits10 n.natAbs).length - 1) :=
        Nat.pow_le_pow_right (by decide) (by omega)
      simp only [coefMax] at h; omega
  obtain ⟨s1, t1, l1, p1⟩ := intPairs_facts n.natAbs hu0 hu 8 (by omega)
  -- the coefficient FromInt produces
  have hc0 : 0 < n.natAbs * 10 ^ (16 - (digits10 n.natAbs).length) :=
    Nat.mul_pos hu0 (Nat.pow_pos (by decide))
  have hc1 : n.natAbs * 10 ^ (16 - (digits10 n.natAbs).length) < 100 ^ 8 := by
    have e : (10 : Nat) ^ (digits10 n.natAbs).length * 10 ^ (16 - (digits10 n.natAbs).length) = 100 ^ 8 := by
      rw [← Nat.pow_add, show (digits10 n.natAbs).length + (16 - (digits10 n.natAbs).length) = 16 by omega]
      norm_num
    have := Nat.mul_lt_mul_of_pos_right hlt (Nat.pow_pos (n := 16 - (digits10 n.natAbs).length) (show 0 < 10 by decide))
    rw [e] at this; exact this
  have s2 := coefBytes_small 7 _ hc1
  have t2 := coefBytes_notrail 7 _ hc0
  have l2 := coefBytes_length 7 (n.natAbs * 10 ^ (16 - (digits10 n.natAbs).length))
  have p2 := pv_coefBytes 7 (n.natAbs * 10 ^ (16 - (digits10 n.natAbs).length))
  have hcmp := cmpL_eq_cmpNat 8 _ _ s1 s2 t1 t2 l1 l2
  rw [p1, p2] at hcmp
  have heq := cmpL_eq _ _ (by rw [hcmp]; simp [cmpNat])
  have hnz : ¬ n.natAbs = 0 := by omega
  have hle : ¬ n.natAbs > coefMax := by omega
  by_cases hneg : n < 0
  · simp only [packInt, fromInt, packDnum, hnz, h0, hle, hneg, if_true, if_false, heq,
      show ((-1 : Int) < 0) by decide, show ¬ ((-1 : Int) = 0) by decide,
      show ¬ ((-1 : Int) = 2 ∨ (-1 : Int) = -2) by decide]
  · simp only [packInt, fromInt, packDnum, hnz, h0, hle, hneg, if_false, heq,
      show ¬ ((1 : Int) < 0) by decide, show ¬ ((1 : Int) = 0) by decide,
      show ¬ ((1 : Int) = 2 ∨ (1 : Int) = -2) by decide]

end Gsu.Pack
