/-
C35, global coherence of the record-rule cache, part 1: the specification evaluator, the record
invariant `NInv`, basic list/record lemmas, and completeness of the depth-first `invalidate`.

Part 2 (`RecRules3.lean`): nested rule evaluation (`getN`/`evalE`) preserves the invariant and
returns the specification value; part 3 (`RecRules4.lean`): every operation preserves the
invariant, and the history theorem.
-/
import Gsu.Proofs.RecRules
namespace Gsu.RecRules

/-! ### static reads of an expression and the specification evaluator -/

/-- the fields an expression reads (`evalE` has no short circuit, so all of them are read) -/
def fields : Expr → List Field
  | .lit _ => []
  | .fld f => [f]
  | .add a b => fields a ++ fields b
  | .sub a b => fields a ++ fields b
  | .mul a b => fields a ++ fields b

/-- pure evaluation of an expression in an environment; "" is 0 in arithmetic, a bare field read
returns the raw value -/
def specE (g : Field → Val) : Expr → Val
  | .lit n => some n
  | .fld f => g f
  | .add a b => some ((specE g a).getD 0 + (specE g b).getD 0)
  | .sub a b => some ((specE g a).getD 0 - (specE g b).getD 0)
  | .mul a b => some ((specE g a).getD 0 * (specE g b).getD 0)

/-- the specification evaluator: the value of field `k` given the plain-field environment `g`;
a plain field (no rule) is `g k`, a rule field is its rule body evaluated purely (fuel `n` bounds
the rule nesting; `specN_stable`: the result does not depend on the fuel above the rank of `k`) -/
def specN : Nat → Rules → (Field → Val) → Field → Val
  | 0, rules, g, k =>
    match lk rules k with
    | none => g k
    | some _ => none
  | n + 1, rules, g, k =>
    match lk rules k with
    | none => g k
    | some rule => specE (specN n rules g) rule.body

/-- the plain-field environment of a record: a missing member reads as "" -/
def plainEnv (vals : List (Field × Val)) (f : Field) : Val := (lk vals f).getD none

/-- acyclic, unguarded rule set: every field read by the rule of `k` has a smaller rank -/
structure Acyc (rules : Rules) (rank : Field → Nat) : Prop where
  lt : ∀ k rule, lk rules k = some rule → ∀ f ∈ fields rule.body, rank f < rank k
  ung : ∀ k rule, lk rules k = some rule → rule.guard = none

theorem specE_congr (g1 g2 : Field → Val) (e : Expr)
    (h : ∀ f ∈ fields e, g1 f = g2 f) : specE g1 e = specE g2 e := by
  induction e with
  | lit n => rfl
  | fld f => exact h f (by simp [fields])
  | add a b iha ihb =>
    simp only [specE]
    rw [iha (fun f hf => h f (by simp [fields, hf])), ihb (fun f hf => h f (by simp [fields, hf]))]
  | sub a b iha ihb =>
    simp only [specE]
    rw [iha (fun f hf => h f (by simp [fields, hf])), ihb (fun f hf => h f (by simp [fields, hf]))]
  | mul a b iha ihb =>
    simp only [specE]
    rw [iha (fun f hf => h f (by simp [fields, hf])), ihb (fun f hf => h f (by simp [fields, hf]))]

theorem specN_plain (n : Nat) (rules : Rules) (g : Field → Val) (k : Field)
    (h : lk rules k = none) : specN n rules g k = g k := by
  cases n <;> simp [specN, h]

theorem specN_rule (n : Nat) (rules : Rules) (g : Field → Val) (k : Field) (rule : Rule)
    (h : lk rules k = some rule) :
    specN (n + 1) rules g k = specE (specN n rules g) rule.body := by
  simp [specN, h]

/-- the specification value does not depend on the fuel once it exceeds the rank -/
theorem specN_fuel {rules : Rules} {rank : Field → Nat} (ha : Acyc rules rank)
    (g : Field → Val) (m : Nat) : ∀ (m' : Nat) (k : Field), rank k < m → rank k < m' →
    specN m rules g k = specN m' rules g k := by
  induction m with
  | zero => intro m' k h; omega
  | succ m ih =>
    intro m' k h h'
    cases m' with
    | zero => omega
    | succ m' =>
      cases hr : lk rules k with
      | none => rw [specN_plain _ _ _ _ hr, specN_plain _ _ _ _ hr]
      | some rule =>
        rw [specN_rule _ _ _ _ _ hr, specN_rule _ _ _ _ _ hr]
        apply specE_congr
        intro f hf
        have := ha.lt k rule hr f hf
        exact ih m' f (by omega) (by omega)

/-- the specification value of `k` (fuel just above the rank) -/
def spec (rules : Rules) (rank : Field → Nat) (g : Field → Val) (k : Field) : Val :=
  specN (rank k + 1) rules g k

theorem specN_stable {rules : Rules} {rank : Field → Nat} (ha : Acyc rules rank)
    (g : Field → Val) (m : Nat) (k : Field) (h : rank k < m) :
    specN m rules g k = spec rules rank g k :=
  specN_fuel ha g m (rank k + 1) k h (by omega)

theorem spec_plain (rules : Rules) (rank : Field → Nat) (g : Field → Val) (k : Field)
    (h : lk rules k = none) : spec rules rank g k = g k := specN_plain _ _ _ _ h

theorem spec_rule {rules : Rules} {rank : Field → Nat} (ha : Acyc rules rank)
    (g : Field → Val) (k : Field) (rule : Rule) (h : lk rules k = some rule) :
    spec rules rank g k = specE (spec rules rank g) rule.body := by
  unfold spec
  rw [specN_rule _ _ _ _ _ h]
  apply specE_congr
  intro f hf
  exact specN_stable ha g (rank k) f (ha.lt k rule h f hf)

/-- the specification value depends only on the plain fields of the environment -/
theorem specN_congr (rules : Rules) (g g' : Field → Val)
    (h : ∀ f, lk rules f = none → g f = g' f) (m : Nat) :
    ∀ k, specN m rules g k = specN m rules g' k := by
  induction m with
  | zero =>
    intro k
    cases hr : lk rules k with
    | none => rw [specN_plain _ _ _ _ hr, specN_plain _ _ _ _ hr]; exact h k hr
    | some rule => simp [specN, hr]
  | succ m ih =>
    intro k
    cases hr : lk rules k with
    | none => rw [specN_plain _ _ _ _ hr, specN_plain _ _ _ _ hr]; exact h k hr
    | some rule =>
      rw [specN_rule _ _ _ _ _ hr, specN_rule _ _ _ _ _ hr]
      exact specE_congr _ _ _ (fun f _ => ih f)

/-! ### association lists -/

theorem lk_delv {α} (m : List (Field × α)) (k k' : Field) :
    lk (delv m k) k' = if k' = k then none else lk m k' := by
  induction m with
  | nil => simp [delv, lk]
  | cons p r ih =>
    obtain ⟨a, x⟩ := p
    simp only [delv] at ih ⊢
    by_cases ha : a = k
    · subst ha
      simp only [List.filter, ne_eq, not_true_eq_false, decide_false, lk]
      rw [ih]
      by_cases h : k' = a
      · simp [h]
      · have : ¬ a = k' := fun e => h e.symm
        simp [h, this]
    · simp only [List.filter, ne_eq, ha, not_false_eq_true, decide_true, lk]
      rw [ih]
      by_cases h : a = k'
      · have : ¬ k' = k := fun e => ha (h.trans e)
        simp [h, this]
      · simp [h]

theorem depsOf_eq_of_deps {r r' : Rec} (h : r'.deps = r.deps) (f : Field) :
    depsOf r' f = depsOf r f := by
  simp [depsOf, h]

theorem mem_depsOf_addDependent (r : Rec) (frm to f d : Field) :
    d ∈ depsOf (addDependent r frm to) f ↔
      d ∈ depsOf r f ∨ (d = frm ∧ f = to ∧ frm ≠ to) := by
  unfold addDependent
  by_cases h1 : frm = to
  · simp [h1]
  · simp only [h1, if_false]
    by_cases h2 : frm ∈ depsOf r to
    · simp only [h2, if_true]
      constructor
      · exact Or.inl
      · rintro (h | ⟨rfl, rfl, _⟩)
        · exact h
        · exact h2
    · simp only [h2, if_false]
      by_cases hf : f = to
      · subst hf
        simp only [depsOf, lk_setv, if_true, Option.getD_some, List.mem_append,
          List.mem_singleton]
        simp [h1]
      · have : depsOf { r with deps := setv r.deps to (depsOf r to ++ [frm]) } f = depsOf r f := by
          simp [depsOf, lk_setv, hf]
        rw [this]
        simp [hf]

theorem addDependent_vals (r : Rec) (frm to : Field) : (addDependent r frm to).vals = r.vals := by
  unfold addDependent; split
  · rfl
  · split <;> rfl

theorem addDependent_invalid (r : Rec) (frm to : Field) :
    (addDependent r frm to).invalid = r.invalid := by
  unfold addDependent; split
  · rfl
  · split <;> rfl

/-! ### the record invariant -/

/-- coherence (exempting the fields `P` whose rule is being evaluated): a cached, valid rule
field holds the specification value, every field its rule reads lists it as dependent, and every
rule field its rule reads is cached and valid -/
def Coh (rules : Rules) (rank : Field → Nat) (g : Field → Val) (r : Rec) (P : List Field) : Prop :=
  ∀ k rule v, lk rules k = some rule → lk r.vals k = some v → k ∉ r.invalid → k ∉ P →
    v = spec rules rank g k ∧
    ∀ f ∈ fields rule.body, k ∈ depsOf r f ∧
      (∀ rf, lk rules f = some rf → f ∉ r.invalid ∧ ∃ w, lk r.vals f = some w)

/-- recorded dependencies are real: a dependent of `f` is a rule field whose rule reads `f` -/
def DepsSound (rules : Rules) (r : Rec) : Prop :=
  ∀ f d, d ∈ depsOf r f → ∃ rule, lk rules d = some rule ∧ f ∈ fields rule.body

/-- the invalid set is closed under recorded dependents (up to the exempted fields `P`) -/
def ClosedX (r : Rec) (P : List Field) : Prop :=
  ∀ f, f ∈ r.invalid → ∀ d, d ∈ depsOf r f → d ∈ r.invalid ∨ d ∈ P

structure NInv (rules : Rules) (rank : Field → Nat) (g : Field → Val) (r : Rec) (P : List Field) :
    Prop where
  coh : Coh rules rank g r P
  ds : DepsSound rules r
  cl : ClosedX r P
  nd : r.invalid.Nodup

/-- the environment `g` is the plain-field content of the record -/
def PlainAgree (rules : Rules) (g : Field → Val) (r : Rec) : Prop :=
  ∀ f, lk rules f = none → (lk r.vals f).getD none = g f

theorem ClosedX.mono {r : Rec} {P Q : List Field} (h : ClosedX r P) (hpq : ∀ d, d ∈ P → d ∈ Q) :
    ClosedX r Q := by
  intro f hf d hd
  rcases h f hf d hd with h | h
  · exact Or.inl h
  · exact Or.inr (hpq d h)

theorem DepsSound.rank_lt {rules : Rules} {rank : Field → Nat} (ha : Acyc rules rank) {r : Rec}
    (h : DepsSound rules r) : ∀ f d, d ∈ depsOf r f → rank f < rank d := by
  intro f d hd
  obtain ⟨rule, hr, hf⟩ := h f d hd
  exact ha.lt d rule hr f hf

/-- a plain field is nobody's dependent -/
theorem DepsSound.plain_not_dep {rules : Rules} {r : Rec} (h : DepsSound rules r) {k : Field}
    (hk : lk rules k = none) (f : Field) : k ∉ depsOf r f := by
  intro hd
  obtain ⟨rule, hr, _⟩ := h f k hd
  rw [hk] at hr; cases hr

/-! ### completeness of the depth-first `invalidate` -/

/-- what invalidation does not touch -/
structure InvStep (r r' : Rec) : Prop where
  vals : r'.vals = r.vals
  deps : r'.deps = r.deps
  sub : ∀ j, j ∈ r.invalid → j ∈ r'.invalid
  nd : r.invalid.Nodup → r'.invalid.Nodup

theorem Invalidated.invStep {r r' : Rec} {new : List Field} (h : Invalidated r r' new)
    (hn : r.invalid.Nodup → r'.invalid.Nodup) : InvStep r r' :=
  ⟨h.2.2.1, h.2.2.2.1, fun j hj => by rw [h.2.1]; exact List.mem_append_right _ hj, hn⟩

theorem invalidateN_invStep (n : Nat) (r : Rec) (key : Field) : InvStep r (invalidateN n r key) := by
  obtain ⟨new, h, k⟩ := invalidateN_spec n r key
  exact h.invStep k

theorem invalidateDependents_invStep (n : Nat) (r : Rec) (key : Field) :
    InvStep r (invalidateDependents n r key) := by
  obtain ⟨new, h, k⟩ := invalidateDependents_spec n r key
  exact h.invStep k

theorem InvStep.trans {a b c : Rec} (h1 : InvStep a b) (h2 : InvStep b c) : InvStep a c :=
  ⟨h2.vals.trans h1.vals, h2.deps.trans h1.deps, fun j hj => h2.sub j (h1.sub j hj),
    fun h => h2.nd (h1.nd h)⟩

theorem foldl_invalidateN_invStep (m : Nat) (ds : List Field) (r : Rec) :
    InvStep r (ds.foldl (fun acc d => invalidateN m acc d) r) := by
  obtain ⟨new, h, k⟩ := foldl_invalidated (fun acc d => invalidateN m acc d)
    (fun r d => invalidateN_spec m r d) ds r
  exact h.invStep k

/-- the dependents' fold of `invalidate`, given completeness of the recursive calls -/
theorem foldl_closed (rank : Field → Nat) (N m : Nat)
    (ih : ∀ (r : Rec) (key : Field) (P : List Field),
      (∀ f d, d ∈ depsOf r f → rank f < rank d) → N ≤ m + rank key → ClosedX r (key :: P) →
      ClosedX (invalidateN m r key) P ∧ key ∈ (invalidateN m r key).invalid)
    (P : List Field) (ds : List Field) : ∀ (r : Rec),
    (∀ f d, d ∈ depsOf r f → rank f < rank d) → (∀ d ∈ ds, N ≤ m + rank d) →
    ClosedX r (ds ++ P) →
    ClosedX (ds.foldl (fun acc d => invalidateN m acc d) r) P ∧
      ∀ d ∈ ds, d ∈ (ds.foldl (fun acc d => invalidateN m acc d) r).invalid := by
  induction ds with
  | nil => intro r _ _ hc; exact ⟨by simpa using hc, by simp⟩
  | cons d ds ihl =>
    intro r hr hb hc
    simp only [List.foldl_cons]
    have h1 := ih r d (ds ++ P) hr (hb d (by simp)) (by simpa using hc)
    have hs := invalidateN_invStep m r d
    have hr2 : ∀ f d', d' ∈ depsOf (invalidateN m r d) f → rank f < rank d' := by
      intro f d' hd'
      rw [depsOf_eq_of_deps hs.deps] at hd'
      exact hr f d' hd'
    have h2 := ihl (invalidateN m r d) hr2 (fun d' hd' => hb d' (by simp [hd'])) h1.1
    refine ⟨h2.1, ?_⟩
    intro d' hd'
    rcases List.mem_cons.1 hd' with rfl | hd'
    · exact (foldl_invalidateN_invStep m ds _).sub _ h1.2
    · exact h2.2 d' hd'

/-- `invalidate(key)` with enough fuel reaches every transitive dependent: the invalid set is
closed afterwards and contains `key` -/
theorem invalidateN_closed (rank : Field → Nat) (N : Nat) (hN : ∀ k, rank k < N) (m : Nat) :
    ∀ (r : Rec) (key : Field) (P : List Field),
      (∀ f d, d ∈ depsOf r f → rank f < rank d) → N ≤ m + rank key → ClosedX r (key :: P) →
      ClosedX (invalidateN m r key) P ∧ key ∈ (invalidateN m r key).invalid := by
  induction m with
  | zero => intro r key P _ hb; have := hN key; omega
  | succ m ih =>
    intro r key P hr hb hc
    simp only [invalidateN]
    split
    · rename_i hk
      refine ⟨?_, hk⟩
      intro f hf d hd
      rcases hc f hf d hd with h | h
      · exact Or.inl h
      · rcases List.mem_cons.1 h with rfl | h
        · exact Or.inl hk
        · exact Or.inr h
    · rename_i hk
      let r1 : Rec := { r with queue := r.queue ++ [key], invalid := key :: r.invalid }
      have hd1 : ∀ f, depsOf r1 f = depsOf r f := fun f => rfl
      have hr1 : ∀ f d, d ∈ depsOf r1 f → rank f < rank d := hr
      have hc1 : ClosedX r1 (depsOf r1 key ++ P) := by
        intro f hf d hd
        rcases List.mem_cons.1 hf with rfl | hf
        · exact Or.inr (List.mem_append_left _ hd)
        · rcases hc f hf d hd with h | h
          · exact Or.inl (List.mem_cons_of_mem _ h)
          · rcases List.mem_cons.1 h with rfl | h
            · exact Or.inl (List.mem_cons_self ..)
            · exact Or.inr (List.mem_append_right _ h)
      have hb1 : ∀ d ∈ depsOf r1 key, N ≤ m + rank d := by
        intro d hd
        have := hr key d hd
        omega
      have h2 := foldl_closed rank N m ih P (depsOf r1 key) r1 hr1 hb1 hc1
      refine ⟨h2.1, ?_⟩
      exact (foldl_invalidateN_invStep m _ r1).sub key (List.mem_cons_self ..)

end Gsu.RecRules
