/-
C08 — row lengths, and the foreign key invariant over whole histories including updates that
change referenced keys (`run_inv2`).  Core only.
-/
import Gsu.Proofs.LDb3
set_option linter.unusedVariables false
namespace Gsu.LDb
open Gsu.Proto

/-! ### row lengths -/

theorem runDel_sub (env : Env) : ∀ (n : Nat) (w : W) (st : List DTask) (w' : W),
    runDel env n w st = .ok w' → ∀ t r, r ∈ w'.db t → r ∈ w.db t := by
  intro n
  induction n with
  | zero =>
    intro w st w' h
    cases st with
    | nil => simp [runDel] at h; cases h; exact fun _ _ h => h
    | cons x rest => simp [runDel] at h
  | succ n ih =>
    intro w st w' h
    cases st with
    | nil => simp [runDel] at h; cases h; exact fun _ _ h => h
    | cons x rest =>
      cases x with
      | del t row =>
        simp only [runDel] at h
        split at h
        · cases h
        · split at h
          · cases h
          · split at h
            · cases h
            · exact ih _ _ _ h
      | casc f key =>
        simp only [runDel] at h
        split at h
        · exact ih _ _ _ h
        · exact ih _ _ _ h
      | fin t row =>
        simp only [runDel] at h
        split at h
        · cases h
        · rename_i w1 hch
          intro t' r hr
          have := ih _ _ _ h t' r hr
          rw [change_db hch] at this
          exact erase_sub _ _ _ _ _ this

theorem opDelete_len {env : Env} {w w' : W} {t : Nat} {row : Row}
    (h : opDelete env w t row = .ok w') (hl : LenOk env.sch w.db) : LenOk env.sch w'.db := by
  unfold opDelete at h
  split at h
  · cases h
  · split at h
    · cases h
    · split at h
      · rename_i w1 hrun
        cases h
        intro t' r hr
        exact hl t' r (runDel_sub env _ _ _ _ hrun t' r hr)
      · cases h

theorem opOutput_len {env : Env} {w w' : W} {t : Nat} {row : Row}
    (h : opOutput env w t row = .ok w') (hlen : row.length = ncols env.sch t)
    (hl : LenOk env.sch w.db) : LenOk env.sch w'.db := by
  unfold opOutput at h
  split at h
  · cases h
  · split at h
    · rename_i w1 hch
      cases h
      rw [change_db hch]
      intro t' r hr
      unfold applyChange at hr
      split at hr
      · rename_i heq
        rcases List.mem_append.mp hr with h1 | h1
        · rw [heq]; exact hl t r h1
        · have : r = row := by simpa using h1
          rw [this, heq]; exact hlen
      · exact hl t' r hr
    · cases h

/-- the new versions of the rows in the stack have the right length -/
def ULen (sch : Schema) (st : List UTask) : Prop :=
  (∀ t o n b, UTask.upd t o n b ∈ st → n.length = ncols sch t) ∧
  (∀ t o n, UTask.fin t o n ∈ st → n.length = ncols sch t)

theorem runUpd_len (env : Env) : ∀ (n : Nat) (w : W) (st : List UTask) (w' : W),
    runUpd env n w st = .ok w' → LenOk env.sch w.db → ULen env.sch st → LenOk env.sch w'.db := by
  intro n
  induction n with
  | zero =>
    intro w st w' h hl _
    cases st with
    | nil => simp [runUpd] at h; cases h; exact hl
    | cons x rest => simp [runUpd] at h
  | succ n ih =>
    intro w st w' h hl hu
    cases st with
    | nil => simp [runUpd] at h; cases h; exact hl
    | cons x rest =>
      have hrest : ULen env.sch rest :=
        ⟨fun t o n b hm => hu.1 t o n b (List.mem_cons_of_mem _ hm),
         fun t o n hm => hu.2 t o n (List.mem_cons_of_mem _ hm)⟩
      cases x with
      | upd s r r' b =>
        simp only [runUpd] at h
        split at h
        · exact ih _ _ _ h hl hrest
        · split at h
          · cases h
          · split at h
            · cases h
            · split at h
              · cases h
              · refine ih _ _ _ h hl ⟨?_, ?_⟩
                · intro t o n b hm
                  rcases List.mem_append.mp hm with h1 | h1
                  · obtain ⟨_, _, _, _, _, _, _, _, h2⟩ := cascUpd_mem h1
                    cases h2
                  · rcases List.mem_cons.mp h1 with h2 | h2
                    · cases h2
                    · exact hrest.1 t o n b h2
                · intro t o n hm
                  rcases List.mem_append.mp hm with h1 | h1
                  · obtain ⟨_, _, _, _, _, _, _, _, h2⟩ := cascUpd_mem h1
                    cases h2
                  · rcases List.mem_cons.mp h1 with h2 | h2
                    · injection h2 with e1 e2 e3
                      subst e1 e3
                      exact hu.1 _ _ _ _ List.mem_cons_self
                    · exact hrest.2 t o n h2
      | casc f ok tc tr =>
        simp only [runUpd] at h
        split at h
        · exact ih _ _ _ h hl hrest
        · rename_i r0 hsome
          refine ih _ _ _ h hl ⟨?_, ?_⟩
          · intro t o n b hm
            rcases List.mem_cons.mp hm with h1 | h1
            · injection h1 with e1 e2 e3 e4
              subst e1 e3
              rw [substFk_length]
              exact hl _ _ (List.mem_of_find?_eq_some hsome)
            · exact hu.1 t o n b h1
          · intro t o n hm
            rcases List.mem_cons.mp hm with h1 | h1
            · cases h1
            · exact hu.2 t o n h1
      | fin t o nn =>
        simp only [runUpd] at h
        split at h
        · cases h
        · rename_i w1 hch
          refine ih _ _ _ h ?_ hrest
          rw [change_db hch]
          intro t' x hx
          rcases mem_replace_db hx with h1 | ⟨rfl, rfl⟩
          · exact hl t' x h1
          · exact hu.2 _ _ _ List.mem_cons_self

theorem opUpdate_len {env : Env} {w w' : W} {t : Nat} {old new : Row}
    (h : opUpdate env w t old new = .ok w') (hlen : new.length = ncols env.sch t)
    (hl : LenOk env.sch w.db) : LenOk env.sch w'.db := by
  unfold opUpdate at h
  split at h
  · cases h; exact hl
  · split at h
    · cases h
    · split at h
      · cases h
      · split at h
        · rename_i w1 hrun
          cases h
          refine runUpd_len env _ _ _ _ hrun hl ⟨?_, ?_⟩
          · intro t o n b hm
            rcases List.mem_cons.mp hm with h1 | h1
            · injection h1 with e1 e2 e3 e4
              subst e1 e3; exact hlen
            · cases h1
          · intro t o n hm
            rcases List.mem_cons.mp hm with h1 | h1 <;> cases h1
        · cases h

/-! ### histories -/

/-- the invariant of a history: committed state and the running transaction's view satisfy
every foreign key and hold rows of the right length -/
def CkInv2 (s : St) : Prop :=
  (FkOk s.env.sch s.committed ∧ FkOk s.env.sch s.w.db) ∧
  (LenOk s.env.sch s.committed ∧ LenOk s.env.sch s.w.db)

/-- the operations covered: rows have the columns of their table; an update either leaves
every referenced key unchanged (`KeepsKeys`) or, when it changes one, does not at the same time
change a self-referencing foreign key value of the row (`UpdOk2`, KF-C08-1 excluded) -/
def OpOk2 (sch : Schema) : Op → Prop
  | .out t row => row.length = ncols sch t
  | .upd t old new => new.length = ncols sch t ∧ (KeepsKeys sch t old new ∨ UpdOk2 sch t old new)
  | _ => True

theorem applyRes_inv2 {s : St} {r : Res} (h : CkInv2 s)
    (hr : ∀ w', r = .ok w' → FkOk s.env.sch w'.db ∧ LenOk s.env.sch w'.db) : CkInv2 (applyRes s r) := by
  cases r with
  | ok w' => exact ⟨⟨h.1.1, (hr w' rfl).1⟩, ⟨h.2.1, (hr w' rfl).2⟩⟩
  | err e alive => cases alive <;> exact h

theorem step_inv2 (s : St) (op : Op) (hsch : SchOk s.env.sch) (hop : OpOk2 s.env.sch op)
    (h : CkInv2 s) : CkInv2 (step s op) := by
  cases op with
  | begin => exact ⟨⟨h.1.1, h.1.1⟩, ⟨h.2.1, h.2.1⟩⟩
  | commit =>
    simp only [step]
    split
    · exact ⟨⟨h.1.2, h.1.2⟩, ⟨h.2.2, h.2.2⟩⟩
    · exact h
  | abort => exact h
  | dis t => exact h
  | ena t => exact h
  | out t row =>
    simp only [step]
    split
    · exact applyRes_inv2 h (fun w' hw => ⟨opOutput_fkOk hw h.1.2, opOutput_len hw hop h.2.2⟩)
    · exact h
  | del t row =>
    simp only [step]
    split
    · exact applyRes_inv2 h (fun w' hw => ⟨opDelete_fkOk hw h.1.2, opDelete_len hw h.2.2⟩)
    · exact h
  | upd t old new =>
    simp only [step]
    split
    · refine applyRes_inv2 h (fun w' hw => ?_)
      rcases hop.2 with hk | hu
      · exact ⟨opUpdate_fkOk hw hk h.1.2, opUpdate_len hw hop.1 h.2.2⟩
      · exact opUpdate_fkOk2 hsch hw hop.1 hu h.1.2 h.2.2
    · exact h

theorem run_inv2 : ∀ (ops : List Op) (s : St), SchOk s.env.sch → (∀ op ∈ ops, OpOk2 s.env.sch op) →
    CkInv2 s → CkInv2 (run s ops) := by
  intro ops
  induction ops with
  | nil => intro s _ _ h; exact h
  | cons op ops ih =>
    intro s hsch hops h
    show CkInv2 (run (step s op) ops)
    refine ih _ ?_ ?_ (step_inv2 s op hsch (hops op List.mem_cons_self) h)
    · rw [step_sch]; exact hsch
    · intro o ho
      rw [step_sch]
      exact hops o (List.mem_cons_of_mem _ ho)

/-! ### a decision procedure for the schema hypotheses -/

def allFk (sch : Schema) (p : Nat → Nat → Fk → Bool) : Bool :=
  (List.range sch.length).all fun s => (List.range (idxsOf sch s).length).all fun j =>
    match fkOf sch s j with
    | none => true
    | some fk => p s j fk

theorem allFk_spec {sch : Schema} {p : Nat → Nat → Fk → Bool} (h : allFk sch p = true)
    {s j : Nat} {fk : Fk} (hfk : fkOf sch s j = some fk) : p s j fk = true := by
  obtain ⟨hs, hj⟩ := fkOf_some hfk
  unfold allFk at h
  rw [List.all_eq_true] at h
  have h1 := h s (List.mem_range.mpr hs)
  rw [List.all_eq_true] at h1
  have h2 := h1 j (List.mem_range.mpr hj)
  simpa [hfk] using h2

def disjB (a b : List Nat) : Bool := a.all fun c => !b.contains c

def nodupB : List Nat → Bool
  | [] => true
  | a :: r => !r.contains a && nodupB r

theorem nodupB_spec : ∀ {l : List Nat}, nodupB l = true → l.Nodup := by
  intro l
  induction l with
  | nil => intro _; exact List.nodup_nil
  | cons a r ih =>
    intro h
    simp only [nodupB, Bool.and_eq_true, Bool.not_eq_true', List.contains_eq_mem,
      decide_eq_false_iff_not] at h
    exact List.nodup_cons.mpr ⟨h.1, ih h.2⟩

/-- `SchOk` as a computation -/
def schOkB (sch : Schema) : Bool :=
  allFk sch (fun _ _ fk =>
    match (idxsOf sch fk.table)[fk.index]? with
    | some tix => tix.mode == 0
    | none => false) &&
  allFk sch (fun s j fk => !cascadesUpdates fk.mode ||
    (List.range (idxsOf sch s).length).all fun j2 =>
      j2 == j || !((fkOf sch s j2).isSome || !(fkToHere sch s j2).isEmpty) ||
        disjB (colsOf sch s j2) (colsOf sch s j)) &&
  allFk sch (fun s j fk => !cascadesUpdates fk.mode ||
    (nodupB (colsOf sch s j) && (colsOf sch s j).all fun c => c < ncols sch s)) &&
  allFk sch (fun s j fk => !cascadesUpdates fk.mode ||
    (fk.table < s || (fk.table == s && (fkToHere sch s j).isEmpty)))

theorem colsOf_nil_of_ge {sch : Schema} {s j : Nat} (h : (idxsOf sch s).length ≤ j) :
    colsOf sch s j = [] := by
  unfold colsOf
  rw [List.getElem?_eq_none h]

theorem disjB_spec {a b : List Nat} (h : disjB a b = true) : ∀ c ∈ a, c ∉ b := by
  intro c hc
  unfold disjB at h
  rw [List.all_eq_true] at h
  simpa using h c hc

theorem schOkB_spec {sch : Schema} (h : schOkB sch = true) : SchOk sch := by
  simp only [schOkB, Bool.and_eq_true] at h
  obtain ⟨⟨⟨h1, h2⟩, h3⟩, h4⟩ := h
  refine ⟨?_, ?_, ?_, ?_⟩
  · intro s j fk hfk
    have := allFk_spec h1 hfk
    split at this
    · rename_i tix htix
      exact ⟨tix, htix, by simpa using this⟩
    · cases this
  · intro s j j2 fk hfk hm hne hrel c hc
    by_cases hlt : j2 < (idxsOf sch s).length
    · have := allFk_spec h2 hfk
      simp only [hm, Bool.not_true, Bool.false_or, List.all_eq_true] at this
      have h5 := this j2 (List.mem_range.mpr hlt)
      have hj : (j2 == j) = false := by simpa using hne
      have hr : ((fkOf sch s j2).isSome || !(fkToHere sch s j2).isEmpty) = true := by
        rcases hrel with h6 | h6
        · simp [h6]
        · cases hl : fkToHere sch s j2 with
          | nil => exact absurd hl h6
          | cons a r => simp
      simp only [hj, hr, Bool.not_true, Bool.false_or] at h5
      exact disjB_spec h5 c hc
    · rw [colsOf_nil_of_ge (by omega)] at hc
      cases hc
  · intro s j fk hfk hm
    have := allFk_spec h3 hfk
    simp only [hm, Bool.not_true, Bool.false_or, Bool.and_eq_true, List.all_eq_true] at this
    exact ⟨nodupB_spec this.1, fun c hc => by simpa using this.2 c hc⟩
  · intro s j fk hfk hm
    have := allFk_spec h4 hfk
    simp only [hm, Bool.not_true, Bool.false_or, Bool.or_eq_true, Bool.and_eq_true,
      decide_eq_true_eq, beq_iff_eq, List.isEmpty_iff] at this
    exact this

end Gsu.LDb
