/-
C10 — count and size limits of the bulk-built tree (`bulkBuild`). Core-only.
-/
import Gsu.Proofs.BtreeBulk
namespace Gsu.Btree

/-! ### the leaf builder state describes the open leaf -/

theorem commonPrefix_prefix_left : ∀ (a b : Key), commonPrefix a b <+: a
  | [], _ => by simp [commonPrefix]
  | _ :: _, [] => by simp [commonPrefix]
  | x :: a, y :: b => by
    simp only [commonPrefix]
    by_cases h : x = y
    · simp only [h, if_true]
      have := commonPrefix_prefix_left a b
      subst h
      exact (List.prefix_cons_inj x).mpr this
    · simp [h]

theorem commonPrefix_prefix_right : ∀ (a b : Key), commonPrefix a b <+: b
  | [], _ => by simp [commonPrefix]
  | _ :: _, [] => by simp [commonPrefix]
  | x :: a, y :: b => by
    simp only [commonPrefix]
    by_cases h : x = y
    · simp only [h, if_true]
      exact (List.prefix_cons_inj y).mpr (commonPrefix_prefix_right a b)
    · simp [h]

/-- `b` is the builder state after adding the keys of `cur` (newest first) -/
def LBInv (b : LB) (cur : List KV) : Prop :=
  b.n = cur.length ∧ b.fieldsLen = (cur.map fun e => e.1.length).sum ∧
    (∀ e ∈ cur, b.pre <+: e.1) ∧ (cur = [] → b.pre = [])

theorem LBInv_empty : LBInv {} [] := by simp [LBInv]

theorem LBInv_add {b : LB} {cur : List KV} (h : LBInv b cur) (k : Key) (o : Nat) :
    LBInv (b.add k) ((k, o) :: cur) := by
  obtain ⟨h1, h2, h3, _⟩ := h
  refine ⟨by simp [LB.add, h1], by simp [LB.add, h2]; omega, ?_, by simp⟩
  intro e he
  simp only [LB.add, LB.newPre]
  by_cases h0 : b.n = 0
  · simp only [h0, if_true]
    have : cur = [] := by
      cases cur with
      | nil => rfl
      | cons _ _ => simp [h0] at h1
    subst this
    simp only [List.mem_singleton] at he
    subst he
    exact List.prefix_refl _
  · simp only [h0, if_false]
    rcases List.mem_cons.mp he with rfl | he'
    · exact commonPrefix_prefix_right _ _
    · exact List.IsPrefix.trans (commonPrefix_prefix_left _ _) (h3 e he')

theorem tryAdd_eq_add {split : Nat} {b b' : LB} {k : Key} (h : b.tryAdd split k = some b') :
    b' = b.add k := by
  unfold LB.tryAdd at h
  simp only at h
  split at h
  · cases h
  · split at h
    · cases h
    · simp only [Option.some.injEq] at h; exact h.symm

theorem sum_sub_pre (p : Nat) : ∀ (es : List KV), (∀ e ∈ es, p ≤ e.1.length) →
    (es.map fun e => e.1.length - p).sum + es.length * p = (es.map fun e => e.1.length).sum := by
  intro es
  induction es with
  | nil => simp
  | cons x xs ih =>
    intro h
    have h1 := h x List.mem_cons_self
    have := ih (fun e he => h e (List.mem_cons_of_mem _ he))
    simp only [List.map_cons, List.sum_cons, List.length_cons, Nat.add_mul, Nat.one_mul]
    omega

theorem finish_size {b : LB} {cur : List KV} (h : LBInv b cur) :
    (b.finish cur.reverse).size = b.size := by
  obtain ⟨h1, h2, h3, _⟩ := h
  have hlen : ∀ e ∈ cur.reverse, min 255 b.pre.length ≤ e.1.length := by
    intro e he
    have := (h3 e (List.mem_reverse.mp he)).length_le
    omega
  have hsum := sum_sub_pre (min 255 b.pre.length) cur.reverse hlen
  have hsum0 := sum_sub_pre 0 cur.reverse (fun _ _ => Nat.zero_le _)
  simp only [List.map_reverse, List.sum_reverse, List.length_reverse] at hsum hsum0
  simp only [LB.finish, Leaf.size, LB.size, leafSize, List.length_reverse, List.map_reverse,
    List.sum_reverse]
  by_cases hn : b.n = 1
  · simp only [hn, if_true]
    rw [h2]
    have : cur.length = 1 := by omega
    simp only [this] at hsum hsum0 ⊢
    simp only [Nat.sub_zero] at hsum0 ⊢
    omega
  · simp only [hn, if_false]
    rw [h2, h1]
    rw [Nat.mul_comm cur.length] at hsum
    rw [Nat.mul_comm cur.length]
    omega

theorem finish_preOK {b : LB} {cur : List KV} (h : LBInv b cur) :
    (b.finish cur.reverse).PreOK := by
  obtain ⟨h1, _, h3, h4⟩ := h
  simp only [Leaf.PreOK, LB.finish]
  refine ⟨by split <;> omega, ?_, ?_⟩
  · intro he
    have : cur = [] := by simpa using he
    rw [h4 this]; simp
  by_cases hn : b.n = 1
  · simp only [hn, if_true]
    exact ⟨[], rfl, fun _ _ => List.nil_prefix⟩
  · simp only [hn, if_false]
    refine ⟨b.pre.take 255, by simp [List.length_take], ?_⟩
    intro e he
    exact List.IsPrefix.trans (List.take_prefix _ _) (h3 e (List.mem_reverse.mp he))

/-! ### leaf level -/

/-- all leaves of a row satisfy `Q` -/
def RowAll {α} (Q : α → Prop) (kids : List (α × Key)) (last : α) : Prop :=
  (∀ p ∈ kids, Q p.1) ∧ Q last

/-- a separator fits a tree node on its own -/
def SepsSmall {α} (kids : List (α × Key)) : Prop := ∀ p ∈ kids, p.2.length + 15 ≤ maxNodeSizeM

theorem buildLeaves_limits {split : Nat} (hs : split ≤ 100) (h1 : 1 ≤ split) :
    ∀ (kvs : List KV) (b : LB) (cur : List KV),
      (∀ e ∈ kvs, e.1.length + 15 ≤ maxNodeSizeM) → LBInv b cur → cur ≠ [] →
      b.size ≤ maxNodeSizeM → b.n ≤ split →
      RowAll (LeafOK split) (buildLeaves split kvs b cur).1 (buildLeaves split kvs b cur).2 ∧
      SepsSmall (buildLeaves split kvs b cur).1 := by
  intro kvs
  induction kvs with
  | nil =>
    intro b cur _ hb hne hsz hn
    have hlen : 1 ≤ cur.length := by
      cases cur with
      | nil => exact absurd rfl hne
      | cons _ _ => simp
    simp only [buildLeaves, RowAll, SepsSmall]
    refine ⟨⟨by simp, ?_⟩, by simp⟩
    refine ⟨by simpa [LB.finish] using hlen, by simpa [LB.finish, ← hb.1] using hn, ?_,
      finish_preOK hb⟩
    rw [finish_size hb]; exact hsz
  | cons x r ih =>
    obtain ⟨k, o⟩ := x
    intro b cur hk hb hne hsz hn
    have hkr : ∀ e ∈ r, e.1.length + 15 ≤ maxNodeSizeM := fun e he => hk e (List.mem_cons_of_mem _ he)
    simp only [buildLeaves]
    cases ht : b.tryAdd split k with
    | some b' =>
      simp only
      obtain ⟨a, c, _⟩ := tryAdd_fits hs ht
      have := tryAdd_eq_add ht
      subst this
      exact ih _ _ hkr (LBInv_add hb k o) (by simp) a c
    | none =>
      simp only
      have hlen : 1 ≤ cur.length := by
        cases cur with
        | nil => exact absurd rfl hne
        | cons _ _ => simp
      have hk1 := hk (k, o) List.mem_cons_self
      have hrec := ih (({} : LB).add k) [(k, o)] hkr (LBInv_add LBInv_empty k o) (by simp)
        (by rw [add_first_size]; simp only [maxNodeSizeM] at hk1 ⊢; omega) (by simp [LB.add]; exact h1)
      obtain ⟨⟨ra, rb⟩, rc⟩ := hrec
      refine ⟨⟨?_, rb⟩, ?_⟩
      · intro p hp
        rcases List.mem_cons.mp hp with rfl | hp'
        · refine ⟨by simpa [LB.finish] using hlen, by simpa [LB.finish, ← hb.1] using hn, ?_,
            finish_preOK hb⟩
          simp only
          rw [finish_size hb]; exact hsz
        · exact ra p hp'
      · intro p hp
        rcases List.mem_cons.mp hp with rfl | hp'
        · have := sepKey_length_le (headKey cur) k
          simp only at hk1 ⊢
          simp only [maxNodeSizeM] at hk1 ⊢
          omega
        · exact rc p hp'

/-! ### tree levels -/

theorem nodeSize_cons {α} (p : α × Key) (cur : List (α × Key)) :
    nodeSize (p :: cur) = nodeSize cur + p.2.length + 7 := by
  simp [nodeSize]; omega

theorem nodeSize_reverse {α} (cur : List (α × Key)) : nodeSize cur.reverse = nodeSize cur := by
  simp [nodeSize, List.sum_reverse]

theorem buildLevel_limits (split : Nat) {α} (Q : α → Prop) :
    ∀ (ps : List (α × Key)) (last : α) (cur : List (α × Key)),
      (∀ p ∈ cur, Q p.1) → (∀ p ∈ ps, Q p.1) → Q last → cur.length + 1 ≤ split →
      nodeSize cur ≤ maxNodeSizeM →
      RowAll (fun n : List (α × Key) × α => NodeOK split n.1 ∧ (∀ p ∈ n.1, Q p.1) ∧ Q n.2)
        (buildLevel split ps last cur).1 (buildLevel split ps last cur).2 := by
  intro ps
  induction ps with
  | nil =>
    intro last cur hc _ hl hn hsz
    simp only [buildLevel, RowAll]
    refine ⟨by simp, ⟨by simpa using hn, by rw [nodeSize_reverse]; exact hsz⟩, ?_, hl⟩
    intro p hp; exact hc p (List.mem_reverse.mp hp)
  | cons x r ih =>
    obtain ⟨c, s⟩ := x
    intro last cur hc hps hl hn hsz
    have hr : ∀ p ∈ r, Q p.1 := fun p hp => hps p (List.mem_cons_of_mem _ hp)
    have hcq : Q c := hps (c, s) List.mem_cons_self
    simp only [buildLevel]
    split
    · have hrec := ih last [] (by simp) hr hl (by simp; omega) (by simp [nodeSize, maxNodeSizeM])
      refine ⟨?_, hrec.2⟩
      intro p hp
      rcases List.mem_cons.mp hp with rfl | hp'
      · refine ⟨⟨by simpa using hn, by rw [nodeSize_reverse]; exact hsz⟩, ?_, hcq⟩
        intro p hp; exact hc p (List.mem_reverse.mp hp)
      · exact hrec.1 p hp'
    · next hcond =>
      have hcond' : ¬ (cur.length + 1 ≥ split) ∧ ¬ (nodeSize cur + s.length + 7 > maxNodeSizeM) :=
        ⟨fun h => hcond (Or.inl h), fun h => hcond (Or.inr h)⟩
      apply ih last ((c, s) :: cur) _ hr hl
      · simp; omega
      · rw [nodeSize_cons]; simp only; omega
      · intro p hp
        rcases List.mem_cons.mp hp with rfl | hp'
        · exact hcq
        · exact hc p hp'

theorem buildLevel_seps (split : Nat) {α} :
    ∀ (ps : List (α × Key)) (last : α) (cur : List (α × Key)),
      SepsSmall ps → SepsSmall (buildLevel split ps last cur).1 := by
  intro ps
  induction ps with
  | nil => intro last cur _; simp [buildLevel, SepsSmall]
  | cons x r ih =>
    obtain ⟨c, s⟩ := x
    intro last cur h
    have hr : SepsSmall r := fun p hp => h p (List.mem_cons_of_mem _ hp)
    simp only [buildLevel]
    split
    · intro p hp
      rcases List.mem_cons.mp hp with rfl | hp'
      · exact h (c, s) List.mem_cons_self
      · exact ih last [] hr p hp'
    · exact ih last _ hr

/-- a level pushes up fewer pairs than it receives (so the number of levels is bounded) -/
theorem buildLevel_length {split : Nat} (h2 : 2 ≤ split) {α} :
    ∀ (ps : List (α × Key)) (last : α) (cur : List (α × Key)), SepsSmall ps →
      (buildLevel split ps last cur).1.length + (if cur = [] ∧ ps ≠ [] then 1 else 0) ≤ ps.length := by
  intro ps
  induction ps with
  | nil => intro last cur _; simp [buildLevel]
  | cons x r ih =>
    obtain ⟨c, s⟩ := x
    intro last cur h
    have hr : SepsSmall r := fun p hp => h p (List.mem_cons_of_mem _ hp)
    have hs := h (c, s) List.mem_cons_self
    simp only [buildLevel]
    split
    · next hcond =>
      have hne : cur ≠ [] := by
        intro e; subst e
        simp only [List.length_nil, nodeSize, List.map_nil, List.sum_nil, maxNodeSizeM] at hcond hs
        omega
      have := ih last [] hr
      simp only [hne, false_and, if_false, List.length_cons, true_and] at this ⊢
      split at this <;> omega
    · have := ih last ((c, s) :: cur) hr
      simp only [List.cons_ne_nil, false_and, if_false, Nat.add_zero] at this
      simp only [List.length_cons]
      split <;> omega

/-- when a level pushes nothing up its single node holds everything it received -/
theorem buildLevel_nil {split : Nat} {α} :
    ∀ (ps : List (α × Key)) (last : α) (cur : List (α × Key)),
      (buildLevel split ps last cur).1 = [] → (buildLevel split ps last cur).2.1 = cur.reverse ++ ps := by
  intro ps
  induction ps with
  | nil => intro last cur _; simp [buildLevel]
  | cons x r ih =>
    obtain ⟨c, s⟩ := x
    intro last cur h
    simp only [buildLevel] at h ⊢
    split at h
    · simp at h
    · next hc => simp only [hc, if_false]; rw [ih _ _ h]; simp

theorem growUp_nil (split fuel h : Nat) (last : BT h) :
    growUp split fuel h [] last = ⟨h, last⟩ := by
  cases fuel <;> rfl

theorem growUp_limits {split : Nat} (h2 : 2 ≤ split) :
    ∀ (fuel h : Nat) (ps : List (BT h × Key)) (last : BT h), ps ≠ [] → ps.length ≤ fuel →
      SepsSmall ps → RowAll (BT.Limits split h) ps last →
      BT.RootLimits split (growUp split fuel h ps last).h (growUp split fuel h ps last).root := by
  intro fuel
  induction fuel with
  | zero =>
    intro h ps last hne hlen
    cases ps with
    | nil => exact absurd rfl hne
    | cons _ _ => simp at hlen
  | succ fuel ih =>
    intro h ps last hne hlen hsep hall
    cases ps with
    | nil => exact absurd rfl hne
    | cons p ps =>
      simp only [growUp]
      have hlim := buildLevel_limits split (BT.Limits split h) (p :: ps) last [] (by simp)
        hall.1 hall.2 (by simp; omega) (by simp [nodeSize, maxNodeSizeM])
      have hl := buildLevel_length h2 (p :: ps) last [] hsep
      simp only [true_and, ne_eq, List.cons_ne_nil, not_false_eq_true, if_true] at hl
      have hsep' := buildLevel_seps split (p :: ps) last [] hsep
      cases hres : (buildLevel split (p :: ps) last []).1 with
      | nil =>
        have hk := buildLevel_nil (p :: ps) last [] hres
        rw [growUp_nil]
        refine ⟨?_, ?_⟩
        · simp only [List.reverse_nil, List.nil_append] at hk
          rw [hk]; simp
        · exact hlim.2
      | cons q qs =>
        rw [← hres]
        apply ih
        · rw [hres]; simp
        · simp only [List.length_cons] at hl hlen; omega
        · exact hsep'
        · exact hlim

theorem bulkBuild_limits {split : Nat} (hs : split ≤ 100) (h2 : 2 ≤ split) (kvs : List KV)
    (hk : ∀ e ∈ kvs, e.1.length + 15 ≤ maxNodeSizeM) :
    BT.RootLimits split (bulkBuild split kvs).h (bulkBuild split kvs).root := by
  unfold bulkBuild
  simp only
  cases kvs with
  | nil =>
    simp [buildLeaves, growUp, BT.RootLimits, LB.finish, Leaf.size, Leaf.PreOK, maxNodeSizeM]
  | cons x r =>
    obtain ⟨k, o⟩ := x
    have hk1 := hk (k, o) List.mem_cons_self
    simp only at hk1
    have hkr : ∀ e ∈ r, e.1.length + 15 ≤ maxNodeSizeM := fun e he => hk e (List.mem_cons_of_mem _ he)
    have hta : ({} : LB).tryAdd split k = some (({} : LB).add k) := by
      unfold LB.tryAdd
      simp only
      have h1 : ¬ (({} : LB).n + 1 > split) := by simp only; omega
      rw [if_neg h1, if_neg]
      rintro ⟨_, h⟩
      simp only [commonPrefix, leafSize, maxNodeSizeM, List.length_nil, Nat.min_zero, Nat.mul_zero,
        Nat.add_zero, Nat.sub_zero, Nat.zero_add] at h hk1
      omega
    have hstep : buildLeaves split ((k, o) :: r) {} [] =
        buildLeaves split r (({} : LB).add k) [(k, o)] := by
      simp only [buildLeaves, hta]
    rw [hstep]
    have hlv := buildLeaves_limits hs (by omega) r (({} : LB).add k) [(k, o)] hkr
      (LBInv_add LBInv_empty k o) (by simp)
      (by rw [add_first_size]; simp only [maxNodeSizeM] at hk1 ⊢; omega) (by simp [LB.add]; omega)
    cases hres : (buildLeaves split r (({} : LB).add k) [(k, o)]).1 with
    | nil =>
      rw [growUp_nil]
      have := hlv.1.2
      exact ⟨this.2.1, this.2.2.1, this.2.2.2⟩
    | cons q qs =>
      rw [← hres]
      exact growUp_limits h2 _ 0 _ _ (by rw [hres]; simp) (Nat.le_refl _) hlv.2 hlv.1

end Gsu.Btree
