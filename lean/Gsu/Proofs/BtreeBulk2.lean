/-
C10 — count and size limits of the bulk-built tree (`bulkBuild`). Core-only.
-/
import Gsu.Proofs.BtreeBulk
namespace Gsu.Btree

/-! ### leaf level -/

/-- all leaves of a row satisfy `Q` -/
def RowAll {α} (Q : α → Prop) (kids : List (α × Key)) (last : α) : Prop :=
  (∀ p ∈ kids, Q p.1) ∧ Q last

/-- a separator fits a tree node on its own -/
def SepsSmall {α} (kids : List (α × Key)) : Prop := ∀ p ∈ kids, p.2.length + 15 ≤ maxNodeSizeM

theorem buildLeaves_limits {split : Nat} (hs : split ≤ 100) (h1 : 1 ≤ split) :
    ∀ (kvs : List KV) (b : LB) (cur : List KV),
      (∀ e ∈ kvs, e.1.length + 15 ≤ maxNodeSizeM) → LBInv b cur → cur ≠ [] →
      b.size ≤ maxNodeSizeM → b.n ≤ split →
      RowAll (LeafOK split) (buildLeaves split kvs b cur).1 (buildLeaves split kvs b cur).2 ∧
      SepsSmall (buildLeaves split kvs b cur).1 := by
  intro kvs
  induction kvs with
  | nil =>
    intro b cur _ hb hne hsz hn
    have hlen : 1 ≤ cur.length := by
      cases cur with
      | nil => exact absurd rfl hne
      | cons _ _ => simp
    simp only [buildLeaves, RowAll, SepsSmall]
    refine ⟨⟨by simp, ?_⟩, by simp⟩
    refine ⟨by simpa [LB.finish] using hlen, by simpa [LB.finish, ← hb.1] using hn, ?_,
      finish_preOK hb⟩
    rw [finish_size hb]; exact hsz
  | cons x r ih =>
    obtain ⟨k, o⟩ := x
    intro b cur hk hb hne hsz hn
    have hkr : ∀ e ∈ r, e.1.length + 15 ≤ maxNodeSizeM := fun e he => hk e (List.mem_cons_of_mem _ he)
    simp only [buildLeaves]
    cases ht : b.tryAdd split k with
    | some b' =>
      simp only
      obtain ⟨a, c, _⟩ := tryAdd_fits hs ht
      have := tryAdd_eq_add ht
      subst this
      exact ih _ _ hkr (LBInv_add hb k o) (by simp) a c
    | none =>
      simp only
      have hlen : 1 ≤ cur.length := by
        cases cur with
        | nil => exact absurd rfl hne
        | cons _ _ => simp
      have hk1 := hk (k, o) List.mem_cons_self
      have hrec := ih (({} : LB).add k) [(k, o)] hkr (LBInv_add LBInv_empty k o) (by simp)
        (by rw [add_first_size]; simp only [maxNodeSizeM] at hk1 ⊢; omega) (by simp [LB.add]; exact h1)
      obtain ⟨⟨ra, rb⟩, rc⟩ := hrec
      refine ⟨⟨?_, rb⟩, ?_⟩
      · intro p hp
        rcases List.mem_cons.mp hp with rfl | hp'
        · refine ⟨by simpa [LB.finish] using hlen, by simpa [LB.finish, ← hb.1] using hn, ?_,
            finish_preOK hb⟩
          simp only
          rw [finish_size hb]; exact hsz
        · exact ra p hp'
      · intro p hp
        rcases List.mem_cons.mp hp with rfl | hp'
        · have := sepKey_length_le (headKey cur) k
          simp only at hk1 ⊢
          simp only [maxNodeSizeM] at hk1 ⊢
          omega
        · exact rc p hp'

/-! ### tree levels -/

theorem nodeSize_cons {α} (p : α × Key) (cur : List (α × Key)) :
    nodeSize (p :: cur) = nodeSize cur + p.2.length + 7 := by
  simp [nodeSize]; omega

theorem nodeSize_reverse {α} (cur : List (α × Key)) : nodeSize cur.reverse = nodeSize cur := by
  simp [nodeSize, List.sum_reverse]

theorem buildLevel_limits (split : Nat) {α} (Q : α → Prop) :
    ∀ (ps : List (α × Key)) (last : α) (cur : List (α × Key)),
      (∀ p ∈ cur, Q p.1) → (∀ p ∈ ps, Q p.1) → Q last → cur.length + 1 ≤ split →
      nodeSize cur ≤ maxNodeSizeM →
      RowAll (fun n : List (α × Key) × α => NodeOK split n.1 ∧ (∀ p ∈ n.1, Q p.1) ∧ Q n.2)
        (buildLevel split ps last cur).1 (buildLevel split ps last cur).2 := by
  intro ps
  induction ps with
  | nil =>
    intro last cur hc _ hl hn hsz
    simp only [buildLevel, RowAll]
    refine ⟨by simp, ⟨by simpa using hn, by rw [nodeSize_reverse]; exact hsz⟩, ?_, hl⟩
    intro p hp; exact hc p (List.mem_reverse.mp hp)
  | cons x r ih =>
    obtain ⟨c, s⟩ := x
    intro last cur hc hps hl hn hsz
    have hr : ∀ p ∈ r, Q p.1 := fun p hp => hps p (List.mem_cons_of_mem _ hp)
    have hcq : Q c := hps (c, s) List.mem_cons_self
    simp only [buildLevel]
    split
    · have hrec := ih last [] (by simp) hr hl (by simp; omega) (by simp [nodeSize, maxNodeSizeM])
      refine ⟨?_, hrec.2⟩
      intro p hp
      rcases List.mem_cons.mp hp with rfl | hp'
      · refine ⟨⟨by simpa using hn, by rw [nodeSize_reverse]; exact hsz⟩, ?_, hcq⟩
        intro p hp; exact hc p (List.mem_reverse.mp hp)
      · exact hrec.1 p hp'
    · next hcond =>
      have hcond' : ¬ (cur.length + 1 ≥ split) ∧ ¬ (nodeSize cur + s.length + 7 > maxNodeSizeM) :=
        ⟨fun h => hcond (Or.inl h), fun h => hcond (Or.inr h)⟩
      apply ih last ((c, s) :: cur) _ hr hl
      · simp; omega
      · rw [nodeSize_cons]; simp only; omega
      · intro p hp
        rcases List.mem_cons.mp hp with rfl | hp'
        · exact hcq
        · exact hc p hp'

theorem buildLevel_seps (split : Nat) {α} :
    ∀ (ps : List (α × Key)) (last : α) (cur : List (α × Key)),
      SepsSmall ps → SepsSmall (buildLevel split ps last cur).1 := by
  intro ps
  induction ps with
  | nil => intro last cur _; simp [buildLevel, SepsSmall]
  | cons x r ih =>
    obtain ⟨c, s⟩ := x
    intro last cur h
    have hr : SepsSmall r := fun p hp => h p (List.mem_cons_of_mem _ hp)
    simp only [buildLevel]
    split
    · intro p hp
      rcases List.mem_cons.mp hp with rfl | hp'
      · exact h (c, s) List.mem_cons_self
      · exact ih last [] hr p hp'
    · exact ih last _ hr

/-- a level pushes up fewer pairs than it receives (so the number of levels is bounded) -/
theorem buildLevel_length {split : Nat} (h2 : 2 ≤ split) {α} :
    ∀ (ps : List (α × Key)) (last : α) (cur : List (α × Key)), SepsSmall ps →
      (buildLevel split ps last cur).1.length + (if cur = [] ∧ ps ≠ [] then 1 else 0) ≤ ps.length := by
  intro ps
  induction ps with
  | nil => intro last cur _; simp [buildLevel]
  | cons x r ih =>
    obtain ⟨c, s⟩ := x
    intro last cur h
    have hr : SepsSmall r := fun p hp => h p (List.mem_cons_of_mem _ hp)
    have hs := h (c, s) List.mem_cons_self
    simp only [buildLevel]
    split
    · next hcond =>
      have hne : cur ≠ [] := by
        intro e; subst e
        simp only [List.length_nil, nodeSize, List.map_nil, List.sum_nil, maxNodeSizeM] at hcond hs
        omega
      have := ih last [] hr
      simp only [hne, false_and, if_false, List.length_cons, true_and] at this ⊢
      split at this <;> omega
    · have := ih last ((c, s) :: cur) hr
      simp only [List.cons_ne_nil, false_and, if_false, Nat.add_zero] at this
      simp only [List.length_cons]
      split <;> omega

/-- when a level pushes nothing up its single node holds everything it received -/
theorem buildLevel_nil {split : Nat} {α} :
    ∀ (ps : List (α × Key)) (last : α) (cur : List (α × Key)),
      (buildLevel split ps last cur).1 = [] → (buildLevel split ps last cur).2.1 = cur.reverse ++ ps := by
  intro ps
  induction ps with
  | nil => intro last cur _; simp [buildLevel]
  | cons x r ih =>
    obtain ⟨c, s⟩ := x
    intro last cur h
    simp only [buildLevel] at h ⊢
    split at h
    · simp at h
    · next hc => simp only [hc, if_false]; rw [ih _ _ h]; simp

theorem growUp_nil (split fuel h : Nat) (last : BT h) :
    growUp split fuel h [] last = ⟨h, last⟩ := by
  cases fuel <;> rfl

theorem growUp_limits {split : Nat} (h2 : 2 ≤ split) :
    ∀ (fuel h : Nat) (ps : List (BT h × Key)) (last : BT h), ps ≠ [] → ps.length ≤ fuel →
      SepsSmall ps → RowAll (BT.Limits split h) ps last →
      BT.RootLimits split (growUp split fuel h ps last).h (growUp split fuel h ps last).root := by
  intro fuel
  induction fuel with
  | zero =>
    intro h ps last hne hlen
    cases ps with
    | nil => exact absurd rfl hne
    | cons _ _ => simp at hlen
  | succ fuel ih =>
    intro h ps last hne hlen hsep hall
    cases ps with
    | nil => exact absurd rfl hne
    | cons p ps =>
      simp only [growUp]
      have hlim := buildLevel_limits split (BT.Limits split h) (p :: ps) last [] (by simp)
        hall.1 hall.2 (by simp; omega) (by simp [nodeSize, maxNodeSizeM])
      have hl := buildLevel_length h2 (p :: ps) last [] hsep
      simp only [true_and, ne_eq, List.cons_ne_nil, not_false_eq_true, if_true] at hl
      have hsep' := buildLevel_seps split (p :: ps) last [] hsep
      cases hres : (buildLevel split (p :: ps) last []).1 with
      | nil =>
        have hk := buildLevel_nil (p :: ps) last [] hres
        rw [growUp_nil]
        refine ⟨?_, ?_⟩
        · simp only [List.reverse_nil, List.nil_append] at hk
          rw [hk]; simp
        · exact hlim.2
      | cons q qs =>
        rw [← hres]
        apply ih
        · rw [hres]; simp
        · simp only [List.length_cons] at hl hlen; omega
        · exact hsep'
        · exact hlim

theorem bulkBuild_limits {split : Nat} (hs : split ≤ 100) (h2 : 2 ≤ split) (kvs : List KV)
    (hk : ∀ e ∈ kvs, e.1.length + 15 ≤ maxNodeSizeM) :
    BT.RootLimits split (bulkBuild split kvs).h (bulkBuild split kvs).root := by
  unfold bulkBuild
  simp only
  cases kvs with
  | nil =>
    simp [buildLeaves, growUp, BT.RootLimits, LB.finish, Leaf.size, Leaf.PreOK, maxNodeSizeM]
  | cons x r =>
    obtain ⟨k, o⟩ := x
    have hk1 := hk (k, o) List.mem_cons_self
    simp only at hk1
    have hkr : ∀ e ∈ r, e.1.length + 15 ≤ maxNodeSizeM := fun e he => hk e (List.mem_cons_of_mem _ he)
    have hta : ({} : LB).tryAdd split k = some (({} : LB).add k) := by
      unfold LB.tryAdd
      simp only
      have h1 : ¬ (({} : LB).n + 1 > split) := by simp only; omega
      rw [if_neg h1, if_neg]
      rintro ⟨_, h⟩
      simp only [commonPrefix, leafSize, maxNodeSizeM, List.length_nil, Nat.min_zero, Nat.mul_zero,
        Nat.add_zero, Nat.sub_zero, Nat.zero_add] at h hk1
      omega
    have hstep : buildLeaves split ((k, o) :: r) {} [] =
        buildLeaves split r (({} : LB).add k) [(k, o)] := by
      simp only [buildLeaves, hta]
    rw [hstep]
    have hlv := buildLeaves_limits hs (by omega) r (({} : LB).add k) [(k, o)] hkr
      (LBInv_add LBInv_empty k o) (by simp)
      (by rw [add_first_size]; simp only [maxNodeSizeM] at hk1 ⊢; omega) (by simp [LB.add]; omega)
    cases hres : (buildLeaves split r (({} : LB).add k) [(k, o)]).1 with
    | nil =>
      rw [growUp_nil]
      have := hlv.1.2
      exact ⟨this.2.1, this.2.2.1, this.2.2.2⟩
    | cons q qs =>
      rw [← hres]
      exact growUp_limits h2 _ 0 _ _ (by rw [hres]; simp) (Nat.le_refl _) hlv.2 hlv.1

end Gsu.Btree
