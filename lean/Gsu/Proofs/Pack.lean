/-
Helper lemmas for C13 (pack): byte facts, lexicographic order of digit-pair lists versus their
numeric value, values of `coefBytes` / `pairs` / `digits10`.
-/
import Gsu.Model.Pack
import Gsu.Gen.Pack
import Mathlib.Tactic.Ring
import Mathlib.Tactic.Linarith
import Mathlib.Tactic.SplitIfs
namespace Gsu.Pack
open Gsu.Proto

/-! ## byte facts (finite, by evaluation) -/

set_option maxRecDepth 100000 in
theorem xor80_toNat : ∀ n : Fin 256, (UInt8.ofNat n.val ^^^ 0x80).toNat = (n.val + 128) % 256 := by
  decide
set_option maxRecDepth 100000 in
theorem xor80ff_toNat : ∀ n : Fin 256,
    (UInt8.ofNat n.val ^^^ 0x80 ^^^ 0xff).toNat = 255 - (n.val + 128) % 256 := by decide
set_option maxRecDepth 100000 in
theorem xorff_toNat : ∀ n : Fin 256, (UInt8.ofNat n.val ^^^ 0xff).toNat = 255 - n.val := by decide

theorem xor0_toNat (p : Nat) (h : p < 256) : (UInt8.ofNat p ^^^ 0).toNat = p := by
  rw [UInt8.xor_zero, UInt8.toNat_ofNat']; omega

theorem xorff_toNat' (p : Nat) (h : p < 256) : (UInt8.ofNat p ^^^ 0xff).toNat = 255 - p :=
  xorff_toNat ⟨p, h⟩

theorem expByte_pos (e : Int) (h1 : -128 ≤ e) (h2 : e ≤ 127) :
    (expByte e 0).toNat = (e + 128).toNat := by
  have hlt : (e % 256).toNat < 256 := by omega
  have := xor80_toNat ⟨(e % 256).toNat, hlt⟩
  simp only [expByte, UInt8.xor_zero]
  simp only at this
  rw [this]; omega

theorem expByte_neg (e : Int) (h1 : -128 ≤ e) (h2 : e ≤ 127) :
    (expByte e 0xff).toNat = (127 - e).toNat := by
  have hlt : (e % 256).toNat < 256 := by omega
  have := xor80ff_toNat ⟨(e % 256).toNat, hlt⟩
  simp only [expByte]
  simp only at this
  rw [this]; omega

/-! ## lexicographic comparison of lists of naturals -/

def cmpL : List Nat → List Nat → Ordering
  | [], [] => .eq
  | [], _ :: _ => .lt
  | _ :: _, [] => .gt
  | a :: as, b :: bs => if a < b then .lt else if b < a then .gt else cmpL as bs

/-- element order reversed, prefix rule unchanged: what complementing every byte does -/
def cmpLneg : List Nat → List Nat → Ordering
  | [], [] => .eq
  | [], _ :: _ => .lt
  | _ :: _, [] => .gt
  | a :: as, b :: bs => if b < a then .lt else if a < b then .gt else cmpLneg as bs

theorem cmpB_xor0 (ps qs : List Nat) (hp : ∀ p ∈ ps, p < 256) (hq : ∀ q ∈ qs, q < 256) :
    cmpB (xorBytes 0 ps) (xorBytes 0 qs) = cmpL ps qs := by
  induction ps generalizing qs with
  | nil => cases qs <;> simp [xorBytes, cmpB, cmpL]
  | cons p ps ih =>
    cases qs with
    | nil => simp [xorBytes, cmpB, cmpL]
    | cons q qs =>
      have h1 := xor0_toNat p (hp p (by simp))
      have h2 := xor0_toNat q (hq q (by simp))
      have ih' := ih qs (fun x hx => hp x (by simp [hx])) (fun x hx => hq x (by simp [hx]))
      simp only [xorBytes, List.map_cons, cmpB, cmpL, UInt8.lt_iff_toNat_lt, h1, h2] at ih' ⊢
      rw [ih']

theorem cmpB_xorff (ps qs : List Nat) (hp : ∀ p ∈ ps, p < 256) (hq : ∀ q ∈ qs, q < 256) :
    cmpB (xorBytes 0xff ps) (xorBytes 0xff qs) = cmpLneg ps qs := by
  induction ps generalizing qs with
  | nil => cases qs <;> simp [xorBytes, cmpB, cmpLneg]
  | cons p ps ih =>
    cases qs with
    | nil => simp [xorBytes, cmpB, cmpLneg]
    | cons q qs =>
      have hp' := hp p (by simp)
      have hq' := hq q (by simp)
      have h1 := xorff_toNat' p hp'
      have h2 := xorff_toNat' q hq'
      have ih' := ih qs (fun x hx => hp x (by simp [hx])) (fun x hx => hq x (by simp [hx]))
      simp only [xorBytes, List.map_cons, cmpB, cmpLneg, UInt8.lt_iff_toNat_lt, h1, h2] at ih' ⊢
      rw [ih']
      by_cases h : q < p
      · have : 255 - p < 255 - q := by omega
        simp [h, this]
      · by_cases h' : p < q
        · have a : ¬ (255 - p < 255 - q) := by omega
          have b : 255 - q < 255 - p := by omega
          simp [h, h', a, b]
        · have a : ¬ (255 - p < 255 - q) := by omega
          have b : ¬ (255 - q < 255 - p) := by omega
          simp [h, h', a, b]

/-- complementing reverses the order unless one list is a prefix of the other -/
theorem cmpLneg_swap (ps qs : List Nat) (h1 : ¬ ps <+: qs) (h2 : ¬ qs <+: ps) :
    cmpLneg ps qs = (cmpL ps qs).swap := by
  induction ps generalizing qs with
  | nil => exact absurd List.nil_prefix h1
  | cons p ps ih =>
    cases qs with
    | nil => exact absurd List.nil_prefix h2
    | cons q qs =>
      simp only [cmpLneg, cmpL]
      by_cases h : q < p
      · have : ¬ p < q := by omega
        simp [h, this]
      · by_cases h' : p < q
        · simp [h, h']
        · have e : p = q := by omega
          subst e
          simp only [h, if_false]
          apply ih
          · intro hh; exact h1 ((List.cons_prefix_cons).2 ⟨rfl, hh⟩)
          · intro hh; exact h2 ((List.cons_prefix_cons).2 ⟨rfl, hh⟩)

/-- with a prefix relation the complemented order is still "shorter first" -/
theorem cmpLneg_prefix (ps qs : List Nat) (h : ps <+: qs) :
    cmpLneg ps qs = cmpL ps qs := by
  induction ps generalizing qs with
  | nil => cases qs <;> rfl
  | cons p ps ih =>
    cases qs with
    | nil => simp at h
    | cons q qs =>
      obtain ⟨e, hh⟩ := (List.cons_prefix_cons).1 h
      subst e
      simp only [cmpLneg, cmpL, Nat.lt_irrefl, if_false]
      exact ih qs hh

/-! ## value of a digit-pair list as a fraction scaled to `k` pairs -/

/-- `pv k [p₁, p₂, …] = p₁·100^(k-1) + p₂·100^(k-2) + …` -/
def pv : Nat → List Nat → Nat
  | _, [] => 0
  | k, p :: ps => p * 100 ^ (k - 1) + pv (k - 1) ps

def Small (ps : List Nat) : Prop := ∀ p ∈ ps, p < 100
def NoTrail0 (ps : List Nat) : Prop := ps.getLast? ≠ some 0

theorem Small.tail {p : Nat} {ps : List Nat} (h : Small (p :: ps)) : Small ps :=
  fun x hx => h x (by simp [hx])

theorem NoTrail0.tail {p : Nat} {ps : List Nat} (h : NoTrail0 (p :: ps)) : NoTrail0 ps := by
  cases ps with
  | nil => simp [NoTrail0]
  | cons q qs => simpa [NoTrail0, List.getLast?_cons_cons] using h

theorem pv_lt (k : Nat) (ps : List Nat) (hs : Small ps) (hl : ps.length ≤ k) :
    pv k ps < 100 ^ k := by
  induction ps generalizing k with
  | nil => simp only [pv]; exact Nat.pow_pos (by decide)
  | cons p ps ih =>
    obtain ⟨k', rfl⟩ : ∃ k', k = k' + 1 := ⟨k - 1, by simp at hl; omega⟩
    have h1 := ih k' hs.tail (by simp at hl; omega)
    have h2 : p ≤ 99 := by have := hs p (by simp); omega
    have h3 := Nat.mul_le_mul_right (100 ^ k') h2
    simp only [pv, Nat.add_sub_cancel, Nat.pow_succ]
    linarith

theorem pv_pos (k : Nat) (ps : List Nat) (hne : ps ≠ []) (ht : NoTrail0 ps) :
    0 < pv k ps := by
  induction ps generalizing k with
  | nil => exact absurd rfl hne
  | cons p ps ih =>
    simp only [pv]
    by_cases hps : ps = []
    · subst hps
      have : p ≠ 0 := by intro h; subst h; simp [NoTrail0] at ht
      have : 0 < p * 100 ^ (k - 1) := Nat.mul_pos (by omega) (Nat.pow_pos (by decide))
      omega
    · have := ih (k - 1) hps ht.tail
      omega

theorem cmpNat_add_left (c a b : Nat) : cmpNat (c + a) (c + b) = cmpNat a b := by
  simp [cmpNat]

/-- Lemma A: for digit-pair lists without a trailing zero pair, lexicographic order (shorter
first) is the order of the values -/
theorem cmpL_eq_cmpNat (k : Nat) (ps qs : List Nat) (hps : Small ps) (hqs : Small qs)
    (tp : NoTrail0 ps) (tq : NoTrail0 qs) (lp : ps.length ≤ k) (lq : qs.length ≤ k) :
    cmpL ps qs = cmpNat (pv k ps) (pv k qs) := by
  induction ps generalizing qs k with
  | nil =>
    cases qs with
    | nil => simp [cmpL, pv, cmpNat]
    | cons q qs =>
      have := pv_pos k (q :: qs) (by simp) tq
      simp only [cmpL, pv, cmpNat] at this ⊢
      simp [this]
  | cons p ps ih =>
    cases qs with
    | nil =>
      have := pv_pos k (p :: ps) (by simp) tp
      simp only [cmpL, pv, cmpNat] at this ⊢
      have h2 : ¬ (p * 100 ^ (k - 1) + pv (k - 1) ps < 0) := by omega
      simp [this]
    | cons q qs =>
      obtain ⟨k', rfl⟩ : ∃ k', k = k' + 1 := ⟨k - 1, by simp at lp; omega⟩
      have ha := pv_lt k' ps hps.tail (by simp at lp; omega)
      have hb := pv_lt k' qs hqs.tail (by simp at lq; omega)
      simp only [cmpL, pv, Nat.add_sub_cancel]
      by_cases h : p < q
      · have h3 := Nat.mul_le_mul_right (100 ^ k') (show p + 1 ≤ q by omega)
        have : p * 100 ^ k' + pv k' ps < q * 100 ^ k' + pv k' qs := by
          have e : (p + 1) * 100 ^ k' = p * 100 ^ k' + 100 ^ k' := by ring
          linarith
        simp [h, cmpNat, this]
      · by_cases h' : q < p
        · have h3 := Nat.mul_le_mul_right (100 ^ k') (show q + 1 ≤ p by omega)
          have e : (q + 1) * 100 ^ k' = q * 100 ^ k' + 100 ^ k' := by ring
          have : q * 100 ^ k' + pv k' qs < p * 100 ^ k' + pv k' ps := by linarith
          have n : ¬ (p * 100 ^ k' + pv k' ps < q * 100 ^ k' + pv k' qs) := by omega
          simp [h, h', cmpNat, this, n]
        · have e : p = q := by omega
          subst e
          simp only [h, if_false]
          rw [cmpNat_add_left]
          exact ih k' qs hps.tail hqs.tail tp.tail tq.tail (by simp at lp; omega) (by simp at lq; omega)

/-! ## `coefBytes`: value, size of entries, no trailing zero pair -/

theorem pv_coefBytes (k c : Nat) : pv (k + 1) (coefBytes k c) = c := by
  induction k generalizing c with
  | zero => simp [coefBytes, pv]
  | succ k ih =>
    simp only [coefBytes, pv, Nat.add_sub_cancel]
    split
    · rename_i h
      simp only [pv]
      have := Nat.div_add_mod c (100 ^ (k + 1))
      rw [Nat.mul_comm] at this
      omega
    · rw [ih]
      have := Nat.div_add_mod c (100 ^ (k + 1))
      rw [Nat.mul_comm] at this
      omega

theorem coefBytes_small (k c : Nat) (h : c < 100 ^ (k + 1)) : Small (coefBytes k c) := by
  induction k generalizing c with
  | zero => intro p hp; simp [coefBytes] at hp; subst hp; simpa using h
  | succ k ih =>
    intro p hp
    simp only [coefBytes, List.mem_cons] at hp
    rcases hp with hp | hp
    · subst hp
      apply Nat.div_lt_of_lt_mul
      rw [Nat.pow_succ] at h
      exact h
    · split at hp
      · simp at hp
      · exact ih _ (Nat.mod_lt _ (Nat.pow_pos (by decide))) p hp

theorem coefBytes_ne_nil (k c : Nat) : coefBytes k c ≠ [] := by
  cases k <;> simp [coefBytes]

theorem coefBytes_length (k c : Nat) : (coefBytes k c).length ≤ k + 1 := by
  induction k generalizing c with
  | zero => simp [coefBytes]
  | succ k ih =>
    simp only [coefBytes]
    split
    · simp
    · have := ih (c % 100 ^ (k + 1)); simp; omega

theorem coefBytes_notrail (k c : Nat) (h : 0 < c) : NoTrail0 (coefBytes k c) := by
  induction k generalizing c with
  | zero => simp [coefBytes, NoTrail0]; omega
  | succ k ih =>
    simp only [coefBytes]
    split
    · rename_i hz
      simp only [NoTrail0, List.getLast?_singleton, ne_eq, Option.some.injEq]
      intro h0
      have := Nat.div_add_mod c (100 ^ (k + 1))
      rw [h0, hz] at this
      omega
    · rename_i hz
      have hne := coefBytes_ne_nil k (c % 100 ^ (k + 1))
      have := ih (c % 100 ^ (k + 1)) (by omega)
      obtain ⟨x, xs, e⟩ := List.exists_cons_of_ne_nil hne
      rw [e] at this ⊢
      simpa [NoTrail0, List.getLast?_cons_cons] using this

/-! ## order of packed normalised numbers -/

theorem cmpB_num (t e1 e2 : UInt8) (b1 b2 : Bytes) :
    cmpB (t :: e1 :: b1) (t :: e2 :: b2) =
      if e1.toNat < e2.toNat then .lt else if e2.toNat < e1.toNat then .gt else cmpB b1 b2 := by
  simp [cmpB, UInt8.lt_iff_toNat_lt]

theorem coefBytes7_facts (c : Nat) (h1 : coefMin ≤ c) (h2 : c ≤ coefMax) :
    Small (coefBytes 7 c) ∧ NoTrail0 (coefBytes 7 c) ∧ (coefBytes 7 c).length ≤ 8 ∧
      pv 8 (coefBytes 7 c) = c ∧ ∀ p ∈ coefBytes 7 c, p < 256 := by
  have hs := coefBytes_small 7 c (by simp only [coefMax] at h2; omega)
  exact ⟨hs, coefBytes_notrail 7 c (by simp only [coefMin] at h1; omega), coefBytes_length 7 c,
    pv_coefBytes 7 c, fun p hp => by have := hs p hp; omega⟩

/-- positive normalised numbers: byte order = `dnum.Compare` -/
theorem pack_order_pos (x y : Dnum) (hx : x.Norm) (hy : y.Norm) (sx : x.sign = 1) (sy : y.sign = 1) :
    cmpB (packDnum x) (packDnum y) = cmpDnum x y := by
  obtain ⟨s1, c1, e1⟩ := x
  obtain ⟨s2, c2, e2⟩ := y
  simp only at sx sy
  subst sx sy
  obtain ⟨_, a1, a2, a3, a4⟩ := hx
  obtain ⟨_, b1, b2, b3, b4⟩ := hy
  simp only at a1 a2 a3 a4 b1 b2 b3 b4
  obtain ⟨f1, f2, f3, f4, f5⟩ := coefBytes7_facts c1 a1 a2
  obtain ⟨g1, g2, g3, g4, g5⟩ := coefBytes7_facts c2 b1 b2
  have hc := cmpL_eq_cmpNat 8 _ _ f1 g1 f2 g2 f3 g3
  rw [f4, g4] at hc
  have hb := cmpB_xor0 _ _ f5 g5
  simp only [packDnum, show ¬ ((1 : Int) < 0) by decide, show ¬ ((1 : Int) = 0) by decide,
    show ¬ ((1 : Int) = 2 ∨ (1 : Int) = -2) by decide, if_false, cmpB_num, hb, hc,
    expByte_pos e1 a3 a4, expByte_pos e2 b3 b4, cmpDnum, cmpNat, flipIf, Dnum.mk.injEq]
  by_cases h1 : e1 < e2
  · have : (e1 + 128).toNat < (e2 + 128).toNat := by omega
    have n : ¬ (e1 = e2) := by omega
    simp [h1, this, n]
  · by_cases h2 : e2 < e1
    · have : (e2 + 128).toNat < (e1 + 128).toNat := by omega
      have n : ¬ (e1 + 128).toNat < (e2 + 128).toNat := by omega
      have n' : ¬ (e1 = e2) := by omega
      simp [h1, h2, this, n, n']
    · have e : e1 = e2 := by omega
      subst e
      by_cases h3 : c1 < c2
      · have n : ¬ (c1 = c2) := by omega
        simp [h3, n]
      · by_cases h4 : c2 < c1
        · have n : ¬ (c1 = c2) := by omega
          simp [h3, h4, n]
        · have e : c1 = c2 := by omega
          subst e
          simp

/-- negative normalised numbers whose digit-pair strings are not prefix related (when the
exponents are equal and the coefficients differ): byte order = `dnum.Compare` -/
theorem pack_order_neg (x y : Dnum) (hx : x.Norm) (hy : y.Norm) (sx : x.sign = -1) (sy : y.sign = -1)
    (hpre : x.exp = y.exp → x.coef ≠ y.coef →
      ¬ coefBytes 7 x.coef <+: coefBytes 7 y.coef ∧ ¬ coefBytes 7 y.coef <+: coefBytes 7 x.coef) :
    cmpB (packDnum x) (packDnum y) = cmpDnum x y := by
  obtain ⟨s1, c1, e1⟩ := x
  obtain ⟨s2, c2, e2⟩ := y
  simp only at sx sy hpre
  subst sx sy
  obtain ⟨_, a1, a2, a3, a4⟩ := hx
  obtain ⟨_, b1, b2, b3, b4⟩ := hy
  simp only at a1 a2 a3 a4 b1 b2 b3 b4
  obtain ⟨f1, f2, f3, f4, f5⟩ := coefBytes7_facts c1 a1 a2
  obtain ⟨g1, g2, g3, g4, g5⟩ := coefBytes7_facts c2 b1 b2
  have hc := cmpL_eq_cmpNat 8 _ _ f1 g1 f2 g2 f3 g3
  rw [f4, g4] at hc
  have hb := cmpB_xorff _ _ f5 g5
  simp only [packDnum, show ((-1 : Int) < 0) by decide, show ¬ ((-1 : Int) = 0) by decide,
    show ¬ ((-1 : Int) = 2 ∨ (-1 : Int) = -2) by decide, if_true, if_false, cmpB_num, hb,
    expByte_neg e1 a3 a4, expByte_neg e2 b3 b4, cmpDnum, flipIf, Dnum.mk.injEq]
  by_cases h1 : e1 < e2
  · have : (127 - e2).toNat < (127 - e1).toNat := by omega
    have n : ¬ (127 - e1).toNat < (127 - e2).toNat := by omega
    have n' : ¬ (e1 = e2) := by omega
    simp [h1, this, n, n', Ordering.swap]
  · by_cases h2 : e2 < e1
    · have : (127 - e1).toNat < (127 - e2).toNat := by omega
      have n' : ¬ (e1 = e2) := by omega
      simp [h1, h2, this, n', Ordering.swap]
    · have e : e1 = e2 := by omega
      subst e
      by_cases hcc : c1 = c2
      · subst hcc
        have : cmpLneg (coefBytes 7 c1) (coefBytes 7 c1) = cmpL (coefBytes 7 c1) (coefBytes 7 c1) :=
          cmpLneg_prefix _ _ (List.prefix_refl _)
        rw [this, hc]
        simp [cmpNat]
      · obtain ⟨p1, p2⟩ := hpre rfl hcc
        rw [cmpLneg_swap _ _ p1 p2, hc]
        by_cases h3 : c1 < c2
        · simp [h3, hcc, cmpNat, Ordering.swap]
        · have h4 : c2 < c1 := by omega
          simp [h3, h4, hcc, cmpNat, Ordering.swap]

/-- the exception characterised (finding 9): equal exponents and the digit-pair string of `x` a
proper prefix of that of `y` — then `x > y` as numbers but `Pack x < Pack y` -/
theorem pack_order_neg_prefix (x y : Dnum) (hx : x.Norm) (hy : y.Norm) (sx : x.sign = -1)
    (sy : y.sign = -1) (he : x.exp = y.exp) (hne : x.coef ≠ y.coef)
    (hpre : coefBytes 7 x.coef <+: coefBytes 7 y.coef) :
    cmpB (packDnum x) (packDnum y) = .lt ∧ cmpDnum x y = .gt := by
  obtain ⟨s1, c1, e1⟩ := x
  obtain ⟨s2, c2, e2⟩ := y
  simp only at sx sy hpre he hne
  subst sx sy he
  obtain ⟨_, a1, a2, a3, a4⟩ := hx
  obtain ⟨_, b1, b2, _, _⟩ := hy
  simp only at a1 a2 a3 a4 b1 b2
  obtain ⟨f1, f2, f3, f4, f5⟩ := coefBytes7_facts c1 a1 a2
  obtain ⟨g1, g2, g3, g4, g5⟩ := coefBytes7_facts c2 b1 b2
  have hc := cmpL_eq_cmpNat 8 _ _ f1 g1 f2 g2 f3 g3
  rw [f4, g4] at hc
  have hb := cmpB_xorff _ _ f5 g5
  -- a proper prefix is lexicographically smaller, hence c1 < c2
  have hlt : cmpL (coefBytes 7 c1) (coefBytes 7 c2) = .lt := by
    have : ∀ (ps qs : List Nat), ps <+: qs → ps ≠ qs → cmpL ps qs = .lt := by
      intro ps
      induction ps with
      | nil => intro qs _ hq; cases qs with
        | nil => exact absurd rfl hq
        | cons q qs => rfl
      | cons p ps ih =>
        intro qs hp hq
        cases qs with
        | nil => simp at hp
        | cons q qs =>
          obtain ⟨e, hh⟩ := (List.cons_prefix_cons).1 hp
          subst e
          simp only [cmpL, Nat.lt_irrefl, if_false]
          exact ih qs hh (fun h => hq (by rw [h]))
    apply this _ _ hpre
    intro h
    have : pv 8 (coefBytes 7 c1) = pv 8 (coefBytes 7 c2) := by rw [h]
    rw [f4, g4] at this
    exact hne this
  have hcl : c1 < c2 := by
    rw [hlt] at hc
    simp only [cmpNat] at hc
    by_cases h : c1 < c2
    · exact h
    · simp only [h, if_false] at hc
      split at hc <;> cases hc
  constructor
  · simp only [packDnum, show ((-1 : Int) < 0) by decide, show ¬ ((-1 : Int) = 0) by decide,
      show ¬ ((-1 : Int) = 2 ∨ (-1 : Int) = -2) by decide, if_true, if_false, cmpB_num, hb,
      Nat.lt_irrefl, cmpLneg_prefix _ _ hpre, hlt]
  · have n : ¬ (c2 < c1) := by omega
    simp [cmpDnum, flipIf, hne, hcl, Ordering.swap]

/-! ## infinities and zero -/

theorem coefBytes7_head (c : Nat) (h2 : c ≤ coefMax) :
    ∃ r, coefBytes 7 c = (c / 100 ^ 7) :: r ∧ c / 100 ^ 7 < 100 := by
  refine ⟨_, rfl, ?_⟩
  simp only [coefMax] at h2
  omega

theorem pack_posInf : packDnum ⟨2, 1, 0⟩ = [tagPlus, 255, 255] := by decide
theorem pack_negInf : packDnum ⟨-2, 1, 0⟩ = [tagMinus, 0, 0] := by decide

theorem pack_lt_posInf (x : Dnum) (hx : x.Norm) (sx : x.sign = 1) :
    cmpB (packDnum x) (packDnum ⟨2, 1, 0⟩) = .lt := by
  obtain ⟨s1, c1, e1⟩ := x
  simp only at sx
  subst sx
  obtain ⟨_, a1, a2, a3, a4⟩ := hx
  simp only at a1 a2 a3 a4
  obtain ⟨r, hr, hlt⟩ := coefBytes7_head c1 a2
  have hb := xor0_toNat (c1 / 100 ^ 7) (by omega)
  have he := expByte_pos e1 a3 a4
  rw [pack_posInf]
  simp only [packDnum, show ¬ ((1 : Int) < 0) by decide, show ¬ ((1 : Int) = 0) by decide,
    show ¬ ((1 : Int) = 2 ∨ (1 : Int) = -2) by decide,
    if_false, hr, xorBytes, List.map_cons, cmpB, UInt8.lt_iff_toNat_lt, he, hb,
    show (255 : UInt8).toNat = 255 by decide]
  split_ifs <;> first | rfl | (exfalso; omega)

theorem negInf_lt_pack (x : Dnum) (hx : x.Norm) (sx : x.sign = -1) :
    cmpB (packDnum ⟨-2, 1, 0⟩) (packDnum x) = .lt := by
  obtain ⟨s1, c1, e1⟩ := x
  simp only at sx
  subst sx
  obtain ⟨_, a1, a2, a3, a4⟩ := hx
  simp only at a1 a2 a3 a4
  obtain ⟨r, hr, hlt⟩ := coefBytes7_head c1 a2
  have hb := xorff_toNat' (c1 / 100 ^ 7) (by omega)
  have he := expByte_neg e1 a3 a4
  rw [pack_negInf]
  simp only [packDnum, show ((-1 : Int) < 0) by decide, show ¬ ((-1 : Int) = 0) by decide,
    show ¬ ((-1 : Int) = 2 ∨ (-1 : Int) = -2) by decide,
    if_true, if_false, hr, xorBytes, List.map_cons, cmpB, UInt8.lt_iff_toNat_lt, he, hb,
    show (0 : UInt8).toNat = 0 by decide]
  split_ifs <;> first | rfl | (exfalso; omega)

/-- a negative number packs below zero and every positive number (tag order) -/
theorem pack_neg_lt_nonneg (x y : Dnum) (sx : x.sign < 0) (sy : 0 ≤ y.sign) :
    cmpB (packDnum x) (packDnum y) = .lt := by
  have ny : ¬ y.sign < 0 := by omega
  have nx : ¬ x.sign = 0 := by omega
  simp only [packDnum, sx, ny, nx, if_true, if_false]
  have t : tagMinus < tagPlus := by decide
  split_ifs <;> simp [cmpB, t]

/-- zero packs below every positive number (it is a proper prefix) -/
theorem pack_zero_lt_pos (y : Dnum) (sy : 0 < y.sign) :
    cmpB (packDnum ⟨0, 0, 0⟩) (packDnum y) = .lt := by
  have n1 : ¬ y.sign < 0 := by omega
  have n2 : ¬ y.sign = 0 := by omega
  simp only [packDnum, n1, n2, if_false, show ¬ ((0 : Int) < 0) by decide, if_true]
  split_ifs <;> simp [cmpB]

/-! ## strings, dates, timestamps -/

theorem cmpB_cons_same (t : UInt8) (a b : Bytes) : cmpB (t :: a) (t :: b) = cmpB a b := by
  simp [cmpB]

theorem cmpB_refl (a : Bytes) : cmpB a a = .eq := by
  induction a with
  | nil => rfl
  | cons x a ih => simp [cmpB, ih]

theorem cmpB_be32 (a b : Nat) (ha : a < 4294967296) (hb : b < 4294967296) (x y : Bytes) :
    cmpB (be32 a ++ x) (be32 b ++ y) = if a < b then .lt else if b < a then .gt else cmpB x y := by
  simp only [be32, List.cons_append, List.nil_append, cmpB, UInt8.lt_iff_toNat_lt, UInt8.toNat_ofNat']
  split_ifs
  all_goals first | rfl | (exfalso; omega)

theorem unbe32_be32 (a : Nat) (ha : a < 4294967296) : unbe32 (be32 a) = a := by
  simp only [be32, unbe32, UInt8.toNat_ofNat']
  omega

/-- lexicographic order of (date word, time word, extra) with "no extra" = 0 -/
def cmpDT (d1 t1 x1 d2 t2 x2 : Nat) : Ordering :=
  if d1 < d2 then .lt else if d2 < d1 then .gt
  else if t1 < t2 then .lt else if t2 < t1 then .gt
  else cmpNat x1 x2

theorem cmpB_packDate (d1 t1 d2 t2 : Nat) (h1 : d1 < 4294967296) (h2 : t1 < 4294967296)
    (h3 : d2 < 4294967296) (h4 : t2 < 4294967296) (x y : Bytes) :
    cmpB (packDate d1 t1 ++ x) (packDate d2 t2 ++ y) =
      if d1 < d2 then .lt else if d2 < d1 then .gt
      else if t1 < t2 then .lt else if t2 < t1 then .gt else cmpB x y := by
  simp only [packDate, List.cons_append, cmpB_cons_same, List.append_assoc]
  rw [cmpB_be32 d1 d2 h1 h3, cmpB_be32 t1 t2 h2 h4]

theorem unpackDate_packDate (d t : Nat) (h1 : d < 4294967296) (h2 : t < 4294967296) :
    unpackDate (packDate d t) = some (d, t, 0) := by
  have a := unbe32_be32 d h1
  have b := unbe32_be32 t h2
  simp only [be32] at a b
  simp only [packDate, be32, List.cons_append, List.nil_append, unpackDate, a, b]

theorem unpackDate_packTs (d t x : Nat) (h1 : d < 4294967296) (h2 : t < 4294967296)
    (hx : 0 < x ∧ x < 256) :
    unpackDate (packTs d t x) = some (d, t, x) := by
  have a := unbe32_be32 d h1
  have b := unbe32_be32 t h2
  simp only [be32] at a b
  have hx0 : UInt8.ofNat x ≠ 0 := by
    intro h
    have := congrArg UInt8.toNat h
    rw [UInt8.toNat_ofNat'] at this
    simp at this
    omega
  have hxn : (UInt8.ofNat x).toNat = x := by rw [UInt8.toNat_ofNat']; omega
  simp only [packTs, packDate, be32, List.cons_append, List.nil_append, unpackDate, a, b, hx0,
    if_false, hxn]

end Gsu.Pack
