import Gsu.Proofs.Ixkey
namespace Gsu.Ixkey
open Gsu.Proto

theorem zpos {c : UInt8} (h : c ≠ 0) : (0:UInt8) < c := by
  rcases UInt8.lt_or_eq_of_le (UInt8.zero_le (a := c)) with h' | h'
  · exact h'
  · exact absurd h'.symm h

theorem enc_zero (bs : Bytes) : enc (0 :: bs) = 0 :: 1 :: enc bs := by simp [enc]
theorem enc_nz {b : UInt8} (h : b ≠ 0) (bs : Bytes) : enc (b :: bs) = b :: enc bs := by simp [enc, h]

theorem splitSep_sep (r : Bytes) : splitSep (0 :: 0 :: r) = [] :: splitSep r := splitSep.eq_2 r
theorem splitSep_nz {b : UInt8} (h : b ≠ 0) (r : Bytes) :
    splitSep (b :: r) = match splitSep r with | [] => [[b]] | p :: ps => (b :: p) :: ps := by
  exact splitSep.eq_3 b r (fun r' h1 _ => h h1)
theorem splitSep_z_nz {c : UInt8} (h : c ≠ 0) (r : Bytes) :
    splitSep (0 :: c :: r) = match splitSep (c :: r) with | [] => [[0]] | p :: ps => (0 :: p) :: ps := by
  exact splitSep.eq_3 0 (c :: r) (fun r' _ h2 => h (by simp_all))
theorem splitSep_z : splitSep [0] = [[0]] := by
  rw [splitSep.eq_3]
  · rfl
  · intro r' _ h2; simp at h2

theorem splitSep_enc (a : Bytes) : splitSep (enc a) = [enc a] := by
  induction a with
  | nil => rfl
  | cons b bs ih =>
    by_cases hb : b = 0
    · subst hb
      rw [enc_zero, splitSep_z_nz (by decide), splitSep_nz (by decide), ih]
    · rw [enc_nz hb, splitSep_nz hb, ih]

theorem splitSep_enc_sep (a r : Bytes) : splitSep (enc a ++ 0 :: 0 :: r) = enc a :: splitSep r := by
  induction a with
  | nil => exact splitSep_sep r
  | cons b bs ih =>
    by_cases hb : b = 0
    · subst hb
      rw [enc_zero]; simp only [List.cons_append]
      rw [splitSep_z_nz (by decide), splitSep_nz (by decide), ih]
    · rw [enc_nz hb]; simp only [List.cons_append]; rw [splitSep_nz hb, ih]

theorem unenc_zero_one (r : Bytes) : unenc (0 :: 1 :: r) = 0 :: unenc r := unenc.eq_2 r

theorem unenc_nz {b : UInt8} (h : b ≠ 0) (r : Bytes) : unenc (b :: r) = b :: unenc r := by
  exact unenc.eq_3 b r (fun r' h1 _ => h h1)

theorem unenc_enc (a : Bytes) : unenc (enc a) = a := by
  induction a with
  | nil => rfl
  | cons b bs ih =>
    by_cases hb : b = 0
    · subst hb; rw [enc_zero, unenc_zero_one, ih]
    · rw [enc_nz hb, unenc_nz hb, ih]

theorem enc_inj {a b : Bytes} (h : enc a = enc b) : a = b := by
  have := congrArg unenc h
  rwa [unenc_enc, unenc_enc] at this

/-- no separator inside an encoded field (even when followed by a tail that starts with one zero…) -/
theorem enc_no_sep (a p s : Bytes) : enc a ≠ p ++ 0 :: 0 :: s := by
  induction a generalizing p with
  | nil => simp [enc]
  | cons b bs ih =>
    by_cases hb : b = 0
    · subst hb
      rw [enc_zero]
      cases p with
      | nil => simp
      | cons x p =>
        cases p with
        | nil => simp
        | cons y p =>
          simp only [List.cons_append]
          intro h
          injection h with _ h
          injection h with _ h
          exact ih p h
    · rw [enc_nz hb]
      cases p with
      | nil => simp [hb]
      | cons x p =>
        simp only [List.cons_append]
        intro h
        injection h with _ h
        exact ih p h

theorem enc_not_end_zero (a p : Bytes) : enc a ≠ p ++ [0] := by
  induction a generalizing p with
  | nil => simp [enc]
  | cons b bs ih =>
    by_cases hb : b = 0
    · subst hb
      rw [enc_zero]
      cases p with
      | nil => simp
      | cons x p =>
        cases p with
        | nil => simp
        | cons y p =>
          simp only [List.cons_append]
          intro h
          injection h with _ h
          injection h with _ h
          exact ih p h
    · rw [enc_nz hb]
      cases p with
      | nil => simp [hb]
      | cons x p =>
        simp only [List.cons_append]
        intro h
        injection h with _ h
        exact ih p h
end Gsu.Ixkey
