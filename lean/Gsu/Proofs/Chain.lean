/-
Proofs about the persist chain of `Gsu.Model.Hamt` (C15, C04), for ANY lawful map
implementation `ops` (the trie is one, `Gsu.Proofs.Hamt`).  Core only.

Invariant `ChInv` (DESIGN Appendix A.5): every in-memory item is either modified at the current
clock, or a tombstone whose key is on no linked chunk, or the newest version on the chain, held
by a chunk whose age does not exceed the item's lastMod; keys absent from memory are on no linked
chunk; ages do not increase towards older chunks; lastMod ≤ clock; ages ≤ clock.
-/
import Gsu.Model.Hamt
namespace Gsu.Hamt

/-- what the chain needs from the in-memory table -/
structure MapLaws {M : Type} (ops : MapOps M) (ok : M → Prop) : Prop where
  ok_empty : ok ops.empty
  get_empty : ∀ k, ops.get ops.empty k = none
  ok_put : ∀ m x, ok m → ok (ops.put m x)
  get_put : ∀ m x k, ok m → ops.get (ops.put m x) k = if k = x.key then some x else ops.get m k
  ok_del : ∀ m k, ok m → ok (ops.del m k)
  get_del : ∀ m k k', ok m → ops.get (ops.del m k) k' = if k' = k then none else ops.get m k'
  get_key : ∀ m k x, ok m → ops.get m k = some x → x.key = k
  mem_all : ∀ m x, ok m → (x ∈ ops.all m ↔ ops.get m x.key = some x)

/-- age of the chunk that holds the newest version of `k` -/
def holderAge : List Chunk → Nat → Option Int
  | [], _ => none
  | ch :: rest, k =>
    match findK ch.items k with
    | some _ => some ch.age
    | none => holderAge rest k

/-- the in-memory item `it` under key `k` is what the chain `cs` holds: a tombstone of a key that
is on no chunk, or the newest version on the chain, in a chunk not younger than the item -/
def SyncedTo (cs : List Chunk) (k : Nat) (it : Item) : Prop :=
  (it.tomb = true ∧ lookupD cs k = none) ∨
  (∃ d a, lookupD cs k = some d ∧ d.val = it.val ∧ d.tomb = it.tomb ∧
    holderAge cs k = some a ∧ a ≤ it.mod)

structure ChInv {M : Type} (ops : MapOps M) (ok : M → Prop) (c : Chain M) : Prop where
  okM : ok c.ht
  synced : ∀ k it, ops.get c.ht k = some it → it.mod = c.clock ∨ SyncedTo c.chunks k it
  absent : ∀ k, ops.get c.ht k = none → lookupD c.chunks k = none
  sorted : c.chunks.Pairwise (fun newer older => older.age ≤ newer.age)
  modLe : ∀ k it, ops.get c.ht k = some it → it.mod ≤ c.clock
  ageLe : ∀ ch ∈ c.chunks, ch.age ≤ c.clock

/-- disk and memory denote the same map -/
def Agree {M : Type} (ops : MapOps M) (c : Chain M) : Prop :=
  ∀ k, live (lookupD c.chunks k) = live (ops.get c.ht k)

/-! ### list facts -/

theorem findK_some {items : List Item} {k : Nat} {x : Item} (h : findK items k = some x) :
    x ∈ items ∧ x.key = k := by
  unfold findK at h
  have h1 := List.mem_of_find?_eq_some h
  have h2 := List.find?_some h
  exact ⟨h1, by simpa using h2⟩

theorem findK_none {items : List Item} {k : Nat} (h : findK items k = none) :
    ∀ x ∈ items, x.key ≠ k := by
  unfold findK at h
  intro x hx
  have := List.find?_eq_none.mp h x hx
  simpa using this

section laws
variable {M : Type} {ops : MapOps M} {ok : M → Prop}

/-- looking a key up in `All()` is `Get` -/
theorem findK_all (L : MapLaws ops ok) {m : M} (hm : ok m) (k : Nat) :
    findK (ops.all m) k = ops.get m k := by
  cases hf : findK (ops.all m) k with
  | some y =>
    obtain ⟨hy, hk⟩ := findK_some hf
    have := (L.mem_all m y hm).mp hy
    rw [hk] at this
    exact this.symm
  | none =>
    cases hg : ops.get m k with
    | none => rfl
    | some x =>
      have hk := L.get_key m k x hm hg
      have hx : x ∈ ops.all m := (L.mem_all m x hm).mpr (by rw [hk]; exact hg)
      exact absurd hk (findK_none hf x hx)

/-- looking a key up in a filtered `All()` -/
theorem findK_filter_all (L : MapLaws ops ok) {m : M} (hm : ok m) (p : Item → Bool) (k : Nat) :
    findK ((ops.all m).filter p) k = (ops.get m k).filter p := by
  cases hf : findK ((ops.all m).filter p) k with
  | some y =>
    obtain ⟨hy, hk⟩ := findK_some hf
    obtain ⟨hy1, hy2⟩ := List.mem_filter.mp hy
    have := (L.mem_all m y hm).mp hy1
    rw [hk] at this
    rw [this]; simp [Option.filter, hy2]
  | none =>
    cases hg : ops.get m k with
    | none => rfl
    | some x =>
      have hk := L.get_key m k x hm hg
      have hx : x ∈ ops.all m := (L.mem_all m x hm).mpr (by rw [hk]; exact hg)
      by_cases hp : p x = true
      · exact absurd hk (findK_none hf x (List.mem_filter.mpr ⟨hx, hp⟩))
      · simp [Option.filter, hp]

end laws

/-! ### chunk list facts (after CHAIN.lean) -/

theorem lookupD_drop (cs : List Chunk) (n : Nat) (k : Nat)
    (h : ∀ ch ∈ cs.take n, findK ch.items k = none) : lookupD (cs.drop n) k = lookupD cs k := by
  induction n generalizing cs with
  | zero => simp
  | succ n ih =>
    cases cs with
    | nil => simp
    | cons c cs =>
      have hc : findK c.items k = none := h c (by simp)
      simp only [List.drop_succ_cons, lookupD, hc]
      exact ih cs (fun ch hch => h ch (by simp [List.take_succ_cons, hch]))

theorem holderAge_drop (cs : List Chunk) (n : Nat) (k : Nat)
    (h : ∀ ch ∈ cs.take n, findK ch.items k = none) : holderAge (cs.drop n) k = holderAge cs k := by
  induction n generalizing cs with
  | zero => simp
  | succ n ih =>
    cases cs with
    | nil => simp
    | cons c cs =>
      have hc : findK c.items k = none := h c (by simp)
      simp only [List.drop_succ_cons, holderAge, hc]
      exact ih cs (fun ch hch => h ch (by simp [List.take_succ_cons, hch]))

theorem lookupD_none_all (cs : List Chunk) (k : Nat) (h : lookupD cs k = none) :
    ∀ ch ∈ cs, findK ch.items k = none := by
  induction cs with
  | nil => simp
  | cons c cs ih =>
    intro ch hch
    cases hck : findK c.items k with
    | some v => simp [lookupD, hck] at h
    | none =>
      simp only [lookupD, hck] at h
      simp only [List.mem_cons] at hch
      rcases hch with rfl | hch
      · exact hck
      · exact ih h ch hch

theorem lookupD_none_drop (cs : List Chunk) (n k : Nat) (h : lookupD cs k = none) :
    lookupD (cs.drop n) k = none := by
  rw [lookupD_drop cs n k (fun ch hch => lookupD_none_all cs k h ch (List.mem_of_mem_take hch))]
  exact h

/-- the holder of `k` is one of the chunks -/
theorem holderAge_mem (cs : List Chunk) (k : Nat) (a : Int) (h : holderAge cs k = some a) :
    ∃ ch ∈ cs, ch.age = a := by
  induction cs with
  | nil => simp [holderAge] at h
  | cons c cs ih =>
    cases hck : findK c.items k with
    | some v =>
      simp only [holderAge, hck, Option.some.injEq] at h
      exact ⟨c, by simp, h⟩
    | none =>
      simp only [holderAge, hck] at h
      obtain ⟨ch, hch, ha⟩ := ih h
      exact ⟨ch, by simp [hch], ha⟩

/-- if the first chunk holding k has age a, no chunk of a prefix whose ages all exceed a holds k -/
theorem holder_not_in_prefix (cs : List Chunk) (n : Nat) (k : Nat) (a : Int)
    (ha : holderAge cs k = some a) (hp : ∀ ch ∈ cs.take n, a < ch.age) :
    ∀ ch ∈ cs.take n, findK ch.items k = none := by
  induction n generalizing cs with
  | zero => simp
  | succ n ih =>
    cases cs with
    | nil => simp
    | cons c cs =>
      intro ch hch
      have hc : a < c.age := hp c (by simp)
      cases hck : findK c.items k with
      | some v =>
        simp only [holderAge, hck] at ha
        cases ha; omega
      | none =>
        simp only [holderAge, hck] at ha
        simp only [List.take_succ_cons, List.mem_cons] at hch
        rcases hch with rfl | hch
        · exact hck
        · exact ih cs ha (fun ch' h' => hp ch' (by simp [List.take_succ_cons, h'])) ch hch

/-- ages in a sorted list are at least the age of its last element -/
theorem last_age_le (cs : List Chunk) (last : Chunk)
    (hs : cs.Pairwise (fun newer older => older.age ≤ newer.age))
    (hl : cs.getLast? = some last) : ∀ ch ∈ cs, last.age ≤ ch.age := by
  intro ch hch
  obtain ⟨pre, hpre⟩ : ∃ pre, cs = pre ++ [last] := List.getLast?_eq_some_iff.mp hl
  rw [hpre] at hs hch
  rw [List.pairwise_append] at hs
  simp only [List.mem_append, List.mem_singleton] at hch
  rcases hch with hch | rfl
  · exact hs.2.2 ch hch last (by simp)
  · exact Int.le_refl _

/-- chunks after the `n` newest are not younger than the oldest of the `n` newest -/
theorem drop_age_le (cs : List Chunk) (n : Nat) (last : Chunk)
    (hs : cs.Pairwise (fun newer older => older.age ≤ newer.age))
    (hl : (cs.take n).getLast? = some last) : ∀ ch ∈ cs.drop n, ch.age ≤ last.age := by
  intro ch hch
  have hlast : last ∈ cs.take n := List.mem_of_getLast? hl
  have : cs = cs.take n ++ cs.drop n := (List.take_append_drop n cs).symm
  rw [this, List.pairwise_append] at hs
  exact hs.2.2 last hlast ch hch

/-! ### the threshold of a write -/

/-- `oldest` of `writeChainWith` -/
def thrOf {M : Type} (c : Chain M) (merge : Nat) : Int :=
  match (c.chunks.take merge).getLast? with
  | some ch => ch.age
  | none => c.clock

section write
variable {M : Type} {ops : MapOps M} {ok : M → Prop}

theorem thrOf_le_clock {c : Chain M} (h : ChInv ops ok c) (merge : Nat) : thrOf c merge ≤ c.clock := by
  unfold thrOf
  cases hl : (c.chunks.take merge).getLast? with
  | none => simp
  | some last => exact h.ageLe last (List.mem_of_mem_take (List.mem_of_getLast? hl))

/-- every chunk of the merged prefix is at least as young as the threshold -/
theorem thrOf_le_prefix {c : Chain M} (h : ChInv ops ok c) (merge : Nat) :
    ∀ ch ∈ c.chunks.take merge, thrOf c merge ≤ ch.age := by
  intro ch hch
  unfold thrOf
  cases hl : (c.chunks.take merge).getLast? with
  | none =>
    have : c.chunks.take merge = [] := by
      cases ht : c.chunks.take merge with
      | nil => rfl
      | cons x xs => rw [ht] at hl; simp at hl
    rw [this] at hch; cases hch
  | some last =>
    exact last_age_le _ last (h.sorted.sublist (List.take_sublist merge c.chunks)) hl ch hch

/-- chunks that stay linked are not younger than the threshold -/
theorem rest_le_thrOf {c : Chain M} (h : ChInv ops ok c) (merge : Nat) :
    ∀ ch ∈ c.chunks.drop merge, ch.age ≤ thrOf c merge := by
  intro ch hch
  unfold thrOf
  cases hl : (c.chunks.take merge).getLast? with
  | none => exact h.ageLe ch (List.mem_of_mem_drop hch)
  | some last => exact drop_age_le _ merge last h.sorted hl ch hch

/-- an item older than the threshold is found on the chunks that stay linked exactly as before -/
theorem old_item_kept {c : Chain M} (h : ChInv ops ok c) (merge : Nat) (k : Nat) (a : Int)
    (ha : holderAge c.chunks k = some a) (hlt : a < thrOf c merge) :
    lookupD (c.chunks.drop merge) k = lookupD c.chunks k ∧
    holderAge (c.chunks.drop merge) k = holderAge c.chunks k := by
  have hpre : ∀ ch ∈ c.chunks.take merge, findK ch.items k = none := by
    apply holder_not_in_prefix c.chunks merge k a ha
    intro ch hch
    have := thrOf_le_prefix h merge ch hch
    omega
  exact ⟨lookupD_drop _ _ _ hpre, holderAge_drop _ _ _ hpre⟩

/-- the items `writeChainWith` selects for the new chunk -/
def writeItems (ops : MapOps M) (c : Chain M) (merge : Nat) : List Item :=
  if merge == c.chunks.length then (ops.all c.ht).filter (fun it => !it.tomb)
  else (ops.all c.ht).filter (fun it => decide (thrOf c merge ≤ it.mod))

theorem writeChainWith_eq (c : Chain M) (merge id : Nat) :
    writeChainWith ops c merge id =
      if (writeItems ops c merge).isEmpty then
        if c.chunks.length > 0 && merge == c.chunks.length then
          (false, { c with chunks := [], clock := c.clock + 1 })
        else (false, c)
      else
        (true, { c with
          chunks := { id := id, age := thrOf c merge, ck := cksumOf (ops.all c.ht),
                      items := writeItems ops c merge } :: c.chunks.drop merge,
          clock := c.clock + 1 }) := rfl

/-- the three possible results of `writeChainWith` -/
theorem write_cases (c : Chain M) (merge id : Nat) :
    (writeItems ops c merge = [] ∧ (c.chunks.length > 0 ∧ merge = c.chunks.length) ∧
      (writeChainWith ops c merge id).2 = { c with chunks := [], clock := c.clock + 1 }) ∨
    (writeItems ops c merge = [] ∧ ¬ (c.chunks.length > 0 ∧ merge = c.chunks.length) ∧
      (writeChainWith ops c merge id).2 = c) ∨
    (writeItems ops c merge ≠ [] ∧ (writeChainWith ops c merge id).2 = { c with
        chunks := { id := id, age := thrOf c merge, ck := cksumOf (ops.all c.ht),
                    items := writeItems ops c merge } :: c.chunks.drop merge,
        clock := c.clock + 1 }) := by
  rw [writeChainWith_eq]
  by_cases hemp : (writeItems ops c merge).isEmpty = true
  · have hnil := List.isEmpty_iff.mp hemp
    by_cases hc : c.chunks.length > 0 ∧ merge = c.chunks.length
    · refine Or.inl ⟨hnil, hc, ?_⟩
      rw [if_pos hemp, if_pos (by simp [hc.1, hc.2])]
    · refine Or.inr (Or.inl ⟨hnil, hc, ?_⟩)
      have : (decide (c.chunks.length > 0) && (merge == c.chunks.length)) = false := by
        cases h1 : decide (c.chunks.length > 0) <;> cases h2 : (merge == c.chunks.length) <;> simp_all
      rw [if_pos hemp, if_neg (by simp [this])]
  · have hne : writeItems ops c merge ≠ [] := fun h => hemp (List.isEmpty_iff.mpr h)
    refine Or.inr (Or.inr ⟨hne, ?_⟩)
    rw [if_neg hemp]

end write

/-! ### a write keeps the invariant and leaves disk = memory -/

section main
variable {M : Type} {ops : MapOps M} {ok : M → Prop}

theorem live_filter_nontomb (o : Option Item) : live (o.filter (fun it => !it.tomb)) = live o := by
  cases o with
  | none => rfl
  | some it => cases ht : it.tomb <;> simp [live, Option.filter, ht]

theorem live_of_synced {cs : List Chunk} {k : Nat} {it : Item} (h : SyncedTo cs k it) :
    live (lookupD cs k) = live (some it) := by
  rcases h with ⟨ht, hl⟩ | ⟨d, a, hl, hv, htb, _, _⟩
  · rw [hl]; simp [live, ht]
  · rw [hl]; simp [live, hv, htb]

theorem synced_cons {cs : List Chunk} {k : Nat} {it : Item} (new : Chunk)
    (hn : findK new.items k = none) (h : SyncedTo cs k it) : SyncedTo (new :: cs) k it := by
  rcases h with ⟨ht, hl⟩ | ⟨d, a, hl, hv, htb, ha, hle⟩
  · exact Or.inl ⟨ht, by simp only [lookupD, hn]; exact hl⟩
  · exact Or.inr ⟨d, a, by simp only [lookupD, hn]; exact hl, hv, htb,
      by simp only [holderAge, hn]; exact ha, hle⟩

theorem findK_writeItems (L : MapLaws ops ok) {c : Chain M} (hok : ok c.ht) (merge k : Nat) :
    findK (writeItems ops c merge) k =
      if merge = c.chunks.length then (ops.get c.ht k).filter (fun it => !it.tomb)
      else (ops.get c.ht k).filter (fun it => decide (thrOf c merge ≤ it.mod)) := by
  unfold writeItems
  by_cases hf : merge = c.chunks.length
  · rw [if_pos hf, if_pos (by simp [hf])]; exact findK_filter_all L hok _ k
  · rw [if_neg hf, if_neg (by simpa using hf)]; exact findK_filter_all L hok _ k

/-- an item older than the threshold is still synced to the chunks that stay linked -/
theorem stale_item {c : Chain M} (h : ChInv ops ok c) (merge : Nat) {k : Nat} {it : Item}
    (hg : ops.get c.ht k = some it) (hlt : it.mod < thrOf c merge) :
    SyncedTo (c.chunks.drop merge) k it := by
  have hthr := thrOf_le_clock h merge
  rcases h.synced k it hg with hmod | ⟨ht, hl⟩ | ⟨d, a, hl, hv, htb, ha, hle⟩
  · omega
  · exact Or.inl ⟨ht, lookupD_none_drop _ _ _ hl⟩
  · obtain ⟨h1, h2⟩ := old_item_kept h merge k a ha (by omega)
    exact Or.inr ⟨d, a, by rw [h1]; exact hl, hv, htb, by rw [h2]; exact ha, hle⟩

/-- every item is at least as young as the oldest chunk (so a flatten may use that age) -/
theorem thr_le_mod_of_flat {c : Chain M} (h : ChInv ops ok c) {k : Nat} {it : Item}
    (hg : ops.get c.ht k = some it) (hlive : it.tomb = false) :
    thrOf c c.chunks.length ≤ it.mod := by
  have hthr := thrOf_le_clock h c.chunks.length
  rcases h.synced k it hg with hmod | ⟨ht, _⟩ | ⟨d, a, _, _, _, ha, hle⟩
  · omega
  · rw [hlive] at ht; cases ht
  · obtain ⟨ch, hch, hage⟩ := holderAge_mem _ _ _ ha
    have := thrOf_le_prefix h c.chunks.length ch (by simpa using hch)
    omega

/-- what is selected for the new chunk, per key -/
theorem write_selected (L : MapLaws ops ok) {c : Chain M} (h : ChInv ops ok c) (merge k : Nat) :
    (∃ it, findK (writeItems ops c merge) k = some it ∧ ops.get c.ht k = some it ∧
        thrOf c merge ≤ it.mod ∧ (merge = c.chunks.length → it.tomb = false)) ∨
    (findK (writeItems ops c merge) k = none ∧
      (ops.get c.ht k = none ∨
       ∃ it, ops.get c.ht k = some it ∧
         ((merge = c.chunks.length ∧ it.tomb = true) ∨
          (merge ≠ c.chunks.length ∧ it.mod < thrOf c merge)))) := by
  rw [findK_writeItems L h.okM]
  rcases Option.eq_none_or_eq_some (ops.get c.ht k) with hg | ⟨it, hg⟩
  · right; rw [hg]; by_cases hf : merge = c.chunks.length <;> simp [hf]
  · by_cases hf : merge = c.chunks.length
    · rw [if_pos hf]
      cases ht : it.tomb
      · left; refine ⟨it, by rw [hg]; simp [Option.filter, ht], hg, ?_, fun _ => ht⟩
        rw [hf]; exact thr_le_mod_of_flat h hg ht
      · right; exact ⟨by rw [hg]; simp [Option.filter, ht], Or.inr ⟨it, hg, Or.inl ⟨hf, ht⟩⟩⟩
    · rw [if_neg hf]
      by_cases hle : thrOf c merge ≤ it.mod
      · left; exact ⟨it, by rw [hg]; simp [Option.filter, hle], hg, hle, fun h' => absurd h' hf⟩
      · right
        have hlt : it.mod < thrOf c merge := by omega
        exact ⟨by rw [hg]; simp [Option.filter, hlt], Or.inr ⟨it, hg, Or.inr ⟨hf, hlt⟩⟩⟩

/-- **after any write the chain on disk denotes the in-memory map** (any number of merged chunks) -/
theorem write_agree (L : MapLaws ops ok) {c : Chain M} (h : ChInv ops ok c) (merge id : Nat)
    (_hm : merge ≤ c.chunks.length) : Agree ops (writeChainWith ops c merge id).2 := by
  intro k
  have hsel := write_selected L h merge k
  rcases write_cases (ops := ops) c merge id with ⟨hnil, hc, hr⟩ | ⟨hnil, hc, hr⟩ | ⟨_, hr⟩
  · -- flatten, nothing live: the empty chain
    rw [hr]; simp only [lookupD]
    rw [hnil] at hsel
    rcases hsel with ⟨it, hf, _⟩ | ⟨_, hg | ⟨it, hg, ⟨_, ht⟩ | ⟨hne, _⟩⟩⟩
    · simp [findK] at hf
    · rw [hg]
    · rw [hg]; simp [live, ht]
    · exact absurd hc.2 hne
  · -- nothing selected, chain unchanged
    rw [hr]
    rw [hnil] at hsel
    rcases hsel with ⟨it, hf, _⟩ | ⟨_, hg | ⟨it, hg, ⟨hfl, ht⟩ | ⟨hne, hlt⟩⟩⟩
    · simp [findK] at hf
    · rw [hg, h.absent k hg]
    · -- flat and no chunks
      have : c.chunks = [] := by
        cases hcs : c.chunks with
        | nil => rfl
        | cons x xs => exact absurd ⟨by simp [hcs], hfl⟩ hc
      rw [hg, this]; simp [lookupD, live, ht]
    · rw [hg]
      have := stale_item h merge hg hlt
      have hthr := thrOf_le_clock h merge
      rcases h.synced k it hg with hmod | hs
      · omega
      · exact live_of_synced hs
  · -- a chunk was written
    rw [hr]; simp only [lookupD]
    rcases hsel with ⟨it, hf, hg, _, _⟩ | ⟨hf, hg | ⟨it, hg, ⟨hfl, ht⟩ | ⟨_, hlt⟩⟩⟩
    · rw [hf, hg]
    · rw [hf, hg, lookupD_none_drop _ _ _ (h.absent k hg)]
    · rw [hf, hg, hfl, List.drop_length]; simp [lookupD, live, ht]
    · rw [hf, hg]; exact live_of_synced (stale_item h merge hg hlt)

/-- **a write preserves the chain invariant** -/
theorem write_inv (L : MapLaws ops ok) {c : Chain M} (h : ChInv ops ok c) (merge id : Nat)
    (hm : merge ≤ c.chunks.length) : ChInv ops ok (writeChainWith ops c merge id).2 := by
  have hthr := thrOf_le_clock h merge
  rcases write_cases (ops := ops) c merge id with ⟨hnil, hc, hr⟩ | ⟨_, _, hr⟩ | ⟨_, hr⟩
  · rw [hr]
    refine ⟨h.okM, ?_, ?_, List.Pairwise.nil, ?_, ?_⟩
    · intro k it hg
      have hsel := write_selected L h merge k
      rw [hnil] at hsel
      rcases hsel with ⟨it', hf, _⟩ | ⟨_, hg' | ⟨it', hg', ⟨_, ht⟩ | ⟨hne, _⟩⟩⟩
      · simp [findK] at hf
      · rw [hg'] at hg; cases hg
      · rw [hg'] at hg; cases hg; exact Or.inr (Or.inl ⟨ht, rfl⟩)
      · exact absurd hc.2 hne
    · intro k _; rfl
    · intro k it hg; have := h.modLe k it hg; simp only; omega
    · intro ch hch; cases hch
  · rw [hr]; exact h
  · rw [hr]
    refine ⟨h.okM, ?_, ?_, ?_, ?_, ?_⟩
    · intro k it hg
      right
      have hsel := write_selected L h merge k
      rcases hsel with ⟨it', hf, hg', hle, _⟩ | ⟨hf, hg' | ⟨it', hg', ⟨hfl, ht⟩ | ⟨_, hlt⟩⟩⟩
      · simp only at hg; rw [hg'] at hg; cases hg
        exact Or.inr ⟨it, thrOf c merge, by simp only [lookupD, hf], rfl, rfl,
          by simp only [holderAge, hf], hle⟩
      · simp only at hg; rw [hg'] at hg; cases hg
      · simp only at hg; rw [hg'] at hg; cases hg
        refine Or.inl ⟨ht, ?_⟩
        simp only [lookupD, hf]
        rw [hfl, List.drop_length]; rfl
      · simp only at hg; rw [hg'] at hg; cases hg
        exact synced_cons _ hf (stale_item h merge hg' hlt)
    · intro k hg
      have hsel := write_selected L h merge k
      simp only at hg
      rcases hsel with ⟨it', _, hg', _, _⟩ | ⟨hf, _⟩
      · rw [hg'] at hg; cases hg
      · simp only [lookupD, hf]; exact lookupD_none_drop _ _ _ (h.absent k hg)
    · refine List.pairwise_cons.mpr ⟨?_, h.sorted.sublist (List.drop_sublist merge c.chunks)⟩
      intro ch hch
      exact rest_le_thrOf h merge ch hch
    · intro k it hg; have := h.modLe k it hg; simp only; omega
    · intro ch hch
      simp only [List.mem_cons] at hch
      rcases hch with rfl | hch
      · simp only; omega
      · have := h.ageLe ch (List.mem_of_mem_drop hch); simp only; omega

/-! ### the other steps -/

theorem empty_inv (L : MapLaws ops ok) : ChInv ops ok { ht := ops.empty, chunks := [], clock := 0 } :=
  ⟨L.ok_empty, fun k it hg => by simp [L.get_empty] at hg, fun _ _ => rfl, List.Pairwise.nil,
   fun k it hg => by simp [L.get_empty] at hg, fun ch hch => by cases hch⟩

/-- `Put` of an item stamped with the current clock (live or tombstone) -/
theorem put_inv (L : MapLaws ops ok) {c : Chain M} (h : ChInv ops ok c) (x : Item)
    (hx : x.mod = c.clock) : ChInv ops ok { c with ht := ops.put c.ht x } := by
  refine ⟨L.ok_put _ _ h.okM, ?_, ?_, h.sorted, ?_, h.ageLe⟩
  · intro k it hg
    simp only [L.get_put _ _ _ h.okM] at hg
    by_cases hk : k = x.key
    · rw [if_pos hk] at hg; cases hg; exact Or.inl hx
    · rw [if_neg hk] at hg; exact h.synced k it hg
  · intro k hg
    simp only [L.get_put _ _ _ h.okM] at hg
    by_cases hk : k = x.key
    · rw [if_pos hk] at hg; cases hg
    · rw [if_neg hk] at hg; exact h.absent k hg
  · intro k it hg
    simp only [L.get_put _ _ _ h.okM] at hg
    by_cases hk : k = x.key
    · rw [if_pos hk] at hg; cases hg; simp only; omega
    · rw [if_neg hk] at hg; exact h.modLe k it hg

/-- `Delete` without tombstone of a key that is on no linked chunk
(meta.Drop: `created == clock`, "not persisted so no need for tombstone") -/
theorem del_inv (L : MapLaws ops ok) {c : Chain M} (h : ChInv ops ok c) (k : Nat)
    (hk : lookupD c.chunks k = none) : ChInv ops ok { c with ht := ops.del c.ht k } := by
  refine ⟨L.ok_del _ _ h.okM, ?_, ?_, h.sorted, ?_, h.ageLe⟩
  · intro k' it hg
    simp only [L.get_del _ _ _ h.okM] at hg
    by_cases hkk : k' = k
    · rw [if_pos hkk] at hg; cases hg
    · rw [if_neg hkk] at hg; exact h.synced k' it hg
  · intro k' hg
    simp only [L.get_del _ _ _ h.okM] at hg
    by_cases hkk : k' = k
    · rw [hkk]; exact hk
    · rw [if_neg hkk] at hg; exact h.absent k' hg
  · intro k' it hg
    simp only [L.get_del _ _ _ h.okM] at hg
    by_cases hkk : k' = k
    · rw [if_pos hkk] at hg; cases hg
    · rw [if_neg hkk] at hg; exact h.modLe k' it hg

end main

/-! ### reading the chain back -/

section read
variable {M : Type} {ops : MapOps M} {ok : M → Prop}

theorem readChunk_cons (h : M) (it : Item) (r : List Item) (lm : Int) :
    readChunk ops h (it :: r) lm =
      readChunk ops (match ops.get h it.key with
        | some _ => h
        | none => ops.put h { it with mod := lm }) r lm := rfl

theorem findK_cons (it : Item) (r : List Item) (k : Nat) :
    findK (it :: r) k = if it.key = k then some it else findK r k := by
  unfold findK
  by_cases hk : it.key = k <;> simp [List.find?_cons, hk]

theorem readChunk_get (L : MapLaws ops ok) {h : M} (hok : ok h) (items : List Item) (lm : Int)
    (k : Nat) :
    ok (readChunk ops h items lm) ∧
    ops.get (readChunk ops h items lm) k =
      match ops.get h k with
      | some x => some x
      | none => (findK items k).map (fun it => { it with mod := lm }) := by
  induction items generalizing h with
  | nil =>
    refine ⟨hok, ?_⟩
    simp only [readChunk, List.foldl_nil, findK, List.find?_nil, Option.map_none]
    cases ops.get h k <;> rfl
  | cons it r ih =>
    rw [readChunk_cons, findK_cons]
    cases hgi : ops.get h it.key with
    | some y =>
      simp only
      obtain ⟨h1, h2⟩ := ih hok
      refine ⟨h1, ?_⟩
      rw [h2]
      cases hgk : ops.get h k with
      | some x => rfl
      | none =>
        have : it.key ≠ k := by intro hk; rw [hk] at hgi; rw [hgi] at hgk; cases hgk
        simp only [if_neg this]
    | none =>
      simp only
      have hok' := L.ok_put h { it with mod := lm } hok
      obtain ⟨h1, h2⟩ := ih hok'
      refine ⟨h1, ?_⟩
      rw [h2, L.get_put _ _ _ hok]
      by_cases hk : k = it.key
      · subst hk
        simp only [if_true, hgi, Option.map_some]
      · have hk' : ¬ it.key = k := fun e => hk e.symm
        simp only [if_neg hk, if_neg hk']

theorem live_setMod (it : Item) (lm : Int) : live (some { it with mod := lm }) = live (some it) := rfl

theorem readChunks_get (L : MapLaws ops ok) {h : M} (hok : ok h) (cs : List Chunk) (lm : Int)
    (k : Nat) :
    ok (readChunks ops cs lm h) ∧
    live (ops.get (readChunks ops cs lm h) k) =
      match ops.get h k with
      | some x => live (some x)
      | none => live (lookupD cs k) := by
  induction cs generalizing h lm with
  | nil =>
    refine ⟨hok, ?_⟩
    simp only [readChunks, lookupD]
    cases ops.get h k <;> rfl
  | cons ch rest ih =>
    simp only [readChunks]
    obtain ⟨hok', hget⟩ := readChunk_get L hok ch.items lm k
    obtain ⟨h1, h2⟩ := ih (lm := lm - 1) hok'
    refine ⟨h1, ?_⟩
    rw [h2, hget]
    cases hgk : ops.get h k with
    | some x => rfl
    | none =>
      simp only [lookupD]
      cases hf : findK ch.items k with
      | some it => simp only [Option.map_some]; exact live_setMod it lm
      | none => simp only [Option.map_none]

/-- `ReadChain` reconstructs, for every key, the newest version on the chain -/
theorem read_lookup (L : MapLaws ops ok) (chunks : List Chunk) (rc : Chain M)
    (h : readChain ops chunks = some rc) :
    ok rc.ht ∧ ∀ k, live (ops.get rc.ht k) = live (lookupD chunks k) := by
  cases chunks with
  | nil =>
    simp only [readChain, Option.some.injEq] at h
    subst h
    exact ⟨L.ok_empty, fun k => by simp [L.get_empty, lookupD]⟩
  | cons newest rest =>
    simp only [readChain] at h
    split at h
    · cases h
    · simp only [Option.some.injEq] at h
      subst h
      obtain ⟨h1, _⟩ := readChunks_get L L.ok_empty (newest :: rest) (-1) 0
      refine ⟨h1, fun k => ?_⟩
      obtain ⟨_, h2⟩ := readChunks_get L L.ok_empty (newest :: rest) (-1) k
      simp only at h2 ⊢
      rw [h2, L.get_empty]

end read

end Gsu.Hamt
