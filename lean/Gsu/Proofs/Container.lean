/-
Lemmas for C36 about the container machine `Gsu.Model.Container`.
-/
import Gsu.Model.Container
namespace Gsu.Container
variable {V : Type}

/-! ### named members -/

theorem nget_ndel (m : Named V) (k k' : Key) :
    nget (ndel m k) k' = if k' = k then none else nget m k' := by
  induction m with
  | nil => simp [ndel, nget]
  | cons p r ih =>
    obtain ⟨a, v⟩ := p
    simp only [ndel] at ih ⊢
    by_cases h : a = k
    · subst h
      simp only [List.filter, ne_eq, not_true_eq_false, decide_false]
      rw [ih]; simp only [nget]
      by_cases h2 : k' = a
      · simp [h2]
      · have : ¬ a = k' := fun e => h2 e.symm
        simp [h2, this]
    · simp only [List.filter, ne_eq, h, not_false_eq_true, decide_true, nget]
      rw [ih]
      by_cases h2 : a = k'
      · subst h2; simp [h]
      · simp [h2]

theorem nget_nput (m : Named V) (k k' : Key) (v : V) :
    nget (nput m k v) k' = if k' = k then some v else nget m k' := by
  simp only [nput, nget, nget_ndel]
  by_cases h : k = k'
  · simp [h]
  · have : ¬ k' = k := fun e => h e.symm
    simp [h, this]

/-- keys of the named part -/
def keys (m : Named V) : List Key := m.map (·.1)

theorem nget_none_iff (m : Named V) (k : Key) : nget m k = none ↔ k ∉ keys m := by
  induction m with
  | nil => simp [nget, keys]
  | cons p r ih =>
    obtain ⟨a, v⟩ := p
    simp only [nget, keys, List.map_cons, List.mem_cons, not_or] at ih ⊢
    by_cases h : a = k
    · simp [h]
    · have : ¬ k = a := fun e => h e.symm
      simp [h, this, ih]

theorem keys_ndel (m : Named V) (k : Key) : keys (ndel m k) = (keys m).filter (fun a => decide (a ≠ k)) := by
  simp [keys, ndel, List.filter_map, Function.comp_def]

theorem nodup_ndel {m : Named V} (k : Key) (h : (keys m).Nodup) : (keys (ndel m k)).Nodup := by
  rw [keys_ndel]; exact h.filter _

theorem nodup_nput {m : Named V} (k : Key) (v : V) (h : (keys m).Nodup) : (keys (nput m k v)).Nodup := by
  simp only [nput, keys, List.map_cons, List.nodup_cons]
  refine ⟨?_, nodup_ndel k h⟩
  have := keys_ndel m k
  simp only [keys] at this
  rw [this]; simp

theorem length_ndel_lt {m : Named V} {k : Key} {x : V} (h : nget m k = some x) :
    (ndel m k).length < m.length := by
  induction m with
  | nil => simp [nget] at h
  | cons p r ih =>
    obtain ⟨a, v⟩ := p
    simp only [nget] at h
    by_cases e : a = k
    · simp only [ndel, List.filter, e, ne_eq, not_true_eq_false, decide_false, List.length_cons]
      have := List.length_filter_le (fun p : Key × V => decide ¬p.1 = k) r
      omega
    · simp only [e, if_false] at h
      have := ih h
      simp only [ndel, List.filter, e, ne_eq, not_false_eq_true, decide_true, List.length_cons] at this ⊢
      omega

/-! ### `get` -/

theorem inRange_iff (i : Int) (n : Nat) : inRange i n = true ↔ 0 ≤ i ∧ i < n := by
  simp [inRange]

/-- well-formedness: the named part has distinct keys and no integer key in `[0, len]`, i.e. the
list is the maximal run `0 .. len-1` of integer keys (what `migrate` maintains) -/
structure WF (c : Cont V) : Prop where
  nodup : (keys c.named).Nodup
  noInt : ∀ i : Int, 0 ≤ i → i ≤ c.list.length → nget c.named (.int i) = none

/-! ### migrate -/

theorem get_migrateN (n : Nat) (l : List V) (m : Named V) (ro : Bool) (k : Key) :
    get ⟨(migrateN n l m).1, (migrateN n l m).2, ro⟩ k = get ⟨l, m, ro⟩ k := by
  induction n generalizing l m with
  | zero => rfl
  | succ n ih =>
    simp only [migrateN]
    cases hx : nget m (.int l.length) with
    | none => rfl
    | some x =>
      simp only
      rw [ih]
      cases k with
      | str s => simp [get, nget_ndel]
      | int i =>
        simp only [get, List.length_append, List.length_singleton, nget_ndel]
        by_cases h1 : inRange i l.length = true
        · have h1' := (inRange_iff _ _).1 h1
          have h2 : inRange i (l.length + 1) = true := (inRange_iff _ _).2 ⟨h1'.1, by omega⟩
          simp only [h1, h2, if_true]
          rw [List.getElem?_append_left (by omega)]
        · by_cases h3 : i = (l.length : Int)
          · subst h3
            have h2 : inRange (l.length : Int) (l.length + 1) = true := (inRange_iff _ _).2 ⟨by omega, by omega⟩
            simp [h1, h2, hx]
          · have h2 : ¬ inRange i (l.length + 1) = true := by
              rw [inRange_iff] at h1 ⊢; omega
            have h4 : ¬ Key.int i = Key.int (l.length : Int) := by
              intro e; injection e with e; exact h3 e
            simp [h1, h2, h4]

theorem get_migrate (c : Cont V) (k : Key) : get (migrate c) k = get c k := by
  obtain ⟨l, m, ro⟩ := c
  exact get_migrateN m.length l m ro k

theorem migrate_readonly (c : Cont V) : (migrate c).readonly = c.readonly := rfl

/-- with enough fuel the loop stops because the next index is absent -/
theorem migrateN_stops (n : Nat) (l : List V) (m : Named V) (h : m.length ≤ n) :
    nget (migrateN n l m).2 (.int (migrateN n l m).1.length) = none := by
  induction n generalizing l m with
  | zero =>
    have : m = [] := List.eq_nil_of_length_eq_zero (by omega)
    subst this; simp [migrateN, nget]
  | succ n ih =>
    simp only [migrateN]
    cases hx : nget m (.int l.length) with
    | none => simpa using hx
    | some x =>
      simp only
      apply ih
      have := length_ndel_lt hx
      omega

/-- migrate keeps "no integer key below the list size" and distinct keys -/
theorem migrateN_wf (n : Nat) (l : List V) (m : Named V)
    (hn : (keys m).Nodup) (hlt : ∀ i : Int, 0 ≤ i → i < l.length → nget m (.int i) = none) :
    (keys (migrateN n l m).2).Nodup ∧
    ∀ i : Int, 0 ≤ i → i < (migrateN n l m).1.length → nget (migrateN n l m).2 (.int i) = none := by
  induction n generalizing l m with
  | zero => exact ⟨hn, hlt⟩
  | succ n ih =>
    simp only [migrateN]
    cases hx : nget m (.int l.length) with
    | none => exact ⟨hn, hlt⟩
    | some x =>
      simp only
      apply ih
      · exact nodup_ndel _ hn
      · intro i h0 h1
        rw [nget_ndel]
        simp only [List.length_append, List.length_singleton] at h1
        by_cases e : i = (l.length : Int)
        · simp [e]
        · have : ¬ Key.int i = Key.int (l.length : Int) := by
            intro e'; injection e' with e'; exact e e'
          simp only [this, if_false]
          exact hlt i h0 (by omega)

theorem wf_migrate {c : Cont V} (hn : (keys c.named).Nodup)
    (hlt : ∀ i : Int, 0 ≤ i → i < c.list.length → nget c.named (.int i) = none) : WF (migrate c) := by
  obtain ⟨l, m, ro⟩ := c
  have h1 := migrateN_wf m.length l m hn hlt
  have h2 := migrateN_stops m.length l m (Nat.le_refl _)
  refine ⟨h1.1, ?_⟩
  intro i h0 h3
  simp only [migrate] at h3 ⊢
  by_cases e : i = ((migrateN m.length l m).1.length : Int)
  · rw [e]; exact h2
  · exact h1.2 i h0 (by omega)

/-! ### set / add -/

theorem int_ne {i j : Int} (h : i ≠ j) : ¬ Key.int i = Key.int j := by
  intro e; injection e with e; exact h e

theorem get_addRaw (c : Cont V) (v : V) (k : Key) :
    get (addRaw c v) k = if k = .int c.list.length then some v else get c k := by
  simp only [addRaw, get_migrate]
  cases k with
  | str s => simp [get]
  | int i =>
    simp only [get, List.length_append, List.length_singleton]
    by_cases h1 : inRange i c.list.length = true
    · have h1' := (inRange_iff _ _).1 h1
      have h2 : inRange i (c.list.length + 1) = true := (inRange_iff _ _).2 ⟨h1'.1, by omega⟩
      have h3 : ¬ Key.int i = Key.int (c.list.length : Int) := int_ne (by omega)
      simp only [h1, h2, if_true, h3, if_false]
      rw [List.getElem?_append_left (by omega)]
    · by_cases h3 : i = (c.list.length : Int)
      · subst h3
        have h2 : inRange (c.list.length : Int) (c.list.length + 1) = true :=
          (inRange_iff _ _).2 ⟨by omega, by omega⟩
        simp [h2]
      · have h2 : ¬ inRange i (c.list.length + 1) = true := by
          rw [inRange_iff] at h1 ⊢; omega
        simp [h1, h2, int_ne h3]

/-- `Put` is a map update, whatever part of the container the key lives in -/
theorem get_setRaw (c : Cont V) (k k' : Key) (v : V) :
    get (setRaw c k v) k' = if k' = k then some v else get c k' := by
  cases k with
  | str s =>
    simp only [setRaw]
    cases k' with
    | str s' => simp [get, nget_nput]
    | int j => simp [get, nget_nput]
  | int i =>
    simp only [setRaw]
    by_cases h0 : i = (c.list.length : Int)
    · simp only [h0, if_true]; exact get_addRaw c v k'
    · simp only [h0, if_false]
      by_cases h1 : inRange i c.list.length = true
      · simp only [h1, if_true]
        have h1' := (inRange_iff _ _).1 h1
        cases k' with
        | str s' => simp [get]
        | int j =>
          simp only [get, List.length_set]
          by_cases h2 : inRange j c.list.length = true
          · have h2' := (inRange_iff _ _).1 h2
            simp only [h2, if_true, List.getElem?_set]
            by_cases e : j = i
            · subst e
              have : j.toNat < c.list.length := by omega
              simp [this]
            · have : ¬ i.toNat = j.toNat := by omega
              simp [this, int_ne e]
          · have : j ≠ i := by
              intro e; subst e; exact h2 h1
            simp [h2, int_ne this]
      · simp only [h1]
        cases k' with
        | str s' => simp [get, nget_nput]
        | int j =>
          simp only [get, nget_nput]
          by_cases h2 : inRange j c.list.length = true
          · have : j ≠ i := by
              intro e; subst e; exact h1 h2
            simp [h2, int_ne this]
          · simp [h2, nget_nput]

/-! ### erase -/

theorem nget_eraseMove_str (m : Named V) (t : List V) (j : Nat) (s : String) :
    nget (eraseMove m t j) (.str s) = nget m (.str s) := by
  induction t generalizing j with
  | nil => rfl
  | cons x r ih => simp [eraseMove, nget_nput, ih]

theorem nget_eraseMove (m : Named V) (t : List V) (j : Nat) (i : Int) :
    nget (eraseMove m t j) (.int i) =
      if 0 ≤ i ∧ j ≤ i.toNat ∧ i.toNat < j + t.length then t[i.toNat - j]? else nget m (.int i) := by
  induction t generalizing j with
  | nil =>
    simp only [eraseMove, List.length_nil]
    split
    · omega
    · rfl
  | cons x r ih =>
    simp only [eraseMove, nget_nput, ih, List.length_cons]
    by_cases e : i = (j : Int)
    · subst e; simp
    · simp only [int_ne e, if_false]
      split <;> split
      · have : i.toNat - j = (i.toNat - (j + 1)) + 1 := by omega
        rw [this, List.getElem?_cons_succ]
      · omega
      · omega
      · rfl

theorem keys_eraseMove_nodup (m : Named V) (t : List V) (j : Nat) (h : (keys m).Nodup) :
    (keys (eraseMove m t j)).Nodup := by
  induction t generalizing j with
  | nil => exact h
  | cons x r ih => exact nodup_nput _ _ (ih (j + 1))

/-- `Erase` is the map delete for every key (also inside the list) -/
theorem get_eraseRaw (c : Cont V) (hwf : WF c) (k k' : Key) :
    get (eraseRaw c k).1 k' = if k' = k then none else get c k' := by
  have named_case : ∀ (_ : ∀ i, k = .int i → ¬ inRange i c.list.length = true),
      get { c with named := ndel c.named k } k' = if k' = k then none else get c k' := by
    intro hk
    cases k' with
    | str s => simp [get, nget_ndel]
    | int j =>
      simp only [get, nget_ndel]
      by_cases h2 : inRange j c.list.length = true
      · have : ¬ Key.int j = k := fun e => hk j e.symm h2
        simp [h2, this]
      · simp [h2]
  cases k with
  | str s => exact named_case (by intro i e; cases e)
  | int i =>
    simp only [eraseRaw]
    by_cases h1 : inRange i c.list.length = true
    · simp only [h1, if_true]
      have h1' := (inRange_iff _ _).1 h1
      cases k' with
      | str s => simp [get, nget_eraseMove_str]
      | int j =>
        simp only [get, List.length_take, nget_eraseMove, List.length_drop]
        have hmin : min i.toNat c.list.length = i.toNat := by omega
        rw [hmin]
        by_cases h2 : inRange j i.toNat = true
        · have h2' := (inRange_iff _ _).1 h2
          have h3 : inRange j c.list.length = true := (inRange_iff _ _).2 ⟨h2'.1, by omega⟩
          have : j ≠ i := by omega
          simp only [h2, h3, if_true, int_ne this, if_false]
          rw [List.getElem?_take]; simp; omega
        · simp only [h2, Bool.false_eq_true, if_false]
          have h2' : ¬ (0 ≤ j ∧ j < (i.toNat : Int)) := by rw [inRange_iff] at h2; exact h2
          by_cases e : j = i
          · subst e
            simp only [if_true]
            split
            · omega
            · exact hwf.noInt j h1'.1 (by omega)
          · simp only [int_ne e, if_false]
            by_cases h3 : inRange j c.list.length = true
            · have h3' := (inRange_iff _ _).1 h3
              simp only [h3, if_true]
              split
              · rw [List.getElem?_drop]; congr 1; omega
              · omega
            · have h3' : ¬ (0 ≤ j ∧ j < (c.list.length : Int)) := by rw [inRange_iff] at h3; exact h3
              simp only [h3, Bool.false_eq_true, if_false]
              split
              · omega
              · rfl
    · simp only [h1]
      exact named_case (by intro i' e; cases e; exact h1)

theorem eraseRaw_result (c : Cont V) (k : Key) : (eraseRaw c k).2 = (get c k).isSome := by
  cases k with
  | str s => simp [eraseRaw, get]
  | int i =>
    simp only [eraseRaw, get]
    by_cases h1 : inRange i c.list.length = true
    · have h1' := (inRange_iff _ _).1 h1
      have : i.toNat < c.list.length := by omega
      simp [h1, this]
    · simp [h1]

/-! ### delete / insert: effect on the list and on the named part -/

theorem deleteRaw_list (c : Cont V) (i : Int) (h : inRange i c.list.length = true) :
    (deleteRaw c (.int i)).1.list = c.list.eraseIdx i.toNat ∧
    (deleteRaw c (.int i)).1.named = c.named ∧ (deleteRaw c (.int i)).2 = true := by
  simp [deleteRaw, h]

theorem get_deleteRaw_named (c : Cont V) (k k' : Key)
    (hk : ∀ i, k = .int i → ¬ inRange i c.list.length = true) :
    get (deleteRaw c k).1 k' = (if k' = k then none else get c k') ∧
    (deleteRaw c k).2 = (get c k).isSome := by
  have named_case : get { c with named := ndel c.named k } k' = if k' = k then none else get c k' := by
    cases k' with
    | str s => simp [get, nget_ndel]
    | int j =>
      simp only [get, nget_ndel]
      by_cases h2 : inRange j c.list.length = true
      · have : ¬ Key.int j = k := fun e => hk j e.symm h2
        simp [h2, this]
      · simp [h2]
  cases k with
  | str s => exact ⟨named_case, by simp [deleteRaw, get]⟩
  | int i =>
    have := hk i rfl
    simp only [deleteRaw, this, get]
    exact ⟨named_case, by simp⟩

/-- `Delete` of a list member: the following list members move down by one, the last list index
becomes absent, every other key is untouched -/
theorem get_deleteRaw_list (c : Cont V) (hwf : WF c) (i : Int) (h : inRange i c.list.length = true)
    (k' : Key) :
    get (deleteRaw c (.int i)).1 k' =
      match k' with
      | .int j =>
        if 0 ≤ j ∧ j < i then get c (.int j)
        else if i ≤ j ∧ j + 1 < c.list.length then get c (.int (j + 1))
        else if j + 1 = c.list.length then none
        else get c (.int j)
      | .str s => get c (.str s) := by
  have h' := (inRange_iff _ _).1 h
  cases k' with
  | str s => simp [deleteRaw, h, get]
  | int j =>
    simp only [deleteRaw, h, if_true, get, List.length_eraseIdx]
    have hlen : i.toNat < c.list.length := by omega
    simp only [hlen, if_true]
    by_cases h1 : 0 ≤ j ∧ j < i
    · have a : inRange j (c.list.length - 1) = true := (inRange_iff _ _).2 ⟨h1.1, by omega⟩
      have b : inRange j c.list.length = true := (inRange_iff _ _).2 ⟨h1.1, by omega⟩
      have : j.toNat < i.toNat := by omega
      simp [h1, a, b, List.getElem?_eraseIdx, this]
    · simp only [h1, if_false]
      by_cases h2 : i ≤ j ∧ j + 1 < c.list.length
      · have a : inRange j (c.list.length - 1) = true := (inRange_iff _ _).2 ⟨by omega, by omega⟩
        have b : inRange (j + 1) c.list.length = true := (inRange_iff _ _).2 ⟨by omega, by omega⟩
        have : ¬ j.toNat < i.toNat := by omega
        have e : (j + 1).toNat = j.toNat + 1 := by omega
        simp [h2, a, b, List.getElem?_eraseIdx, this, e]
      · have a : ¬ inRange j (c.list.length - 1) = true := by rw [inRange_iff]; omega
        simp only [h2, if_false, a]
        by_cases h3 : j + 1 = c.list.length
        · simp only [h3, if_true]
          exact hwf.noInt j (by omega) (by omega)
        · have b : ¬ inRange j c.list.length = true := by rw [inRange_iff]; omega
          simp [h3, b]

/-- `Insert` inside the list (`0 ≤ at ≤ len`): members from `at` on move up by one -/
theorem get_insertRaw_list (c : Cont V) (a : Int) (v : V) (h : 0 ≤ a ∧ a ≤ c.list.length)
    (k' : Key) :
    get (insertRaw c a v) k' =
      match k' with
      | .int j =>
        if 0 ≤ j ∧ j < a then get c (.int j)
        else if j = a then some v
        else if a < j ∧ j ≤ c.list.length then get c (.int (j - 1))
        else get c (.int j)
      | .str s => get c (.str s) := by
  simp only [insertRaw, h, and_self, if_true, get_migrate]
  cases k' with
  | str s => simp [get]
  | int j =>
    have hl : a.toNat ≤ c.list.length := by omega
    simp only [get, List.length_insertIdx, hl, if_true]
    by_cases h1 : 0 ≤ j ∧ j < a
    · have x : inRange j (c.list.length + 1) = true := (inRange_iff _ _).2 ⟨h1.1, by omega⟩
      have y : inRange j c.list.length = true := (inRange_iff _ _).2 ⟨h1.1, by omega⟩
      have : j.toNat < a.toNat := by omega
      simp [h1, x, y, List.getElem?_insertIdx, this]
    · simp only [h1, if_false]
      by_cases h2 : j = a
      · subst h2
        have x : inRange j (c.list.length + 1) = true := (inRange_iff _ _).2 ⟨h.1, by omega⟩
        simp [x, List.getElem?_insertIdx, hl]
      · simp only [h2, if_false]
        by_cases h3 : a < j ∧ j ≤ c.list.length
        · have x : inRange j (c.list.length + 1) = true := (inRange_iff _ _).2 ⟨by omega, by omega⟩
          have y : inRange (j - 1) c.list.length = true := (inRange_iff _ _).2 ⟨by omega, by omega⟩
          have n1 : ¬ j.toNat < a.toNat := by omega
          have n2 : ¬ j.toNat = a.toNat := by omega
          have e : (j - 1).toNat = j.toNat - 1 := by omega
          simp [h3, x, y, List.getElem?_insertIdx, n1, n2, e]
        · have x : ¬ inRange j (c.list.length + 1) = true := by rw [inRange_iff]; omega
          have y : ¬ inRange j c.list.length = true := by rw [inRange_iff]; omega
          simp [h3, x, y]

/-- `Insert` outside the list is `Put` -/
theorem get_insertRaw_outside (c : Cont V) (a : Int) (v : V) (h : ¬ (0 ≤ a ∧ a ≤ c.list.length))
    (k' : Key) :
    get (insertRaw c a v) k' = if k' = .int a then some v else get c k' := by
  simp only [insertRaw, h, if_false, get_migrate, get_setRaw]

/-! ### well-formedness is an invariant -/

theorem wf_empty : WF ({} : Cont V) := ⟨by simp [keys], by intro i _ _; rfl⟩

theorem wf_addRaw {c : Cont V} (h : WF c) (v : V) : WF (addRaw c v) := by
  apply wf_migrate
  · exact h.nodup
  · intro i h0 h1
    simp only [List.length_append, List.length_singleton] at h1
    exact h.noInt i h0 (by omega)

theorem wf_setRaw {c : Cont V} (h : WF c) (k : Key) (v : V) : WF (setRaw c k v) := by
  cases k with
  | str s =>
    refine ⟨nodup_nput _ _ h.nodup, ?_⟩
    intro i h0 h1
    simp only [setRaw, nget_nput]
    simpa using h.noInt i h0 h1
  | int i =>
    simp only [setRaw]
    by_cases h0 : i = (c.list.length : Int)
    · simp only [h0, if_true]; exact wf_addRaw h v
    · simp only [h0, if_false]
      by_cases h1 : inRange i c.list.length = true
      · simp only [h1, if_true]
        exact ⟨h.nodup, by intro j a b; simp only [List.length_set] at b; exact h.noInt j a b⟩
      · simp only [h1]
        refine ⟨nodup_nput _ _ h.nodup, ?_⟩
        intro j a b
        simp only [Bool.false_eq_true, if_false] at b
        have : j ≠ i := by
          intro e; subst e
          rw [inRange_iff] at h1; omega
        show nget (nput c.named (Key.int i) v) (Key.int j) = none
        rw [nget_nput]
        simp only [int_ne this, if_false]
        exact h.noInt j a b

theorem wf_insertRaw {c : Cont V} (h : WF c) (a : Int) (v : V) : WF (insertRaw c a v) := by
  simp only [insertRaw]
  by_cases h1 : 0 ≤ a ∧ a ≤ c.list.length
  · simp only [h1, and_self, if_true]
    apply wf_migrate
    · exact h.nodup
    · intro i h0 h2
      have hl : a.toNat ≤ c.list.length := by omega
      simp only [List.length_insertIdx, hl, if_true] at h2
      exact h.noInt i h0 (by omega)
  · simp only [h1, if_false]
    have := wf_setRaw h (.int a) v
    exact wf_migrate this.nodup (fun i h0 h2 => this.noInt i h0 (by omega))

theorem wf_deleteRaw {c : Cont V} (h : WF c) (k : Key) : WF (deleteRaw c k).1 := by
  have named_case : WF { c with named := ndel c.named k } := by
    refine ⟨nodup_ndel _ h.nodup, ?_⟩
    intro i a b
    rw [nget_ndel]; split
    · rfl
    · exact h.noInt i a b
  cases k with
  | str s => exact named_case
  | int i =>
    simp only [deleteRaw]
    by_cases h1 : inRange i c.list.length = true
    · simp only [h1, if_true]
      refine ⟨h.nodup, ?_⟩
      intro j a b
      simp only [List.length_eraseIdx] at b
      apply h.noInt j a
      split at b <;> omega
    · simp only [h1]; exact named_case

theorem wf_eraseRaw {c : Cont V} (h : WF c) (k : Key) : WF (eraseRaw c k).1 := by
  have named_case : WF { c with named := ndel c.named k } := by
    refine ⟨nodup_ndel _ h.nodup, ?_⟩
    intro i a b
    rw [nget_ndel]; split
    · rfl
    · exact h.noInt i a b
  cases k with
  | str s => exact named_case
  | int i =>
    simp only [eraseRaw]
    by_cases h1 : inRange i c.list.length = true
    · simp only [h1, if_true]
      have h1' := (inRange_iff _ _).1 h1
      refine ⟨keys_eraseMove_nodup _ _ _ h.nodup, ?_⟩
      intro j a b
      simp only [List.length_take] at b
      rw [nget_eraseMove]
      split
      · omega
      · exact h.noInt j a (by omega)
    · simp only [h1]; exact named_case

theorem length_uniqueAux_le [DecidableEq V] (p : V) (l : List V) : (uniqueAux p l).length ≤ l.length := by
  induction l generalizing p with
  | nil => simp [uniqueAux]
  | cons x r ih =>
    simp only [uniqueAux]
    split
    · have := ih x; simp only [List.length_cons]; omega
    · have := ih x; simp only [List.length_cons]; omega

theorem length_unique_le [DecidableEq V] (l : List V) : (unique l).length ≤ l.length := by
  cases l with
  | nil => simp [unique]
  | cons x r => have := length_uniqueAux_le x r; simp only [unique, List.length_cons]; omega

theorem wf_shorter {c : Cont V} (h : WF c) (l : List V) (hl : l.length ≤ c.list.length) :
    WF { c with list := l } :=
  ⟨h.nodup, fun i a b => h.noInt i a (by simp only at b; omega)⟩

/-- every public operation keeps the container well formed (for a length preserving sort) -/
theorem wf_apply [DecidableEq V] (srt : List V → List V) (hs : ∀ l, (srt l).length = l.length)
    {c : Cont V} (h : WF c) (op : Op V) : WF (apply srt c op).1 := by
  cases op with
  | add v => simp only [apply]; split; exact h; exact wf_addRaw h v
  | set k v => simp only [apply]; split; exact h; exact wf_setRaw h k v
  | insert a v => simp only [apply]; split; exact h; exact wf_insertRaw h a v
  | delete k => simp only [apply]; split; exact h; exact wf_deleteRaw h k
  | erase k => simp only [apply]; split; exact h; exact wf_eraseRaw h k
  | popFirst =>
    simp only [apply]
    split
    · exact h
    · rename_i x r hl
      split
      · exact h
      · exact wf_shorter h r (by rw [hl]; simp)
  | popLast =>
    simp only [apply]
    split
    · exact h
    · split
      · exact h
      · exact wf_shorter h _ (by simp)
  | sort => simp only [apply]; split; exact h; exact wf_shorter h _ (by rw [hs]; exact Nat.le_refl _)
  | unique => simp only [apply]; split; exact h; exact wf_shorter h _ (length_unique_le _)
  | reverse => simp only [apply]; split; exact h; exact wf_shorter h _ (by simp)
  | deleteAll => simp only [apply]; split; exact h; exact ⟨by simp [keys], by intro i _ _; rfl⟩
  | setReadonly => exact ⟨h.nodup, h.noInt⟩

/-- every state reached from the empty container by public operations is well formed -/
theorem wf_run [DecidableEq V] (srt : List V → List V) (hs : ∀ l, (srt l).length = l.length)
    (ops : List (Op V)) : WF (ops.foldl (fun c op => (apply srt c op).1) ({} : Cont V)) := by
  suffices ∀ c : Cont V, WF c → WF (ops.foldl (fun c op => (apply srt c op).1) c) from this _ wf_empty
  induction ops with
  | nil => intro c h; exact h
  | cons op r ih => intro c h; exact ih _ (wf_apply srt hs h op)

/-! ### the list/named split is canonical: the observable map determines the representation -/

theorem get_list_of_lt (c : Cont V) (i : Nat) (h : i < c.list.length) :
    get c (.int i) = c.list[i]? := by
  have : inRange (i : Int) c.list.length = true := (inRange_iff _ _).2 ⟨by omega, by omega⟩
  simp [get, this]

theorem length_le_of_get {c d : Cont V} (hc : WF c) (hg : ∀ k, get c k = get d k) :
    d.list.length ≤ c.list.length := by
  apply Decidable.byContradiction
  intro hlt
  have h1 : get d (.int c.list.length) = d.list[c.list.length]? := get_list_of_lt d _ (by omega)
  have h2 : get c (.int c.list.length) = none := by
    have : ¬ inRange (c.list.length : Int) c.list.length = true := by rw [inRange_iff]; omega
    simp only [get, this]
    exact hc.noInt _ (by omega) (by omega)
  rw [hg, h1] at h2
  have : c.list.length < d.list.length := by omega
  simp at h2
  omega

theorem split_canonical {c d : Cont V} (hc : WF c) (hd : WF d) (hg : ∀ k, get c k = get d k) :
    c.list = d.list ∧ ∀ k, nget c.named k = nget d.named k := by
  have hlen : c.list.length = d.list.length :=
    Nat.le_antisymm (length_le_of_get hd (fun k => (hg k).symm)) (length_le_of_get hc hg)
  constructor
  · apply List.ext_getElem? ; intro i
    by_cases h : i < c.list.length
    · rw [← get_list_of_lt c i h, ← get_list_of_lt d i (by omega)]; exact hg _
    · rw [List.getElem?_eq_none (by omega), List.getElem?_eq_none (by omega)]
  · intro k
    cases k with
    | str s => exact hg (.str s)
    | int i =>
      by_cases h : inRange i c.list.length = true
      · have h' := (inRange_iff _ _).1 h
        rw [hc.noInt i h'.1 (by omega), hd.noInt i h'.1 (by omega)]
      · have := hg (.int i)
        have h2 : ¬ inRange i d.list.length = true := by rw [← hlen]; exact h
        simpa [get, h, h2] using this

/-! ### size and members -/

theorem mem_keys_iff (m : Named V) (k : Key) : k ∈ keys m ↔ (nget m k).isSome = true := by
  have := nget_none_iff m k
  cases h : nget m k with
  | none => simp [h] at this; simp [this]
  | some x =>
    simp only [h, reduceCtorEq, false_iff, Decidable.not_not] at this
    simp [this]

theorem mem_members_iff (c : Cont V) (k : Key) :
    k ∈ members c ↔ (get c k).isSome = true := by
  have hk : k ∈ c.named.map (·.1) ↔ (nget c.named k).isSome = true := mem_keys_iff c.named k
  simp only [members, List.mem_append, hk, List.mem_map, List.mem_range]
  cases k with
  | str s =>
    simp only [get]
    constructor
    · rintro (⟨i, _, e⟩ | h)
      · cases e
      · exact h
    · intro h; exact Or.inr h
  | int i =>
    simp only [get]
    by_cases h : inRange i c.list.length = true
    · have h' := (inRange_iff _ _).1 h
      have : i.toNat < c.list.length := by omega
      simp only [h, if_true]
      constructor
      · intro _; simp [this]
      · intro _; exact Or.inl ⟨i.toNat, this, by congr 1; omega⟩
    · simp only [h]
      constructor
      · rintro (⟨j, hj, e⟩ | h2)
        · injection e with e
          exfalso; apply h; rw [inRange_iff]; omega
        · exact h2
      · intro h2; exact Or.inr h2

theorem nodup_members {c : Cont V} (hc : WF c) : (members c).Nodup := by
  simp only [members]
  rw [List.nodup_append]
  refine ⟨?_, hc.nodup, ?_⟩
  · rw [List.Nodup, List.pairwise_map]
    refine (List.nodup_range (n := c.list.length)).imp ?_
    intro a b hab e; injection e with e; exact hab (by omega)
  · intro a ha b hb
    simp only [List.mem_map, List.mem_range] at ha
    obtain ⟨i, hi, rfl⟩ := ha
    intro e; subst e
    have := hc.noInt (i : Int) (by omega) (by omega)
    rw [nget_none_iff] at this
    exact this hb

theorem size_eq_members (c : Cont V) : size c = (members c).length := by
  simp [size, members]

/-! ### find -/

theorem findIdx_some [DecidableEq V] (v : V) (l : List V) (s i : Nat) (h : findIdx v l s = some i) :
    s ≤ i ∧ l[i - s]? = some v ∧ ∀ j, j < i - s → l[j]? ≠ some v := by
  induction l generalizing s with
  | nil => simp [findIdx] at h
  | cons x r ih =>
    simp only [findIdx] at h
    by_cases e : x = v
    · simp only [e, if_true, Option.some.injEq] at h
      subst h; simp [e]
    · simp only [e, if_false] at h
      obtain ⟨a, b, c⟩ := ih (s + 1) h
      refine ⟨by omega, ?_, ?_⟩
      · have : i - s = (i - (s + 1)) + 1 := by omega
        rw [this, List.getElem?_cons_succ]; exact b
      · intro j hj
        cases j with
        | zero => simp [e]
        | succ j => rw [List.getElem?_cons_succ]; exact c j (by omega)

theorem findIdx_none [DecidableEq V] (v : V) (l : List V) (s : Nat) (h : findIdx v l s = none) :
    v ∉ l := by
  induction l generalizing s with
  | nil => simp
  | cons x r ih =>
    simp only [findIdx] at h
    by_cases e : x = v
    · simp [e] at h
    · simp only [e, if_false] at h
      simp only [List.mem_cons, not_or]
      exact ⟨fun h => e h.symm, ih (s + 1) h⟩

theorem findNamed_some [DecidableEq V] (v : V) (m : Named V) (hn : (keys m).Nodup) (k : Key)
    (h : findNamed v m = some k) : nget m k = some v := by
  induction m with
  | nil => simp [findNamed] at h
  | cons p r ih =>
    obtain ⟨a, x⟩ := p
    simp only [keys, List.map_cons, List.nodup_cons] at hn
    simp only [findNamed] at h
    by_cases e : x = v
    · simp only [e, if_true, Option.some.injEq] at h
      subst h; simp [nget, e]
    · simp only [e, if_false] at h
      have h2 := ih hn.2 h
      have : a ≠ k := by
        intro ea; subst ea
        have : a ∈ keys r := by
          rw [mem_keys_iff, h2]; rfl
        exact hn.1 this
      simp [nget, this, h2]

theorem findNamed_none [DecidableEq V] (v : V) (m : Named V) (h : findNamed v m = none) (k : Key) :
    nget m k ≠ some v := by
  induction m with
  | nil => simp [nget]
  | cons p r ih =>
    obtain ⟨a, x⟩ := p
    simp only [findNamed] at h
    by_cases e : x = v
    · simp [e] at h
    · simp only [e, if_false] at h
      simp only [nget]
      split
      · intro h'; injection h' with h'; exact e h'
      · exact ih h

/-! ### sort: the contract of a stable sort, and `List.mergeSort` meets it -/

/-- contract of `slices.SortStableFunc` / `sort.SliceStable` for the preorder `le` -/
structure StableSort (le : V → V → Bool) (srt : List V → List V) : Prop where
  perm : ∀ l, (srt l).Perm l
  sorted : ∀ l, (srt l).Pairwise (fun a b => le a b = true)
  /-- stability: every already ordered subsequence keeps its order -/
  stable : ∀ (l ys : List V), ys.Pairwise (fun a b => le a b = true) → ys.Sublist l → ys.Sublist (srt l)

theorem mergeSort_stableSort (le : V → V → Bool)
    (trans : ∀ a b c, le a b = true → le b c = true → le a c = true)
    (total : ∀ a b, (le a b || le b a) = true) : StableSort le (fun l => l.mergeSort le) where
  perm l := List.mergeSort_perm l le
  sorted l := List.pairwise_mergeSort trans total l
  stable _ _ hy hs := List.sublist_mergeSort trans total hy hs

theorem leVal_trans (a b c : Val) (h1 : leVal a b = true) (h2 : leVal b c = true) : leVal a c = true := by
  simp only [leVal] at *
  split at h1 <;> split at h1 <;> split at h2 <;> split at h2 <;> simp_all <;> omega

theorem leVal_total (a b : Val) : (leVal a b || leVal b a) = true := by
  simp only [leVal]
  split <;> split <;> simp <;> omega

theorem leDesc_trans (a b c : Val) (h1 : leDesc a b = true) (h2 : leDesc b c = true) : leDesc a c = true := by
  simp only [leDesc, decide_eq_true_eq] at *; omega

theorem leDesc_total (a b : Val) : (leDesc a b || leDesc b a) = true := by
  simp only [leDesc, Bool.or_eq_true, decide_eq_true_eq]; omega

/-! ### unique -/

/-- no two adjacent elements are equal -/
def NoAdjEq : List V → Prop
  | [] => True
  | [_] => True
  | a :: b :: r => a ≠ b ∧ NoAdjEq (b :: r)

theorem uniqueAux_sublist [DecidableEq V] (p : V) (l : List V) : (uniqueAux p l).Sublist l := by
  induction l generalizing p with
  | nil => simp [uniqueAux]
  | cons x r ih =>
    simp only [uniqueAux]
    split
    · exact (ih x).cons _
    · exact (ih x).cons_cons _

theorem unique_sublist [DecidableEq V] (l : List V) : (unique l).Sublist l := by
  cases l with
  | nil => simp [unique]
  | cons x r => exact (uniqueAux_sublist x r).cons_cons _

theorem noAdj_uniqueAux [DecidableEq V] (p : V) (l : List V) : NoAdjEq (p :: uniqueAux p l) := by
  induction l generalizing p with
  | nil => simp [uniqueAux, NoAdjEq]
  | cons x r ih =>
    simp only [uniqueAux]
    split
    · rename_i e; subst e; exact ih x
    · rename_i e; exact ⟨fun h => e h.symm, ih x⟩

theorem noAdj_unique [DecidableEq V] (l : List V) : NoAdjEq (unique l) := by
  cases l with
  | nil => simp [unique, NoAdjEq]
  | cons x r => exact noAdj_uniqueAux x r

theorem mem_uniqueAux [DecidableEq V] (p : V) (l : List V) (x : V) :
    x ∈ p :: uniqueAux p l ↔ x ∈ p :: l := by
  induction l generalizing p with
  | nil => simp [uniqueAux]
  | cons y r ih =>
    simp only [uniqueAux]
    split
    · rename_i e; subst e
      have := ih y; simp only [List.mem_cons] at this ⊢
      constructor
      · intro h; rcases this.1 h with h | h
        · exact Or.inl h
        · exact Or.inr (Or.inr h)
      · intro h; apply this.2
        rcases h with h | h | h
        · exact Or.inl h
        · exact Or.inl h
        · exact Or.inr h
    · have := ih y; simp only [List.mem_cons] at this ⊢
      constructor
      · intro h; rcases h with h | h
        · exact Or.inl h
        · exact Or.inr (this.1 h)
      · intro h; rcases h with h | h
        · exact Or.inl h
        · exact Or.inr (this.2 h)

theorem mem_unique [DecidableEq V] (l : List V) (x : V) : x ∈ unique l ↔ x ∈ l := by
  cases l with
  | nil => simp [unique]
  | cons y r => exact mem_uniqueAux y r x

/-! ### read-only -/

theorem readonly_state [DecidableEq V] (srt : List V → List V) (c : Cont V) (h : c.readonly = true)
    (op : Op V) : (apply srt c op).1 = c := by
  cases op <;> simp only [apply, h, if_true]
  · split <;> rfl
  · split <;> rfl
  · obtain ⟨l, m, r⟩ := c; simp only at h; subst h; rfl

/-- does the operation try to change the container `c`? (`PopFirst`/`PopLast` of an empty list
and `SetReadOnly` do not) -/
def Op.mutates (c : Cont V) : Op V → Bool
  | .popFirst | .popLast => !c.list.isEmpty
  | .setReadonly => false
  | _ => true

theorem readonly_error [DecidableEq V] (srt : List V → List V) (c : Cont V) (h : c.readonly = true)
    (op : Op V) (hm : op.mutates c = true) : (apply srt c op).2 = .readonlyErr := by
  cases op <;> simp only [apply, h, if_true] <;> simp only [Op.mutates] at hm
  · cases hl : c.list with
    | nil => simp [hl] at hm
    | cons x r => rfl
  · cases hl : c.list.getLast? with
    | none =>
      rw [List.getLast?_eq_none_iff] at hl
      simp [hl] at hm
    | some x => rfl
  · simp at hm

end Gsu.Container
