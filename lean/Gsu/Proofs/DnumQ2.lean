/-
C27: the composed precision bounds of Add / Sub / Mul / Div on the exact rational values.
-/
import Gsu.Proofs.DnumQ
import Gsu.Proofs.Dnum3
import Mathlib.Tactic.LinearCombination
namespace Gsu.Dnum

theorem ulpE_pos (a : Int) : 0 < ulpE a := tpow_pos _

theorem ulpE_mono {a b : Int} (h : a ≤ b) : ulpE a ≤ ulpE b := by
  unfold ulpE; apply tpow_mono; omega

theorem WF_not_inf (x : Dnum) (h : WF x) : isInf x = false := by
  obtain ⟨hs, _, _⟩ := h
  simp only [isInf, signPosInf, signNegInf]; rcases hs with h | h <;> rw [h] <;> decide

theorem WF_ne_zero (x : Dnum) (h : WF x) : x ≠ zero := by
  obtain ⟨hs, _, _⟩ := h
  intro h0; rw [h0] at hs; simp [zero] at hs

theorem abs_val (x : Dnum) (h : WF x) : |val x| = (x.coef : ℚ) * (10 : ℚ) ^ (x.exp - 16) := by
  unfold val; rw [mul_assoc, abs_sign_mul _ h.1, abs_of_nonneg (by positivity)]

theorem new_zero_coef (sg : Int) (e : Int) : new sg 0 e = zero := by simp [new]

/-- a positive multiple of `10^a` below `minPos` stays below it after adding one more unit -/
theorem small_mult (n : Nat) (a : Int) (hn : 0 < n) (h : (n : ℚ) * (10 : ℚ) ^ a < minPos) :
    ((n : ℚ) + 1) * (10 : ℚ) ^ a ≤ minPos := by
  have hpa := tpow_pos a
  by_cases ha : -129 ≤ a
  · exfalso
    have h1 : minPos ≤ (10 : ℚ) ^ a := by unfold minPos; exact tpow_mono ha
    have h2 : (1 : ℚ) ≤ n := by exact_mod_cast hn
    have : (10 : ℚ) ^ a ≤ (n : ℚ) * (10 : ℚ) ^ a := by nlinarith
    linarith
  · have hm : minPos = (10 : ℚ) ^ (-129 - a).toNat * (10 : ℚ) ^ a := by
      unfold minPos; exact tpow_split' a (-129) _ (by omega)
    rw [hm] at h ⊢
    have h1 : (n : ℚ) < (10 : ℚ) ^ (-129 - a).toNat := lt_of_mul_lt_mul_right h (le_of_lt hpa)
    have h2 : n < 10 ^ (-129 - a).toNat := by exact_mod_cast h1
    have h3 : ((n : ℚ) + 1) ≤ (10 : ℚ) ^ (-129 - a).toNat := by exact_mod_cast h2
    exact mul_le_mul_of_nonneg_right h3 (le_of_lt hpa)

theorem pow127 : (10 : ℚ) ^ (127 : Int) = maxFinite + (10 : ℚ) ^ (111 : Int) := by
  rw [tpow_split' 111 127 16 (by norm_num), maxFinite]; ring

/-- unexported `add` (x.exp ≥ y.exp) -/
theorem add'_ulp (x y : Dnum) (hx : FinN x) (hy : FinN y) (he : y.exp ≤ x.exp) :
    (isInf (add' x y) = true →
        (add' x y = posInf ∧ maxFinite < val x + val y) ∨
        (add' x y = negInf ∧ val x + val y < -maxFinite)) ∧
    (add' x y = zero → 2 * |val x + val y| ≤ ulpE x.exp ∨ |val x + val y| < minPos) ∧
    (isInf (add' x y) = false → add' x y ≠ zero →
        FinN (add' x y) ∧
        |val (add' x y) - (val x + val y)| ≤ ulpE (max x.exp (add' x y).exp)) := by
  obtain ⟨hwx, hx1, hx2⟩ := hx
  obtain ⟨hwy, hy1, hy2⟩ := hy
  rcases add'_spec x y hwx hwy he with ⟨hd, hr⟩ | ⟨hd, sg, n, yc', hsg, hn, hsum, hb1, hb2, heq, hr⟩
  · -- y negligible
    rw [hr]
    refine ⟨fun h => (by rw [WF_not_inf x hwx] at h; cases h), fun h => absurd h (WF_ne_zero x hwx),
      fun _ _ => ⟨⟨hwx, hx1, hx2⟩, ?_⟩⟩
    have : val x - (val x + val y) = - val y := by ring
    rw [this, abs_neg, max_self, abs_val y hwy]
    have hyc : (y.coef : ℚ) ≤ (10 : ℚ) ^ 16 := by exact_mod_cast (le_of_lt hwy.2.2)
    calc (y.coef : ℚ) * (10 : ℚ) ^ (y.exp - 16) ≤ (10 : ℚ) ^ 16 * (10 : ℚ) ^ (y.exp - 16) :=
          mul_le_mul_of_nonneg_right hyc (le_of_lt (tpow_pos _))
      _ = (10 : ℚ) ^ y.exp := by rw [tpow_split' (y.exp - 16) y.exp 16 (by omega)]
      _ ≤ ulpE x.exp := by unfold ulpE; apply tpow_mono; omega
  · -- aligned
    have hdn : ((x.exp - y.exp).toNat : Int) = x.exp - y.exp := Int.toNat_of_nonneg (by omega)
    have hud : (10 : ℚ) ^ (x.exp - 16) = (10 : ℚ) ^ (x.exp - y.exp).toNat * (10 : ℚ) ^ (y.exp - 16) :=
      tpow_split' (y.exp - 16) (x.exp - 16) _ (by omega)
    have hDq : (10 : ℚ) ^ (x.exp - y.exp).toNat = ((10 ^ (x.exp - y.exp).toNat : Nat) : ℚ) := by
      push_cast; rfl
    rw [hDq] at hud
    have hd0 : x.exp = y.exp → 10 ^ (x.exp - y.exp).toNat = 1 := by
      intro h; rw [h]; simp
    generalize 10 ^ (x.exp - y.exp).toNat = D at *
    generalize hM : yc' * D = M at *
    have ht := tpow_pos (y.exp - 16)
    have hu := ulpE_pos x.exp
    have hsumq : (sg : ℚ) * (n : ℚ) = (x.sign : ℚ) * (x.coef : ℚ) + (y.sign : ℚ) * (yc' : ℚ) := by
      exact_mod_cast hsum
    have hMq : (M : ℚ) = (yc' : ℚ) * (D : ℚ) := by rw [← hM]; push_cast; ring
    have hw : (sg : ℚ) * (n : ℚ) * (10 : ℚ) ^ (x.exp - 16) - (val x + val y)
        = (y.sign : ℚ) * ((((M : ℚ)) - (y.coef : ℚ)) * (10 : ℚ) ^ (y.exp - 16)) := by
      unfold val; rw [hud, hMq]
      linear_combination ((D : ℚ) * (10 : ℚ) ^ (y.exp - 16)) * hsumq
    have hMy : 2 * |(M : ℚ) - (y.coef : ℚ)| ≤ (D : ℚ) := by
      have h1 : (2 : ℚ) * M ≤ 2 * y.coef + D := by exact_mod_cast hb1
      have h2 : (2 : ℚ) * y.coef ≤ 2 * M + D := by exact_mod_cast hb2
      have : |(M : ℚ) - (y.coef : ℚ)| ≤ D / 2 := by
        rw [abs_le]; constructor <;> linarith
      linarith
    have hws : 2 * |(sg : ℚ) * (n : ℚ) * (10 : ℚ) ^ (x.exp - 16) - (val x + val y)| ≤ ulpE x.exp := by
      rw [hw, abs_sign_mul _ hwy.1, abs_mul, abs_of_pos ht]
      unfold ulpE; rw [hud]
      have := mul_le_mul_of_nonneg_right hMy (le_of_lt ht)
      linarith
    have hws0 : x.exp = y.exp → (sg : ℚ) * (n : ℚ) * (10 : ℚ) ^ (x.exp - 16) = val x + val y := by
      intro h
      have h1 := heq h
      have h2 := hd0 h
      have : (M : ℚ) = y.coef := by rw [← hM, h1, h2]; simp
      have := hw; rw [‹(M : ℚ) = y.coef›, sub_self, zero_mul, mul_zero] at this
      linarith
    rw [hr]
    by_cases hn0 : n = 0
    · -- exact cancellation
      subst hn0
      rw [new_zero_coef]
      refine ⟨fun h => (by cases h), fun _ => Or.inl ?_, fun _ h => absurd rfl h⟩
      have := hws
      simp only [Nat.cast_zero, mul_zero, zero_mul, zero_sub, abs_neg] at this
      exact this
    · have hnpos : 0 < n := Nat.pos_of_ne_zero hn0
      obtain ⟨q1, q2, q3⟩ := new_round_q sg n x.exp hsg hnpos (by simp only [two64]; omega) hx1
      generalize new sg n x.exp = r at *
      generalize hwdef : (sg : ℚ) * (n : ℚ) * (10 : ℚ) ^ (x.exp - 16) = w at *
      have hwabs : |w| = (n : ℚ) * (10 : ℚ) ^ (x.exp - 16) := by
        rw [← hwdef, mul_assoc, abs_sign_mul _ hsg, abs_of_nonneg (by positivity)]
      refine ⟨fun hinf => ?_, fun hz => Or.inr ?_, fun h1 h2 => ?_⟩
      · -- overflow
        obtain ⟨e1, _, e3⟩ := q1 hinf
        have e3 := e3 (by omega)
        have hu111 : ulpE x.exp ≤ (10 : ℚ) ^ (111 : Int) := by
          unfold ulpE; apply tpow_mono; omega
        rw [pow127] at e3
        have hp111 := tpow_pos 111
        have hsw := abs_le.1 (show |w - (val x + val y)| ≤ ulpE x.exp / 2 by linarith)
        rcases hsg with rfl | rfl
        · left
          refine ⟨by rw [e1]; rfl, ?_⟩
          have : 0 ≤ w := by rw [← hwdef]; positivity
          rw [abs_of_nonneg this] at e3
          linarith [hsw.1, hsw.2]
        · right
          refine ⟨by rw [e1]; rfl, ?_⟩
          have : w ≤ 0 := by
            rw [← hwdef]; push_cast
            have : 0 ≤ (n : ℚ) * (10 : ℚ) ^ (x.exp - 16) := by positivity
            linarith
          rw [abs_of_nonpos this] at e3
          linarith [hsw.1, hsw.2]
      · -- underflow
        obtain ⟨_, e2⟩ := q2 hz
        rw [hwabs] at e2
        have e3 := small_mult n (x.exp - 16) hnpos e2
        have hsw : |w - (val x + val y)| ≤ ulpE x.exp / 2 := by linarith
        have : |val x + val y| ≤ |w| + |w - (val x + val y)| := by
          have := abs_sub_abs_le_abs_sub (val x + val y) w
          rw [abs_sub_comm] at this; linarith
        rw [hwabs] at this
        unfold ulpE at hsw hu
        linarith
      · -- finite
        obtain ⟨f1, _, _, f4, _, _, _, _⟩ := q3 h1 h2
        refine ⟨f1, ?_⟩
        have f4 := f4 (by omega)
        have m1 : ulpE x.exp ≤ ulpE (max x.exp r.exp) := ulpE_mono (le_max_left _ _)
        have m2 : ulp r ≤ ulpE (max x.exp r.exp) := ulpE_mono (le_max_right _ _)
        have : |val r - (val x + val y)| ≤ |val r - w| + |w - (val x + val y)| := by
          have := abs_add_le (val r - w) (w - (val x + val y))
          rwa [sub_add_sub_cancel] at this
        linarith

/-- `Add` on finite normalised operands: within one unit of the 16th digit of the largest of
`|x|`, `|y|`, `|result|`; overflow only beyond the largest finite decimal; zero only for a sum
within half a unit of the larger operand's 16th digit (cancellation) or below the smallest
positive normalised decimal (underflow). -/
theorem add_ulp_q (x y : Dnum) (hx : FinN x) (hy : FinN y) :
    (isInf (add x y) = true →
        (add x y = posInf ∧ maxFinite < val x + val y) ∨
        (add x y = negInf ∧ val x + val y < -maxFinite)) ∧
    (add x y = zero →
        2 * |val x + val y| ≤ ulpE (max x.exp y.exp) ∨ |val x + val y| < minPos) ∧
    (isInf (add x y) = false → add x y ≠ zero →
        FinN (add x y) ∧
        |val (add x y) - (val x + val y)| ≤ ulpE (max (max x.exp y.exp) (add x y).exp)) := by
  rw [add_finite x y hx.1 hy.1]
  by_cases hlt : x.exp < y.exp
  · rw [if_pos hlt, max_eq_right (le_of_lt hlt), add_comm (val x) (val y)]
    exact add'_ulp y x hy hx (le_of_lt hlt)
  · rw [if_neg hlt, max_eq_left (not_lt.1 hlt)]
    exact add'_ulp x y hx hy (not_lt.1 hlt)

theorem sub_ulp_q (x y : Dnum) (hx : FinN x) (hy : FinN y) :
    (isInf (sub x y) = true →
        (sub x y = posInf ∧ maxFinite < val x - val y) ∨
        (sub x y = negInf ∧ val x - val y < -maxFinite)) ∧
    (sub x y = zero →
        2 * |val x - val y| ≤ ulpE (max x.exp y.exp) ∨ |val x - val y| < minPos) ∧
    (isInf (sub x y) = false → sub x y ≠ zero →
        FinN (sub x y) ∧
        |val (sub x y) - (val x - val y)| ≤ ulpE (max (max x.exp y.exp) (sub x y).exp)) := by
  have h := add_ulp_q x (neg y) hx (FinN_neg y hy)
  rw [val_neg] at h
  have he : (neg y).exp = y.exp := rfl
  rw [he, ← sub_eq_add_neg] at h
  exact h

end Gsu.Dnum
