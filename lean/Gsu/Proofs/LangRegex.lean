/-
Lemmas for C37 about the reference matcher `Gsu.Model.LangRegex`. Core Lean only.
-/
import Gsu.Model.LangRegex
namespace Gsu.LangRegex

def ret : K := fun j c => some (j, c)

theorem searchFrom_leftmost (ic : Bool) (s : Bytes) (re : Re) (fuel i0 a b : Nat) (c : Caps)
    (h : searchFrom ic s re fuel i0 = some (a, b, c)) :
    i0 ≤ a ∧ m ic s re a [] ret = some (b, c) ∧ ∀ i, i0 ≤ i → i < a → m ic s re i [] ret = none := by
  induction fuel generalizing i0 with
  | zero => simp [searchFrom] at h
  | succ n ih =>
    simp only [searchFrom] at h
    cases hm : m ic s re i0 [] (fun j c => some (j, c)) with
    | some r =>
      obtain ⟨j, c'⟩ := r
      simp only [hm] at h
      cases h
      refine ⟨Nat.le_refl _, hm, ?_⟩
      intro i h1 h2
      omega
    | none =>
      simp only [hm] at h
      obtain ⟨h1, h2, h3⟩ := ih (i0 + 1) h
      refine ⟨by omega, h2, ?_⟩
      intro i hi1 hi2
      by_cases he : i = i0
      · subst he; exact hm
      · exact h3 i (by omega) hi2

theorem orElse_some (a : Res) (b : Unit → Res) (r : Nat × Caps) (h : a = some r) :
    orElse a b = some r := by
  subst h; rfl

theorem orElse_none (a : Res) (b : Unit → Res) (h : a = none) : orElse a b = b () := by
  subst h; rfl

theorem lastFrom_last (ic : Bool) (s : Bytes) (re : Re) (i a b : Nat) (c : Caps)
    (h : lastFrom ic s re i = some (a, b, c)) :
    a ≤ i ∧ m ic s re a [] ret = some (b, c) ∧ ∀ j, a < j → j ≤ i → m ic s re j [] ret = none := by
  induction i with
  | zero =>
    simp only [lastFrom] at h
    cases hm : m ic s re 0 [] (fun j c => some (j, c)) with
    | none => simp [hm] at h
    | some r =>
      obtain ⟨j, c'⟩ := r
      simp only [hm] at h
      cases h
      exact ⟨Nat.le_refl _, hm, fun j h1 h2 => by omega⟩
  | succ n ih =>
    simp only [lastFrom] at h
    cases hm : m ic s re (n + 1) [] (fun j c => some (j, c)) with
    | some r =>
      obtain ⟨j, c'⟩ := r
      simp only [hm] at h
      cases h
      exact ⟨Nat.le_refl _, hm, fun j h1 h2 => by omega⟩
    | none =>
      simp only [hm] at h
      obtain ⟨h1, h2, h3⟩ := ih h
      refine ⟨by omega, h2, ?_⟩
      intro j hj1 hj2
      by_cases he : j = n + 1
      · subst he; exact hm
      · exact h3 j hj1 (by omega)

end Gsu.LangRegex
