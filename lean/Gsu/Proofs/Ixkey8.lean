import Gsu.Proofs.Ixkey7
namespace Gsu.Ixkey
open Gsu.Proto

theorem rep2_succ (k : Nat) : List.replicate (2 * (k + 1)) (0 : UInt8) = 0 :: 0 :: List.replicate (2 * k) 0 := by
  have : 2 * (k + 1) = 2 * k + 1 + 1 := by omega
  rw [this, List.replicate_succ, List.replicate_succ]

theorem rep2_succ_append (k : Nat) (D : Bytes) :
    List.replicate (2 * (k + 1)) (0 : UInt8) ++ D = List.replicate (2 * k) 0 ++ 0 :: 0 :: D := by
  induction k with
  | zero => simp [List.replicate]
  | succ k ih => rw [rep2_succ (k + 1), List.cons_append, List.cons_append, ih, rep2_succ k]; simp

theorem seps_eq {α : Type} (l : List α) :
    l.flatMap (fun _ => sep) = List.replicate (2 * l.length) (0 : UInt8) := by
  induction l with
  | nil => rfl
  | cons x l ih => rw [seps_cons, ih, List.length_cons, rep2_succ]

theorem seps_range (m : Nat) :
    (List.range m).flatMap (fun _ => sep) = List.replicate (2 * m) (0 : UInt8) := by
  rw [seps_eq, List.length_range]

theorem go_rep2 (k : Nat) (l : Bytes) :
    stripSeps.go (List.replicate (2 * k) 0 ++ l) = stripSeps.go l := by
  induction k with
  | zero => simp
  | succ k ih => rw [rep2_succ, List.cons_append, List.cons_append, stripSeps.go.eq_1, ih]

theorem go_nz {b : UInt8} (hb : b ≠ 0) (l : Bytes) : stripSeps.go (b :: l) = b :: l :=
  stripSeps.go.eq_2 _ (fun rest h => hb (by simp_all))

theorem go_nil : stripSeps.go [] = [] := stripSeps.go.eq_2 _ (fun rest h => by simp at h)

theorem stripSeps_pad (X : Bytes) (k : Nat) (hX : X = [] ∨ ∃ q c, X = q ++ [c] ∧ c ≠ 0) :
    stripSeps (X ++ List.replicate (2 * k) 0) = X := by
  simp only [stripSeps, List.reverse_append, List.reverse_replicate, go_rep2]
  rcases hX with rfl | ⟨q, c, rfl, hc⟩
  · simp [go_nil]
  · simp [go_nz hc]

theorem enc_last_nz {y : Bytes} (hy : y ≠ []) : ∃ q c, enc y = q ++ [c] ∧ c ≠ 0 := by
  cases h : (enc y).reverse with
  | nil => simp at h; exact absurd (enc_eq_nil.mp h) hy
  | cons c q =>
    have h' : enc y = q.reverse ++ [c] := by
      have := congrArg List.reverse h; simpa using this
    refine ⟨q.reverse, c, h', ?_⟩
    intro hc; subst hc
    exact enc_not_end_zero y _ h'

theorem joinEnc_last_nz (i : List Bytes) {y : Bytes} (hy : y ≠ []) :
    ∃ q c, joinEnc (i ++ [y]) = q ++ [c] ∧ c ≠ 0 := by
  obtain ⟨q, c, hq, hc⟩ := enc_last_nz hy
  by_cases hi : i = []
  · subst hi; exact ⟨q, c, by simpa [joinEnc] using hq, hc⟩
  · refine ⟨joinEnc i ++ 0 :: 0 :: q, c, ?_, hc⟩
    rw [joinEnc_append hi (by simp), joinEnc_single, hq]; simp

theorem trim_decomp (l : List Bytes) : ∃ k, l = trimEmpty l ++ List.replicate k [] := by
  induction l with
  | nil => exact ⟨0, rfl⟩
  | cons x a ih =>
    obtain ⟨k, hk⟩ := ih
    rw [trimEmpty_cons]
    by_cases h : trimEmpty a = []
    · rw [h] at hk
      by_cases hx : x = []
      · refine ⟨k + 1, ?_⟩
        simp only [h, hx, if_true, List.nil_append, List.replicate_succ]
        rw [hk]; simp
      · refine ⟨k, ?_⟩
        simp only [h, hx, if_true, if_false]
        rw [hk]; simp
    · refine ⟨k, ?_⟩
      simp only [h, if_false, List.cons_append]
      rw [← hk]

theorem trim_last (l : List Bytes) : trimEmpty l = [] ∨ ∃ i y, trimEmpty l = i ++ [y] ∧ y ≠ [] := by
  induction l with
  | nil => left; rfl
  | cons x a ih =>
    rw [trimEmpty_cons]
    by_cases h : trimEmpty a = []
    · by_cases hx : x = []
      · left; simp [h, hx]
      · right; exact ⟨[], x, by simp [h, hx], hx⟩
    · right
      rcases ih with ih | ⟨i, y, hi, hy⟩
      · exact absurd ih h
      · exact ⟨x :: i, y, by simp [hi], hy⟩

theorem joinEnc_replicate (k : Nat) :
    joinEnc (List.replicate (k + 1) []) = List.replicate (2 * k) (0 : UInt8) := by
  induction k with
  | zero => simp [joinEnc, enc]
  | succ k ih =>
    rw [List.replicate_succ, List.replicate_succ, joinEnc_cons2, ← List.replicate_succ, ih, rep2_succ]
    simp [enc]

theorem joinEnc_pad {t : List Bytes} (ht : t ≠ []) (k : Nat) :
    joinEnc (t ++ List.replicate k []) = joinEnc t ++ List.replicate (2 * k) (0 : UInt8) := by
  cases k with
  | zero => simp
  | succ k =>
    rw [joinEnc_append ht (by simp [List.replicate_succ]), joinEnc_replicate, rep2_succ]

theorem countSep_nz {b : UInt8} (hb : b ≠ 0) (r : Bytes) : countSep (b :: r) = countSep r :=
  countSep.eq_2 b r (fun _ h _ => hb h)
theorem countSep_z_nz {c : UInt8} (hc : c ≠ 0) (r : Bytes) : countSep (0 :: c :: r) = countSep (c :: r) :=
  countSep.eq_2 0 (c :: r) (fun _ _ h => hc (by simp_all))

theorem countSep_enc (a : Bytes) : countSep (enc a) = 0 := by
  induction a with
  | nil => rfl
  | cons b bs ih =>
    by_cases hb : b = 0
    · subst hb; rw [enc_zero, countSep_z_nz (by decide), countSep_nz (by decide), ih]
    · rw [enc_nz hb, countSep_nz hb, ih]

theorem countSep_enc_sep (a r : Bytes) : countSep (enc a ++ 0 :: 0 :: r) = countSep r + 1 := by
  induction a with
  | nil => exact countSep.eq_1 r
  | cons b bs ih =>
    by_cases hb : b = 0
    · subst hb; rw [enc_zero]; simp only [List.cons_append]
      rw [countSep_z_nz (by decide), countSep_nz (by decide), ih]
    · rw [enc_nz hb]; simp only [List.cons_append]; rw [countSep_nz hb, ih]

theorem countSep_joinEnc (t : List Bytes) : countSep (joinEnc t) = t.length - 1 := by
  induction t with
  | nil => rfl
  | cons f fs ih =>
    cases fs with
    | nil => simp [joinEnc, countSep_enc]
    | cons g fs => rw [joinEnc_cons2, countSep_enc_sep, ih]; simp

theorem splitPS_joinEnc (vs : List Bytes) (n : Nat) (hn : 1 ≤ n) (hl : n < vs.length) :
    splitPS (joinEnc vs) n = (joinEnc (trimEmpty (vs.take n)), joinEnc (vs.drop n)) := by
  simp only [splitPS, splitScan_joinEnc vs n [] hn hl, List.reverse_nil, List.nil_append]
  congr 1
  obtain ⟨k, hk⟩ := trim_decomp (vs.take n)
  have hlen : (vs.take n).length = n := by simp; omega
  rcases trim_last (vs.take n) with ht | ⟨i, y, hi, hy⟩
  · rw [ht] at hk ⊢
    have hkn : k = n := by rw [hk] at hlen; simpa using hlen
    obtain ⟨m, rfl⟩ : ∃ m, n = m + 1 := ⟨n - 1, by omega⟩
    subst hkn
    rw [hk, List.nil_append, joinEnc_replicate]
    simpa [joinEnc] using stripSeps_pad [] m (Or.inl rfl)
  · have ht : trimEmpty (vs.take n) ≠ [] := by rw [hi]; simp
    rw [hk, joinEnc_pad ht, ← hk]
    apply stripSeps_pad
    right; rw [hi]; exact joinEnc_last_nz i hy

theorem splitPS_joinPS (vs : List Bytes) (n : Nat) (hn : 1 ≤ n) (hl : n < vs.length) :
    countSep (splitPS (joinEnc vs) n).1 < n ∧
    joinPS (splitPS (joinEnc vs) n).1 n (splitPS (joinEnc vs) n).2 = joinEnc vs ∧
    (splitPS (joinEnc vs) n).2 = joinEnc (vs.drop n) := by
  rw [splitPS_joinEnc vs n hn hl]
  simp only
  obtain ⟨k, hk⟩ := trim_decomp (vs.take n)
  have hlen : (vs.take n).length = n := by simp; omega
  have hlen2 : (trimEmpty (vs.take n)).length + k = n := by
    have := congrArg List.length hk; simp only [List.length_append, List.length_replicate] at this; omega
  have hd : vs.drop n ≠ [] := by
    intro h; have := congrArg List.length h; simp at this; omega
  have htk : vs.take n ≠ [] := by
    intro h; rw [h] at hlen; simp at hlen; omega
  have hvs : joinEnc vs = joinEnc (vs.take n) ++ 0 :: 0 :: joinEnc (vs.drop n) := by
    rw [← joinEnc_append htk hd, List.take_append_drop]
  refine ⟨?_, ?_, trivial⟩
  · rw [countSep_joinEnc]; omega
  · rw [hvs]
    simp only [joinPS, seps_range, countSep_joinEnc]
    by_cases ht : trimEmpty (vs.take n) = []
    · rw [ht] at hk hlen2 ⊢
      simp only [List.length_nil, Nat.zero_add] at hlen2
      obtain ⟨m, rfl⟩ : ∃ m, n = m + 1 := ⟨n - 1, by omega⟩
      subst hlen2
      rw [hk, List.nil_append, joinEnc_replicate]
      simp only [joinEnc, List.nil_append, List.length_nil, Nat.zero_sub, Nat.sub_zero]
      exact rep2_succ_append m _
    · have hpos : 0 < (trimEmpty (vs.take n)).length := List.length_pos_iff.mpr ht
      have : n - ((trimEmpty (vs.take n)).length - 1) = k + 1 := by omega
      rw [this]
      conv => rhs; rw [hk, joinEnc_pad ht]
      rw [List.append_assoc, List.append_assoc, rep2_succ_append]

end Gsu.Ixkey
