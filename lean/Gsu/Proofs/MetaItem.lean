/-
Round trips of the metadata item codecs and of the chunk frame (C04), on top of the C14 lemmas
about the stor writer/reader primitives. Core only.
-/
import Gsu.Model.MetaItem
import Gsu.Proofs.StorEnc
import Gsu.Proofs.StateRec
open Gsu.Proto Gsu.StorEnc
namespace Gsu.MetaItem

theorem cksum_length (b : Bytes) : (Gsu.StateRec.cksum b).length = 2 := rfl

/-- `get k` after `put k (n : Nat)` -/
theorem get_put_nat (k n : Nat) (b rest : Bytes) (h : put k (n : Int) = some b) :
    get k (b ++ rest) = some (n, rest) := by
  have := (get_put k (n : Int) b rest h).1
  simpa using this

theorem get_put_int (k : Nat) (n : Int) (b rest : Bytes) (h : put k n = some b) :
    (get k (b ++ rest)).map (fun p => ((p.1 : Int), p.2)) = some (n, rest) := by
  obtain ⟨h1, h2⟩ := get_put k n b rest h
  rw [h1]; simp [h2]

theorem fixFk_idem (fk : Fkey) : fixFk (fixFk fk) = fixFk fk := by
  unfold fixFk
  by_cases h : (fk.table.isEmpty && !fk.columns.isEmpty) = true
  · simp [h]
  · simp [h]

theorem readFkRaw_writeFkRaw (fk : Fkey) (bs rest : Bytes) (h : writeFkRaw fk = some bs) :
    readFkRaw (bs ++ rest) = some (fk, rest) := by
  unfold writeFkRaw at h
  cases h1 : putStr fk.table with
  | none => simp [h1] at h
  | some a =>
    cases h2 : put 1 (fk.mode : Int) with
    | none => simp [h1, h2] at h
    | some b =>
      cases h3 : putStrs fk.columns with
      | none => simp [h1, h2, h3] at h
      | some c =>
        simp only [h1, h2, h3, Option.bind_some, Option.some.injEq] at h
        subst h
        simp only [readFkRaw, List.append_assoc, getStr_putStr _ _ _ h1, Option.bind_some,
          get_put_nat 1 _ _ _ h2, getStrs_putStrs _ _ _ h3]

theorem readBest_writeBest (mode : Nat) (bk : Option (List Bytes)) (bs rest : Bytes)
    (h : writeBest mode bk = some bs) :
    readBest mode (bs ++ rest) = some (if mode = modeKey then none else bk, rest) := by
  unfold writeBest at h
  unfold readBest
  by_cases hm : mode = modeKey
  · simp only [hm, if_true, Option.some.injEq] at h ⊢
    subst h; simp
  · simp only [hm, if_false] at h ⊢
    cases bk with
    | none => simp at h
    | some l =>
      simp only at h
      simp only [getStrs_putStrs _ _ _ h, Option.bind_some]

theorem readIndex_writeIndex (ix : Index) (bs rest : Bytes) (h : writeIndex ix = some bs) :
    readIndex (bs ++ rest) = some (normIndex ix, rest) := by
  unfold writeIndex at h
  cases h1 : put 1 (ix.mode : Int) with
  | none => simp [h1] at h
  | some m =>
    cases h2 : putStrs ix.columns with
    | none => simp [h1, h2] at h
    | some c =>
      cases h3 : writeBest ix.mode ix.bestKey with
      | none => simp [h1, h2, h3] at h
      | some k =>
        cases h4 : writeFkRaw (fixFk ix.fk) with
        | none => simp [h1, h2, h3, h4] at h
        | some f =>
          simp only [h1, h2, h3, h4, Option.bind_some, Option.some.injEq] at h
          subst h
          simp only [readIndex, List.append_assoc, get_put_nat 1 _ _ _ h1, Option.bind_some,
            getStrs_putStrs _ _ _ h2, readBest_writeBest _ _ _ _ h3,
            readFkRaw_writeFkRaw _ _ _ h4, fixFk_idem, normIndex]

theorem readIndexes_writeIndexes (ixs : List Index) (bs rest : Bytes)
    (h : writeIndexes ixs = some bs) :
    readIndexes ixs.length (bs ++ rest) = some (ixs.map normIndex, rest) := by
  induction ixs generalizing bs with
  | nil => simp [writeIndexes] at h; subst h; simp [readIndexes]
  | cons ix r ih =>
    simp only [writeIndexes] at h
    cases h1 : writeIndex ix with
    | none => simp [h1] at h
    | some a =>
      cases h2 : writeIndexes r with
      | none => simp [h1, h2] at h
      | some b =>
        simp only [h1, h2, Option.bind_some, Option.some.injEq] at h
        subst h
        simp only [List.length_cons, readIndexes, List.append_assoc,
          readIndex_writeIndex _ _ _ h1, Option.bind_some, ih _ h2, List.map_cons]

theorem readSchema_writeSchema (s : Schema) (bs rest : Bytes) (h : writeSchema s = some bs) :
    readSchema (bs ++ rest) = some (normSchema s, rest) := by
  unfold writeSchema at h
  cases h1 : putStr s.table with
  | none => simp [h1] at h
  | some a =>
    cases h2 : putStrs s.columns with
    | none => simp [h1, h2] at h
    | some b =>
      cases h3 : putStrs s.derived with
      | none => simp [h1, h2, h3] at h
      | some c =>
        cases h4 : put 1 (s.indexes.length : Int) with
        | none => simp [h1, h2, h3, h4] at h
        | some d =>
          cases h5 : writeIndexes s.indexes with
          | none => simp [h1, h2, h3, h4, h5] at h
          | some e =>
            simp only [h1, h2, h3, h4, h5, Option.bind_some, Option.some.injEq] at h
            subst h
            simp only [readSchema, List.append_assoc, getStr_putStr _ _ _ h1, Option.bind_some,
              getStrs_putStrs _ _ _ h2, getStrs_putStrs _ _ _ h3, get_put_nat 1 _ _ _ h4,
              readIndexes_writeIndexes _ _ _ h5, normSchema]

/-- a schema as the database holds it after `SetBestKeys`/read: keys carry no best key, and foreign
key columns only with a foreign key table -/
def SchemaWF (s : Schema) : Prop :=
  ∀ ix ∈ s.indexes, (ix.mode = modeKey → ix.bestKey = none) ∧
    (ix.fk.table = [] → ix.fk.columns = [])

theorem fixFk_of_wf (fk : Fkey) (h : fk.table = [] → fk.columns = []) : fixFk fk = fk := by
  unfold fixFk
  by_cases ht : fk.table = []
  · simp [ht, h ht]
  · have : fk.table.isEmpty = false := by
      cases hh : fk.table with
      | nil => exact absurd hh ht
      | cons _ _ => rfl
    simp [this]

theorem normSchema_of_wf (s : Schema) (h : SchemaWF s) : normSchema s = s := by
  unfold normSchema
  have : s.indexes.map normIndex = s.indexes := by
    have hh : ∀ ix ∈ s.indexes, normIndex ix = ix := by
      intro ix hix
      obtain ⟨h1, h2⟩ := h ix hix
      cases ix with
      | mk mode columns bestKey fk =>
        simp only [normIndex] at *
        rw [fixFk_of_wf _ h2]
        by_cases hm : mode = modeKey
        · simp [hm, h1 hm]
        · simp [hm]
    calc s.indexes.map normIndex = s.indexes.map id := List.map_congr_left hh
      _ = s.indexes := List.map_id _
  rw [this]

/-! ## info -/

theorem readOv_writeOv (o : Ov) (bs rest : Bytes) (h : writeOv o = some bs) :
    readOv (bs ++ rest) = some (o, rest) := by
  unfold writeOv at h
  cases h1 : put 5 o.root with
  | none => simp [h1] at h
  | some a =>
    cases h2 : put 1 o.levels with
    | none => simp [h1, h2] at h
    | some b =>
      simp only [h1, h2, Option.bind_some, Option.some.injEq] at h
      subst h
      obtain ⟨g1, e1⟩ := get_put 5 _ a (b ++ rest) h1
      obtain ⟨g2, e2⟩ := get_put 1 _ b rest h2
      simp only [readOv, List.append_assoc, g1, Option.bind_some, g2, e1, e2]

theorem readOvs_writeOvs (os : List Ov) (bs rest : Bytes) (h : writeOvs os = some bs) :
    readOvs os.length (bs ++ rest) = some (os, rest) := by
  induction os generalizing bs with
  | nil => simp [writeOvs] at h; subst h; simp [readOvs]
  | cons o r ih =>
    simp only [writeOvs] at h
    cases h1 : writeOv o with
    | none => simp [h1] at h
    | some a =>
      cases h2 : writeOvs r with
      | none => simp [h1, h2] at h
      | some b =>
        simp only [h1, h2, Option.bind_some, Option.some.injEq] at h
        subst h
        simp only [List.length_cons, readOvs, List.append_assoc, readOv_writeOv _ _ _ h1,
          Option.bind_some, ih _ h2]

theorem readInfo_writeInfo (i : Info) (bs rest : Bytes) (h : writeInfo i = some bs) :
    readInfo (bs ++ rest) = some (normInfo i, rest) := by
  unfold writeInfo at h
  cases h1 : putStr i.table with
  | none => simp [h1] at h
  | some a =>
    cases h2 : put 4 i.btreeNrows with
    | none => simp [h1, h2] at h
    | some b =>
      cases h3 : put 5 i.btreeSize with
      | none => simp [h1, h2, h3] at h
      | some c =>
        cases h4 : put 1 (i.indexes.length : Int) with
        | none => simp [h1, h2, h3, h4] at h
        | some d =>
          cases h5 : writeOvs i.indexes with
          | none => simp [h1, h2, h3, h4, h5] at h
          | some e =>
            simp only [h1, h2, h3, h4, h5, Option.bind_some, Option.some.injEq] at h
            subst h
            obtain ⟨g2, e2⟩ := get_put 4 _ b (c ++ (d ++ (e ++ rest))) h2
            obtain ⟨g3, e3⟩ := get_put 5 _ c (d ++ (e ++ rest)) h3
            simp only [readInfo, List.append_assoc, getStr_putStr _ _ _ h1, Option.bind_some,
              g2, g3, get_put_nat 1 _ _ _ h4, readOvs_writeOvs _ _ _ h5, e2, e3, normInfo]

/-! ## items of a chunk -/

theorem readItems_writeItems {α} (enc : α → Option Bytes) (rd : Bytes → Option (α × Bytes))
    (nrm : α → α)
    (hrt : ∀ x bs rest, enc x = some bs → rd (bs ++ rest) = some (nrm x, rest))
    (hne : ∀ x bs, enc x = some bs → bs ≠ [])
    (xs : List α) (body : Bytes) (h : writeItems enc xs = some body) (fuel : Nat)
    (hf : body.length ≤ fuel) :
    readItems rd fuel body = some (xs.map nrm) := by
  induction xs generalizing body fuel with
  | nil =>
    simp [writeItems] at h; subst h
    cases fuel <;> simp [readItems]
  | cons x r ih =>
    simp only [writeItems] at h
    cases h1 : enc x with
    | none => simp [h1] at h
    | some a =>
      cases h2 : writeItems enc r with
      | none => simp [h1, h2] at h
      | some b =>
        simp only [h1, h2, Option.bind_some, Option.some.injEq] at h
        subst h
        have hne' := hne x a h1
        cases a with
        | nil => exact absurd rfl hne'
        | cons a0 ar =>
          cases fuel with
          | zero => simp at hf
          | succ f =>
            have hb : b.length ≤ f := by simp at hf; omega
            have := hrt x (a0 :: ar) b h1
            simp only [List.cons_append] at this
            simp only [List.cons_append, readItems, this, Option.bind_some, ih b h2 f hb,
              List.map_cons]

theorem putStr_ne_nil (s bs : Bytes) (h : putStr s = some bs) : bs ≠ [] := by
  obtain ⟨_, rfl⟩ := (putStr_eq_some s bs).1 h
  simp [putN]

theorem writeSchema_ne_nil (s : Schema) (bs : Bytes) (h : writeSchema s = some bs) : bs ≠ [] := by
  unfold writeSchema at h
  cases h1 : putStr s.table with
  | none => simp [h1] at h
  | some a =>
    have := putStr_ne_nil _ _ h1
    intro hb
    subst hb
    simp only [h1, Option.bind_some] at h
    cases h2 : putStrs s.columns <;> simp [h2] at h
    cases h3 : putStrs s.derived <;> simp [h3] at h
    cases h4 : put 1 (s.indexes.length : Int) <;> simp [h4] at h
    cases h5 : writeIndexes s.indexes <;> simp [h5] at h
    exact this h.1

theorem writeInfo_ne_nil (i : Info) (bs : Bytes) (h : writeInfo i = some bs) : bs ≠ [] := by
  unfold writeInfo at h
  cases h1 : putStr i.table with
  | none => simp [h1] at h
  | some a =>
    have := putStr_ne_nil _ _ h1
    intro hb
    subst hb
    simp only [h1, Option.bind_some] at h
    cases h2 : put 4 i.btreeNrows <;> simp [h2] at h
    cases h3 : put 5 i.btreeSize <;> simp [h3] at h
    cases h4 : put 1 (i.indexes.length : Int) <;> simp [h4] at h
    cases h5 : writeOvs i.indexes <;> simp [h5] at h
    exact this h.1

/-! ## chunk frame -/

theorem put_length (k : Nat) (n : Int) (b : Bytes) (h : put k n = some b) : b.length = k := by
  obtain ⟨_, _, rfl⟩ := (put_eq_some k n b).1 h
  exact putN_length _ _

theorem readChunk_writeChunk (prev ck : Int) (body bs tail : Bytes)
    (h : writeChunk prev ck body = some bs) :
    readChunk (bs ++ tail) = some (prev.toNat, ck.toNat, body) ∧
      (prev.toNat : Int) = prev ∧ (ck.toNat : Int) = ck := by
  unfold writeChunk at h
  cases h1 : put 3 ((body.length + 14 : Nat) : Int) with
  | none => rw [h1] at h; cases h
  | some a =>
    cases h2 : put 5 prev with
    | none => rw [h1, h2] at h; cases h
    | some b =>
      cases h3 : put 4 ck with
      | none => rw [h1, h2, h3] at h; cases h
      | some c =>
        simp only [h1, h2, h3, Option.bind_some, Option.some.injEq] at h
        have la := put_length _ _ _ h1
        have lb := put_length _ _ _ h2
        have lc := put_length _ _ _ h3
        obtain ⟨pre, hpre⟩ : ∃ pre, pre = a ++ (b ++ (c ++ body)) := ⟨_, rfl⟩
        rw [← hpre] at h
        have lpre : pre.length = body.length + 12 := by
          subst hpre; simp only [List.length_append, la, lb, lc]; omega
        have lck := cksum_length pre
        subst h
        have e0 : (pre ++ Gsu.StateRec.cksum pre) ++ tail =
            a ++ ((b ++ (c ++ body)) ++ (Gsu.StateRec.cksum pre ++ tail)) := by
          subst hpre; simp only [List.append_assoc]
        have g0 := get_put_nat 3 _ a ((b ++ (c ++ body)) ++ (Gsu.StateRec.cksum pre ++ tail)) h1
        rw [← e0] at g0
        have hsz : (body.length + 14) - 2 = pre.length := by omega
        have hl : ¬ (body.length + 14 < 14 ∨
            ((pre ++ Gsu.StateRec.cksum pre) ++ tail).length < body.length + 14) := by
          simp only [List.length_append, lpre, lck]; omega
        have ht1 : ((pre ++ Gsu.StateRec.cksum pre) ++ tail).take (body.length + 14) =
            pre ++ Gsu.StateRec.cksum pre :=
          List.take_left' (by simp only [List.length_append, lpre, lck])
        have ht2 : ((pre ++ Gsu.StateRec.cksum pre) ++ tail).take (body.length + 14 - 2) = pre := by
          rw [hsz, List.append_assoc]; exact List.take_left' rfl
        have hd : (pre ++ Gsu.StateRec.cksum pre).drop (body.length + 14 - 2) =
            Gsu.StateRec.cksum pre := by
          rw [hsz]; exact List.drop_left' rfl
        have hd3 : pre.drop 3 = b ++ (c ++ body) := by
          subst hpre; exact List.drop_left' la
        obtain ⟨g5, e5⟩ := get_put 5 _ b (c ++ body) h2
        obtain ⟨g4, e4⟩ := get_put 4 _ c body h3
        refine ⟨?_, e5, e4⟩
        simp only [readChunk, g0, Option.bind_some, hl, if_false, ht1, ht2, hd, bne_self_eq_false,
          Bool.false_eq_true, hd3, g5, g4]

end Gsu.MetaItem
