/-
C11, goal `mergeChunks_flat`, part 1: algebra of the flat two-way merge `merge2` under the left
fold `foldlM merge2` that the k-way loop of `merge.merge` is compared with.

* `merge2_prefix`   : a prefix below everything in the right layer passes through
* `fold_slot`       : moving the minimal slot (earliest input among equal keys) from its layer onto
                      the accumulator = one `mergeStep` on the accumulator's last change
* `fold_chunk`      : moving a whole chunk below all earlier layers onto the accumulator
* `fold_erase_nil`  : an exhausted input does not matter
Core Lean only.
-/
import Gsu.Proofs.Ixbuf
namespace Gsu.Ixbuf
open Gsu.Proto

/-- the left fold of `mergeFlat`, from an arbitrary accumulator -/
abbrev F (acc : Layer) (ls : List Layer) : Option Layer := ls.foldlM merge2 acc

theorem F_nil (acc : Layer) : F acc [] = some acc := rfl
theorem F_cons (acc l : Layer) (ls : List Layer) : F acc (l :: ls) = (merge2 acc l).bind (F · ls) := by
  simp [F, List.foldlM_cons, bind]

theorem merge2_nil_right (l : Layer) : merge2 l [] = some l := by
  cases l <;> simp [merge2]

theorem merge2_nil_left (l : Layer) : merge2 [] l = some l := by
  simp [merge2]

theorem merge2_cons_cons (k1 : Bytes) (c1 : Chg) (r1 : Layer) (k2 : Bytes) (c2 : Chg) (r2 : Layer) :
    merge2 ((k1, c1) :: r1) ((k2, c2) :: r2) =
      if k1 < k2 then (merge2 r1 ((k2, c2) :: r2)).map ((k1, c1) :: ·)
      else if k2 < k1 then (merge2 ((k1, c1) :: r1) r2).map ((k2, c2) :: ·)
      else match combine c1 c2 with
        | none => none
        | some none => merge2 r1 r2
        | some (some c) => (merge2 r1 r2).map ((k1, c) :: ·) := by
  rw [merge2]; rfl

/-- a prefix whose keys are below every key of the right layer is copied -/
theorem merge2_prefix (d x b : Layer) (h : ∀ s ∈ d, ∀ t ∈ b, s.1 < t.1) :
    merge2 (d ++ x) b = (merge2 x b).map (d ++ ·) := by
  induction d with
  | nil => simp
  | cons s d ih =>
    obtain ⟨k1, c1⟩ := s
    cases b with
    | nil => simp [merge2_nil_right]
    | cons t b =>
      obtain ⟨k2, c2⟩ := t
      have hlt : k1 < k2 := h (k1, c1) (List.mem_cons_self ..) (k2, c2) (List.mem_cons_self ..)
      rw [List.cons_append, merge2_cons_cons, if_pos hlt,
        ih (fun s hs t ht => h s (List.mem_cons_of_mem _ hs) t ht)]
      cases merge2 x ((k2, c2) :: b) <;> simp

/-- a head below the right layer is copied -/
theorem merge2_head_left (k : Bytes) (c : Chg) (q r : Layer) (hr : LB k r) :
    merge2 ((k, c) :: q) r = (merge2 q r).map ((k, c) :: ·) := by
  have := merge2_prefix [(k, c)] q r (by
    intro s hs t ht
    simp only [List.mem_singleton] at hs; subst hs; exact hr t ht)
  simpa using this

/-- a head of the right layer below the left layer is copied -/
theorem merge2_head_right (k : Bytes) (c : Chg) (q r : Layer) (hq : LB k q) :
    merge2 q ((k, c) :: r) = (merge2 q r).map ((k, c) :: ·) := by
  cases q with
  | nil => simp [merge2_nil_left]
  | cons u q =>
    obtain ⟨k1, c1⟩ := u
    have hlt : k < k1 := hq (k1, c1) (List.mem_cons_self ..)
    have hn : ¬ k1 < k := by grind
    rw [merge2_cons_cons, if_neg hn, if_pos hlt]

/-- the accumulator's change of key `k` (if any) as a layer -/
def eL (k : Bytes) : Option Chg → Layer
  | none => []
  | some c => [(k, c)]

theorem eL_keys (k : Bytes) (e : Option Chg) : ∀ s ∈ eL k e, s.1 = k := by
  cases e <;> simp [eL]

/-- merging the slot `(k, c)` with an accumulator tail `[k ↦ e] ++ q`, `q` and `r` above `k` -/
theorem merge2_slot (k : Bytes) (c : Chg) (e : Option Chg) (q r : Layer) (hq : LB k q) (hr : LB k r) :
    merge2 (eL k e ++ q) ((k, c) :: r) = (mergeStep e c).bind (fun m => merge2 (eL k m ++ q) r) := by
  cases e with
  | none =>
    simp only [eL, List.nil_append, mergeStep, Option.bind_some, List.cons_append]
    rw [merge2_head_right k c q r hq, merge2_head_left k c q r hr]
  | some cl =>
    have hn : ¬ k < k := by grind
    simp only [eL, List.cons_append, List.nil_append, mergeStep]
    rw [merge2_cons_cons, if_neg hn, if_neg hn]
    cases hc : combine cl c with
    | none => simp
    | some m =>
      cases m with
      | none => simp
      | some c' => simp [merge2_head_left k c' q r hr]

theorem bind_congr_some {α β} (o : Option α) (f g : α → Option β) (h : ∀ a, o = some a → f a = g a) :
    o.bind f = o.bind g := by
  cases o with
  | none => rfl
  | some a => exact h a rfl

/-- **slot step**: the slot `(k, c)` heads its layer, all earlier layers are above `k`, the
accumulator is `d ++ [k ↦ e] ++ q` with `d` below and `q` above `k`.  Removing the slot from its
layer and folding it into the accumulator with `mergeStep` does not change the fold. -/
theorem fold_slot (k : Bytes) (c : Chg) (r : Layer) (post : List Layer) (hr : LB k r)
    (d : Layer) (hd : ∀ s ∈ d, s.1 < k) (e : Option Chg) :
    ∀ (pre : List Layer) (q : Layer), (∀ p ∈ pre, LB k p) → LB k q →
      F (d ++ (eL k e ++ q)) (pre ++ ((k, c) :: r) :: post) =
        (mergeStep e c).bind (fun m => F (d ++ (eL k m ++ q)) (pre ++ r :: post)) := by
  have hdlt : ∀ (l : Layer), LB k l → ∀ s ∈ d, ∀ t ∈ l, s.1 < t.1 := by
    intro l hl s hs t ht
    have h1 := hd s hs
    have h2 := hl t ht
    grind
  intro pre
  induction pre with
  | nil =>
    intro q _ hq
    simp only [List.nil_append, F_cons]
    have h1 : ∀ s ∈ d, ∀ t ∈ (k, c) :: r, s.1 < t.1 := by
      intro s hs t ht
      rcases List.mem_cons.1 ht with rfl | ht
      · exact hd s hs
      · exact hdlt r hr s hs t ht
    rw [merge2_prefix d _ _ h1, merge2_slot k c e q r hq hr]
    cases mergeStep e c with
    | none => simp
    | some m =>
      simp only [Option.bind_some]
      rw [merge2_prefix d _ _ (hdlt r hr)]
  | cons p pre ih =>
    intro q hpre hq
    have hp : LB k p := hpre p (List.mem_cons_self ..)
    have hpre' : ∀ p ∈ pre, LB k p := fun x hx => hpre x (List.mem_cons_of_mem _ hx)
    have hpfx : ∀ (m : Option Chg), ∀ s ∈ d ++ eL k m, ∀ t ∈ p, s.1 < t.1 := by
      intro m s hs t ht
      rcases List.mem_append.1 hs with hs | hs
      · exact hdlt p hp s hs t ht
      · rw [eL_keys k m s hs]; exact hp t ht
    have hm : ∀ (m : Option Chg), merge2 (d ++ (eL k m ++ q)) p = (merge2 q p).map ((d ++ eL k m) ++ ·) := by
      intro m
      rw [← List.append_assoc, merge2_prefix _ _ _ (hpfx m)]
    simp only [List.cons_append, F_cons, hm]
    cases hqp : merge2 q p with
    | none => cases mergeStep e c <;> simp
    | some q' =>
      have hq' : LB k q' := merge2_lb k q p q' hq hp hqp
      simp only [Option.map_some, Option.bind_some, List.append_assoc]
      exact ih q' hpre' hq'

/-- an exhausted input does not matter -/
theorem fold_erase_nil (acc : Layer) (pre post : List Layer) :
    F acc (pre ++ [] :: post) = F acc (pre ++ post) := by
  induction pre generalizing acc with
  | nil => simp [merge2_nil_right]
  | cons p pre ih =>
    simp only [List.cons_append, F_cons]
    exact bind_congr_some _ _ _ (fun a _ => ih a)

/-- **chunk step**: a prefix `cur` of a layer whose keys are above the accumulator and below all
earlier layers can be moved onto the accumulator as a whole. -/
theorem fold_chunk (r : Layer) (pre post : List Layer) :
    ∀ (cur done : Layer), Sorted (cur ++ r) → (∀ s ∈ done, ∀ x ∈ cur, s.1 < x.1) →
      (∀ p ∈ pre, ∀ x ∈ cur, LB x.1 p) →
      F done (pre ++ (cur ++ r) :: post) = F (done ++ cur) (pre ++ r :: post) := by
  intro cur
  induction cur with
  | nil => intro done _ _ _; simp
  | cons s cur ih =>
    intro done hs hd hp
    obtain ⟨k, c⟩ := s
    rw [List.cons_append, sorted_cons] at hs
    have hlb : LB k (cur ++ r) := hs.1
    have h := fold_slot k c (cur ++ r) post hlb done
      (fun x hx => hd x hx (k, c) (List.mem_cons_self ..)) none pre []
      (fun p hp' => hp p hp' (k, c) (List.mem_cons_self ..)) (by intro x hx; cases hx)
    simp only [eL, List.append_nil, mergeStep, Option.bind_some] at h
    rw [List.cons_append, h, ih (done ++ [(k, c)]) hs.2]
    · simp
    · intro x hx y hy
      rcases List.mem_append.1 hx with hx | hx
      · exact hd x hx y (List.mem_cons_of_mem _ hy)
      · simp only [List.mem_singleton] at hx; subst hx
        exact hlb y (List.mem_append_left _ hy)
    · intro p hp' x hx
      exact hp p hp' x (List.mem_cons_of_mem _ hx)

end Gsu.Ixbuf
