/-
C11: Insert-built buffers + Merge, end to end (combines Proofs/IxbufIns2 and Proofs/IxbufMerge3).
Core Lean only.
-/
import Gsu.Proofs.IxbufIns2
import Gsu.Proofs.IxbufMerge3
namespace Gsu.Ixbuf
open Gsu.Proto

/-- the buffer built by `Insert`ing the ops into an empty buffer (`none` = an `Insert` panicked) -/
def built (ops : List (Bytes × Chg)) : Option Buf :=
  (insertAll { chunks := [], size := 0 } 0 ops).map (·.1)

theorem applyLayers_append (m : Map) (a b : List Layer) :
    applyLayers m (a ++ b) = (applyLayers m a).bind (applyLayers · b) := by
  simp [applyLayers, List.foldlM_append, bind]

theorem applyLayers_cons (m : Map) (l : Layer) (ls : List Layer) :
    applyLayers m (l :: ls) = (applyLayer m l).bind (applyLayers · ls) := by
  simp [applyLayers, List.foldlM_cons, bind]

theorem built_all (opss : List (List (Bytes × Chg))) : ∀ (m m' : Map),
    (∀ ops ∈ opss, ∀ o ∈ ops, o.2 ≠ .add 0) →
    applyLayers m (opss.flatten.map (fun o => [o])) = some m' →
    ∃ bs : List Buf, opss.map built = bs.map some ∧ (∀ b ∈ bs, BufInv b) ∧
      applyLayers m (bs.map Buf.flatten) = some m' := by
  induction opss with
  | nil => intro m m' _ h; exact ⟨[], rfl, by simp, h⟩
  | cons ops rest ih =>
    intro m m' hops h
    rw [List.flatten_cons, List.map_append, applyLayers_append] at h
    cases h1 : applyLayers m (ops.map (fun o => [o])) with
    | none => rw [h1] at h; cases h
    | some m1 =>
      rw [h1, Option.bind_some] at h
      obtain ⟨b, olds, hb, _, hap, hinv, _⟩ :=
        insertAll_spec ops 0 m m1 (hops ops (List.mem_cons_self ..)) h1
      obtain ⟨bs, e, hbs, hal⟩ := ih m1 m' (fun x hx => hops x (List.mem_cons_of_mem _ hx)) h
      refine ⟨b :: bs, ?_, ?_, ?_⟩
      · simp only [List.map_cons, e, built, hb, Option.map_some]
      · intro x hx
        rcases List.mem_cons.1 hx with rfl | hx
        · exact hinv
        · exact hbs x hx
      · rw [List.map_cons, applyLayers_cons, hap, Option.bind_some]; exact hal

/-- **end to end**: buffers built by `Insert` from at least two op sequences that are valid when
applied one after another to `m`: every `Insert` succeeds, `Merge` succeeds, and the merged buffer
is well formed, strictly sorted and has the effect of applying all ops in order. -/
theorem build_merge_spec (opss : List (List (Bytes × Chg))) (m m' : Map) (hlen : 2 ≤ opss.length)
    (hops : ∀ ops ∈ opss, ∀ o ∈ ops, o.2 ≠ .add 0)
    (h : applyLayers m (opss.flatten.map (fun o => [o])) = some m') :
    ∃ (bs : List Buf) (r : Buf), opss.map built = bs.map some ∧ merge bs = some r ∧ BufInv r ∧
      applyLayer m r.flatten = some m' := by
  obtain ⟨bs, e, hbs, hal⟩ := built_all opss m m' hops h
  have hl : bs.length = opss.length := by
    have := congrArg List.length e
    simpa using this.symm
  obtain ⟨r, hr, hwf, hs, ha⟩ := merge_spec bs m m' (by omega) (fun b hb => (hbs b hb).1)
    (fun b hb => (hbs b hb).2) hal
  exact ⟨bs, r, e, hr, ⟨hwf, hs⟩, ha⟩

end Gsu.Ixbuf
