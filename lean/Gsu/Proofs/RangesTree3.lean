/-
C39 (ranges), tree form, part 3: `Insert` into the tree form when the routed leaf has room —
the leaf insert, the choice of the `prev` pointer, the loop (`coalesce_big`) and the invariant
of the result. Core-only.
-/
import Gsu.Proofs.RangesTree2
namespace Gsu.Ranges
open Gsu.Ordset (Key insertAt)

/-- the first half of `Ranges.Insert`: find the leaf, splitting a full one (`none` = Full) -/
def locate (P : Params) (rs : Ranges) (f : Key) : Option (Ranges × Nat) :=
  let ti0 := match rs with | .small _ => 0 | .big tr => tr.search f - 1
  let leaf0 := rs.leafAt P ti0
  if leaf0.size ≥ P.nodeSize then
    let tr? : Option Tree := match rs with
      | .small l => some [⟨[], l⟩]
      | .big tr => if tr.length ≥ P.nodeSize then none else some tr
    match tr? with
    | none => none
    | some tr =>
      let (l1, l2) := splitLeaf P leaf0 f
      let tr2 := (tr.setLeaf ti0 l1).insert (l2.get 0).frm l2
      some (.big tr2, tr2.search f - 1)
  else some (rs, ti0)

/-- where the `prev` pointer of `Insert` ends up: the new slot, or its predecessor when that reaches `f` -/
def choosePP (P : Params) (rs2 : Ranges) (here : Pos) (f : Key) : Pos :=
  match rs2.prev P here with
  | none => here
  | some q => if rs2.eof P q || (rs2.cur P q).to < f then here else q

/-- the second half: leaf insert and coalescing -/
def insertTail (P : Params) (rs1 : Ranges) (ti : Nat) (f t : Key) : Ranges × Res :=
  let (leaf', r) := (rs1.leafAt P ti).insert P f t
  match r with
  | .existing => (rs1, .inc 0)
  | .overflow => (rs1, .full)
  | .at li =>
    let rs2 := rs1.setLeaf ti leaf'
    let here : Pos := ⟨ti, li⟩
    let pp : Pos := choosePP P rs2 here f
    let it := rs2.next P pp
    let (rs3, inc) := rs2.coalesce P (rs2.count + 1) pp it 1
    (rs3, .inc inc)

theorem insertTail_at (P : Params) (rs1 : Ranges) (ti : Nat) (f t : Key) (leaf' : Leaf) (li : Nat)
    (h : (rs1.leafAt P ti).insert P f t = (leaf', .at li)) :
    insertTail P rs1 ti f t =
      ((Ranges.coalesce P ((rs1.setLeaf ti leaf').count + 1) (rs1.setLeaf ti leaf')
          (choosePP P (rs1.setLeaf ti leaf') ⟨ti, li⟩ f)
          ((rs1.setLeaf ti leaf').next P (choosePP P (rs1.setLeaf ti leaf') ⟨ti, li⟩ f)) 1).1,
        .inc (Ranges.coalesce P ((rs1.setLeaf ti leaf').count + 1) (rs1.setLeaf ti leaf')
          (choosePP P (rs1.setLeaf ti leaf') ⟨ti, li⟩ f)
          ((rs1.setLeaf ti leaf').next P (choosePP P (rs1.setLeaf ti leaf') ⟨ti, li⟩ f)) 1).2) := by
  simp only [insertTail, h]

theorem insert_eq (P : Params) (rs : Ranges) (f t : Key) :
    Ranges.insert P rs f t =
      match locate P rs f with
      | none => (rs, .full)
      | some (rs1, ti) => insertTail P rs1 ti f t := rfl

theorem count_big_mid (pre post : Tree) (X : TSlot) :
    Ranges.count (.big (pre ++ X :: post)) =
      Ranges.count (.big pre) + X.leaf.size + Ranges.count (.big post) := by
  simp [Ranges.count, Nat.add_assoc]

theorem size_eq_live {P : Params} {s : TSlot} (h : Shape P s) : s.leaf.size = s.leaf.live.length := by
  simp only [Leaf.live, List.length_take, h.len]; have := h.sz; omega

theorem count_tflat {P : Params} {t : Tree} (h : ∀ s ∈ t, Shape P s) :
    Ranges.count (.big t) = (tflat t).length := by
  induction t with
  | nil => rfl
  | cons a t ih =>
    have := ih (fun s hs => h s (List.mem_cons_of_mem _ hs))
    simp only [Ranges.count] at this
    simp only [Ranges.count, List.map_cons, List.sum_cons, tflat_cons, List.length_append, this,
      size_eq_live (h a List.mem_cons_self)]

theorem next_mid (P : Params) (pre post : Tree) (val : Key) (A : List Slot) (p : Slot) (B S : List Slot) :
    Ranges.next P (.big (pre ++ ⟨val, midLeaf A p B S⟩ :: post)) ⟨pre.length, A.length⟩ = itPos pre A B := by
  simp only [Ranges.next, Ranges.next2, Ranges.leafAt, leafAt_mid, midLeaf, Ranges.isTree, Bool.not_true,
    Bool.or_false, Ranges.nLeaves, itPos, List.length_append, List.length_cons]
  by_cases hB : B = []
  · subst hB
    simp only [List.length_nil, Nat.add_zero, Nat.lt_irrefl, decide_false, Bool.false_eq_true, ↓reduceIte]
    split <;> (congr 1 <;> omega)
  · have : 0 < B.length := List.length_pos_iff.mpr hB
    simp [hB]

/-- putting a tree `pre ++ X :: post` together from facts about its parts -/
theorem assemble_ok {P : Params} (pre post : Tree) (X : TSlot)
    (hlen : (pre ++ X :: post).length ≤ P.nodeSize)
    (hfirst : ∀ s, (pre ++ [X]).head? = some s → s.val = [])
    (hshape_pre : ∀ s ∈ pre, Shape P s) (hsep_pre : ∀ s ∈ pre.tail, SepEq s)
    (hX : Shape P X) (hsepX : pre ≠ [] → SepEq X)
    (hpost : ∀ s ∈ post, Shape P s ∧ SepEq s)
    (hds : DisjSorted (tflat pre ++ (X.leaf.live ++ tflat post))) :
    TreeOK' P (pre ++ X :: post) := by
  refine ⟨by simp, hlen, ?_, ?_, ?_, by rw [tflat_append, tflat_cons]; exact hds⟩
  · intro s hs
    apply hfirst s
    cases pre <;> simpa using hs
  · intro s hs
    rcases List.mem_append.mp hs with h | h
    · exact hshape_pre s h
    · rcases List.mem_cons.mp h with rfl | h
      · exact hX
      · exact (hpost s h).1
  · intro s hs
    cases pre with
    | nil => exact (hpost s (by simpa using hs)).2
    | cons a pre' =>
      simp only [List.cons_append, List.tail_cons] at hs
      rcases List.mem_append.mp hs with h | h
      · exact hsep_pre s h
      · rcases List.mem_cons.mp h with rfl | h
        · exact hsepX (by simp)
        · exact (hpost s h).2

/-- and taking it apart -/
theorem disassemble_ok {P : Params} {pre post : Tree} {X : TSlot} (h : TreeOK' P (pre ++ X :: post)) :
    (∀ s, (pre ++ [X]).head? = some s → s.val = []) ∧
    (∀ s ∈ pre, Shape P s) ∧ (∀ s ∈ pre.tail, SepEq s) ∧ Shape P X ∧ (pre ≠ [] → SepEq X) ∧
    (∀ s ∈ post, Shape P s ∧ SepEq s) ∧
    DisjSorted (tflat pre ++ (X.leaf.live ++ tflat post)) := by
  refine ⟨?_, fun s hs => h.shape s (by simp [hs]), ?_, h.shape X (by simp), ?_, ?_, ?_⟩
  · intro s hs
    apply h.first s
    cases pre <;> simpa using hs
  · intro s hs
    apply h.sepEq s
    cases pre with
    | nil => cases hs
    | cons a pre' => simp only [List.cons_append, List.tail_cons] at hs ⊢; simp [hs]
  · intro hne
    apply h.sepEq X
    cases pre with
    | nil => exact absurd rfl hne
    | cons a pre' => simp
  · intro s hs
    refine ⟨h.shape s (by simp [hs]), h.sepEq s ?_⟩
    cases pre with
    | nil => simpa using hs
    | cons a pre' => simp [hs]
  · have := h.ds
    rwa [tflat_append, tflat_cons] at this

/-- the loop started from `pre ++ ⟨val, A ++ p :: B ++ S⟩ :: post`: if the flat result
`pre.flat ++ A ++ coalesceL p (B ++ post.flat)` is disjoint and sorted, the resulting tree satisfies
the invariant and has exactly that flat list -/
theorem finish_big (P : Params) (pre post : Tree) (val : Key) (A : List Slot) (p : Slot)
    (B S : List Slot) (fuel : Nat) (hfuel : B.length + (tflat post).length < fuel)
    (hlenT : pre.length + 1 + post.length ≤ P.nodeSize)
    (hfirst1 : pre = [] → val = []) (hfirst2 : ∀ s, pre.head? = some s → s.val = [])
    (hshape_pre : ∀ s ∈ pre, Shape P s) (hsep_pre : ∀ s ∈ pre.tail, SepEq s)
    (hlenX : (A ++ p :: (B ++ S)).length = P.nodeSize)
    (hsepX : pre ≠ [] → ∃ x rest, A ++ [p] = x :: rest ∧ val = x.frm)
    (hpost : ∀ s ∈ post, Shape P s ∧ SepEq s)
    (hfrm : (coalesceL p (B ++ tflat post)).1.frm = p.frm)
    (hres : DisjSorted (tflat pre ++
      (A ++ (coalesceL p (B ++ tflat post)).1 :: (coalesceL p (B ++ tflat post)).2))) :
    ∃ t' inc, Ranges.coalesce P fuel (.big (pre ++ ⟨val, midLeaf A p B S⟩ :: post))
        ⟨pre.length, A.length⟩ (itPos pre A B) 1 = (.big t', inc) ∧
      TreeOK' P t' ∧
      tflat t' = tflat pre ++
        (A ++ (coalesceL p (B ++ tflat post)).1 :: (coalesceL p (B ++ tflat post)).2) ∧
      inc = 1 - (((B.length + (tflat post).length : Nat) : Int) -
        (((coalesceL p (B ++ tflat post)).2.length : Nat) : Int)) ∧
      t'.length ≤ pre.length + 1 + post.length := by
  obtain ⟨p', B', S', post', h1, h2, h3, h4, h5⟩ :=
    coalesce_big P pre val A (B.length + (tflat post).length) B post p S fuel 1 (Nat.le_refl _) hfuel hpost
  rw [h2] at hfrm hres ⊢
  simp only at hfrm hres ⊢
  have hflat : tflat (pre ++ ⟨val, midLeaf A p' B' S'⟩ :: post') =
      tflat pre ++ (A ++ p' :: (B' ++ tflat post')) := by
    rw [tflat_append, tflat_cons, midLeaf_live]; simp
  refine ⟨_, _, h1, ?_, hflat, by simp only [List.length_append], ?_⟩
  · apply assemble_ok pre post' _ (by simp only [List.length_append, List.length_cons]; omega)
    · intro s hs
      cases pre with
      | nil => simp at hs; subst hs; exact hfirst1 rfl
      | cons a pre' => exact hfirst2 s (by simpa using hs)
    · exact hshape_pre
    · exact hsep_pre
    · refine ⟨?_, ?_, ?_⟩
      · simp only [midLeaf, List.length_append, List.length_cons] at hlenX ⊢; omega
      · simp only [midLeaf, List.length_append, List.length_cons] at hlenX ⊢; omega
      · simp only [midLeaf]; omega
    · intro hne
      obtain ⟨x, rest, hx, hv⟩ := hsepX hne
      show ∃ x rest, (midLeaf A p' B' S').live = x :: rest ∧ val = x.frm
      rw [midLeaf_live]
      cases A with
      | nil =>
        simp only [List.nil_append, List.cons.injEq] at hx
        exact ⟨p', B', rfl, by rw [hv, ← hx.1, hfrm]⟩
      | cons a A' =>
        simp only [List.cons_append, List.cons.injEq] at hx
        exact ⟨a, A' ++ p' :: B', rfl, by rw [hv, ← hx.1]⟩
    · exact h4
    · show DisjSorted (tflat pre ++ ((midLeaf A p' B' S').live ++ tflat post'))
      rw [midLeaf_live]
      simpa using hres
  · simp only [List.length_append, List.length_cons]; omega

end Gsu.Ranges
