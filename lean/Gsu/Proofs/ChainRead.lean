/-
`ReadChain` establishes the chain invariant (a reopened session starts in a state that satisfies
`ChInv`: every item is the newest version on the chain, stamped with the age of its chunk; ages are
-1, -2, … towards older chunks; clock 0). Core only.
-/
import Gsu.Proofs.Chain
namespace Gsu.Hamt

theorem lookupD_reAge (cs : List Chunk) (a : Int) (k : Nat) : lookupD (reAge cs a) k = lookupD cs k := by
  induction cs generalizing a with
  | nil => rfl
  | cons ch rest ih => simp only [reAge, lookupD, ih]

theorem reAge_age_le (cs : List Chunk) (a : Int) : ∀ ch ∈ reAge cs a, ch.age ≤ a := by
  induction cs generalizing a with
  | nil => intro ch h; cases h
  | cons c rest ih =>
    intro ch h
    simp only [reAge, List.mem_cons] at h
    rcases h with rfl | h
    · exact Int.le_refl _
    · have := ih (a - 1) ch h; omega

theorem reAge_sorted (cs : List Chunk) (a : Int) :
    (reAge cs a).Pairwise (fun newer older => older.age ≤ newer.age) := by
  induction cs generalizing a with
  | nil => exact List.Pairwise.nil
  | cons c rest ih =>
    simp only [reAge]
    refine List.pairwise_cons.mpr ⟨?_, ih (a - 1)⟩
    intro ch h
    have := reAge_age_le rest (a - 1) ch h
    simp only; omega

section
variable {M : Type} {ops : MapOps M} {ok : M → Prop}

/-- what `readChunks` puts under every key: the newest version on the chain, stamped with the
age its chunk gets -/
theorem readChunks_get_exact (L : MapLaws ops ok) {h : M} (hok : ok h) (cs : List Chunk) (lm : Int)
    (k : Nat) :
    ops.get (readChunks ops cs lm h) k =
      match ops.get h k with
      | some x => some x
      | none =>
        match lookupD cs k, holderAge (reAge cs lm) k with
        | some it, some a => some { it with mod := a }
        | _, _ => none := by
  induction cs generalizing h lm with
  | nil =>
    simp only [readChunks, lookupD]
    cases ops.get h k <;> rfl
  | cons ch rest ih =>
    simp only [readChunks]
    obtain ⟨hok', hget⟩ := readChunk_get L hok ch.items lm k
    rw [ih hok', hget]
    cases hgk : ops.get h k with
    | some x => rfl
    | none =>
      simp only [lookupD, reAge, holderAge]
      cases hf : findK ch.items k with
      | some it => simp only [Option.map_some]
      | none => simp only [Option.map_none]

theorem lookup_holder (cs : List Chunk) (k : Nat) (it : Item) (h : lookupD cs k = some it) :
    ∃ a, holderAge cs k = some a := by
  induction cs with
  | nil => simp [lookupD] at h
  | cons ch rest ih =>
    simp only [lookupD] at h
    simp only [holderAge]
    cases hf : findK ch.items k with
    | some x => exact ⟨_, rfl⟩
    | none => rw [hf] at h; exact ih h

/-- **`ReadChain` yields a state satisfying the chain invariant** -/
theorem read_inv (L : MapLaws ops ok) (chunks : List Chunk) (rc : Chain M)
    (h : readChain ops chunks = some rc) : ChInv ops ok rc := by
  cases chunks with
  | nil =>
    simp only [readChain, Option.some.injEq] at h
    subst h
    exact empty_inv L
  | cons newest rest =>
    simp only [readChain] at h
    split at h
    · cases h
    · simp only [Option.some.injEq] at h
      subst h
      have hok := (readChunks_get L L.ok_empty (newest :: rest) (-1) 0).1
      have hget : ∀ k, ops.get (readChunks ops (newest :: rest) (-1) ops.empty) k =
          match lookupD (newest :: rest) k, holderAge (reAge (newest :: rest) (-1)) k with
          | some it, some a => some { it with mod := a }
          | _, _ => none := by
        intro k
        rw [readChunks_get_exact L L.ok_empty, L.get_empty]
      have hages : ∀ ch ∈ reAge (newest :: rest) (-1), ch.age ≤ -1 := reAge_age_le _ _
      refine ⟨hok, ?_, ?_, reAge_sorted _ _, ?_, ?_⟩
      · intro k x hg
        simp only at hg ⊢
        rw [hget k] at hg
        cases hl : lookupD (newest :: rest) k with
        | none => rw [hl] at hg; cases hg
        | some it =>
          obtain ⟨a, ha⟩ := lookup_holder _ k it (by rw [lookupD_reAge]; exact hl : lookupD (reAge (newest :: rest) (-1)) k = some it)
          rw [hl, ha] at hg
          simp only [Option.some.injEq] at hg
          subst hg
          exact Or.inr (Or.inr ⟨it, a, by rw [lookupD_reAge]; exact hl, rfl, rfl, ha, Int.le_refl _⟩)
      · intro k hg
        simp only at hg ⊢
        rw [hget k] at hg
        rw [lookupD_reAge]
        cases hl : lookupD (newest :: rest) k with
        | none => rfl
        | some it =>
          obtain ⟨a, ha⟩ := lookup_holder _ k it (by rw [lookupD_reAge]; exact hl : lookupD (reAge (newest :: rest) (-1)) k = some it)
          rw [hl, ha] at hg
          cases hg
      · intro k x hg
        simp only at hg ⊢
        rw [hget k] at hg
        cases hl : lookupD (newest :: rest) k with
        | none => rw [hl] at hg; cases hg
        | some it =>
          obtain ⟨a, ha⟩ := lookup_holder _ k it (by rw [lookupD_reAge]; exact hl : lookupD (reAge (newest :: rest) (-1)) k = some it)
          rw [hl, ha] at hg
          simp only [Option.some.injEq] at hg
          subst hg
          obtain ⟨ch, hch, hage⟩ := holderAge_mem _ _ _ ha
          have := hages ch hch
          simp only; omega
      · intro ch hch
        have := hages ch hch
        simp only; omega

end
end Gsu.Hamt
