import Gsu.Model.LangBlocks
namespace Gsu.LangBlocks

theorem writeVar_frame (fr : Frame) (st : State) (v : Nat) (x : Val) :
    (writeVar fr st v x).1.s = fr.s ∧ (writeVar fr st v x).1.chain = fr.chain ∧
      (writeVar fr st v x).1.act = fr.act := by
  unfold writeVar
  split <;> simp

theorem evalE_evalAdds_frame (fuel : Nat) :
    (∀ (fr : Frame) (st : State) (e : Expr) (v : Val) (fr1 : Frame) (st1 : State),
      evalE fuel fr st e = .ok v fr1 st1 → fr1 = fr) ∧
    (∀ (fr : Frame) (st : State) (acc : Val) (es : List Expr) (v : Val) (fr1 : Frame)
      (st1 : State), evalAdds fuel fr st acc es = .ok v fr1 st1 → fr1 = fr) := by
  induction fuel with
  | zero =>
    constructor
    · intro fr st e v fr1 st1 h
      simp [evalE] at h
    · intro fr st acc es v fr1 st1 h
      simp [evalAdds] at h
  | succ n ih =>
    obtain ⟨ihE, ihA⟩ := ih
    constructor
    · intro fr st e v fr1 st1 h
      cases e with
      | num k =>
        simp only [evalE] at h
        injection h with _ h2 _
        exact h2.symm
      | var x =>
        simp only [evalE] at h
        split at h
        · injection h with _ h2 _
          exact h2.symm
        · cases h
      | add a b =>
        simp only [evalE] at h
        split at h
        · cases h
        · split at h
          · next v' fr' st' he =>
            have := ihE _ _ _ _ _ _ he
            have := ihA _ _ _ _ _ _ _ h
            simp_all
          · cases h
          · cases h
      | call f a =>
        simp only [evalE] at h
        split at h
        · next arg fr' st' he =>
          have hfr := ihE _ _ _ _ _ _ he
          subst hfr
          repeat' (split at h)
          all_goals first
            | (cases h; done)
            | (injection h with _ h2 _; exact h2.symm)
        · cases h
        · cases h
      | block s =>
        simp only [evalE] at h
        injection h with _ h2 _
        exact h2.symm
      | fn s =>
        simp only [evalE] at h
        injection h with _ h2 _
        exact h2.symm
    · intro fr st acc es v fr1 st1 h
      cases es with
      | nil =>
        simp only [evalAdds] at h
        injection h with _ h2 _
        exact h2.symm
      | cons e rest =>
        simp only [evalAdds] at h
        split at h
        · next v' fr' st' he =>
          have hfr := ihE _ _ _ _ _ _ he
          subst hfr
          split at h
          · exact ihA _ _ _ _ _ _ _ h
          · cases h
        · cases h
        · cases h

theorem evalE_frame : ∀ (fuel : Nat) (fr : Frame) (st : State) (e : Expr) (v : Val) (fr1 : Frame)
    (st1 : State), evalE fuel fr st e = .ok v fr1 st1 → fr1 = fr :=
  fun fuel => (evalE_evalAdds_frame fuel).1

theorem evalAdds_frame : ∀ (fuel : Nat) (fr : Frame) (st : State) (acc : Val) (es : List Expr)
    (v : Val) (fr1 : Frame) (st1 : State),
    evalAdds fuel fr st acc es = .ok v fr1 st1 → fr1 = fr :=
  fun fuel => (evalE_evalAdds_frame fuel).2

/-- tail step shared by the statement cases: write a variable, then run the rest -/
private theorem runBody_frame_write (n : Nat)
    (ih : ∀ (fr : Frame) (st : State) (b : List Stmt) (u : Unit) (fr1 : Frame) (st1 : State),
      runBody n fr st b = .ok u fr1 st1 → fr1.s = fr.s ∧ fr1.chain = fr.chain ∧ fr1.act = fr.act)
    (fr : Frame) (st : State) (x : Nat) (v : Val) (rest : List Stmt) (u : Unit) (fr1 : Frame)
    (st1 : State)
    (h : runBody n (writeVar fr st x v).1 (writeVar fr st x v).2 rest = .ok u fr1 st1) :
    fr1.s = fr.s ∧ fr1.chain = fr.chain ∧ fr1.act = fr.act := by
  have h1 := ih _ _ _ _ _ _ h
  have h2 := writeVar_frame fr st x v
  exact ⟨h1.1.trans h2.1, h1.2.1.trans h2.2.1, h1.2.2.trans h2.2.2⟩

theorem runBody_frame : ∀ (fuel : Nat) (fr : Frame) (st : State) (b : List Stmt) (u : Unit)
    (fr1 : Frame) (st1 : State), runBody fuel fr st b = .ok u fr1 st1 →
    fr1.s = fr.s ∧ fr1.chain = fr.chain ∧ fr1.act = fr.act := by
  intro fuel
  induction fuel with
  | zero =>
    intro fr st b u fr1 st1 h
    simp [runBody] at h
  | succ n ih =>
    intro fr st b u fr1 st1 h
    cases b with
    | nil =>
      simp only [runBody] at h
      injection h with _ h2 _
      subst h2
      exact ⟨rfl, rfl, rfl⟩
    | cons s rest =>
      cases s with
      | assign x e =>
        simp only [runBody] at h
        split at h
        · next v' fr' st' he =>
          have hfr := evalE_frame _ _ _ _ _ _ _ he
          subst hfr
          exact runBody_frame_write n ih _ _ _ _ _ _ _ _ h
        · cases h
        · cases h
      | ifz c x e =>
        simp only [runBody] at h
        split at h
        · next fr' st' hc =>
          have hfr := evalE_frame _ _ _ _ _ _ _ hc
          subst hfr
          split at h
          · next v' fr'' st'' he =>
            have hfr := evalE_frame _ _ _ _ _ _ _ he
            subst hfr
            exact runBody_frame_write n ih _ _ _ _ _ _ _ _ h
          · cases h
          · cases h
        · next v' fr' st' _ hc =>
          have hfr := evalE_frame _ _ _ _ _ _ _ hc
          subst hfr
          exact ih _ _ _ _ _ _ h
        · cases h
        · cases h
      | tryc x e w =>
        simp only [runBody] at h
        split at h
        · next v' fr' st' he =>
          have hfr := evalE_frame _ _ _ _ _ _ _ he
          subst hfr
          exact runBody_frame_write n ih _ _ _ _ _ _ _ _ h
        · exact runBody_frame_write n ih _ _ _ _ _ _ _ _ h
        · cases h
      | ret e =>
        simp only [runBody] at h
        split at h <;> cases h

end Gsu.LangBlocks
