/-
C39 (ranges), tree form, part 2: the coalescing loop of `Insert` on a tree written
`pre ++ X :: post` (`X` the leaf of the `prev` pointer) refines `coalesceL` on the flat list.
Core-only.
-/
import Gsu.Proofs.RangesTree
namespace Gsu.Ranges
open Gsu.Ordset (Key)

theorem leafAt_mid1 (P : Params) (pre : Tree) (s s2 : TSlot) (post : Tree) :
    Tree.leafAt P (pre ++ s :: s2 :: post) (pre.length + 1) = s2.leaf := by
  have e : pre ++ s :: s2 :: post = (pre ++ [s]) ++ s2 :: post := by simp
  have hl : pre.length + 1 = (pre ++ [s]).length := by simp
  rw [e, hl, leafAt_mid]

theorem modify_mid {α} (pre : List α) (s : α) (post : List α) (g : α → α) :
    (pre ++ s :: post).modify pre.length g = pre ++ g s :: post := by
  induction pre with
  | nil => simp
  | cons a pre ih => simp only [List.cons_append, List.length_cons, List.modify_succ_cons, ih]

theorem setLeaf_mid (pre : Tree) (s : TSlot) (post : Tree) (l : Leaf) :
    Tree.setLeaf (pre ++ s :: post) pre.length l = pre ++ ⟨s.val, l⟩ :: post := by
  simp only [Tree.setLeaf, modify_mid]

theorem setVal_mid (pre : Tree) (s : TSlot) (post : Tree) (v : Key) :
    Tree.setVal (pre ++ s :: post) pre.length v = pre ++ ⟨v, s.leaf⟩ :: post := by
  simp only [Tree.setVal, modify_mid]

theorem setLeaf_mid1 (pre : Tree) (s s2 : TSlot) (post : Tree) (l : Leaf) :
    Tree.setLeaf (pre ++ s :: s2 :: post) (pre.length + 1) l = pre ++ s :: ⟨s2.val, l⟩ :: post := by
  have e : pre ++ s :: s2 :: post = (pre ++ [s]) ++ s2 :: post := by simp
  have hl : pre.length + 1 = (pre ++ [s]).length := by simp
  rw [e, hl, setLeaf_mid]; simp

theorem setVal_mid1 (pre : Tree) (s s2 : TSlot) (post : Tree) (v : Key) :
    Tree.setVal (pre ++ s :: s2 :: post) (pre.length + 1) v = pre ++ s :: ⟨v, s2.leaf⟩ :: post := by
  have e : pre ++ s :: s2 :: post = (pre ++ [s]) ++ s2 :: post := by simp
  have hl : pre.length + 1 = (pre ++ [s]).length := by simp
  rw [e, hl, setVal_mid]; simp

theorem eraseIdx_mid1 (pre : Tree) (s s2 : TSlot) (post : Tree) :
    (pre ++ s :: s2 :: post).eraseIdx (pre.length + 1) = pre ++ s :: post := by
  have e : pre ++ s :: s2 :: post = (pre ++ [s]) ++ s2 :: post := by simp
  have hl : pre.length + 1 = (pre ++ [s]).length := by simp
  rw [e, hl, List.eraseIdx_append_of_length_le (Nat.le_refl _)]; simp

/-- the leaf holding the `prev` pointer: live `A ++ p :: B`, stale `S` -/
def midLeaf (A : List Slot) (p : Slot) (B S : List Slot) : Leaf :=
  ⟨A ++ p :: (B ++ S), A.length + 1 + B.length⟩

theorem midLeaf_live (A : List Slot) (p : Slot) (B S : List Slot) :
    (midLeaf A p B S).live = A ++ p :: B := by
  have e : A ++ p :: (B ++ S) = (A ++ p :: B) ++ S := by simp
  have e2 : A.length + 1 + B.length = (A ++ p :: B).length := by simp; omega
  simp only [midLeaf]
  rw [e, e2, live_prefix]

theorem midLeaf_get_p (A : List Slot) (p : Slot) (B S : List Slot) :
    (midLeaf A p B S).get A.length = p := by
  simp only [midLeaf, Leaf.get, get_mid0, Option.getD_some]

theorem midLeaf_get_n (A : List Slot) (p n : Slot) (B S : List Slot) :
    (midLeaf A p (n :: B) S).get (A.length + 1) = n := by
  simp only [midLeaf, Leaf.get, List.cons_append, get_mid1, Option.getD_some]

/-- one iteration with the cursor inside the leaf of `prev` -/
theorem step_in (P : Params) (pre post : Tree) (val : Key) (A : List Slot) (p n : Slot)
    (B S : List Slot) (fuel : Nat) (inc : Int) :
    ∃ S', S'.length = S.length + 1 ∧
    Ranges.coalesce P (fuel + 1) (.big (pre ++ ⟨val, midLeaf A p (n :: B) S⟩ :: post))
        ⟨pre.length, A.length⟩ ⟨pre.length, A.length + 1⟩ inc =
      if overlap p n then
        Ranges.coalesce P fuel
          (.big (pre ++ ⟨val, midLeaf A ⟨kmin p.frm n.frm, kmax p.to n.to⟩ B S'⟩ :: post))
          ⟨pre.length, A.length⟩
          (if B = [] then ⟨pre.length + 1, 0⟩ else ⟨pre.length, A.length + 1⟩) (inc - 1)
      else (.big (pre ++ ⟨val, midLeaf A p (n :: B) S⟩ :: post), inc) := by
  refine ⟨S ++ (A ++ ⟨kmin p.frm n.frm, kmax p.to n.to⟩ :: (n :: B ++ S)).drop
    ((A ++ ⟨kmin p.frm n.frm, kmax p.to n.to⟩ :: (n :: B ++ S)).length - 1), ?_, ?_⟩
  · simp only [List.length_append, List.length_drop, List.length_cons]; omega
  have hneof : Ranges.eof P (.big (pre ++ ⟨val, midLeaf A p (n :: B) S⟩ :: post))
      ⟨pre.length, A.length + 1⟩ = false := by
    simp [Ranges.eof, Ranges.nLeaves, Ranges.leafAt, leafAt_mid, midLeaf]
  have hprev : Ranges.cur P (.big (pre ++ ⟨val, midLeaf A p (n :: B) S⟩ :: post))
      ⟨pre.length, A.length⟩ = p := by
    simp only [Ranges.cur, Ranges.leafAt, leafAt_mid, midLeaf_get_p]
  have hnext : Ranges.cur P (.big (pre ++ ⟨val, midLeaf A p (n :: B) S⟩ :: post))
      ⟨pre.length, A.length + 1⟩ = n := by
    simp only [Ranges.cur, Ranges.leafAt, leafAt_mid, midLeaf_get_n]
  rw [Ranges.coalesce.eq_2]
  simp only [hneof, Bool.false_eq_true, ↓reduceIte, hprev, hnext]
  by_cases ho : overlap p n = true
  · simp only [ho, ↓reduceIte]
    have hset : Ranges.setSlot P (.big (pre ++ ⟨val, midLeaf A p (n :: B) S⟩ :: post))
        ⟨pre.length, A.length⟩ ⟨kmin p.frm n.frm, kmax p.to n.to⟩ =
        .big (pre ++ ⟨val, midLeaf A ⟨kmin p.frm n.frm, kmax p.to n.to⟩ (n :: B) S⟩ :: post) := by
      simp only [Ranges.setSlot, Ranges.leafAt, leafAt_mid, Ranges.setLeaf, setLeaf_mid, midLeaf, set_mid]
    rw [hset]
    have hrem : Ranges.remove P
        (.big (pre ++ ⟨val, midLeaf A ⟨kmin p.frm n.frm, kmax p.to n.to⟩ (n :: B) S⟩ :: post))
        ⟨pre.length, A.length + 1⟩ =
        (.big (pre ++ ⟨val, midLeaf A ⟨kmin p.frm n.frm, kmax p.to n.to⟩ B
          (S ++ (A ++ ⟨kmin p.frm n.frm, kmax p.to n.to⟩ :: (n :: B ++ S)).drop
            ((A ++ ⟨kmin p.frm n.frm, kmax p.to n.to⟩ :: (n :: B ++ S)).length - 1))⟩ :: post),
          if B = [] then ⟨pre.length + 1, 0⟩ else ⟨pre.length, A.length + 1⟩) := by
      have e1 : A ++ ⟨kmin p.frm n.frm, kmax p.to n.to⟩ :: (n :: B ++ S) =
          (A ++ [⟨kmin p.frm n.frm, kmax p.to n.to⟩]) ++ n :: (B ++ S) := by simp
      have e2 : A.length + 1 = (A ++ [(⟨kmin p.frm n.frm, kmax p.to n.to⟩ : Slot)]).length := by simp
      have hra : removeAt (A ++ ⟨kmin p.frm n.frm, kmax p.to n.to⟩ :: (n :: B ++ S)) (A.length + 1) =
          A ++ ⟨kmin p.frm n.frm, kmax p.to n.to⟩ :: (B ++ (S ++
            (A ++ ⟨kmin p.frm n.frm, kmax p.to n.to⟩ :: (n :: B ++ S)).drop
              ((A ++ ⟨kmin p.frm n.frm, kmax p.to n.to⟩ :: (n :: B ++ S)).length - 1))) := by
        rw [e1, e2, removeAt_mid]; simp
      have hli : ¬ (A.length + 1 = 0) := by omega
      simp only [Ranges.remove, Ranges.leafAt, leafAt_mid, midLeaf, hra, hli, ↓reduceIte,
        setLeaf_mid, Ranges.next2, Ranges.isTree, Bool.not_true, Bool.or_false, Ranges.nLeaves,
        List.length_cons]
      by_cases hB : B = []
      · subst hB; simp
      · have : 0 < B.length := List.length_pos_iff.mpr hB
        simp [hB]
    rw [hrem]
  · simp only [ho, Bool.false_eq_true, ↓reduceIte]

/-- the cursor is past the last leaf: the loop ends -/
theorem step_out_eof (P : Params) (pre : Tree) (X : TSlot) (fuel : Nat) (pp : Pos) (inc : Int) :
    Ranges.coalesce P fuel (.big (pre ++ [X])) pp ⟨pre.length + 1, 0⟩ inc = (.big (pre ++ [X]), inc) := by
  cases fuel with
  | zero => rfl
  | succ fuel =>
    rw [Ranges.coalesce.eq_2]
    have : Ranges.eof P (.big (pre ++ [X])) ⟨pre.length + 1, 0⟩ = true := by
      simp [Ranges.eof, Ranges.nLeaves]
    simp only [this, ↓reduceIte]

/-- one iteration with the cursor on the first slot of the next leaf -/
theorem step_out (P : Params) (pre post : Tree) (val v : Key) (A : List Slot) (p n : Slot)
    (S L S2 : List Slot) (fuel : Nat) (inc : Int) :
    ∃ S2', S2'.length = S2.length + 1 ∧
    Ranges.coalesce P (fuel + 1)
        (.big (pre ++ ⟨val, midLeaf A p [] S⟩ :: ⟨v, ⟨n :: (L ++ S2), L.length + 1⟩⟩ :: post))
        ⟨pre.length, A.length⟩ ⟨pre.length + 1, 0⟩ inc =
      if overlap p n then
        match L with
        | [] => Ranges.coalesce P fuel
            (.big (pre ++ ⟨val, midLeaf A ⟨kmin p.frm n.frm, kmax p.to n.to⟩ [] S⟩ :: post))
            ⟨pre.length, A.length⟩ ⟨pre.length + 1, 0⟩ (inc - 1)
        | x :: L1 => Ranges.coalesce P fuel
            (.big (pre ++ ⟨val, midLeaf A ⟨kmin p.frm n.frm, kmax p.to n.to⟩ [] S⟩ ::
              ⟨x.frm, ⟨x :: (L1 ++ S2'), L1.length + 1⟩⟩ :: post))
            ⟨pre.length, A.length⟩ ⟨pre.length + 1, 0⟩ (inc - 1)
      else (.big (pre ++ ⟨val, midLeaf A p [] S⟩ :: ⟨v, ⟨n :: (L ++ S2), L.length + 1⟩⟩ :: post), inc) := by
  refine ⟨S2 ++ (n :: (L ++ S2)).drop ((n :: (L ++ S2)).length - 1), ?_, ?_⟩
  · simp only [List.length_append, List.length_drop, List.length_cons]; omega
  have hneof : Ranges.eof P
      (.big (pre ++ ⟨val, midLeaf A p [] S⟩ :: ⟨v, ⟨n :: (L ++ S2), L.length + 1⟩⟩ :: post))
      ⟨pre.length + 1, 0⟩ = false := by
    simp [Ranges.eof, Ranges.nLeaves, Ranges.leafAt, leafAt_mid1]
  have hprev : Ranges.cur P
      (.big (pre ++ ⟨val, midLeaf A p [] S⟩ :: ⟨v, ⟨n :: (L ++ S2), L.length + 1⟩⟩ :: post))
      ⟨pre.length, A.length⟩ = p := by
    simp only [Ranges.cur, Ranges.leafAt, leafAt_mid, midLeaf_get_p]
  have hnext : Ranges.cur P
      (.big (pre ++ ⟨val, midLeaf A p [] S⟩ :: ⟨v, ⟨n :: (L ++ S2), L.length + 1⟩⟩ :: post))
      ⟨pre.length + 1, 0⟩ = n := by
    simp [Ranges.cur, Ranges.leafAt, leafAt_mid1, Leaf.get]
  rw [Ranges.coalesce.eq_2]
  simp only [hneof, Bool.false_eq_true, ↓reduceIte, hprev, hnext]
  by_cases ho : overlap p n = true
  · simp only [ho, ↓reduceIte]
    have hset : Ranges.setSlot P
        (.big (pre ++ ⟨val, midLeaf A p [] S⟩ :: ⟨v, ⟨n :: (L ++ S2), L.length + 1⟩⟩ :: post))
        ⟨pre.length, A.length⟩ ⟨kmin p.frm n.frm, kmax p.to n.to⟩ =
        .big (pre ++ ⟨val, midLeaf A ⟨kmin p.frm n.frm, kmax p.to n.to⟩ [] S⟩ ::
          ⟨v, ⟨n :: (L ++ S2), L.length + 1⟩⟩ :: post) := by
      simp only [Ranges.setSlot, Ranges.leafAt, leafAt_mid, Ranges.setLeaf, setLeaf_mid, midLeaf, set_mid]
    rw [hset]
    cases L with
    | nil =>
      have hrem : Ranges.remove P
          (.big (pre ++ ⟨val, midLeaf A ⟨kmin p.frm n.frm, kmax p.to n.to⟩ [] S⟩ ::
            ⟨v, ⟨n :: (([] : List Slot) ++ S2), ([] : List Slot).length + 1⟩⟩ :: post)) ⟨pre.length + 1, 0⟩ =
          (.big (pre ++ ⟨val, midLeaf A ⟨kmin p.frm n.frm, kmax p.to n.to⟩ [] S⟩ :: post),
            ⟨pre.length + 1, 0⟩) := by
        simp only [Ranges.remove, Ranges.leafAt, leafAt_mid1, List.length_nil, Nat.zero_add,
          Nat.sub_self, ↓reduceIte, eraseIdx_mid1, List.length_append, List.length_cons]
        split <;> (congr 2 <;> omega)
      rw [hrem]
    | cons x L1 =>
      have hrem : Ranges.remove P
          (.big (pre ++ ⟨val, midLeaf A ⟨kmin p.frm n.frm, kmax p.to n.to⟩ [] S⟩ ::
            ⟨v, ⟨n :: (x :: L1 ++ S2), (x :: L1).length + 1⟩⟩ :: post)) ⟨pre.length + 1, 0⟩ =
          (.big (pre ++ ⟨val, midLeaf A ⟨kmin p.frm n.frm, kmax p.to n.to⟩ [] S⟩ ::
            ⟨x.frm, ⟨x :: (L1 ++ (S2 ++ (n :: (x :: L1 ++ S2)).drop ((n :: (x :: L1 ++ S2)).length - 1))),
              L1.length + 1⟩⟩ :: post), ⟨pre.length + 1, 0⟩) := by
        simp [Ranges.remove, Ranges.leafAt, leafAt_mid1, removeAt, setLeaf_mid1, setVal_mid1, Leaf.get,
          Ranges.next2, Ranges.isTree]
      rw [hrem]
  · simp only [ho, Bool.false_eq_true, ↓reduceIte]

/-- a leaf with a non-empty live part, written out -/
theorem good_decomp {P : Params} {s : TSlot} (h : Shape P s) (hs : SepEq s) :
    ∃ n L S2, s = ⟨n.frm, ⟨n :: (L ++ S2), L.length + 1⟩⟩ ∧ s.leaf.live = n :: L ∧
      (n :: (L ++ S2)).length = P.nodeSize := by
  obtain ⟨n, L, hl, hv⟩ := hs
  refine ⟨n, L, s.leaf.slots.drop s.leaf.size, ?_, hl, ?_⟩
  · have h1 : s.leaf.slots = n :: (L ++ s.leaf.slots.drop s.leaf.size) := by
      have := (List.take_append_drop s.leaf.size s.leaf.slots).symm
      rw [show s.leaf.slots.take s.leaf.size = n :: L from hl] at this
      simpa using this
    have h2 : s.leaf.size = L.length + 1 := by
      have := congrArg List.length hl
      simp only [Leaf.live, List.length_take, h.len, List.length_cons] at this
      have := h.sz
      omega
    cases s with
    | mk val leaf =>
      cases leaf with
      | mk slots size =>
        simp only at h1 h2 hv
        simp only [TSlot.mk.injEq, Leaf.mk.injEq]
        exact ⟨hv, h1, h2⟩
  · have h1 : (n :: L ++ s.leaf.slots.drop s.leaf.size) = s.leaf.slots := by
      rw [← show s.leaf.slots.take s.leaf.size = n :: L from hl, List.take_append_drop]
    have := congrArg List.length h1
    rw [h.len] at this
    simpa using this

theorem coalesceL_cons (p n : Slot) (B : List Slot) :
    coalesceL p (n :: B) =
      if overlap p n then coalesceL ⟨kmin p.frm n.frm, kmax p.to n.to⟩ B else (p, n :: B) := rfl

/-- the cursor of the loop: the slot after `prev`, in the same leaf or at the start of the next -/
def itPos (pre : Tree) (A B : List Slot) : Pos :=
  if B = [] then ⟨pre.length + 1, 0⟩ else ⟨pre.length, A.length + 1⟩

/-- the model's loop on the tree form refines `coalesceL` on the flat list of the slots after `prev` -/
theorem coalesce_big (P : Params) (pre : Tree) (val : Key) (A : List Slot) :
    ∀ (k : Nat) (B : List Slot) (post : Tree) (p : Slot) (S : List Slot) (fuel : Nat) (inc : Int),
      B.length + (tflat post).length ≤ k → k < fuel → (∀ s ∈ post, Shape P s ∧ SepEq s) →
      ∃ p' B' S' post',
        Ranges.coalesce P fuel (.big (pre ++ ⟨val, midLeaf A p B S⟩ :: post)) ⟨pre.length, A.length⟩
            (itPos pre A B) inc =
          (.big (pre ++ ⟨val, midLeaf A p' B' S'⟩ :: post'),
            inc - (((B.length + (tflat post).length : Nat) : Int) -
              ((B'.length + (tflat post').length : Nat) : Int))) ∧
        coalesceL p (B ++ tflat post) = (p', B' ++ tflat post') ∧
        B'.length + S'.length = B.length + S.length ∧
        (∀ s ∈ post', Shape P s ∧ SepEq s) ∧ post'.length ≤ post.length := by
  intro k
  induction k with
  | zero =>
    intro B post p S fuel inc hk hf hpost
    have hB : B = [] := List.eq_nil_of_length_eq_zero (by omega)
    have hpost0 : post = [] := by
      cases post with
      | nil => rfl
      | cons s post1 =>
        exfalso
        have := live_ne_nil (hpost s List.mem_cons_self).1
        rw [tflat_cons, List.length_append] at hk
        have : s.leaf.live.length ≠ 0 := fun h => this (List.eq_nil_of_length_eq_zero h)
        omega
    subst hB; subst hpost0
    refine ⟨p, [], S, [], ?_, rfl, rfl, hpost, Nat.le_refl _⟩
    simp only [itPos, ↓reduceIte, step_out_eof, Int.sub_self, Int.sub_zero]
  | succ k ih =>
    intro B post p S fuel inc hk hf hpost
    obtain ⟨fuel, rfl⟩ : ∃ f, fuel = f + 1 := ⟨fuel - 1, by omega⟩
    cases B with
    | cons n B1 =>
      obtain ⟨S1, hS1, e⟩ := step_in P pre post val A p n B1 S fuel inc
      simp only [itPos, reduceCtorEq, ↓reduceIte]
      rw [e, List.cons_append, coalesceL_cons]
      by_cases ho : overlap p n = true
      · simp only [ho, ↓reduceIte]
        obtain ⟨p', B', S', post', h1, h2, h3, h4, h5⟩ :=
          ih B1 post ⟨kmin p.frm n.frm, kmax p.to n.to⟩ S1 fuel (inc - 1)
            (by simp only [List.length_cons] at hk; omega) (by omega) hpost
        refine ⟨p', B', S', post', ?_, h2, by simp only [List.length_cons]; omega, h4, h5⟩
        simp only [itPos] at h1
        rw [h1]
        congr 1
        simp only [List.length_cons]
        omega
      · simp only [ho, Bool.false_eq_true, ↓reduceIte]
        exact ⟨p, n :: B1, S, post, by simp, rfl, rfl, hpost, Nat.le_refl _⟩
    | nil =>
      cases post with
      | nil =>
        refine ⟨p, [], S, [], ?_, rfl, rfl, hpost, Nat.le_refl _⟩
        simp only [itPos, ↓reduceIte, step_out_eof, Int.sub_self, Int.sub_zero]
      | cons s post1 =>
        obtain ⟨n, L, S2, rfl, hlive, hlen⟩ :=
          good_decomp (hpost s List.mem_cons_self).1 (hpost s List.mem_cons_self).2
        have hpost1 : ∀ s ∈ post1, Shape P s ∧ SepEq s := fun s hs => hpost s (List.mem_cons_of_mem _ hs)
        obtain ⟨S2', hS2', e⟩ := step_out P pre post1 val n.frm A p n S L S2 fuel inc
        simp only [itPos, ↓reduceIte]
        rw [e, List.nil_append, tflat_cons, hlive, List.cons_append, coalesceL_cons]
        by_cases ho : overlap p n = true
        · simp only [ho, ↓reduceIte]
          simp only [tflat_cons, hlive, List.length_nil, List.length_append, List.length_cons] at hk
          cases L with
          | nil =>
            obtain ⟨p', B', S', post', h1, h2, h3, h4, h5⟩ :=
              ih [] post1 ⟨kmin p.frm n.frm, kmax p.to n.to⟩ S fuel (inc - 1)
                (by simp only [List.length_nil] at hk ⊢; omega) (by omega) hpost1
            refine ⟨p', B', S', post', ?_, by simpa using h2, h3, h4, by simp only [List.length_cons]; omega⟩
            simp only [itPos, ↓reduceIte] at h1
            simp only [h1]
            congr 1
            simp only [List.length_cons, List.length_nil, List.length_append]
            omega
          | cons x L1 =>
            have hnl : (TSlot.mk x.frm ⟨x :: (L1 ++ S2'), L1.length + 1⟩).leaf.live = x :: L1 := by
              have e1 : x :: (L1 ++ S2') = (x :: L1) ++ S2' := by simp
              have e2 : L1.length + 1 = (x :: L1).length := by simp
              show (Leaf.mk _ _).live = _
              rw [e1, e2, live_prefix]
            have hnew : Shape P ⟨x.frm, ⟨x :: (L1 ++ S2'), L1.length + 1⟩⟩ ∧
                SepEq ⟨x.frm, ⟨x :: (L1 ++ S2'), L1.length + 1⟩⟩ := by
              have hsh := (hpost _ List.mem_cons_self).1
              refine ⟨⟨?_, ?_, Nat.succ_pos _⟩, x, L1, hnl, rfl⟩
              · simp only [List.length_cons, List.length_append] at hlen ⊢; omega
              · have := hsh.sz; simp only [List.length_cons] at this ⊢; omega
            obtain ⟨p', B', S', post', h1, h2, h3, h4, h5⟩ :=
              ih [] (⟨x.frm, ⟨x :: (L1 ++ S2'), L1.length + 1⟩⟩ :: post1)
                ⟨kmin p.frm n.frm, kmax p.to n.to⟩ S fuel (inc - 1)
                (by
                  rw [tflat_cons, hnl]
                  simp only [List.length_nil, List.length_append, List.length_cons] at hk ⊢
                  omega) (by omega)
                (by
                  intro s hs
                  rcases List.mem_cons.mp hs with rfl | hs
                  · exact hnew
                  · exact hpost1 s hs)
            rw [tflat_cons, hnl] at h1 h2
            refine ⟨p', B', S', post', ?_, by simpa using h2, h3, h4, by simpa using h5⟩
            simp only [itPos, ↓reduceIte] at h1
            simp only [h1]
            congr 1
            simp only [List.length_cons, List.length_nil, List.length_append]
            omega
        · simp only [ho, Bool.false_eq_true, ↓reduceIte]
          refine ⟨p, [], S, _ :: post1, ?_, ?_, rfl, hpost, Nat.le_refl _⟩
          · simp only [tflat_cons, hlive, List.cons_append, Int.sub_self, Int.sub_zero]
          · rw [List.nil_append, tflat_cons, hlive]; rfl

end Gsu.Ranges
