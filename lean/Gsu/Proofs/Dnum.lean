/-
Helper lemmas for C27 (decimal precision). `Mathlib.Tactic.Ring` only for the product identity.
-/
import Gsu.Proofs.DnumInt
import Gsu.Proofs.Value
import Mathlib.Tactic.Ring
namespace Gsu.Dnum
open Gsu.Num

/-- a finite, normalised decimal: 16 significant digits -/
def WF (d : Dnum) : Prop := (d.sign = 1 ∨ d.sign = -1) ∧ 10 ^ 15 ≤ d.coef ∧ d.coef < 10 ^ 16

theorem pow_split (k : Nat) (hk : k ≤ 15) : 10 ^ k * 10 ^ (15 - k) = 10 ^ 15 := by
  rw [← Nat.pow_add]; congr 1; omega

/-- `New` on at most 16 digits: exact (the value `coef * 10^exp` is unchanged) and normalised -/
theorem new_exact (sign : Int) (c : Nat) (e : Int) (hs : sign = 1 ∨ sign = -1)
    (hc0 : 0 < c) (hc : c < 10 ^ 16) (he1 : -113 ≤ e) (he2 : e ≤ 127) :
    ∃ p : Nat, new sign c e = ⟨c * 10 ^ p, sign, e - p⟩ ∧ WF (new sign c e) := by
  have hk := ilog10_lt16 c hc0 hc
  obtain ⟨s1, s2⟩ := ilog10_spec c hc0 (by omega)
  have hn := new_small sign c e hs hc0 hc he1 he2
  refine ⟨15 - ilog10 c, hn, ?_⟩
  rw [hn]
  refine ⟨hs, ?_, ?_⟩
  · show 10 ^ 15 ≤ c * 10 ^ (15 - ilog10 c)
    rw [← pow_split (ilog10 c) hk]
    exact Nat.mul_le_mul_right _ s1
  · show c * 10 ^ (15 - ilog10 c) < 10 ^ 16
    have h1 : c * 10 ^ (15 - ilog10 c) < 10 ^ (ilog10 c + 1) * 10 ^ (15 - ilog10 c) :=
      (Nat.mul_lt_mul_right (Nat.pow_pos (by decide))).2 s2
    have h2 : 10 ^ (ilog10 c + 1) * 10 ^ (15 - ilog10 c) = 10 ^ 16 := by
      rw [← Nat.pow_add]; congr 1; omega
    omega

/-- `New` on a 17 digit coefficient: one half-up rounding step, error at most half a unit of the
kept last digit; a carry to 10^16 is renormalised exactly -/
theorem new_round17 (sign : Int) (c : Nat) (e : Int) (hs : sign = 1 ∨ sign = -1)
    (hc1 : 10 ^ 16 ≤ c) (hc2 : c < 10 ^ 17) (he1 : -128 ≤ e) (he2 : e ≤ 124) :
    ∃ c' : Nat, (10 * c' ≤ c + 5 ∧ c < 10 * c' + 5 + 1) ∧
      (new sign c e = ⟨c', sign, e + 1⟩ ∨ (c' = 10 ^ 16 ∧ new sign c e = ⟨10 ^ 15, sign, e + 2⟩)) := by
  have h1 : ¬(sign = 0 ∨ c = 0 ∨ e < expMin) := by simp only [expMin]; omega
  have h2 : ¬ sign = signPosInf := by simp only [signPosInf]; omega
  have h3 : ¬ sign = signNegInf := by simp only [signNegInf]; omega
  have h4 : c > coefMax := by simp only [coefMax]; omega
  have hw : (c + 5) % two64 = c + 5 := Nat.mod_eq_of_lt (by simp only [two64]; omega)
  refine ⟨(c + 5) / 10, by omega, ?_⟩
  by_cases hcar : (c + 5) / 10 > coefMax
  · right
    have h5 : (c + 5) / 10 = 10 ^ 16 := by simp only [coefMax] at hcar; omega
    refine ⟨h5, ?_⟩
    have h6 : ((10 ^ 16 + 5) % two64) / 10 = 10 ^ 15 := by decide
    have h7 : ¬ (10 ^ 15 > coefMax) := by decide
    have h8 : (10 : Nat) ^ 16 > coefMax := by decide
    simp only [new, h1, h2, h3, if_false, roundLoop, h4, if_true, hw, h5, h6, h7, h8,
      Bool.not_true, Bool.false_eq_true]
    rw [if_neg (by simp only [expMin]; omega), if_neg (by simp only [expMax]; omega)]
    congr 1; omega
  · left
    simp only [new, h1, h2, h3, if_false, roundLoop, h4, if_true, hw, hcar,
      Bool.not_true, Bool.false_eq_true]
    rw [if_neg (by simp only [expMin]; omega), if_neg (by simp only [expMax]; omega)]

/-- the alignment step of `Add` rounds the smaller operand to within half a unit of the larger
operand's last digit (`(c + 10^e/2) / 10^e`) -/
theorem round_half (c P h : Nat) (hP : P = 2 * h) (hh : 0 < h) :
    (c + h) / P * P ≤ c + h ∧ c < (c + h) / P * P + h + 1 := by
  have := Nat.div_add_mod (c + h) P
  have := Nat.mod_lt (c + h) (show 0 < P by omega)
  have e : P * ((c + h) / P) = (c + h) / P * P := Nat.mul_comm _ _
  omega

theorem halfpow10_spec (e : Nat) (h1 : 1 ≤ e) (h2 : e < 19) : pow10 e = 2 * halfpow10 e ∧ 0 < halfpow10 e := by
  have : ∀ e, e < 19 → 1 ≤ e → pow10 e = 2 * halfpow10 e ∧ 0 < halfpow10 e := by decide
  exact this e h2 h1

/-- the pre-normalisation coefficient of `Mul` -/
def mulCoef (xc yc : Nat) : Nat :=
  let xhi := xc / e7
  let xlo := xc % e7
  let yhi := yc / e7
  let ylo := yc % e7
  let c := xhi * yhi
  if xlo ≠ 0 ∨ ylo ≠ 0 then c + (xlo * yhi + ylo * xhi) / e7 else c

theorem prod_identity (xhi xlo yhi ylo E : Nat) :
    (xhi * E + xlo) * (yhi * E + ylo) = xhi * yhi * (E * E) + (xlo * yhi + ylo * xhi) * E + xlo * ylo := by
  ring

/-- truncated multiplication: the 9/7 split drops less than two units of the result coefficient
(which has 17 or 18 digits, so less than 0.2 unit of the 16th digit) -/
theorem mul_trunc (xc yc : Nat) :
    mulCoef xc yc * 10 ^ 14 ≤ xc * yc ∧ xc * yc < (mulCoef xc yc + 2) * 10 ^ 14 := by
  have hx := Nat.div_add_mod xc e7
  have hy := Nat.div_add_mod yc e7
  have hxl := Nat.mod_lt xc (show 0 < e7 by decide)
  have hyl := Nat.mod_lt yc (show 0 < e7 by decide)
  have hid := prod_identity (xc / e7) (xc % e7) (yc / e7) (yc % e7) e7
  have hxe : xc / e7 * e7 + xc % e7 = xc := by rw [Nat.mul_comm]; exact hx
  have hye : yc / e7 * e7 + yc % e7 = yc := by rw [Nat.mul_comm]; exact hy
  rw [hxe, hye] at hid
  have hB := Nat.div_add_mod ((xc % e7) * (yc / e7) + (yc % e7) * (xc / e7)) e7
  have hBl := Nat.mod_lt ((xc % e7) * (yc / e7) + (yc % e7) * (xc / e7)) (show 0 < e7 by decide)
  have hC : (xc % e7) * (yc % e7) < e7 * e7 := Nat.mul_lt_mul'' hxl hyl
  have hee : e7 * e7 = 10 ^ 14 := by decide
  simp only [mulCoef]
  generalize xc / e7 = xhi at *
  generalize xc % e7 = xlo at *
  generalize yc / e7 = yhi at *
  generalize yc % e7 = ylo at *
  have he7 : e7 = 10000000 := rfl
  by_cases hz : xlo ≠ 0 ∨ ylo ≠ 0
  · generalize xlo * yhi + ylo * xhi = B at *
    generalize xhi * yhi = A at *
    generalize xlo * ylo = C at *
    rw [hid, hee]
    rw [he7] at hB hBl
    simp only [hz, if_true, he7]
    generalize B / 10000000 = q at *
    generalize B % 10000000 = r at *
    omega
  · have hx0 : xlo = 0 := by omega
    have hy0 : ylo = 0 := by omega
    subst hx0; subst hy0
    simp only [hz, if_false]
    rw [hid, hee]
    simp only [Nat.zero_mul, Nat.add_zero]
    omega

/-- `Div`: under the div128 equation the coefficient is the floor of the exact quotient scaled by 10^16 -/
theorem div_floor (a b : Nat) (hb : 0 < b) :
    div128 a b * b ≤ 10 ^ 16 * a ∧ 10 ^ 16 * a < (div128 a b + 1) * b := by
  simp only [div128]
  have h1 := Nat.div_add_mod (10000000000000000 * a) b
  have h2 := Nat.mod_lt (10000000000000000 * a) hb
  have e : b * (10000000000000000 * a / b) = 10000000000000000 * a / b * b := Nat.mul_comm _ _
  have e2 : (10000000000000000 * a / b + 1) * b = 10000000000000000 * a / b * b + b := by
    rw [Nat.add_mul, Nat.one_mul]
  have e3 : (10 : Nat) ^ 16 = 10000000000000000 := by decide
  rw [e3, e2]
  omega


/-- the value of `d` in units of `10^(m-16)` (an integer when `m ≤ d.exp`) -/
def scaled (d : Dnum) (m : Int) : Int := d.sign * ((d.coef * 10 ^ (d.exp - m).toNat : Nat) : Int)

theorem compare_exact_lt (x y : Dnum) (hx : WF x) (hy : WF y) (he : x.exp < y.exp) :
    compare x y = cmpInt (scaled x x.exp) (scaled y x.exp) := by
  obtain ⟨c1, s1, e1⟩ := x
  obtain ⟨c2, s2, e2⟩ := y
  obtain ⟨hs1, a1, a2⟩ := hx
  obtain ⟨hs2, b1, b2⟩ := hy
  simp only at hs1 a1 a2 hs2 b1 b2 he
  have hd : 1 ≤ (e2 - e1).toNat := by omega
  have hP : 10 ^ 1 ≤ 10 ^ (e2 - e1).toNat := Nat.pow_le_pow_right (by decide) hd
  have hM : c2 * 10 ^ 1 ≤ c2 * 10 ^ (e2 - e1).toNat := Nat.mul_le_mul_left _ hP
  simp only [scaled, Int.sub_self, Int.toNat_zero, Nat.pow_zero, Nat.mul_one]
  generalize c2 * 10 ^ (e2 - e1).toNat = M at *
  simp only [compare, cmpInt, Dnum.mk.injEq, signNegInf, signPosInf]
  rcases hs1 with rfl | rfl <;> rcases hs2 with rfl | rfl <;> (repeat' split) <;> omega

theorem compare_exact_eq (x y : Dnum) (hx : WF x) (hy : WF y) (he : x.exp = y.exp) :
    compare x y = cmpInt (scaled x x.exp) (scaled y x.exp) := by
  obtain ⟨c1, s1, e1⟩ := x
  obtain ⟨c2, s2, e2⟩ := y
  obtain ⟨hs1, a1, a2⟩ := hx
  obtain ⟨hs2, b1, b2⟩ := hy
  simp only at hs1 a1 a2 hs2 b1 b2 he
  subst he
  simp only [scaled, Int.sub_self, Int.toNat_zero, Nat.pow_zero, Nat.mul_one]
  simp only [compare, cmpInt, Dnum.mk.injEq, signNegInf, signPosInf]
  rcases hs1 with rfl | rfl <;> rcases hs2 with rfl | rfl <;> (repeat' split) <;> omega


/-- `Compare` orders normalised decimals by their exact value (both values expressed as integers
in units of `10^(min exp - 16)`) -/
theorem compare_exact (x y : Dnum) (hx : WF x) (hy : WF y) :
    compare x y = cmpInt (scaled x (min x.exp y.exp)) (scaled y (min x.exp y.exp)) := by
  rcases Int.lt_trichotomy x.exp y.exp with h | h | h
  · rw [Int.min_eq_left (by omega)]; exact compare_exact_lt x y hx hy h
  · rw [Int.min_eq_left (by omega)]; exact compare_exact_eq x y hx hy h
  · rw [Int.min_eq_right (by omega), compare_antisymm, compare_exact_lt y x hy hx h, cmpInt_antisymm]
    simp

end Gsu.Dnum
