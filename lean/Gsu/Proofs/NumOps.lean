/-
Helper lemmas for C26: the overflow predicates of the int fast paths are exact. Core-only.
-/
import Gsu.Model.NumOps
namespace Gsu.Num
open Gsu.Dnum

theorem wrap64_id {n : Int} (h : inInt64 n) : wrap64 n = n := by
  simp only [inInt64, minInt64, maxInt64] at h
  simp only [wrap64]; omega

theorem wrap64_range (n : Int) : inInt64 (wrap64 n) := by
  simp only [inInt64, minInt64, maxInt64, wrap64]; omega

/-- `wrap64 n` differs from `n` by a multiple of 2^64 -/
theorem wrap64_eq (n : Int) : ∃ k : Int, wrap64 n = n - k * 18446744073709551616 := by
  refine ⟨(n + 9223372036854775808) / 18446744073709551616, ?_⟩
  simp only [wrap64]; omega

theorem addInt_ok (x y : Int) (hx : inInt64 x) (hy : inInt64 y) :
    (addInt x y).2 = true ↔ inInt64 (x + y) := by
  have h1 := wrap64_range (x + y)
  obtain ⟨k, hk⟩ := wrap64_eq (x + y)
  simp only [addInt, decide_eq_true_eq]
  generalize wrap64 (x + y) = z at *
  simp only [inInt64, minInt64, maxInt64] at *
  omega

theorem subInt_ok (x y : Int) (hx : inInt64 x) (hy : inInt64 y) :
    (subInt x y).2 = true ↔ inInt64 (x - y) := by
  have h1 := wrap64_range (x - y)
  obtain ⟨k, hk⟩ := wrap64_eq (x - y)
  simp only [subInt, decide_eq_true_eq]
  generalize wrap64 (x - y) = z at *
  simp only [inInt64, minInt64, maxInt64] at *
  omega

/-- truncated quotient and remainder, in the form `omega` can use -/
theorem tdiv_facts (z x : Int) (hx : x ≠ 0) :
    x * z.tdiv x + z.tmod x = z ∧ (z.tmod x).natAbs < x.natAbs ∧
    (z.tdiv x).natAbs ≤ z.natAbs ∧ (2 ≤ x.natAbs → 2 * (z.tdiv x).natAbs ≤ z.natAbs) := by
  refine ⟨Int.mul_tdiv_add_tmod z x, ?_, ?_, ?_⟩
  · rw [Int.natAbs_tmod]; exact Nat.mod_lt _ (by omega)
  · rw [Int.natAbs_tdiv]; exact Nat.div_le_self _ _
  · intro h2
    rw [Int.natAbs_tdiv]
    have := Nat.mul_div_le z.natAbs x.natAbs
    have h3 : 2 * (z.natAbs / x.natAbs) ≤ x.natAbs * (z.natAbs / x.natAbs) := Nat.mul_le_mul_right _ h2
    show 2 * (z.natAbs / x.natAbs) ≤ z.natAbs
    omega

/-- the division check `z/x == y && !(x == -1 && y == MinInt)` on the wrapped product is exact -/
theorem mulInt_ok (x y : Int) (hx : inInt64 x) (hy : inInt64 y) :
    (mulInt x y).2 = true ↔ inInt64 (x * y) := by
  by_cases hx0 : x = 0
  · subst hx0; simp [mulInt, inInt64, minInt64, maxInt64]
  simp only [mulInt, hx0, if_false, decide_eq_true_eq]
  constructor
  · rintro ⟨hq, hne⟩
    have hzr := wrap64_range (x * y)
    obtain ⟨k, hk⟩ := wrap64_eq (x * y)
    generalize wrap64 (x * y) = z at *
    obtain ⟨hdm, hr, hq1, hq2⟩ := tdiv_facts z x hx0
    generalize z.tdiv x = q at *
    generalize z.tmod x = r at *
    have hqr := wrap64_range q
    obtain ⟨k2, hk2⟩ := wrap64_eq q
    generalize wrap64 q = wq at *
    simp only [inInt64, minInt64, maxInt64] at *
    by_cases hx1 : x = -1
    · subst hx1; omega
    by_cases hx2 : x = 1
    · subst hx2; omega
    have h2 : 2 ≤ x.natAbs := by omega
    have hq3 := hq2 h2
    have : q = y := by omega
    subst this
    omega
  · intro h
    rw [wrap64_id h, Int.mul_tdiv_cancel_left _ hx0, wrap64_id hy]
    refine ⟨rfl, ?_⟩
    rintro ⟨rfl, rfl⟩
    simp [inInt64, minInt64, maxInt64] at h

theorem mulInt_val (x y : Int) (h : inInt64 (x * y)) : (mulInt x y).1 = x * y := by
  by_cases hx0 : x = 0
  · subst hx0; simp [mulInt]
  · simp only [mulInt, hx0, if_false]; exact wrap64_id h

/-- an exact quotient of two int64 values overflows only for `MinInt / -1` -/
theorem tdiv_range (x y : Int) (hx : inInt64 x) (hy : inInt64 y) (hy0 : y ≠ 0) :
    inInt64 (Int.tdiv x y) ↔ ¬(x = minInt64 ∧ y = -1) := by
  constructor
  · rintro h ⟨rfl, rfl⟩
    revert h; decide
  · intro h
    obtain ⟨hdm, hr, hq1, _⟩ := tdiv_facts x y hy0
    generalize x.tdiv y = q at *
    generalize x.tmod y = r at *
    simp only [inInt64, minInt64, maxInt64] at *
    by_cases hq : q = 9223372036854775808
    · subst hq; omega
    · omega

/-! ### the fast paths -/

theorem opAdd_int (a b : Num) (x y : Int) (ha : asInt a = some x) (hb : asInt b = some y)
    (hx : inInt64 x) (hy : inInt64 y) :
    opAdd a b = if inInt64 (x + y) then intVal (x + y) else .dn (Dnum.add (toDnum a) (toDnum b)) := by
  have hok := addInt_ok x y hx hy
  simp only [opAdd, ha, hb]
  by_cases h : inInt64 (x + y)
  · have hv : (addInt x y).1 = x + y := wrap64_id h
    simp only [h, if_true, hok.2 h, hv]
  · have : (addInt x y).2 = false := by
      cases hb2 : (addInt x y).2 with
      | false => rfl
      | true => exact absurd (hok.1 hb2) h
    simp only [h, if_false, this, Bool.false_eq_true]

theorem opSub_int (a b : Num) (x y : Int) (ha : asInt a = some x) (hb : asInt b = some y)
    (hx : inInt64 x) (hy : inInt64 y) :
    opSub a b = if inInt64 (x - y) then intVal (x - y) else .dn (Dnum.sub (toDnum a) (toDnum b)) := by
  have hok := subInt_ok x y hx hy
  simp only [opSub, ha, hb]
  by_cases h : inInt64 (x - y)
  · have hv : (subInt x y).1 = x - y := wrap64_id h
    simp only [h, if_true, hok.2 h, hv]
  · have : (subInt x y).2 = false := by
      cases hb2 : (subInt x y).2 with
      | false => rfl
      | true => exact absurd (hok.1 hb2) h
    simp only [h, if_false, this, Bool.false_eq_true]

theorem opMul_int (a b : Num) (x y : Int) (ha : asInt a = some x) (hb : asInt b = some y)
    (hx : inInt64 x) (hy : inInt64 y) :
    opMul a b = if inInt64 (x * y) then intVal (x * y) else .dn (Dnum.mul (toDnum a) (toDnum b)) := by
  have hok := mulInt_ok x y hx hy
  simp only [opMul, ha, hb]
  by_cases h : inInt64 (x * y)
  · simp only [h, if_true, hok.2 h, mulInt_val x y h]
  · have : (mulInt x y).2 = false := by
      cases hb2 : (mulInt x y).2 with
      | false => rfl
      | true => exact absurd (hok.1 hb2) h
    simp only [h, if_false, this, Bool.false_eq_true]

theorem opDiv_int (a b : Num) (x y : Int) (ha : asInt a = some x) (hb : asInt b = some y)
    (hx : inInt64 x) (hy : inInt64 y) :
    opDiv a b = if y ≠ 0 ∧ Int.tmod x y = 0 ∧ inInt64 (Int.tdiv x y) then intVal (Int.tdiv x y)
      else .dn (Dnum.div (toDnum a) (toDnum b)) := by
  simp only [opDiv, ha, hb]
  by_cases hy0 : y = 0
  · simp [hy0]
  · have := tdiv_range x y hx hy hy0
    simp only [this]

theorem opNeg_int (a : Num) (x : Int) (ha : asInt a = some x) (hx : inInt64 x) :
    opNeg a = if inInt64 (-x) then intVal (-x) else .dn (Dnum.neg (toDnum a)) := by
  simp only [opNeg, ha]
  have : inInt64 (-x) ↔ x ≠ minInt64 := by
    simp only [inInt64, minInt64, maxInt64] at *; omega
  simp only [this]

theorem opAdd1_int (a : Num) (x : Int) (ha : asInt a = some x) (hx : inInt64 x) :
    opAdd1 a = if inInt64 (x + 1) then intVal (x + 1) else .dn (Dnum.add (toDnum a) Dnum.one) := by
  simp only [opAdd1, ha]
  have : inInt64 (x + 1) ↔ x ≠ maxInt64 := by
    simp only [inInt64, minInt64, maxInt64] at *; omega
  simp only [this]

/-- without two int operands every operation is the dnum operation on the converted operands -/
theorem opAdd_dnum (a b : Num) (h : asInt a = none ∨ asInt b = none) :
    opAdd a b = .dn (Dnum.add (toDnum a) (toDnum b)) := by
  unfold opAdd; rcases h with h | h <;> (split <;> simp_all)

theorem opSub_dnum (a b : Num) (h : asInt a = none ∨ asInt b = none) :
    opSub a b = .dn (Dnum.sub (toDnum a) (toDnum b)) := by
  unfold opSub; rcases h with h | h <;> (split <;> simp_all)

theorem opMul_dnum (a b : Num) (h : asInt a = none ∨ asInt b = none) :
    opMul a b = .dn (Dnum.mul (toDnum a) (toDnum b)) := by
  unfold opMul; rcases h with h | h <;> (split <;> simp_all)

theorem opDiv_dnum (a b : Num) (h : asInt a = none ∨ asInt b = none) :
    opDiv a b = .dn (Dnum.div (toDnum a) (toDnum b)) := by
  unfold opDiv; rcases h with h | h <;> (split <;> simp_all)

/-! ### Equal / Compare across representations -/

theorem equal_comm (a b : Num) : equal a b = equal b a := by
  cases a <;> cases b <;> simp only [equal, asInt, Dnum.equal] <;>
    first
      | rfl
      | (simp only [Bool.beq_comm (a := (_ : Int)), Bool.beq_comm (a := (_ : Nat))])
      | (rw [Bool.beq_comm])
      | skip

theorem equal_ints (a b : Num) (x y : Int) (ha : asInt a = some x) (hb : asInt b = some y) :
    equal a b = true ↔ x = y := by
  cases a <;> cases b <;> simp_all [equal, asInt]

theorem equal_int_dnum (a : Num) (x : Int) (d : Dnum) (ha : asInt a = some x) :
    equal a (.dn d) = true ↔ toInt64 d = some x := by
  cases a <;> simp_all [equal, asInt]

theorem compare_ints (a b : Num) (x y : Int) (ha : asInt a = some x) (hb : asInt b = some y) :
    compare a b = cmpInt x y := by
  simp only [compare, ha, hb]

theorem compare_dnum (a b : Num) (h : asInt a = none ∨ asInt b = none) :
    compare a b = Dnum.compare (toDnum a) (toDnum b) := by
  unfold compare; rcases h with h | h <;> (split <;> simp_all)

end Gsu.Num
