import Gsu.Proofs.SchemaAlg5
/-!
C21, part 6: `renameTable` preserves `LWF`.
-/
namespace Gsu.SchemaAlg

/-- `createFkeys` never changes the skeleton -/
theorem createFkeys_skel {tn : String} : ∀ (specs : List Index) (d d2 : Db),
    createFkeys d tn specs = some d2 → Skel d d2 ∧ names d2 = names d
  | [], d, d2, hh => by
    simp only [createFkeys, Option.some.injEq] at hh; subst hh; exact ⟨Skel.refl _, rfl⟩
  | s :: r, d, d2, hh => by
    simp only [createFkeys] at hh
    split at hh
    · cases hh
    · rename_i d1 hd1
      have s1 : Skel d d1 ∧ names d1 = names d := by
        rcases createFkey1_inv hd1 with ⟨_, rfl⟩ | ⟨_, tsi, six, j, tix, _, _, _, _, rfl⟩
        · exact ⟨Skel.refl _, rfl⟩
        · exact ⟨skel_linkStep _ _ _ _ _ _, by rw [names_modT, names_modT]⟩
      obtain ⟨s2, n2⟩ := createFkeys_skel r d1 d2 hh
      exact ⟨s1.1.trans s2, n2.trans s1.2⟩

/-- the lookup form of what `Meta.Drop` leaves (before `validate`) -/
theorem look_dropAll (db : Db) (name : String) (ts : Table) (n : String) (j : Nat) :
    look (dropFkeys db (delT db name) name true (ts.indexes.map (·.columns))) n j =
      if n = name then none else
      (look db n j).map (fun ix => filtBack (fun f =>
        !((ts.indexes.map (·.columns)).any (fun c => dropQ db name true c n ix.columns f))) ix) := by
  rw [look_dropFkeys, look_delT]
  split <;> rfl

/-- removing a table and the links that start in it keeps the link invariant (the links that
*end* in it dangle; `validate` rejects those) -/
theorem dropAll_linv {db : Db} {name : String} {ts : Table} (w : LWF db) (hg : getT db name = some ts) :
    LInv (dropFkeys db (delT db name) name true (ts.indexes.map (·.columns))) := by
  have hlook := look_dropAll db name ts
  have hu : TUniq ts := idxUniq_of_validate w.valid name ts hg
  intro n j ix hl
  rw [hlook] at hl
  split at hl
  · cases hl
  · rename_i hn
    obtain ⟨ix0, hl0, rfl⟩ := Option.map_eq_some_iff.mp hl
    obtain ⟨hnd, hmem⟩ := w.linv n j ix0 hl0
    refine ⟨nodup_filter _ hnd, ?_⟩
    intro f
    show f ∈ List.filter _ ix0.fkToHere ↔ Link _ n ix0.columns f
    rw [List.mem_filter, hmem f]
    constructor
    · rintro ⟨⟨hne, six, hls, h1, h2, h3, h4⟩, hp⟩
      have hft : f.table ≠ name := by
        intro hft
        have hsi : ts.indexes[f.iindex]? = some six := by
          rw [← look_of_getT hg, ← hft]; exact hls
        have hfk : six.fk.table ≠ "" := by rw [h3]; exact hne
        have hq := dropQ_intro (whole := true) hg hu hsi hfk
          (by rintro ⟨_, hc⟩; exact hn (by rw [← h3, hc])) hft h1.symm
        rw [fkCols_eq (w.fkc _ _ _ hls hfk), h3, h4] at hq
        simp only [Bool.not_eq_true', List.any_eq_false, List.mem_map] at hp
        have := hp six.columns ⟨six, List.mem_of_getElem? hsi, rfl⟩
        rw [hq] at this
        exact this rfl
      have : ∃ six', look (dropFkeys db (delT db name) name true (ts.indexes.map (·.columns)))
          f.table f.iindex = some six' ∧ six'.columns = six.columns ∧ six'.fk = six.fk := by
        rw [hlook, if_neg hft, hls]; exact ⟨_, rfl, rfl, rfl⟩
      obtain ⟨six', hl', hc', hfk'⟩ := this
      exact ⟨hne, six', hl', by rw [hc', h1], by rw [hfk', h2], by rw [hfk', h3], by rw [hfk', h4]⟩
    · rintro ⟨hne, six', hls, h1, h2, h3, h4⟩
      rw [hlook] at hls
      split at hls
      · cases hls
      · rename_i hft
        obtain ⟨six, hls0, rfl⟩ := Option.map_eq_some_iff.mp hls
        refine ⟨⟨hne, six, hls0, h1, h2, h3, h4⟩, ?_⟩
        simp only [Bool.not_eq_true', List.any_eq_false]
        intro c _
        rw [dropQ_false_of_table hft]
        simp

/-- `putT_linvX` for any database that looks like `putT db tb` -/
theorem linvX_of_look {db db0 : Db} {tb : Table} {pend : List (List String)}
    (hlk : ∀ n i, look db0 n i = if n = tb.name then tb.indexes[i]? else look db n i)
    (hinv : LInv db)
    (h3 : ∀ n i six, look db n i = some six → six.fk.table = tb.name → tb.name ≠ "" →
      six.fk.columns ∉ pend)
    (hold : ∀ i ix0, look db tb.name i = some ix0 → ∃ ix, tb.indexes[i]? = some ix ∧ sk ix0 = sk ix ∧
      ix0.fkToHere = ix.fkToHere ∧ ix.columns ∉ pend)
    (hnew : ∀ i ix, tb.indexes[i]? = some ix → look db tb.name i = none →
      ix.columns ∈ pend ∧ ix.fkToHere = []) :
    LInvX pend tb.name db0 := by
  have C : ∀ n cols f, Link db n cols f ↔
      (Link db0 n cols f ∧ ¬(f.table = tb.name ∧ f.columns ∈ pend)) := by
    intro n cols f
    constructor
    · rintro ⟨hne, six0, hl, h1, h2, h3, h4⟩
      by_cases hft : f.table = tb.name
      · rw [hft] at hl
        obtain ⟨six, g1, g2, _, g4⟩ := hold _ _ hl
        obtain ⟨e1, e2, e3⟩ := sk_fk g2
        refine ⟨⟨hne, six, ?_, by rw [← sk_columns g2, h1], by rw [← e3, h2], by rw [← e1, h3],
          by rw [← e2, h4]⟩, ?_⟩
        · rw [hlk, if_pos hft]; exact g1
        · rintro ⟨_, b⟩
          rw [← h1, sk_columns g2] at b
          exact g4 b
      · refine ⟨⟨hne, six0, ?_, h1, h2, h3, h4⟩, fun ⟨a, _⟩ => hft a⟩
        rw [hlk, if_neg hft]; exact hl
    · rintro ⟨⟨hne, six, hl, h1, h2, h3, h4⟩, hp⟩
      rw [hlk] at hl
      split at hl
      · rename_i hft
        cases h0 : look db tb.name f.iindex with
        | none =>
          have := (hnew _ _ hl h0).1
          rw [h1] at this
          exact absurd ⟨hft, this⟩ hp
        | some six0 =>
          obtain ⟨six', g1, g2, _, _⟩ := hold _ _ h0
          rw [hl] at g1; cases g1
          obtain ⟨e1, e2, e3⟩ := sk_fk g2
          exact ⟨hne, six0, by rw [hft]; exact h0, by rw [sk_columns g2, h1], by rw [e3, h2],
            by rw [e1, h3], by rw [e2, h4]⟩
      · exact ⟨hne, six, hl, h1, h2, h3, h4⟩
  intro n i ix hl
  rw [hlk] at hl
  unfold LinkX
  split at hl
  · rename_i hn
    subst hn
    cases h0 : look db tb.name i with
    | none =>
      obtain ⟨hp, hemp⟩ := hnew _ _ hl h0
      rw [hemp]
      refine ⟨List.nodup_nil, fun f => ?_⟩
      simp only [List.not_mem_nil, false_iff]
      intro hx
      obtain ⟨hne, six0, hls, _, _, g3, g4⟩ := (C _ _ f).mpr hx
      exact h3 _ _ _ hls g3 hne (by rw [g4]; exact hp)
    | some ix0 =>
      obtain ⟨ix', g1, g2, g3, _⟩ := hold _ _ h0
      rw [hl] at g1; cases g1
      obtain ⟨hnd, hm⟩ := hinv _ _ _ h0
      rw [← g3, ← sk_columns g2]
      exact ⟨hnd, fun f => (hm f).trans (C _ _ f)⟩
  · obtain ⟨hnd, hm⟩ := hinv _ _ _ hl
    exact ⟨hnd, fun f => (hm f).trans (C _ _ f)⟩

theorem sameIxs_map_columns {l l' : List Index} (h : SameIxs l l') :
    l'.map (·.columns) = l.map (·.columns) := by
  apply List.ext_getElem?
  intro i
  rw [List.getElem?_map, List.getElem?_map]
  have := congrArg (Option.map (fun p : (Char × List String × String × List String × Nat) × List Fkey => p.1.2.1)) (h i)
  rw [Option.map_map, Option.map_map] at this
  exact this

theorem renameTable_inv {db : Db} {from_ to : String} {db' : Db} (h : renameTable db from_ to = some db') :
    ∃ ts ts1, getT db from_ = some ts ∧ getT db to = none ∧ setFkeyIIndex db ts = some ts1 ∧
      (∀ ix ∈ ts1.indexes, ix.fk.table ≠ from_) ∧
      createFkeys (dropFkeys db (delT db from_ ++ [{ ts1 with name := to }]) from_ true
        (ts.indexes.map (·.columns))) to ts1.indexes = some db' := by
  unfold renameTable at h
  split at h
  · cases h
  · rename_i ts hts
    split at h
    · cases h
    · rename_i hto
      split at h
      · cases h
      · rename_i ts1 h1
        dsimp only at h
        split at h
        · cases h
        · rename_i hself
          split at h
          · cases h
          · rename_i db3 h3
            split at h
            · simp only [Option.some.injEq] at h
              subst h
              refine ⟨ts, ts1, hts, ?_, h1, ?_, h3⟩
              · cases hg : getT db to with
                | none => rfl
                | some t => rw [hg] at hto; simp at hto
              · intro ix hix hc
                apply hself
                simp only [List.any_eq_true, beq_iff_eq]
                exact ⟨ix, hix, hc⟩
            · cases h

end Gsu.SchemaAlg

namespace Gsu.SchemaAlg

theorem renameTable_lwf {db : Db} {from_ to : String} {db' : Db} (w : LWF db)
    (h : renameTable db from_ to = some db') : LWF db' := by
  have hv := renameTable_valid h
  obtain ⟨ts, ts1, hts, hto, h1, hself, hcf⟩ := renameTable_inv h
  obtain ⟨_, _, c1⟩ := setFkeyIIndex_inv h1
  have hne : from_ ≠ to := by
    intro e; rw [e, hto] at hts; cases hts
  have hlookA := look_dropAll db from_ ts
  have hnoneTo : ∀ i, look db to i = none := fun i => look_of_getT_none hto i
  -- the database handed to createFkeys, as a lookup
  have hlk : ∀ n i, look (dropFkeys db (delT db from_ ++ [{ ts1 with name := to }]) from_ true
        (ts.indexes.map (·.columns))) n i =
      if n = to then (ts1.indexes.map (fun ix => filtBack (fun f =>
          !((ts.indexes.map (·.columns)).any (fun c => dropQ db from_ true c to ix.columns f))) ix))[i]?
      else look (dropFkeys db (delT db from_) from_ true (ts.indexes.map (·.columns))) n i := by
    intro n i
    rw [look_dropFkeys, look_dropFkeys]
    by_cases hn : n = to
    · subst hn
      have hnf : ¬ n = from_ := fun e => hne e.symm
      have hgd : getT (delT db from_) n = none := by rw [getT_delT, if_neg hnf]; exact hto
      rw [look_append, hgd]
      simp only [Option.isSome_none, Bool.false_eq_true, if_false, if_true, List.getElem?_map]
    · have hn' : ¬ to = n := fun e => hn e.symm
      have happ : look (delT db from_ ++ [{ ts1 with name := to }]) n i = look (delT db from_) n i := by
        rw [look_append]
        cases hx : getT (delT db from_) n with
        | none => simp [hn', look_of_getT_none hx]
        | some t => simp
      rw [happ, if_neg hn]
  have hsk23 := createFkeys_skel _ _ _ hcf
  have hnames2 : names (dropFkeys db (delT db from_ ++ [{ ts1 with name := to }]) from_ true
      (ts.indexes.map (·.columns))) = names (delT db from_) ++ [to] := by
    rw [names_dropFkeys]; simp [names]
  have hfromNot : from_ ∉ names db' := by
    rw [hsk23.2, hnames2, names_delT]
    simp [hne]
  have hnoneFrom : ∀ i, look db' from_ i = none :=
    fun i => look_of_getT_none (getT_none_iff.mpr hfromNot) i
  -- nothing refers to the renamed table
  have nosrc : from_ ≠ "" → ∀ n i six, look db n i = some six → six.fk.table ≠ from_ := by
    intro hfe n i six hl hc
    by_cases hn : n = from_
    · rw [hn, look_of_getT hts] at hl
      obtain ⟨six1, g1, g2, _⟩ := c1.fwd hl
      exact hself six1 (List.mem_of_getElem? g1) (by rw [← (sk_fk g2).1]; exact hc)
    · have hnt : n ≠ to := by
        intro e; rw [e, hnoneTo] at hl; cases hl
      have : ∃ six2, look (dropFkeys db (delT db from_ ++ [{ ts1 with name := to }]) from_ true
          (ts.indexes.map (·.columns))) n i = some six2 ∧ sk six2 = sk six := by
        rw [hlk, if_neg hnt, hlookA, if_neg hn, hl]; exact ⟨_, rfl, rfl⟩
      obtain ⟨six2, g1, g2⟩ := this
      obtain ⟨six3, g3, g4⟩ := hsk23.1.fwd g1
      have hfk3 : six3.fk.table = from_ := by rw [← (sk_fk g4).1, (sk_fk g2).1]; exact hc
      obtain ⟨tix, t1, _, _⟩ := fkOk_of_validate hv n i six3 g3 (by rw [hfk3]; exact hfe)
      rw [hfk3, hnoneFrom] at t1
      cases t1
  have hempty : ∀ (i : Nat) (ix0 : Index), ts.indexes[i]? = some ix0 → ix0.fkToHere = [] := by
    intro i ix0 hi
    obtain ⟨_, hm⟩ := w.linv from_ i ix0 (by rw [look_of_getT hts]; exact hi)
    rw [List.eq_nil_iff_forall_not_mem]
    intro f hf
    obtain ⟨hfe, six, hls, _, _, g3, _⟩ := (hm f).mp hf
    exact nosrc hfe _ _ _ hls g3
  have hinvX : LInvX (ts1.indexes.map (·.columns)) to
      (dropFkeys db (delT db from_ ++ [{ ts1 with name := to }]) from_ true (ts.indexes.map (·.columns))) := by
    have := linvX_of_look (db := dropFkeys db (delT db from_) from_ true (ts.indexes.map (·.columns)))
      (tb := ⟨to, ts1.columns, ts1.indexes.map (fun ix => filtBack (fun f =>
          !((ts.indexes.map (·.columns)).any (fun c => dropQ db from_ true c to ix.columns f))) ix)⟩)
      (pend := ts1.indexes.map (·.columns)) hlk (dropAll_linv w hts) ?_ ?_ ?_
    · exact this
    · intro n i six hl hc hte
      rw [hlookA] at hl
      split at hl
      · cases hl
      · obtain ⟨six0, g0, rfl⟩ := Option.map_eq_some_iff.mp hl
        obtain ⟨tix, t1, _, _⟩ := fkOk_of_validate w.valid n i six0 g0
          (by rw [show six0.fk.table = to from hc]; exact hte)
        rw [show six0.fk.table = to from hc, hnoneTo] at t1
        cases t1
    · intro i ix0 hl
      rw [hlookA] at hl
      split at hl
      · cases hl
      · rw [show (⟨to, ts1.columns, _⟩ : Table).name = to from rfl, hnoneTo] at hl
        cases hl
    · intro i ix hi _
      simp only [List.getElem?_map] at hi
      obtain ⟨ix1, g1, rfl⟩ := Option.map_eq_some_iff.mp hi
      obtain ⟨ix0, g0, _, g3⟩ := c1.bwd g1
      refine ⟨List.mem_map.mpr ⟨ix1, List.mem_of_getElem? g1, rfl⟩, ?_⟩
      show List.filter _ ix1.fkToHere = []
      rw [← g3, hempty i ix0 g0]
      rfl
  have hu2 : LUniq (dropFkeys db (delT db from_ ++ [{ ts1 with name := to }]) from_ true
      (ts.indexes.map (·.columns))) :=
    (luniq_of_idxUniq (idxUniq_of_validate hv)).skel hsk23.1.symm
  have hc2 : FkCols (dropFkeys db (delT db from_ ++ [{ ts1 with name := to }]) from_ true
      (ts.indexes.map (·.columns))) := by
    intro n j ix hl hfk
    rw [hlk] at hl
    split at hl
    · simp only [List.getElem?_map] at hl
      obtain ⟨ix1, g1, rfl⟩ := Option.map_eq_some_iff.mp hl
      obtain ⟨ix0, g0, g2, _⟩ := c1.bwd g1
      have := w.fkc from_ j ix0 (by rw [look_of_getT hts]; exact g0)
        (by rw [(sk_fk g2).1]; exact hfk)
      rw [(sk_fk g2).2.1] at this
      exact this
    · rw [hlookA] at hl
      split at hl
      · cases hl
      · obtain ⟨ix0, g0, rfl⟩ := Option.map_eq_some_iff.mp hl
        exact w.fkc n j ix0 g0 hfk
  have hag : Agree (dropFkeys db (delT db from_ ++ [{ ts1 with name := to }]) from_ true
      (ts.indexes.map (·.columns))) to ts1.indexes := by
    intro spec hsp i six hl hcs
    obtain ⟨k, hk⟩ := List.mem_iff_getElem?.mp hsp
    have hk2 : look (dropFkeys db (delT db from_ ++ [{ ts1 with name := to }]) from_ true
        (ts.indexes.map (·.columns))) to k = some (filtBack (fun f =>
          !((ts.indexes.map (·.columns)).any (fun c => dropQ db from_ true c to spec.columns f))) spec) := by
      rw [hlk, if_pos rfl, List.getElem?_map, hk]; rfl
    have hki : k = i := hu2 to k i _ _ hk2 hl (by rw [hcs]; rfl)
    subst hki
    rw [hk2] at hl
    cases hl
    rfl
  have hnd : (ts1.indexes.map (·.columns)).Nodup := by
    rw [sameIxs_map_columns c1]
    have := (validate_table w.valid (getT_mem hts)).1
    simp only [schemaCheck, Bool.and_eq_true, Bool.not_eq_true'] at this
    exact nodup_cols_of_dupIdx this.2
  obtain ⟨hl, hskel, hnames⟩ := createFkeys_linv ts1.indexes _ _ hu2 hc2 hag hnd hinvX hcf
  refine ⟨hv, ?_, hc2.skel hskel, hl⟩
  unfold NamesNodup
  rw [hnames, hnames2, List.nodup_append]
  refine ⟨namesNodup_delT from_ w.names, by simp, ?_⟩
  intro a ha b hb hab
  simp only [List.mem_singleton] at hb
  subst hb; subst hab
  rw [names_delT] at ha
  exact getT_none_iff.mp hto (List.mem_filter.mp ha).1

end Gsu.SchemaAlg
