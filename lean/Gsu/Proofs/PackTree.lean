/-
C13: the container round trip through every nesting depth, by induction over trees of packed
values. `packTree` / `unpackTree` only COMPOSE the model's one-level `packObj` / `unpackObj`
(Gsu.Model.Pack, what the driver executes) along a tree: leaves are packed scalars (any bytes
not starting with the object/record tag), nodes are objects/records. `unpackTree` carries the
nesting budget (`nestingLimit` container levels, as `packSize`'s `len(*ps) >= nestingLimit`
check). Core-only.
-/
import Gsu.Proofs.PackContainer
import Gsu.Gen.Pack
namespace Gsu.Pack
open Gsu.Proto

mutual
inductive PTree where
  | leaf (b : Bytes)
  | node (isRec : Bool) (list : PList) (named : PNamed)
inductive PList where
  | nil
  | cons (t : PTree) (r : PList)
inductive PNamed where
  | nil
  | cons (k v : PTree) (r : PNamed)
end

def PList.length : PList → Nat
  | .nil => 0
  | .cons _ r => r.length + 1

def PNamed.length : PNamed → Nat
  | .nil => 0
  | .cons _ _ r => r.length + 1

mutual
/-- pack a tree bottom-up with the model's `packObj` -/
def packTree : PTree → Bytes
  | .leaf b => b
  | .node isRec l n => packObj (if isRec then tagRecord else tagObject) (packList l) (packNamed n)
def packList : PList → List Bytes
  | .nil => []
  | .cons t r => packTree t :: packList r
def packNamed : PNamed → List (Bytes × Bytes)
  | .nil => []
  | .cons k v r => (packTree k, packTree v) :: packNamed r
end

mutual
/-- container levels on the deepest path (a scalar has depth 0) -/
def depth : PTree → Nat
  | .leaf _ => 0
  | .node _ l n => max (depthList l) (depthNamed n) + 1
def depthList : PList → Nat
  | .nil => 0
  | .cons t r => max (depth t) (depthList r)
def depthNamed : PNamed → Nat
  | .nil => 0
  | .cons k v r => max (max (depth k) (depth v)) (depthNamed r)
end

def isContainer (s : Bytes) : Bool :=
  match s with
  | t :: _ => t == tagObject || t == tagRecord
  | [] => false

mutual
/-- scalars do not start with a container tag; every count and member length fits the varint -/
def TreeOK : PTree → Prop
  | .leaf b => isContainer b = false
  | .node _ l n => l.length < 128 ^ 10 ∧ n.length < 128 ^ 10 ∧ ListOK l ∧ NamedOK n
def ListOK : PList → Prop
  | .nil => True
  | .cons t r => TreeOK t ∧ (packTree t).length < 128 ^ 10 ∧ ListOK r
def NamedOK : PNamed → Prop
  | .nil => True
  | .cons k v r => TreeOK k ∧ TreeOK v ∧ (packTree k).length < 128 ^ 10 ∧
      (packTree v).length < 128 ^ 10 ∧ NamedOK r
end

def mapList (g : Bytes → Option PTree) : List Bytes → Option PList
  | [] => some .nil
  | b :: r => match g b, mapList g r with
    | some t, some r' => some (.cons t r')
    | _, _ => none

def mapNamed (g : Bytes → Option PTree) : List (Bytes × Bytes) → Option PNamed
  | [] => some .nil
  | (k, v) :: r => match g k, g v, mapNamed g r with
    | some k', some v', some r' => some (.cons k' v' r')
    | _, _, _ => none

/-- unpack a whole tree with the model's `unpackObj`; `budget` = container levels still allowed
(`none` = "object nesting overflow" or a malformed member) -/
def unpackTree : Nat → Bytes → Option PTree
  | 0, s => if isContainer s then none else some (.leaf s)
  | b + 1, s =>
    if isContainer s then
      match unpackObj s with
      | none => none
      | some (l, n) =>
        match mapList (unpackTree b) l, mapNamed (unpackTree b) n with
        | some l', some n' => some (.node (s.head? == some tagRecord) l' n')
        | _, _ => none
    else some (.leaf s)

theorem packList_length : ∀ l : PList, (packList l).length = l.length
  | .nil => rfl
  | .cons t r => by simp only [packList, List.length_cons, PList.length, packList_length r]

theorem packNamed_length : ∀ n : PNamed, (packNamed n).length = n.length
  | .nil => rfl
  | .cons k v r => by simp only [packNamed, List.length_cons, PNamed.length, packNamed_length r]

theorem ListOK_lengths : ∀ l : PList, ListOK l → ∀ m ∈ packList l, m.length < 128 ^ 10
  | .nil, _, m, hm => by simp [packList] at hm
  | .cons t r, h, m, hm => by
    simp only [ListOK] at h
    simp only [packList, List.mem_cons] at hm
    rcases hm with rfl | hm
    · exact h.2.1
    · exact ListOK_lengths r h.2.2 m hm

theorem NamedOK_lengths : ∀ n : PNamed, NamedOK n →
    ∀ kv ∈ packNamed n, kv.1.length < 128 ^ 10 ∧ kv.2.length < 128 ^ 10
  | .nil, _, m, hm => by simp [packNamed] at hm
  | .cons k v r, h, m, hm => by
    simp only [NamedOK] at h
    simp only [packNamed, List.mem_cons] at hm
    rcases hm with rfl | hm
    · exact ⟨h.2.2.1, h.2.2.2.1⟩
    · exact NamedOK_lengths r h.2.2.2.2 m hm

theorem isContainer_packObj (isRec : Bool) (l : List Bytes) (n : List (Bytes × Bytes)) :
    isContainer (packObj (if isRec then tagRecord else tagObject) l n) = true ∧
    ((packObj (if isRec then tagRecord else tagObject) l n).head? == some tagRecord) = isRec := by
  cases isRec <;> (simp only [packObj]; split <;> simp [isContainer, tagObject, tagRecord])

/-- one node, given the round trip of its members at the smaller budget -/
theorem unpackTree_node (b : Nat) (isRec : Bool) (l : PList) (n : PNamed)
    (ok : TreeOK (.node isRec l n))
    (hl : mapList (unpackTree b) (packList l) = some l)
    (hn : mapNamed (unpackTree b) (packNamed n) = some n) :
    unpackTree (b + 1) (packTree (.node isRec l n)) = some (.node isRec l n) := by
  simp only [TreeOK] at ok
  have hc := isContainer_packObj isRec (packList l) (packNamed n)
  have hr := unpackObj_packObj (if isRec then tagRecord else tagObject) (packList l) (packNamed n)
    (by rw [packList_length]; exact ok.1) (by rw [packNamed_length]; exact ok.2.1)
    (ListOK_lengths l ok.2.2.1) (NamedOK_lengths n ok.2.2.2)
  simp only [unpackTree, packTree, hc.1, if_true, hr, hl, hn, hc.2]

mutual
theorem unpackTree_packTree : ∀ (t : PTree) (b : Nat), TreeOK t → depth t ≤ b →
    unpackTree b (packTree t) = some t
  | .leaf s, b, ok, _ => by
    simp only [TreeOK] at ok
    cases b <;> simp only [unpackTree, packTree, ok, Bool.false_eq_true, if_false]
  | .node isRec l n, 0, _, hd => by simp only [depth] at hd; omega
  | .node isRec l n, b + 1, ok, hd => by
    simp only [depth] at hd
    have ok' := ok
    simp only [TreeOK] at ok'
    exact unpackTree_node b isRec l n ok
      (unpackList_packList l b ok'.2.2.1 (by omega))
      (unpackNamed_packNamed n b ok'.2.2.2 (by omega))
theorem unpackList_packList : ∀ (l : PList) (b : Nat), ListOK l → depthList l ≤ b →
    mapList (unpackTree b) (packList l) = some l
  | .nil, _, _, _ => by simp only [packList, mapList]
  | .cons t r, b, ok, hd => by
    simp only [ListOK] at ok
    simp only [depthList] at hd
    simp only [packList, mapList, unpackTree_packTree t b ok.1 (by omega),
      unpackList_packList r b ok.2.2 (by omega)]
theorem unpackNamed_packNamed : ∀ (n : PNamed) (b : Nat), NamedOK n → depthNamed n ≤ b →
    mapNamed (unpackTree b) (packNamed n) = some n
  | .nil, _, _, _ => by simp only [packNamed, mapNamed]
  | .cons k v r, b, ok, hd => by
    simp only [NamedOK] at ok
    simp only [depthNamed] at hd
    simp only [packNamed, mapNamed, unpackTree_packTree k b ok.1 (by omega),
      unpackTree_packTree v b ok.2.1 (by omega), unpackNamed_packNamed r b ok.2.2.2.2 (by omega)]
end

/-- nesting up to the limit round-trips; one level more is refused -/
theorem tree_roundtrip_limit (t : PTree) (ok : TreeOK t) (hd : depth t ≤ Gsu.Gen.Pack.nestingLimit) :
    unpackTree Gsu.Gen.Pack.nestingLimit (packTree t) = some t :=
  unpackTree_packTree t _ ok hd

mutual
/-- a tree nested deeper than the budget is refused ("object nesting overflow") -/
theorem unpackTree_overflow : ∀ (t : PTree) (b : Nat), TreeOK t → b < depth t →
    unpackTree b (packTree t) = none
  | .leaf s, b, _, hd => by simp only [depth] at hd; omega
  | .node isRec l n, 0, _, _ => by
    have hc := isContainer_packObj isRec (packList l) (packNamed n)
    simp only [unpackTree, packTree, hc.1, if_true]
  | .node isRec l n, b + 1, ok, hd => by
    simp only [depth] at hd
    have ok' := ok
    simp only [TreeOK] at ok'
    have hc := isContainer_packObj isRec (packList l) (packNamed n)
    have hr := unpackObj_packObj (if isRec then tagRecord else tagObject) (packList l) (packNamed n)
      (by rw [packList_length]; exact ok'.1) (by rw [packNamed_length]; exact ok'.2.1)
      (ListOK_lengths l ok'.2.2.1) (NamedOK_lengths n ok'.2.2.2)
    simp only [unpackTree, packTree, hc.1, if_true, hr]
    by_cases h1 : b < depthList l
    · rw [unpackList_overflow l b ok'.2.2.1 h1]
    · rw [unpackNamed_overflow n b ok'.2.2.2 (by omega)]
      cases mapList (unpackTree b) (packList l) <;> rfl
theorem unpackList_overflow : ∀ (l : PList) (b : Nat), ListOK l → b < depthList l →
    mapList (unpackTree b) (packList l) = none
  | .nil, b, _, hd => by simp only [depthList] at hd; omega
  | .cons t r, b, ok, hd => by
    simp only [ListOK] at ok
    simp only [depthList] at hd
    simp only [packList, mapList]
    by_cases h1 : b < depth t
    · rw [unpackTree_overflow t b ok.1 h1]
    · rw [unpackList_overflow r b ok.2.2 (by omega)]
      cases unpackTree b (packTree t) <;> rfl
theorem unpackNamed_overflow : ∀ (n : PNamed) (b : Nat), NamedOK n → b < depthNamed n →
    mapNamed (unpackTree b) (packNamed n) = none
  | .nil, b, _, hd => by simp only [depthNamed] at hd; omega
  | .cons k v r, b, ok, hd => by
    simp only [NamedOK] at ok
    simp only [depthNamed] at hd
    simp only [packNamed, mapNamed]
    by_cases h1 : b < depth k
    · rw [unpackTree_overflow k b ok.1 h1]
    · by_cases h2 : b < depth v
      · rw [unpackTree_overflow v b ok.2.1 h2]
        cases unpackTree b (packTree k) <;> rfl
      · rw [unpackNamed_overflow r b ok.2.2.2.2 (by omega)]
        cases unpackTree b (packTree k) <;> cases unpackTree b (packTree v) <;> rfl
end

end Gsu.Pack
