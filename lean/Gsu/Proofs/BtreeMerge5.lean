/-
C10 — `MergeAndSave` on the abstract tree and the byte-SIZE limit. The code does not keep nodes
within `maxNodeSize` in general (KF-C10-2, KF-C10-4: long keys, collapsing prefixes). It does when
the keys are short: if every key (of the tree and of the batches) has at most `L` bytes and
`8 + split·(L + 7) ≤ maxNodeSize` (L ≤ 74 for the production split 100), every leaf and tree node
stays within `maxNodeSize` — because separators are never longer than keys and the count limits
hold. Core-only.
-/
import Gsu.Proofs.BtreeMerge4
namespace Gsu.Btree

/-! ### generic: a child invariant `Q` and a separator invariant `S` through a merge step -/

def ResCS {α} (Q : α → Prop) (S : Key → Prop) : Res α → Prop
  | .one t => Q t
  | .two l s r => Q l ∧ S s ∧ Q r
  | .gone => True

def RowAllS {α} (Q : α → Prop) (S : Key → Prop) (kids : List (α × Key)) (last : α) : Prop :=
  (∀ p ∈ kids, Q p.1 ∧ S p.2) ∧ Q last

def RowResCS {α} (Q : α → Prop) (S : Key → Prop) (n : Nat) : RowRes α → Prop
  | .same ks l => ks.length = n ∧ RowAllS Q S ks l
  | .grew ks l => ks.length = n + 1 ∧ RowAllS Q S ks l
  | .shrunk ks l => ks.length + 1 = n ∧ RowAllS Q S ks l
  | .empty => n = 0

theorem rowMerge_cs {α} {Q : α → Prop} {S : Key → Prop} {f : α → Option (Res α)}
    (hf : ∀ c res, Q c → f c = some res → ResCS Q S res) (k : Key) :
    ∀ (kids : List (α × Key)) (last : α) (rr : RowRes α), RowAllS Q S kids last →
      rowMerge f kids last k = some rr → RowResCS Q S kids.length rr := by
  intro kids
  induction kids with
  | nil =>
    intro last rr hall h
    simp only [rowMerge] at h
    cases hfl : f last with
    | none => simp [hfl] at h
    | some r =>
      simp only [hfl, Option.map_some, Option.some.injEq] at h; subst h
      have := hf last r hall.2 hfl
      cases r with
      | one c => exact ⟨rfl, by simp, this⟩
      | two l s r => exact ⟨rfl, by simpa using ⟨this.1, this.2.1⟩, this.2.2⟩
      | gone => rfl
  | cons x r ih =>
    obtain ⟨c, s⟩ := x
    intro last rr hall h
    have hc : Q c ∧ S s := hall.1 (c, s) List.mem_cons_self
    have hr : RowAllS Q S r last := ⟨fun p hp => hall.1 p (List.mem_cons_of_mem _ hp), hall.2⟩
    simp only [rowMerge] at h
    split at h
    · cases hfc : f c with
      | none => simp [hfc] at h
      | some rc =>
        simp only [hfc, Option.map_some, Option.some.injEq] at h; subst h
        have := hf c rc hc.1 hfc
        cases rc with
        | one c' =>
          refine ⟨rfl, ?_, hr.2⟩
          intro p hp
          rcases List.mem_cons.mp hp with rfl | hp'
          · exact ⟨this, hc.2⟩
          · exact hr.1 p hp'
        | two l s' r' =>
          refine ⟨rfl, ?_, hr.2⟩
          intro p hp
          rcases List.mem_cons.mp hp with rfl | hp'
          · exact ⟨this.1, this.2.1⟩
          · rcases List.mem_cons.mp hp' with rfl | hp''
            · exact ⟨this.2.2, hc.2⟩
            · exact hr.1 p hp''
        | gone => exact ⟨rfl, hr⟩
    · cases hrm : rowMerge f r last k with
      | none => simp [hrm] at h
      | some r2 =>
        simp only [hrm, Option.map_some, Option.some.injEq] at h; subst h
        have := ih last r2 hr hrm
        have hcons : ∀ ks : List (α × Key), (∀ p ∈ ks, Q p.1 ∧ S p.2) →
            ∀ p ∈ (c, s) :: ks, Q p.1 ∧ S p.2 := by
          intro ks hks p hp
          rcases List.mem_cons.mp hp with rfl | hp'
          · exact hc
          · exact hks p hp'
        cases r2 with
        | same ks l => exact ⟨by simp [this.1], hcons ks this.2.1, this.2.2⟩
        | grew ks l => exact ⟨by simp [this.1], hcons ks this.2.1, this.2.2⟩
        | shrunk ks l =>
          have h5 : ks.length + 1 = r.length := this.1
          exact ⟨by simp only [List.length_cons]; omega, hcons ks this.2.1, this.2.2⟩
        | empty =>
          have h0 : r.length = 0 := this
          exact ⟨by simp [h0], by simp, hc.1⟩

def NodeCS (split : Nat) {α} (Q : α → Prop) (S : Key → Prop) (n : List (α × Key) × α) : Prop :=
  n.1.length + 1 ≤ split ∧ (∀ p ∈ n.1, Q p.1 ∧ S p.2) ∧ Q n.2

theorem nodeSplit_cs {split : Nat} (h1 : 1 ≤ split) {α} {Q : α → Prop} {S : Key → Prop}
    (ks : List (α × Key)) (l : α) (hlen : ks.length ≤ split) (hall : RowAllS Q S ks l) :
    ResCS (NodeCS split Q S) S (nodeSplit split ks l) := by
  unfold nodeSplit
  split
  · cases hd : ks.drop (ks.length / 2) with
    | nil =>
      have : ks.length = 0 := by
        have := congrArg List.length hd
        simp only [List.length_drop, List.length_nil] at this; omega
      exact ⟨by show ks.length + 1 ≤ split; omega, hall.1, hall.2⟩
    | cons x rest =>
      obtain ⟨c, s⟩ := x
      have hks : ks = ks.take (ks.length / 2) ++ (c, s) :: rest := by
        rw [← hd]; exact (List.take_append_drop _ _).symm
      have hl : rest.length + 1 = ks.length - ks.length / 2 := by
        have := congrArg List.length hd
        simp only [List.length_drop, List.length_cons] at this; omega
      have hmem : ∀ p, p ∈ ks.take (ks.length / 2) ∨ p = (c, s) ∨ p ∈ rest → p ∈ ks := by
        intro p hp
        rw [hks]
        simp only [List.mem_append, List.mem_cons]
        exact hp
      have hcs := hall.1 (c, s) (hmem _ (Or.inr (Or.inl rfl)))
      refine ⟨⟨?_, fun p hp => hall.1 p (hmem p (Or.inl hp)), hcs.1⟩, hcs.2,
        ⟨?_, fun p hp => hall.1 p (hmem p (Or.inr (Or.inr hp))), hall.2⟩⟩
      · simp only [List.length_take]; omega
      · simp only; omega
  · next hc =>
    exact ⟨by show ks.length + 1 ≤ split; omega, hall.1, hall.2⟩

theorem nodeFinish_cs {split : Nat} (h1 : 1 ≤ split) {α} {Q : α → Prop} {S : Key → Prop} (n : Nat)
    (hn : n + 1 ≤ split) (rr : RowRes α) (h : RowResCS Q S n rr) :
    ResCS (NodeCS split Q S) S (nodeFinish split rr) := by
  cases rr with
  | same ks l => exact ⟨by rw [h.1]; exact hn, h.2.1, h.2.2⟩
  | shrunk ks l =>
    have h5 : ks.length + 1 = n := h.1
    exact ⟨by show ks.length + 1 ≤ split; omega, h.2.1, h.2.2⟩
  | empty => trivial
  | grew ks l => exact nodeSplit_cs h1 ks l (by have := h.1; omega) h.2

/-- the invariant of a subtree: `LQ` at the leaves, `S` at the separators, at most `split` offsets -/
def BT.CS (split : Nat) (LQ : Leaf → Prop) (S : Key → Prop) : (h : Nat) → BT h → Prop
  | 0, l => LQ l
  | h + 1, t => NodeCS split (BT.CS split LQ S h) S t

def BT.RootCS (split : Nat) (LQ LQ0 : Leaf → Prop) (S : Key → Prop) : (h : Nat) → BT h → Prop
  | 0, l => LQ0 l
  | h + 1, t => 1 ≤ t.1.length ∧ BT.CS split LQ S (h + 1) t

theorem BT_merge_cs {split : Nat} (h1 : 1 ≤ split) {LQ : Leaf → Prop} {S : Key → Prop}
    (k : Key) (op : Op) (o : Nat)
    (hleaf : ∀ l res, LQ l → Leaf.merge split l k op o = some res → ResCS LQ S res) : ∀ (h : Nat)
    (t : BT h) (res : Res (BT h)), BT.CS split LQ S h t → BT.merge split k op o h t = some res →
    ResCS (BT.CS split LQ S h) S res := by
  intro h
  induction h with
  | zero => intro t res hc hm; exact hleaf t res hc hm
  | succ h ih =>
    intro t res hc hm
    simp only [BT.merge] at hm
    cases hrm : rowMerge (BT.merge split k op o h) t.1 t.2 k with
    | none => simp [hrm] at hm
    | some rr =>
      simp only [hrm, Option.map_some, Option.some.injEq] at hm; subst hm
      have := rowMerge_cs (Q := BT.CS split LQ S h) (S := S) (fun c res hq hf => ih c res hq hf) k
        t.1 t.2 rr ⟨hc.2.1, hc.2.2⟩ hrm
      exact nodeFinish_cs h1 t.1.length hc.1 rr this

theorem popRoots_cs {split : Nat} {LQ LQ0 : Leaf → Prop} {S : Key → Prop} (h10 : ∀ l, LQ l → LQ0 l) :
    ∀ (h : Nat) (t : BT h), BT.CS split LQ S h t →
    BT.RootCS split LQ LQ0 S (popRoots h t).h (popRoots h t).root := by
  intro h
  induction h with
  | zero => intro t hc; exact h10 t hc
  | succ h ih =>
    intro t hc
    obtain ⟨ks, l⟩ := t
    cases ks with
    | nil => exact ih l hc.2.2
    | cons x r => exact ⟨by show 1 ≤ (x :: r).length; simp, hc⟩

theorem wrapRoot_cs {split : Nat} (h2 : 2 ≤ split) {LQ LQ0 : Leaf → Prop} {S : Key → Prop}
    (hempty : LQ0 ({ pre := 0, es := [] } : Leaf)) {h : Nat} (res : Res (BT h))
    (hc : ResCS (BT.CS split LQ S h) S res)
    (hroot : ∀ t, res = .one t → BT.RootCS split LQ LQ0 S h t) :
    BT.RootCS split LQ LQ0 S (wrapRoot res).h (wrapRoot res).root := by
  cases res with
  | one t => exact hroot t rfl
  | two l s r =>
    refine ⟨by show 1 ≤ [(l, s)].length; simp, by show [(l, s)].length + 1 ≤ split; simpa using h2,
      ?_, hc.2.2⟩
    intro p hp
    have hp' : p ∈ [(l, s)] := hp
    simp only [List.mem_singleton] at hp'; subst hp'; exact ⟨hc.1, hc.2.1⟩
  | gone => exact hempty

theorem mergeOne_cs {split : Nat} (h2 : 2 ≤ split) {LQ LQ0 : Leaf → Prop} {S : Key → Prop}
    (h10 : ∀ l, LQ l → LQ0 l) (hempty : LQ0 ({ pre := 0, es := [] } : Leaf))
    (k : Key) (op : Op) (o : Nat)
    (hleaf : ∀ l res, LQ0 l → Leaf.merge split l k op o = some res → ResCS LQ S res)
    (t t' : BTree) (hc : BT.RootCS split LQ LQ0 S t.h t.root)
    (hm : t.mergeOne split k op o = some t') : BT.RootCS split LQ LQ0 S t'.h t'.root := by
  obtain ⟨h, root⟩ := t
  have hleaf' : ∀ l res, LQ l → Leaf.merge split l k op o = some res → ResCS LQ S res :=
    fun l res hl => hleaf l res (h10 l hl)
  cases h with
  | zero =>
    simp only [BTree.mergeOne] at hm
    cases hmm : BT.merge split k op o 0 root with
    | none => simp [hmm] at hm
    | some res =>
      simp only [hmm, Option.map_some, Option.some.injEq] at hm; subst hm
      have := hleaf root res hc hmm
      exact wrapRoot_cs h2 hempty res this (fun t ht => by subst ht; exact h10 t this)
  | succ h =>
    obtain ⟨hr1, hr2⟩ := hc
    simp only [BTree.mergeOne] at hm
    cases hrm : rowMerge (BT.merge split k op o h) root.1 root.2 k with
    | none => simp [hrm] at hm
    | some rr =>
      simp only [hrm, Option.map_some, Option.some.injEq] at hm
      have hrc := rowMerge_cs (Q := BT.CS split LQ S h) (S := S)
        (fun c res hq hf => BT_merge_cs (by omega) k op o hleaf' h c res hq hf) k
        root.1 root.2 rr ⟨hr2.2.1, hr2.2.2⟩ hrm
      cases rr with
      | empty => simp only at hm; subst hm; exact hempty
      | shrunk ks l =>
        simp only at hm; subst hm
        have h5 : ks.length + 1 = root.1.length := hrc.1
        have h6 : root.1.length + 1 ≤ split := hr2.1
        exact popRoots_cs h10 (h + 1) (ks, l) ⟨by show ks.length + 1 ≤ split; omega, hrc.2.1, hrc.2.2⟩
      | same ks l =>
        simp only at hm; subst hm
        exact ⟨by show 1 ≤ ks.length; rw [hrc.1]; exact hr1,
          by show ks.length + 1 ≤ split; rw [hrc.1]; exact hr2.1, hrc.2.1, hrc.2.2⟩
      | grew ks l =>
        simp only at hm; subst hm
        have h5 : ks.length = root.1.length + 1 := hrc.1
        have h6 : root.1.length + 1 ≤ split := hr2.1
        have hns := nodeSplit_cs (Q := BT.CS split LQ S h) (S := S) (by omega : 1 ≤ split) ks l
          (by omega) hrc.2
        apply wrapRoot_cs (h := h + 1) h2 hempty (nodeSplit split ks l) hns
        intro t ht
        rw [ht] at hns
        refine ⟨?_, hns⟩
        unfold nodeSplit at ht
        split at ht
        · cases hd : ks.drop (ks.length / 2) with
          | nil =>
            have := congrArg List.length hd
            simp only [List.length_drop, List.length_nil] at this
            omega
          | cons x rest => simp [hd] at ht
        · simp only [Res.one.injEq] at ht; subst ht
          show 1 ≤ ks.length
          omega

end Gsu.Btree
