/-
Lemmas about the M-DB physical model (Gsu/Model/Db.lean). Core only.
-/
import Gsu.Model.Db
namespace Gsu.Db

/-! ## Combine -/

theorem combine_sound (s : KS) (c1 c2 : Chg) (s1 s2 : KS)
    (h1 : app s c1 = some s1) (h2 : app s1 c2 = some s2) :
    ∃ c, combine c1 c2 = some c ∧ appO s c = some s2 := by
  cases s <;> cases c1 <;> simp [app] at h1 <;> subst h1 <;> cases c2 <;> simp_all [app, combine, appO]

theorem mergeKey_sound (s : KS) (cs : List Chg) (s' : KS) (h : appAll s cs = some s') :
    ∃ m, mergeKey cs = some m ∧ appO s m = some s' := by
  cases cs with
  | nil => simp [appAll] at h; subst h; exact ⟨none, rfl, rfl⟩
  | cons c cs =>
    simp only [appAll, Option.bind_eq_some_iff] at h
    obtain ⟨s1, h1, hrest⟩ := h
    suffices H : ∀ (cs : List Chg) (acc : Option Chg) (s1 : KS),
        appO s acc = some s1 → appAll s1 cs = some s' →
        ∃ m, cs.foldlM (fun (acc : Option Chg) c2 => match acc with
          | none => some (some c2) | some c1 => combine c1 c2) acc = some m ∧ appO s m = some s' by
      exact H cs (some c) s1 h1 hrest
    intro cs
    induction cs with
    | nil => intro acc s1 ha hr; simp [appAll] at hr; subst hr; exact ⟨acc, rfl, ha⟩
    | cons c2 cs ih =>
      intro acc s1 ha hr
      simp only [appAll, Option.bind_eq_some_iff] at hr
      obtain ⟨s2, h2, hr2⟩ := hr
      cases acc with
      | none =>
        simp only [appO] at ha
        cases ha
        simp only [List.foldlM_cons]
        exact ih (some c2) s2 h2 hr2
      | some c1 =>
        obtain ⟨m, hm, hm2⟩ := combine_sound s c1 c2 s1 s2 ha h2
        simp only [List.foldlM_cons, hm]
        exact ih m s2 hm2 hr2

theorem appAll_append (s : KS) (a b : List Chg) :
    appAll s (a ++ b) = (appAll s a).bind (appAll · b) := by
  induction a generalizing s with
  | nil => simp [appAll]
  | cons c a ih =>
    simp only [List.cons_append, appAll]
    cases app s c with
    | none => simp
    | some s1 => simp [ih]

theorem appAll_toList (s : KS) (m : Option Chg) : appAll s m.toList = appO s m := by
  cases m with
  | none => simp [appAll, appO]
  | some c =>
    simp only [Option.toList_some, appAll, appO]
    cases app s c <;> simp [appAll]

/-- a valid change has the effect a top-down lookup computes -/
theorem eff_of_appO (b : KS) (m : Option Chg) (s1 : KS) (h : appO b m = some s1) : eff m b = s1 := by
  cases m with
  | none => simpa [appO, eff] using h
  | some c => cases b <;> cases c <;> simp_all [appO, app, eff]

theorem eff_some_indep (c : Chg) (b b' : KS) : eff (some c) b = eff (some c) b' := by
  cases c <;> rfl

/-! ## finite maps -/

theorem FMap.get_empty {β} (k : Key) : (FMap.empty : FMap β).get k = none := by
  simp [FMap.get, FMap.empty]

theorem FMap.get_set {β} (m : FMap β) (k k' : Key) (v : Option β) :
    (m.set k v).get k' = if k' = k then v else m.get k' := by
  unfold FMap.set FMap.get
  by_cases h : k' = k
  · subst h; simp
  · simp only [List.contains_cons, h, if_false]
    have : (k' == k) = false := by simpa using h
    simp only [this, Bool.false_or]
    split <;> simp_all

theorem ins_get (l : Layer) (k k' : Key) (c : Chg) :
    (l.ins k c).get k' = if k' = k then comb (l.get k) c else l.get k' := by
  simp [Layer.ins, FMap.get_set]

/-! ## overlays: lookup agrees with the meaning -/

theorem chgs_cons (l : Layer) (ls : List Layer) (k : Key) :
    chgs (l :: ls) k = (l.get k).toList ++ chgs ls k := by
  simp only [chgs, List.filterMap_cons]
  cases l.get k <;> simp

theorem chgs_append (a b : List Layer) (k : Key) : chgs (a ++ b) k = chgs a k ++ chgs b k := by
  simp [chgs, List.filterMap_append]

theorem eff_top (ls : List Layer) (k : Key) (b v : KS)
    (h : appAll b (chgs ls k) = some v) : eff (topChg ls k) b = v := by
  induction ls generalizing b with
  | nil => simpa [chgs, appAll, topChg, eff] using h
  | cons l ls ih =>
    rw [chgs_cons, appAll_append, appAll_toList] at h
    simp only [Option.bind_eq_some_iff] at h
    obtain ⟨b1, h1, h2⟩ := h
    have ih' := ih b1 h2
    simp only [topChg]
    cases ht : topChg ls k with
    | some c' =>
      rw [ht] at ih'
      simp only
      rw [eff_some_indep c' b b1]; exact ih'
    | none =>
      rw [ht] at ih'
      simp only [eff] at ih'
      subst ih'
      exact eff_of_appO b _ _ h1

/-- Overlay.Lookup returns the meaning of the overlay -/
theorem lookup_of_sem (ov : Overlay) (k : Key) (v : KS) (h : ov.sem k = some v) : ov.lookup k = v :=
  eff_top ov.layers k _ v h

/-- a transaction layer on top: the meaning is the old meaning followed by the layer's change -/
theorem sem_withMut (ov : Overlay) (m : Layer) (k : Key) :
    (ov.withMut m).sem k = (ov.sem k).bind (fun s => appO s (m.get k)) := by
  simp only [Overlay.sem, Overlay.withMut, chgs_append, appAll_append]
  congr 1
  funext s
  rw [show chgs [m] k = (m.get k).toList by rw [chgs_cons]; simp [chgs]]
  exact appAll_toList s _

/-! ## merge -/

theorem chgs_nil_of_not_mem (ls : List Layer) (k : Key)
    (h : (ls.flatMap (·.keys)).contains k = false) : chgs ls k = [] := by
  induction ls with
  | nil => rfl
  | cons l ls ih =>
    simp only [List.flatMap_cons, List.contains_eq_mem, List.mem_append, decide_eq_false_iff_not,
      not_or] at h
    have h1 : l.get k = none := by
      simp [FMap.get, h.1]
    rw [chgs_cons, h1]
    simp only [Option.toList_none, List.nil_append]
    apply ih
    simpa using h.2

theorem mergeL_get (ls : List Layer) (k : Key) :
    (mergeL ls).get k = (mergeKey (chgs ls k)).getD none := by
  unfold mergeL FMap.get
  simp only
  split
  · rfl
  · next h =>
    have h' : (ls.flatMap (·.keys)).contains k = false := by simpa using h
    rw [chgs_nil_of_not_mem ls k h']
    rfl

/-- ixbuf.Merge of a valid prefix has the same effect as the prefix -/
theorem appO_mergeL (pre : List Layer) (k : Key) (b s1 : KS)
    (h : appAll b (chgs pre k) = some s1) : appO b ((mergeL pre).get k) = some s1 := by
  obtain ⟨m, hm, hm2⟩ := mergeKey_sound b _ s1 h
  rw [mergeL_get, hm]
  exact hm2

/-- and never meets an invalid Combine (the `panic("ixbuf invalid Combine")`) -/
theorem mergeKey_defined (pre : List Layer) (k : Key) (b s1 : KS)
    (h : appAll b (chgs pre k) = some s1) : (mergeKey (chgs pre k)).isSome := by
  obtain ⟨m, hm, _⟩ := mergeKey_sound b _ s1 h
  simp [hm]

theorem sem_merged (bt : Bt) (pre post : List Layer) (k : Key) (v : KS)
    (h : (Overlay.mk bt (pre ++ post)).sem k = some v) :
    (Overlay.mk bt (mergeL pre :: post)).sem k = some v := by
  simp only [Overlay.sem, chgs_append, appAll_append, Option.bind_eq_some_iff] at h
  obtain ⟨s1, h1, h2⟩ := h
  simp only [Overlay.sem, chgs_cons, appAll_append, appAll_toList, appO_mergeL pre k _ s1 h1]
  simpa using h2

/-- WithMerged applied to the *latest* overlay, with a result computed on an older snapshot whose
layers are a prefix of the latest layers -/
theorem sem_withMerged (latest snap : Overlay) (new : List Layer) (n : Nat) (k : Key) (v : KS)
    (hpre : latest.layers = snap.layers ++ new) (hn : n + 1 ≤ snap.layers.length)
    (h : latest.sem k = some v) :
    (latest.withMerged (snap.merge n) n).sem k = some v := by
  have e1 : latest.layers = snap.layers.take (n + 1) ++ (snap.layers.drop (n + 1) ++ new) := by
    rw [hpre, ← List.append_assoc, List.take_append_drop]
  have e2 : latest.layers.drop (n + 1) = snap.layers.drop (n + 1) ++ new := by
    rw [hpre, List.drop_append_of_le_length hn]
  simp only [Overlay.withMerged, Overlay.merge, e2]
  apply sem_merged
  have : latest = ⟨latest.bt, latest.layers⟩ := rfl
  rw [this, e1] at h
  exact h

/-! ## persist -/

theorem applyBt_get (bt : Bt) (l : Layer) (k : Key) :
    (applyBt bt l).get k = eff (l.get k) (bt.get k) := by
  unfold applyBt
  simp only [FMap.get]
  by_cases h1 : bt.keys.contains k = true <;> by_cases h2 : l.keys.contains k = true <;>
    simp_all [List.contains_eq_mem, eff]

theorem sem_saved (bt : Bt) (l0 : Layer) (rest : List Layer) (k : Key) (v : KS)
    (h : (Overlay.mk bt (l0 :: rest)).sem k = some v) :
    (Overlay.mk (applyBt bt l0) (FMap.empty :: rest)).sem k = some v := by
  simp only [Overlay.sem, chgs_cons, appAll_append, appAll_toList, Option.bind_eq_some_iff] at h
  obtain ⟨s1, h1, h2⟩ := h
  simp only [Overlay.sem, chgs_cons, FMap.get_empty, Option.toList_none, List.nil_append,
    applyBt_get, eff_of_appO _ _ _ h1]
  exact h2

/-- WithSaved applied to the latest overlay with a btree saved from an older snapshot -/
theorem sem_withSaved (latest snap : Overlay) (new : List Layer) (k : Key) (v : KS)
    (hbt : latest.bt = snap.bt) (hpre : latest.layers = snap.layers ++ new)
    (hne : snap.layers ≠ []) (h : latest.sem k = some v) :
    (latest.withSaved snap.save).sem k = some v := by
  cases hs : snap.layers with
  | nil => exact absurd hs hne
  | cons l0 rest =>
    simp only [Overlay.withSaved, Overlay.save, hs, List.headD_cons, hpre, List.cons_append,
      List.drop_succ_cons, List.drop_zero]
    apply sem_saved
    have : latest = ⟨latest.bt, latest.layers⟩ := rfl
    rw [this, hbt, hpre, hs] at h
    exact h

/-- what a reopen reads (btree only) has the meaning of the overlay when nothing is unsaved -/
theorem sem_disk (ov : Overlay) (k : Key) (hl : ∀ l ∈ ov.layers, l.get k = none) :
    (overlayForN ov.bt 1).sem k = ov.sem k := by
  have : chgs ov.layers k = [] := by
    simp only [chgs, List.filterMap_eq_nil_iff]
    exact hl
  simp only [Overlay.sem, overlayForN, this]
  simp [chgs, FMap.get_empty]

/-! ## deltas -/

theorem sumN_append (a b : List Delta) : sumN (a ++ b) = sumN a + sumN b := by
  simp [sumN, List.sum_append]
theorem sumS_append (a b : List Delta) : sumS (a ++ b) = sumS a + sumS b := by
  simp [sumS, List.sum_append]

theorem sumN_take_drop (ds : List Delta) (n : Nat) : sumN (ds.take n) + sumN (ds.drop n) = sumN ds := by
  rw [← sumN_append, List.take_append_drop]
theorem sumS_take_drop (ds : List Delta) (n : Nat) : sumS (ds.take n) + sumS (ds.drop n) = sumS ds := by
  rw [← sumS_append, List.take_append_drop]

/-- the Info.Check equations -/
def DeltasOK (ti : Info) : Prop :=
  ti.btNrows + sumN ti.deltas = ti.nrows ∧ ti.btSize + sumS ti.deltas = ti.size

theorem deltasOK_applyMerge (ti : Info) (n : Nat) (res : List Layer) (h : DeltasOK ti) :
    DeltasOK (ti.applyMerge n res) := by
  obtain ⟨h1, h2⟩ := h
  refine ⟨?_, ?_⟩
  · show ti.btNrows + sumN (_ :: _) = ti.nrows
    have := sumN_take_drop ti.deltas (1 + n)
    simp only [sumN, List.map_cons, List.sum_cons] at *
    omega
  · show ti.btSize + sumS (_ :: _) = ti.size
    have := sumS_take_drop ti.deltas (1 + n)
    simp only [sumS, List.map_cons, List.sum_cons] at *
    omega

theorem deltasOK_applyPersist (ti : Info) (res : List Bt) (h : DeltasOK ti) :
    DeltasOK (ti.applyPersist res) := by
  obtain ⟨h1, h2⟩ := h
  cases hd : ti.deltas with
  | nil =>
    simp only [DeltasOK, Info.applyPersist, hd, sumN, sumS] at *
    simp_all
  | cons d ds =>
    simp only [DeltasOK, Info.applyPersist, hd, sumN, sumS, List.headD_cons, List.drop_succ_cons,
      List.drop_zero, List.map_cons, List.sum_cons] at *
    constructor <;> omega

theorem deltasOK_lay (d : TDif) (lti : Info) (h : DeltasOK lti) : DeltasOK (lay d lti) := by
  obtain ⟨h1, h2⟩ := h
  simp only [DeltasOK, lay, sumN_append, sumS_append]
  have e1 : sumN [⟨d.dn, d.ds⟩] = d.dn := by simp [sumN]
  have e2 : sumS [⟨d.dn, d.ds⟩] = d.ds := by simp [sumS]
  rw [e1, e2]
  constructor <;> omega

theorem deltasOK_disk (ti : Info) : DeltasOK ti.disk := by
  simp [DeltasOK, Info.disk, sumN, sumS]

/-! ## prefix stability: commits only append -/

/-- `b` is `a` after some commits: same btrees, `a`'s layers are a prefix of `b`'s -/
def Extends (a b : Info) : Prop :=
  a.idx.length = b.idx.length ∧
  ∀ (i : Nat) (ova : Overlay), a.idx[i]? = some ova →
    ∃ (ovb : Overlay) (new : List Layer), b.idx[i]? = some ovb ∧ ovb.bt = ova.bt ∧ ovb.layers = ova.layers ++ new

theorem Extends.refl (a : Info) : Extends a a :=
  ⟨rfl, fun _ ova h => ⟨ova, [], h, rfl, by simp⟩⟩

theorem Extends.trans {a b c : Info} (h1 : Extends a b) (h2 : Extends b c) : Extends a c := by
  refine ⟨h1.1.trans h2.1, ?_⟩
  intro i ova ha
  obtain ⟨ovb, n1, hb, hbt1, hl1⟩ := h1.2 i ova ha
  obtain ⟨ovc, n2, hc, hbt2, hl2⟩ := h2.2 i ovb hb
  exact ⟨ovc, n1 ++ n2, hc, hbt2.trans hbt1, by rw [hl2, hl1, List.append_assoc]⟩

theorem lay_idx (d : TDif) (lti : Info) (i : Nat) :
    (lay d lti).idx[i]? = match lti.idx[i]?, d.muts[i]? with
      | some ov, some m => some (ov.withMut m)
      | _, _ => none := by
  simp only [lay, List.getElem?_zipWith]
  cases lti.idx[i]? <;> cases d.muts[i]? <;> rfl

/-- LayeredOnto appends exactly one layer to every index and leaves the btrees alone -/
theorem extends_lay (d : TDif) (lti : Info) (h : d.muts.length = lti.idx.length) :
    Extends lti (lay d lti) := by
  refine ⟨by simp [lay, h], ?_⟩
  intro i ov hi
  have hlt : i < d.muts.length := by
    rw [h]; exact (List.getElem?_eq_some_iff.mp hi).1
  refine ⟨ov.withMut d.muts[i], [d.muts[i]], ?_, rfl, rfl⟩
  rw [lay_idx, hi, List.getElem?_eq_getElem hlt]

/-! ## every index has the meaning `keymap` gives it -/

def IAgree (ti : Info) : Prop :=
  ∀ i ov, ti.idx[i]? = some ov → ∀ k, ov.sem k = some (keymap i ti.rows k)

/-- the structural part of Info.Check: every index has as many layers as there are deltas -/
def LayersOK (ti : Info) : Prop := ∀ ov ∈ ti.idx, ov.layers.length = ti.deltas.length

theorem applyMerge_idx (ti : Info) (n : Nat) (res : List Layer) (i : Nat) :
    (ti.applyMerge n res).idx[i]? = match ti.idx[i]?, res[i]? with
      | some ov, some m => some (ov.withMerged m n)
      | _, _ => none := by
  simp only [Info.applyMerge, List.getElem?_zipWith]
  cases ti.idx[i]? <;> cases res[i]? <;> rfl

/-- MergeUpdate applied to the latest info, computed on a snapshot any number of commits older -/
theorem iagree_applyMerge (snap latest : Info) (n : Nat)
    (hext : Extends snap latest) (hn : ∀ ov ∈ snap.idx, n + 1 ≤ ov.layers.length)
    (h : IAgree latest) : IAgree (latest.applyMerge n (snap.mergeCompute n)) := by
  intro i ov' hi k
  rw [applyMerge_idx] at hi
  cases hl : latest.idx[i]? with
  | none => simp [hl] at hi
  | some ovl =>
    have hlt : i < snap.idx.length := by
      rw [hext.1]; exact (List.getElem?_eq_some_iff.mp hl).1
    have hs : snap.idx[i]? = some snap.idx[i] := List.getElem?_eq_getElem hlt
    obtain ⟨ovb, new, hb, hbt, hlay⟩ := hext.2 i _ hs
    rw [hl] at hb; cases hb
    have hr : (snap.mergeCompute n)[i]? = some (snap.idx[i].merge n) := by
      simp [Info.mergeCompute, List.getElem?_map, hs]
    rw [hl, hr] at hi
    cases hi
    exact sem_withMerged ovl snap.idx[i] new n k _ hlay (hn _ (List.getElem_mem hlt)) (h i ovl hl k)

theorem applyPersist_idx (ti : Info) (res : List Bt) (i : Nat) :
    (ti.applyPersist res).idx[i]? = match ti.idx[i]?, res[i]? with
      | some ov, some bt => some (ov.withSaved bt)
      | _, _ => none := by
  simp only [Info.applyPersist, List.getElem?_zipWith]
  cases ti.idx[i]? <;> cases res[i]? <;> rfl

/-- PersistUpdate applied to the latest info, computed on a snapshot any number of commits older -/
theorem iagree_applyPersist (snap latest : Info)
    (hext : Extends snap latest) (hne : ∀ ov ∈ snap.idx, ov.layers ≠ [])
    (h : IAgree latest) : IAgree (latest.applyPersist snap.persistCompute) := by
  intro i ov' hi k
  rw [applyPersist_idx] at hi
  cases hl : latest.idx[i]? with
  | none => simp [hl] at hi
  | some ovl =>
    have hlt : i < snap.idx.length := by
      rw [hext.1]; exact (List.getElem?_eq_some_iff.mp hl).1
    have hs : snap.idx[i]? = some snap.idx[i] := List.getElem?_eq_getElem hlt
    obtain ⟨ovb, new, hb, hbt, hlay⟩ := hext.2 i _ hs
    rw [hl] at hb; cases hb
    have hr : (snap.persistCompute)[i]? = some (snap.idx[i].save) := by
      simp [Info.persistCompute, List.getElem?_map, hs]
    rw [hl, hr] at hi
    cases hi
    exact sem_withSaved ovl snap.idx[i] new k _ hbt hlay (hne _ (List.getElem_mem hlt)) (h i ovl hl k)

theorem layersOK_applyMerge (ti : Info) (n : Nat) (res : List Layer)
    (hn : n + 1 ≤ ti.deltas.length) (h : LayersOK ti) : LayersOK (ti.applyMerge n res) := by
  intro ov' hm
  simp only [Info.applyMerge] at hm ⊢
  obtain ⟨i, hi⟩ := List.getElem?_of_mem hm
  rw [List.getElem?_zipWith] at hi
  cases hl : ti.idx[i]? with
  | none => simp [hl] at hi
  | some ov =>
    cases hr : res[i]? with
    | none => simp [hl, hr] at hi
    | some m =>
      simp only [hl, hr, Option.some.injEq] at hi
      subst hi
      have := h ov (List.mem_of_getElem? hl)
      simp only [Overlay.withMerged, List.length_cons, List.length_drop]
      omega

theorem layersOK_applyPersist (ti : Info) (res : List Bt)
    (hd : ti.deltas ≠ []) (h : LayersOK ti) : LayersOK (ti.applyPersist res) := by
  intro ov' hm
  simp only [Info.applyPersist] at hm ⊢
  obtain ⟨i, hi⟩ := List.getElem?_of_mem hm
  rw [List.getElem?_zipWith] at hi
  cases hl : ti.idx[i]? with
  | none => simp [hl] at hi
  | some ov =>
    cases hr : res[i]? with
    | none => simp [hl, hr] at hi
    | some m =>
      simp only [hl, hr, Option.some.injEq] at hi
      subst hi
      have := h ov (List.mem_of_getElem? hl)
      have : ti.deltas.length ≠ 0 := by simpa using hd
      simp only [Overlay.withSaved, List.length_cons, List.length_drop]
      omega

theorem layersOK_lay (d : TDif) (lti : Info) (h : LayersOK lti) : LayersOK (lay d lti) := by
  intro ov' hm
  obtain ⟨i, hi⟩ := List.getElem?_of_mem hm
  rw [lay_idx] at hi
  cases hl : lti.idx[i]? with
  | none => simp [hl] at hi
  | some ov =>
    cases hr : d.muts[i]? with
    | none => simp [hl, hr] at hi
    | some m =>
      simp only [hl, hr, Option.some.injEq] at hi
      subst hi
      have := h ov (List.mem_of_getElem? hl)
      simp [lay, Overlay.withMut, this]

/-- top-down lookup through a transaction layer -/
theorem topChg_append_one (ls : List Layer) (m : Layer) (k : Key) :
    topChg (ls ++ [m]) k = match m.get k with
      | some c => some c
      | none => topChg ls k := by
  induction ls with
  | nil => simp [topChg]; cases m.get k <;> rfl
  | cons l ls ih =>
    simp only [List.cons_append, topChg, ih]
    cases m.get k with
    | some c => rfl
    | none => rfl

theorem lookup_withMut (ov : Overlay) (m : Layer) (k : Key) :
    (ov.withMut m).lookup k = eff (m.get k) (ov.lookup k) := by
  simp only [Overlay.lookup, Overlay.withMut, topChg_append_one]
  cases hm : m.get k with
  | none => rfl
  | some c => exact eff_some_indep c _ _

/-! ## commit, key by key -/

/-- After LayeredOnto, a key the transaction did not write keeps the meaning it has in the latest
state; a key it wrote gets the meaning the transaction saw — provided the latest and the
snapshot lookups of that key agree (independence). -/
theorem sem_commit (L S : Overlay) (m : Layer) (k : Key) (vL vS vT : KS)
    (hL : L.sem k = some vL) (hS : S.sem k = some vS) (hT : (S.withMut m).sem k = some vT)
    (hind : m.get k ≠ none → L.lookup k = S.lookup k) :
    (L.withMut m).sem k = some (if m.get k = none then vL else vT) := by
  rw [sem_withMut, hL]
  rw [sem_withMut, hS] at hT
  simp only [Option.bind_some] at hT ⊢
  by_cases hm : m.get k = none
  · simp [hm, appO]
  · have e : vL = vS := by
      have := hind hm
      rwa [lookup_of_sem L k vL hL, lookup_of_sem S k vS hS] at this
    simp only [hm, if_false, e]
    exact hT

/-! ## index build -/

theorem sem_overlayForN (bt : Bt) (n : Nat) (k : Key) : (overlayForN bt n).sem k = some (bt.get k) := by
  have : chgs (List.replicate n (FMap.empty : Layer)) k = [] := by
    simp only [chgs, List.filterMap_eq_nil_iff]
    intro l hl
    rw [List.eq_of_mem_replicate hl]
    exact FMap.get_empty k
  simp [Overlay.sem, overlayForN, this, appAll]

/-- with the layer count of the latest state the new index satisfies the Info.Check equation -/
theorem layersOK_applyBuild (ti : Info) (b : Build) (h : LayersOK ti) (hne : ti.idx ≠ []) :
    LayersOK (ti.applyBuild b (buildLayersWith true b ti)) := by
  intro ov hm
  simp only [Info.applyBuild, List.mem_append, List.mem_singleton] at hm ⊢
  cases hm with
  | inl h1 => exact h ov h1
  | inr h1 =>
    subst h1
    cases hi : ti.idx with
    | nil => exact absurd hi hne
    | cons ov0 rest =>
      have := h ov0 (by rw [hi]; simp)
      simp [overlayForN, buildLayersWith, hi, this]

/-- every old index keeps its meaning when an index is added -/
theorem applyBuild_idx_old (ti : Info) (b : Build) (n i : Nat) (ov : Overlay)
    (h : ti.idx[i]? = some ov) : (ti.applyBuild b n).idx[i]? = some ov := by
  have hlt : i < ti.idx.length := (List.getElem?_eq_some_iff.mp h).1
  simp only [Info.applyBuild]
  rw [List.getElem?_append_left hlt]; exact h

/-! ## which tables persist saves -/

theorem FMap.get_none_of_isEmpty {β} (m : FMap β) (h : m.isEmpty = true) (k : Key) : m.get k = none := by
  by_cases hc : m.keys.contains k = true
  · have hk : k ∈ m.keys := by simpa using hc
    have := (List.all_eq_true.mp h) k hk
    simpa using this
  · have hk : k ∉ m.keys := by simpa using hc
    simp only [FMap.get, List.contains_eq_mem, hk, decide_false]
    rfl

/-- when the test looks at every index, a table that persist skips has nothing unsaved in the
base layer of ANY index -/
theorem clean_of_not_modified (ti : Info) (h : ti.modifiedWith true = false) :
    ∀ ov ∈ ti.idx, ∀ k, (ov.layers.headD FMap.empty).get k = none := by
  intro ov hov k
  simp only [Info.modifiedWith, if_true] at h
  have h1 : ov.modified = false := by
    have := List.any_eq_false.mp h ov hov
    simpa using this
  simp only [Overlay.modified, Bool.not_eq_false'] at h1
  exact FMap.get_none_of_isEmpty _ h1 k

end Gsu.Db
