/-
C10 — a bulk-built tree with short keys satisfies `BTree.ShortKeys` (so `tree_inv_merge_sizes`
applies to bulk-built trees too). Core-only.
-/
import Gsu.Proofs.BtreeMerge6
namespace Gsu.Btree

def BT.SepsAll (S : Key → Prop) : (h : Nat) → BT h → Prop
  | 0, _ => True
  | h + 1, t => (∀ p ∈ t.1, S p.2 ∧ BT.SepsAll S h p.1) ∧ BT.SepsAll S h t.2

theorem buildLevel_sepsAll (split : Nat) (S : Key → Prop) {α} (Q : α → Prop) :
    ∀ (ps : List (α × Key)) (last : α) (cur : List (α × Key)),
      (∀ p ∈ cur, S p.2 ∧ Q p.1) → (∀ p ∈ ps, S p.2 ∧ Q p.1) → Q last →
      (∀ q ∈ (buildLevel split ps last cur).1, S q.2 ∧ ((∀ p ∈ q.1.1, S p.2 ∧ Q p.1) ∧ Q q.1.2)) ∧
      ((∀ p ∈ (buildLevel split ps last cur).2.1, S p.2 ∧ Q p.1) ∧ Q (buildLevel split ps last cur).2.2) := by
  intro ps
  induction ps with
  | nil =>
    intro last cur hc _ hl
    simp only [buildLevel]
    exact ⟨by simp, fun p hp => hc p (List.mem_reverse.mp hp), hl⟩
  | cons x r ih =>
    obtain ⟨c, s⟩ := x
    intro last cur hc hps hl
    have hr : ∀ p ∈ r, S p.2 ∧ Q p.1 := fun p hp => hps p (List.mem_cons_of_mem _ hp)
    have hcs := hps (c, s) List.mem_cons_self
    simp only [buildLevel]
    split
    · have hrec := ih last [] (by simp) hr hl
      refine ⟨?_, hrec.2⟩
      intro q hq
      rcases List.mem_cons.mp hq with rfl | hq'
      · exact ⟨hcs.1, fun p hp => hc p (List.mem_reverse.mp hp), hcs.2⟩
      · exact hrec.1 q hq'
    · apply ih last ((c, s) :: cur) _ hr hl
      intro p hp
      rcases List.mem_cons.mp hp with rfl | hp'
      · exact hcs
      · exact hc p hp'

theorem growUp_sepsAll (split : Nat) (S : Key → Prop) : ∀ (fuel h : Nat) (ps : List (BT h × Key))
    (last : BT h), (∀ p ∈ ps, S p.2 ∧ BT.SepsAll S h p.1) → BT.SepsAll S h last →
    BT.SepsAll S (growUp split fuel h ps last).h (growUp split fuel h ps last).root := by
  intro fuel
  induction fuel with
  | zero =>
    intro h ps last hps hl
    cases ps with
    | nil => simpa [growUp] using hl
    | cons p ps => exact ⟨hps, hl⟩
  | succ fuel ih =>
    intro h ps last hps hl
    cases ps with
    | nil => simpa [growUp] using hl
    | cons p ps =>
      simp only [growUp]
      have := buildLevel_sepsAll split S (BT.SepsAll S h) (p :: ps) last [] (by simp) hps hl
      exact ih (h + 1) _ _ (fun q hq => this.1 q hq) this.2

theorem buildLeaves_sepLe (split L : Nat) : ∀ (kvs : List KV) (b : LB) (cur : List KV),
    KeysLe L kvs → ∀ p ∈ (buildLeaves split kvs b cur).1, SepLe L p.2 := by
  intro kvs
  induction kvs with
  | nil => intro b cur _ p hp; simp [buildLeaves] at hp
  | cons x r ih =>
    obtain ⟨k, o⟩ := x
    intro b cur hk p hp
    have hkr : KeysLe L r := fun e he => hk e (List.mem_cons_of_mem _ he)
    simp only [buildLeaves] at hp
    cases ht : b.tryAdd split k with
    | some b' => rw [ht] at hp; exact ih _ _ hkr p hp
    | none =>
      rw [ht] at hp
      rcases List.mem_cons.mp hp with rfl | hp'
      · exact Nat.le_trans (sepKey_length_le _ _) (hk (k, o) List.mem_cons_self)
      · exact ih _ _ hkr p hp'

theorem bulkBuild_sepsAll (split L : Nat) (kvs : List KV) (hk : KeysLe L kvs) :
    BT.SepsAll (SepLe L) (bulkBuild split kvs).h (bulkBuild split kvs).root := by
  unfold bulkBuild
  simp only
  apply growUp_sepsAll
  · intro p hp
    exact ⟨buildLeaves_sepLe split L kvs {} [] hk p hp, trivial⟩
  · trivial

/-! ### combining the facts about a tree -/

theorem LeafB_none {lo hi : Option Key} {l : Leaf} (h : LeafB lo hi l) : LeafB none none l :=
  ⟨h.1, fun _ _ => ⟨trivial, trivial⟩, h.2.2⟩

theorem RowB_children {α} {P : Option Key → Option Key → α → Prop} :
    ∀ (kids : List (α × Key)) (last : α) (lo hi : Option Key), RowB P lo hi kids last →
      (∀ p ∈ kids, ∃ lo hi, P lo hi p.1) ∧ ∃ lo hi, P lo hi last := by
  intro kids
  induction kids with
  | nil => intro last lo hi h; exact ⟨by simp, lo, hi, h⟩
  | cons x r ih =>
    obtain ⟨c, s⟩ := x
    intro last lo hi h
    obtain ⟨h1, _, _, h4⟩ := h
    obtain ⟨a, b⟩ := ih last _ _ h4
    refine ⟨?_, b⟩
    intro p hp
    rcases List.mem_cons.mp hp with rfl | hp'
    · exact ⟨lo, some s, h1⟩
    · exact a p hp'

theorem combine_cs {split L : Nat} : ∀ (h : Nat) (lo hi : Option Key) (t : BT h),
    BT.Bounded h lo hi t → BT.Limits split h t → BT.SepsAll (SepLe L) h t →
    KeysLe L (BT.toList h t) → BT.CS split (LeafQ split L) (SepLe L) h t := by
  intro h
  induction h with
  | zero => intro lo hi t hb hl _ hk; exact ⟨LeafB_none hb, ⟨hl.1, hl.2.1⟩, hk⟩
  | succ h ih =>
    intro lo hi t hb hl hs hk
    obtain ⟨c1, c2⟩ := RowB_children t.1 t.2 lo hi hb
    rw [BT_toList_succ] at hk
    refine ⟨hl.1.1, ?_, ?_⟩
    · intro p hp
      obtain ⟨lo', hi', hp'⟩ := c1 p hp
      refine ⟨ih lo' hi' p.1 hp' (hl.2.1 p hp) (hs.1 p hp).2 ?_, (hs.1 p hp).1⟩
      intro e he
      apply hk e
      simp only [rowList, List.mem_append, List.mem_flatMap]
      exact Or.inl ⟨p, hp, he⟩
    · obtain ⟨lo', hi', hp'⟩ := c2
      refine ih lo' hi' t.2 hp' hl.2.2 hs.2 ?_
      intro e he
      apply hk e
      simp only [rowList, List.mem_append]
      exact Or.inr he

/-- a bulk-built tree with keys of at most `L` bytes satisfies the short-key invariant -/
theorem bulkBuild_short {split L : Nat} (h2 : 2 ≤ split) (hs : split ≤ 100) (kvs : List KV)
    (hsort : Sorted kvs) (hk : KeysLe L kvs) (hk2 : ∀ e ∈ kvs, e.1.length + 15 ≤ maxNodeSizeM) :
    (bulkBuild split kvs).ShortKeys split L := by
  have hb := bulkBuild_bounded split kvs hsort
  have hl := bulkBuild_limits hs h2 kvs hk2
  have hsp := bulkBuild_sepsAll split L kvs hk
  have hc := bulkBuild_toList split kvs
  generalize bulkBuild split kvs = t at hb hl hsp hc
  obtain ⟨h, root⟩ := t
  have hk' : KeysLe L (BT.toList h root) := by
    simp only [BTree.toList] at hc; rw [hc]; exact hk
  cases h with
  | zero => exact ⟨LeafB_none hb, hl.1, hk'⟩
  | succ h => exact ⟨hl.1, combine_cs (h + 1) none none root hb hl.2 hsp hk'⟩

end Gsu.Btree
