import Gsu.Proofs.QFixed
namespace Gsu.QKeys
open Gsu.Proto Gsu.QVal Gsu.QExpr Gsu.Qry Gsu.QCursor Gsu.QFixed

/-! ### keys that use the fixed values -/

/-- all rows have the same value in `c` -/
def Const (rows : List Row) (c : Col) : Prop :=
  ∀ r, r ∈ rows → ∀ r', r' ∈ rows → QExpr.get r c = QExpr.get r' c

/-- every column of `k` is a join column or constant in the rows -/
def Covered (k common : List Col) (rows : List Row) : Prop :=
  ∀ c, c ∈ k → c ∈ common ∨ Const rows c

theorem single_const {db : Db} {q : Query} {fx : Fixed} (h : FixedOk db q fx) {c : Col}
    (hs : single fx c = true) : Const (evalQ db q) c := by
  simp only [single, List.any_eq_true, Bool.and_eq_true, beq_iff_eq] at hs
  obtain ⟨⟨c', vs⟩, hm, hc, hl⟩ := hs
  simp only at hc hl
  subst hc
  match vs, hl with
  | [v], _ =>
    have hf := (h c' [v] hm).2
    intro r hr r' hr'
    have h1 := hf r hr
    have h2 := hf r' hr'
    simp only [List.mem_singleton] at h1 h2
    rw [h1, h2]

theorem hasKey_spec {db : Db} {q : Query} {fx : Fixed} (hf : FixedOk db q fx) {by_ : List Col}
    {ks : List (List Col)} (h : hasKey by_ ks fx = true) :
    ∃ k, k ∈ ks ∧ Covered k by_ (evalQ db q) := by
  simp only [hasKey, List.any_eq_true, List.all_eq_true, Bool.or_eq_true,
    List.contains_iff_mem] at h
  obtain ⟨k, hk, hs⟩ := h
  refine ⟨k, hk, fun c hc => ?_⟩
  rcases hs c hc with h | h
  · exact Or.inr (single_const hf h)
  · exact Or.inl h

/-- a key of the right side covered by the join columns and constants: at most one match -/
theorem match_unique_right' {common K2 : List Col} {B : List Row} (s : Covered K2 common B)
    (key2 : IsKey K2 B) {r1 r2 r2' : Row} (b1 : r2 ∈ B) (b2 : r2' ∈ B)
    (m : eqOn common r1 r2 = true) (m' : eqOn common r1 r2' = true) : r2 = r2' := by
  apply key2 r2 b1 r2' b2
  rw [eqOn_iff] at m m' ⊢
  intro c hc
  rcases s c hc with h | h
  · rw [← m c h, ← m' c h]
  · exact h r2 b1 r2' b2

theorem match_unique_left' {common K1 : List Col} {A : List Row} (s : Covered K1 common A)
    (key1 : IsKey K1 A) {r1 r1' r2 : Row} (a1 : r1 ∈ A) (a2 : r1' ∈ A)
    (m : eqOn common r1 r2 = true) (m' : eqOn common r1' r2 = true) : r1 = r1' := by
  apply key1 r1 a1 r1' a2
  rw [eqOn_iff] at m m' ⊢
  intro c hc
  rcases s c hc with h | h
  · rw [m c h, m' c h]
  · exact h r1 a1 r1' a2

theorem keysOk_join (db : Db) (hdb : WfDb db) (a b : Query) (ka kb : List (List Col))
    (ha : KeysOk db a ka) (hb : KeysOk db b kb) (fxa fxb : Fixed)
    (hfa : FixedOk db a fxa) (hfb : FixedOk db b fxb) :
    KeysOk db (.join a b)
      (if hasKey (interCols (colsQ db a) (colsQ db b)) ka fxa then
        (if hasKey (interCols (colsQ db a) (colsQ db b)) kb fxb then unionKeys ka kb else kb)
      else if hasKey (interCols (colsQ db a) (colsQ db b)) kb fxb then ka else keypairs ka kb) := by
  have sa := shaped_evalQ db hdb a
  have subA : ∀ k, Sub k (colsQ db a) → Sub k (colsQ db (.join a b)) := fun k h c hc =>
    (mem_unionCols _ _ c).2 (Or.inl (h c hc))
  have subB : ∀ k, Sub k (colsQ db b) → Sub k (colsQ db (.join a b)) := fun k h c hc =>
    (mem_unionCols _ _ c).2 (Or.inr (h c hc))
  -- a key of the left side, when the right side has a key inside the join columns
  have fa : ∀ k, k ∈ ka → hasKey (interCols (colsQ db a) (colsQ db b)) kb fxb = true →
      Sub k (colsQ db (.join a b)) ∧ IsKey k (evalQ db (.join a b)) := by
    intro k hk h2
    obtain ⟨k2, m2, s2⟩ := hasKey_spec hfb h2
    refine ⟨subA k (ha k hk).1, ?_⟩
    intro x h1 x' h1' he
    obtain ⟨r1, a1, r2, b1, m, rfl⟩ := (mem_join db a b x).1 h1
    obtain ⟨r1', a2, r2', b2, m', rfl⟩ := (mem_join db a b x').1 h1'
    have e1 := join_left_eq (ha k hk).1 (ha k hk).2 (fun c hc => hc) a1 a2 he
    subst e1
    rw [match_unique_right' s2 (hb k2 m2).2 b1 b2 m m']
  have fb : ∀ k, k ∈ kb → hasKey (interCols (colsQ db a) (colsQ db b)) ka fxa = true →
      Sub k (colsQ db (.join a b)) ∧ IsKey k (evalQ db (.join a b)) := by
    intro k hk h1
    obtain ⟨k1, m1, s1⟩ := hasKey_spec hfa h1
    refine ⟨subB k (hb k hk).1, ?_⟩
    intro x h1 x' h1' he
    obtain ⟨r1, a1, r2, b1, m, rfl⟩ := (mem_join db a b x).1 h1
    obtain ⟨r1', a2, r2', b2, m', rfl⟩ := (mem_join db a b x').1 h1'
    have e2 := join_right_eq (hb k hk).1 (hb k hk).2 (fun c hc => hc) (sa r1 a1) (sa r1' a2)
      b1 b2 m m' he
    subst e2
    rw [match_unique_left' s1 (ha k1 m1).2 a1 a2 m m']
  have fp : ∀ k, k ∈ keypairs ka kb →
      Sub k (colsQ db (.join a b)) ∧ IsKey k (evalQ db (.join a b)) := by
    intro k hk
    obtain ⟨k1, m1, k2, m2, rfl⟩ := mem_keypairs hk
    refine ⟨fun c hc => ?_, ?_⟩
    · rcases (mem_unionCols _ _ c).1 hc with h | h
      · exact subA k1 (ha k1 m1).1 c h
      · exact subB k2 (hb k2 m2).1 c h
    · intro x h1 x' h1' he
      obtain ⟨r1, a1, r2, b1, m, rfl⟩ := (mem_join db a b x).1 h1
      obtain ⟨r1', a2, r2', b2, m', rfl⟩ := (mem_join db a b x').1 h1'
      have e1 := join_left_eq (ha k1 m1).1 (ha k1 m1).2
        (fun c hc => (mem_unionCols _ _ c).2 (Or.inl hc)) a1 a2 he
      have e2 := join_right_eq (hb k2 m2).1 (hb k2 m2).2
        (fun c hc => (mem_unionCols _ _ c).2 (Or.inr hc)) (sa r1 a1) (sa r1' a2) b1 b2 m m' he
      rw [e1, e2]
  intro k hk
  by_cases h1 : hasKey (interCols (colsQ db a) (colsQ db b)) ka fxa = true
  · by_cases h2 : hasKey (interCols (colsQ db a) (colsQ db b)) kb fxb = true
    · simp only [h1, h2, if_true] at hk
      rcases mem_unionKeys hk with h | h
      · exact fa k h h2
      · exact fb k h h1
    · simp only [h1, h2, if_true] at hk
      exact fb k hk h1
  · by_cases h2 : hasKey (interCols (colsQ db a) (colsQ db b)) kb fxb = true
    · simp only [h1, h2, if_true] at hk
      exact fa k hk h2
    · simp only [h1, h2] at hk
      exact fp k hk

theorem keysOk_leftjoin (db : Db) (hdb : WfDb db) (a b : Query) (ka kb : List (List Col))
    (ha : KeysOk db a ka) (hb : KeysOk db b kb) (fxb : Fixed)
    (hfb : FixedOk db b fxb) :
    KeysOk db (.leftjoin a b)
      (if hasKey (interCols (colsQ db a) (colsQ db b)) kb fxb then ka else keypairs ka kb) := by
  have sa := shaped_evalQ db hdb a
  have subA : ∀ k, Sub k (colsQ db a) → Sub k (colsQ db (.leftjoin a b)) := fun k h c hc =>
    (mem_unionCols _ _ c).2 (Or.inl (h c hc))
  have subB : ∀ k, Sub k (colsQ db b) → Sub k (colsQ db (.leftjoin a b)) := fun k h c hc =>
    (mem_unionCols _ _ c).2 (Or.inr (h c hc))
  -- once the left rows are equal, the right parts are: a key of the right side decides
  have core : ∀ (K K1 : List Col), K1 ∈ ka → Sub K1 K →
      ((∃ k2, k2 ∈ kb ∧ Covered k2 (interCols (colsQ db a) (colsQ db b)) (evalQ db b)) ∨
        (∃ k2, k2 ∈ kb ∧ Sub k2 K)) → IsKey K (evalQ db (.leftjoin a b)) := by
    intro K K1 m1 hK hright x h1 x' h1' he
    obtain ⟨r1, a1, hx⟩ := mem_leftjoin db a b x h1
    obtain ⟨r1', a2, hx'⟩ := mem_leftjoin db a b x' h1'
    have e1 : r1 = r1' := by
      rcases hx with ⟨_, rfl⟩ | ⟨_, _, _, rfl⟩ <;> rcases hx' with ⟨_, rfl⟩ | ⟨_, _, _, rfl⟩ <;>
        exact join_left_eq (ha K1 m1).1 (ha K1 m1).2 hK a1 a2 he
    subst e1
    rcases hx with ⟨hn, rfl⟩ | ⟨r2, b1, m, rfl⟩
    · rcases hx' with ⟨_, rfl⟩ | ⟨r2', b2, m', rfl⟩
      · rfl
      · have : r2' ∈ (evalQ db b).filter fun r2 =>
            eqOn (interCols (colsQ db a) (colsQ db b)) r1 r2 := List.mem_filter.2 ⟨b2, m'⟩
        rw [hn] at this; cases this
    · rcases hx' with ⟨hn, rfl⟩ | ⟨r2', b2, m', rfl⟩
      · have : r2 ∈ (evalQ db b).filter fun r2 =>
            eqOn (interCols (colsQ db a) (colsQ db b)) r1 r2 := List.mem_filter.2 ⟨b1, m⟩
        rw [hn] at this; cases this
      · rcases hright with ⟨k2, m2, s2⟩ | ⟨k2, m2, s2⟩
        · rw [match_unique_right' s2 (hb k2 m2).2 b1 b2 m m']
        · rw [join_right_eq (hb k2 m2).1 (hb k2 m2).2 s2 (sa r1 a1) (sa r1 a1) b1 b2 m m' he]
  intro k hk
  by_cases h2 : hasKey (interCols (colsQ db a) (colsQ db b)) kb fxb = true
  · simp only [h2, if_true] at hk
    obtain ⟨k2, m2, s2⟩ := hasKey_spec hfb h2
    exact ⟨subA k (ha k hk).1, core k k hk (fun c hc => hc) (Or.inl ⟨k2, m2, s2⟩)⟩
  · simp only [h2] at hk
    obtain ⟨k1, m1, k2, m2, rfl⟩ := mem_keypairs hk
    refine ⟨fun c hc => ?_, core _ k1 m1 (fun c hc => (mem_unionCols _ _ c).2 (Or.inl hc))
      (Or.inr ⟨k2, m2, fun c hc => (mem_unionCols _ _ c).2 (Or.inr hc)⟩)⟩
    rcases (mem_unionCols _ _ c).1 hc with h | h
    · exact subA k1 (ha k1 m1).1 c h
    · exact subB k2 (hb k2 m2).1 c h


theorem keysOk_where (db : Db) (hdb : WfDb db) (q : Query) (e : Expr) (ks : List (List Col))
    (h : KeysOk db q ks) :
    KeysOk db (.where_ q e)
      (if (!isTable q && ks.any (fun k => k.all (single (fixedQ db (.where_ q e))))) = true
        then [[]] else ks) := by
  split
  · rename_i hc
    simp only [Bool.and_eq_true, List.any_eq_true, List.all_eq_true] at hc
    obtain ⟨_, k, hk, hs⟩ := hc
    intro k0 hk0
    simp only [List.mem_singleton] at hk0
    subst hk0
    refine ⟨fun c hc => (by cases hc), ?_⟩
    intro r1 h1 r2 h2 _
    have key := key_where db q e k (h k hk).2
    apply key r1 h1 r2 h2
    rw [eqOn_iff]
    intro c hc
    exact single_const (fixedQ_ok db hdb (.where_ q e)) (hs c hc) r1 h1 r2 h2
  · intro k hk
    exact ⟨(h k hk).1, key_where db q e k (h k hk).2⟩

theorem disjointCol_spec {f1 f2 : Fixed} {cols1 cols2 : List Col} {d : Col}
    (h : disjointCol f1 f2 cols1 cols2 = some d) :
    (∃ v1 v2, (d, v1) ∈ f1 ∧ (d, v2) ∈ f2 ∧ ∀ v, v ∈ v1 → v ∉ v2) ∨
    (∃ v1, (d, v1) ∈ f1 ∧ d ∉ cols2 ∧ Val.empty ∉ v1) ∨
    (∃ v2, (d, v2) ∈ f2 ∧ d ∉ cols1 ∧ Val.empty ∉ v2) := by
  unfold disjointCol at h
  split at h
  · rename_i d' hd
    cases h
    obtain ⟨⟨c1, v1⟩, hm1, hx⟩ := List.exists_of_findSome?_eq_some hd
    cases hfy : f2.find? (fun y => (c1, v1).1 == y.1 && disjointVals (c1, v1).2 y.2) with
    | none => rw [hfy] at hx; cases hx
    | some y =>
      rw [hfy] at hx
      simp only [Option.map_some, Option.some.injEq] at hx
      subst hx
      obtain ⟨c2, v2⟩ := y
      have hp := List.find?_some hfy
      have hm2 := List.mem_of_find?_eq_some hfy
      simp only [Bool.and_eq_true, beq_iff_eq, disjointVals, List.all_eq_true,
        Bool.not_eq_true', Bool.eq_false_iff, ne_eq, List.contains_iff_mem] at hp
      obtain ⟨hc, hdis⟩ := hp
      subst hc
      exact Or.inl ⟨v1, v2, hm1, hm2, hdis⟩
  · split at h
    · rename_i x hx
      cases h
      obtain ⟨c1, v1⟩ := x
      have hp := List.find?_some hx
      have hm := List.mem_of_find?_eq_some hx
      simp only [Bool.and_eq_true, Bool.not_eq_true', Bool.eq_false_iff, ne_eq,
        List.contains_iff_mem] at hp
      exact Or.inr (Or.inl ⟨v1, hm, hp.1, hp.2⟩)
    · cases hfy : f2.find? (fun y => !cols1.contains y.1 && !y.2.contains Val.empty) with
      | none => rw [hfy] at h; cases h
      | some y =>
        rw [hfy] at h
        simp only [Option.map_some, Option.some.injEq] at h
        obtain ⟨c2, v2⟩ := y
        simp only at h
        subst h
        have hp := List.find?_some hfy
        have hm := List.mem_of_find?_eq_some hfy
        simp only [Bool.and_eq_true, Bool.not_eq_true', Bool.eq_false_iff, ne_eq,
          List.contains_iff_mem] at hp
        exact Or.inr (Or.inr ⟨v2, hm, hp.1, hp.2⟩)

theorem mem_addCol (k : List Col) (d c : Col) : c ∈ addCol k d ↔ c ∈ k ∨ c = d := by
  unfold addCol
  split
  · rename_i h
    simp only [List.contains_iff_mem] at h
    constructor
    · exact Or.inl
    · rintro (h' | rfl)
      · exact h'
      · exact h
  · simp only [List.mem_append, List.mem_singleton]

theorem keysOk_union_disjoint (db : Db) (hdb : WfDb db) (a b : Query) (ka kb : List (List Col))
    (ha : KeysOk db a ka) (hb : KeysOk db b kb) (d : Col)
    (hd : disjointCol (fixedQ db a) (fixedQ db b) (colsQ db a) (colsQ db b) = some d) :
    KeysOk db (.union a b) (minimizeKeys ((keypairs ka kb).map (addCol · d))) := by
  have fa := fixedQ_ok db hdb a
  have fb := fixedQ_ok db hdb b
  have sa := shaped_evalQ db hdb a
  have sb := shaped_evalQ db hdb b
  -- the disjoint column is a result column and tells rows of the two sources apart
  have hsep : d ∈ unionCols (colsQ db a) (colsQ db b) ∧
      ∀ r, r ∈ evalQ db a → ∀ r', r' ∈ evalQ db b → QExpr.get r d ≠ QExpr.get r' d := by
    rcases disjointCol_spec hd with ⟨v1, v2, m1, m2, hdis⟩ | ⟨v1, m1, hn, he⟩ | ⟨v2, m2, hn, he⟩
    · refine ⟨(mem_unionCols _ _ d).2 (Or.inl (fa d v1 m1).1), fun r hr r' hr' e => ?_⟩
      exact hdis _ ((fa d v1 m1).2 r hr) (by rw [e]; exact (fb d v2 m2).2 r' hr')
    · refine ⟨(mem_unionCols _ _ d).2 (Or.inl (fa d v1 m1).1), fun r hr r' hr' e => ?_⟩
      apply he
      rw [← get_not_mem r' d (by rw [sb r' hr']; exact hn), ← e]
      exact (fa d v1 m1).2 r hr
    · refine ⟨(mem_unionCols _ _ d).2 (Or.inr (fb d v2 m2).1), fun r hr r' hr' e => ?_⟩
      apply he
      rw [← get_not_mem r d (by rw [sa r hr]; exact hn), e]
      exact (fb d v2 m2).2 r' hr'
  intro k hk
  obtain ⟨kp, hkp, rfl⟩ := List.mem_map.1 (mem_minimizeKeys hk)
  obtain ⟨k1, m1, k2, m2, rfl⟩ := mem_keypairs hkp
  obtain ⟨s1, key1⟩ := ha k1 m1
  obtain ⟨s2, key2⟩ := hb k2 m2
  have hsub : Sub (addCol (unionCols k1 k2) d) (unionCols (colsQ db a) (colsQ db b)) := by
    intro c hc
    rcases (mem_addCol _ _ _).1 hc with h | rfl
    · rcases (mem_unionCols _ _ c).1 h with h | h
      · exact (mem_unionCols _ _ c).2 (Or.inl (s1 c h))
      · exact (mem_unionCols _ _ c).2 (Or.inr (s2 c h))
    · exact hsep.1
  refine ⟨hsub, ?_⟩
  intro x hx x' hx' he
  rw [eqOn_iff] at he
  have rd : ∀ (r : Row) c, c ∈ addCol (unionCols k1 k2) d →
      QExpr.get (restrict (unionCols (colsQ db a) (colsQ db b)) r) c = QExpr.get r c :=
    fun r c hc => get_restrict r c _ (hsub c hc)
  have hdm : d ∈ addCol (unionCols k1 k2) d := (mem_addCol _ _ _).2 (Or.inr rfl)
  rcases mem_union_rows db a b x hx with ⟨r, hr, rfl⟩ | ⟨r, hr, rfl⟩ <;>
    rcases mem_union_rows db a b x' hx' with ⟨r', hr', rfl⟩ | ⟨r', hr', rfl⟩
  · have : r = r' := by
      apply key1 r hr r' hr'
      rw [eqOn_iff]
      intro c hc
      have hm : c ∈ addCol (unionCols k1 k2) d :=
        (mem_addCol _ _ _).2 (Or.inl ((mem_unionCols _ _ c).2 (Or.inl hc)))
      have := he c hm
      rwa [rd r c hm, rd r' c hm] at this
    rw [this]
  · have := he d hdm
    rw [rd r d hdm, rd r' d hdm] at this
    exact absurd this (hsep.2 r hr r' hr')
  · have := he d hdm
    rw [rd r d hdm, rd r' d hdm] at this
    exact absurd this.symm (hsep.2 r' hr' r hr)
  · have : r = r' := by
      apply key2 r hr r' hr'
      rw [eqOn_iff]
      intro c hc
      have hm : c ∈ addCol (unionCols k1 k2) d :=
        (mem_addCol _ _ _).2 (Or.inl ((mem_unionCols _ _ c).2 (Or.inr hc)))
      have := he c hm
      rwa [rd r c hm, rd r' c hm] at this
    rw [this]

/-! ### the derivation is sound -/

/-- what the schema declares: every declared key consists of columns of the table and is unique
in its rows -/
def DeclaredOk (db : Db) (declared : Nat → List (List Col)) : Prop :=
  ∀ id k, k ∈ declared id →
    Sub k (db.getD id default).cols ∧ IsKey k (db.getD id default).rows

theorem keysQ_ok (db : Db) (declared : Nat → List (List Col)) (hdb : WfDb db)
    (hd : DeclaredOk db declared) : ∀ q : Query, KeysOk db q (keysQ db declared q)
  | .table id => by
    intro k hk
    simp only [keysQ] at hk
    simpa only [colsQ, evalQ] using hd id k (mem_minimizeKeys hk)
  | .where_ q e => by
    simp only [keysQ]
    exact keysOk_where db hdb q e _ (keysQ_ok db declared hdb hd q)
  | .project q cs => by
    simp only [keysQ]
    exact keysOk_project db q cs _ (keysQ_ok db declared hdb hd q)
  | .rename q f t => by
    simp only [keysQ]
    split
    · rename_i hok
      exact keysOk_rename db hdb q f t _ (keysQ_ok db declared hdb hd q) hok
    · intro k hk; cases hk
  | .extend q c e => by
    simp only [keysQ]
    exact keysOk_extend db hdb q c e _ (keysQ_ok db declared hdb hd q)
  | .summarize q whole by_ aggs => by
    simp only [keysQ]
    cases whole with
    | false =>
      simp only [Bool.false_and, Bool.false_eq_true, if_false]
      exact keysOk_summarize db q by_ aggs _ (keysQ_ok db declared hdb hd q)
    | true =>
      cases by_ with
      | nil =>
        simp only [Bool.true_and, List.isEmpty_nil, Bool.not_true, Bool.false_eq_true, if_false]
        exact keysOk_whole db q aggs _
      | cons c cs =>
        simp only [Bool.true_and, List.isEmpty_cons, Bool.not_false, if_true]
        intro k hk; cases hk
  | .sort q rev cs => by
    intro k hk
    simp only [keysQ] at hk
    have := keysQ_ok db declared hdb hd q k hk
    refine ⟨this.1, isKey_subrows (fun r hr => ?_) this.2⟩
    simp only [evalQ] at hr
    exact (mem_sortRows _ r _).1 hr
  | .join a b => by
    simp only [keysQ]
    exact keysOk_join db hdb a b _ _ (keysQ_ok db declared hdb hd a) (keysQ_ok db declared hdb hd b)
      _ _ (fixedQ_ok db hdb a) (fixedQ_ok db hdb b)
  | .leftjoin a b => by
    simp only [keysQ]
    exact keysOk_leftjoin db hdb a b _ _ (keysQ_ok db declared hdb hd a)
      (keysQ_ok db declared hdb hd b) _ (fixedQ_ok db hdb b)
  | .times a b => by
    simp only [keysQ]
    split
    · rename_i hdis
      exact keysOk_times db hdb a b _ _ (keysQ_ok db declared hdb hd a)
        (keysQ_ok db declared hdb hd b) hdis
    · intro k hk; cases hk
  | .union a b => by
    simp only [keysQ]
    split
    · exact keysOk_union db a b
    · rename_i d hdc
      exact keysOk_union_disjoint db hdb a b _ _ (keysQ_ok db declared hdb hd a)
        (keysQ_ok db declared hdb hd b) d hdc
  | .intersect a b => by
    simp only [keysQ]
    exact keysOk_intersect db a b _ _ (keysQ_ok db declared hdb hd a)
      (keysQ_ok db declared hdb hd b)
  | .minus a b => by
    intro k hk
    simp only [keysQ] at hk
    have := keysQ_ok db declared hdb hd a k hk
    exact ⟨this.1, key_minus db a b k this.2⟩

end Gsu.QKeys
