import Gsu.Proofs.SchemaAlg
/-!
C21, part 2: the *lookup calculus* for `Gsu.SchemaAlg`.

The metadata is read as a two level finite map `look db tn j : Option Index` (index `j` of the
first table named `tn`).  Every primitive update of the model (`modT`, `putT`, `delT`, append,
index-wise maps) gets a `look_…` equation, and the foreign-key clause of `WF` is restated as
`LInv`: the `fkToHere` list of an index has no duplicates and contains exactly the `Link`s —
entries `⟨s, cols, i, mode⟩` such that index `i` of table `s` has columns `cols`, fk mode
`mode`, and an `Fk` naming this table and the columns of this index.  Under `validate`, explicit
`Fk.columns` and unique table names this is equivalent to `WF.inv` (`lwf_iff`).
-/
namespace Gsu.SchemaAlg

/-! ### names -/

def names (db : Db) : List String := db.map (·.name)

/-- no two tables of the same name (`getT` finds the first, `putT`/`modT` change all) -/
def NamesNodup (db : Db) : Prop := (names db).Nodup

theorem getT_name {db : Db} {n : String} {t : Table} (h : getT db n = some t) : t.name = n := by
  have := List.find?_some h
  simpa using this

theorem getT_mem {db : Db} {n : String} {t : Table} (h : getT db n = some t) : t ∈ db :=
  List.mem_of_find?_eq_some h

theorem getT_none_iff {db : Db} {n : String} : getT db n = none ↔ n ∉ names db := by
  unfold getT names
  rw [List.find?_eq_none]
  simp only [beq_iff_eq, List.mem_map, not_exists, not_and]

theorem getT_isSome_iff {db : Db} {n : String} : (getT db n).isSome = true ↔ n ∈ names db := by
  cases h : getT db n with
  | none => simpa using getT_none_iff.mp h
  | some t =>
    simp only [Option.isSome_some, true_iff]
    exact List.mem_map.mpr ⟨t, getT_mem h, getT_name h⟩

theorem getT_of_mem {db : Db} (hn : NamesNodup db) {t : Table} (ht : t ∈ db) :
    getT db t.name = some t := by
  induction db with
  | nil => cases ht
  | cons a r ih =>
    unfold NamesNodup names at hn
    rw [List.map_cons, List.nodup_cons] at hn
    unfold getT
    rw [List.find?_cons]
    by_cases hat : a.name = t.name
    · have : (a.name == t.name) = true := by simpa using hat
      rw [this]
      rcases List.mem_cons.mp ht with h | h
      · rw [h]
      · exfalso; apply hn.1; rw [hat]; exact List.mem_map.mpr ⟨t, h, rfl⟩
    · have : (a.name == t.name) = false := by simpa using hat
      rw [this]
      rcases List.mem_cons.mp ht with h | h
      · exact absurd (by rw [h]) hat
      · exact ih hn.2 h

theorem getT_map {db : Db} (g : Table → Table) (hg : ∀ t, (g t).name = t.name) (n : String) :
    getT (db.map g) n = (getT db n).map g := by
  unfold getT
  rw [List.find?_map]
  congr 2
  funext t
  simp [hg]

theorem names_map {db : Db} (g : Table → Table) (hg : ∀ t, (g t).name = t.name) :
    names (db.map g) = names db := by
  unfold names
  rw [List.map_map]
  congr 1
  funext t
  simp [hg]

/-! ### look -/

/-- index `j` of the (first) table named `tn` -/
def look (db : Db) (tn : String) (j : Nat) : Option Index :=
  match getT db tn with
  | none => none
  | some t => t.indexes[j]?

theorem look_of_getT {db : Db} {tn : String} {t : Table} (h : getT db tn = some t) (j : Nat) :
    look db tn j = t.indexes[j]? := by
  unfold look; rw [h]

theorem look_of_getT_none {db : Db} {tn : String} (h : getT db tn = none) (j : Nat) :
    look db tn j = none := by
  unfold look; rw [h]

theorem look_some_iff {db : Db} {tn : String} {j : Nat} {ix : Index} :
    look db tn j = some ix ↔ ∃ t, getT db tn = some t ∧ t.indexes[j]? = some ix := by
  unfold look
  cases h : getT db tn with
  | none => simp
  | some t => simp

theorem look_of_mem {db : Db} (hn : NamesNodup db) {t : Table} (ht : t ∈ db) (j : Nat) :
    look db t.name j = t.indexes[j]? := look_of_getT (getT_of_mem hn ht) j

/-! ### the primitive updates -/

theorem modT_name (n : String) (j : Nat) (f : Index → Index) (t : Table) :
    (if t.name == n then modIdx t j f else t).name = t.name := by
  split <;> rfl

theorem getT_modT (db : Db) (n : String) (j : Nat) (f : Index → Index) (tn : String) :
    getT (modT db n j f) tn = (getT db tn).map (fun t => if t.name == n then modIdx t j f else t) :=
  getT_map _ (modT_name n j f) tn

theorem names_modT (db : Db) (n : String) (j : Nat) (f : Index → Index) :
    names (modT db n j f) = names db := names_map _ (modT_name n j f)

theorem look_modT (db : Db) (n : String) (j : Nat) (f : Index → Index) (tn : String) (i : Nat) :
    look (modT db n j f) tn i = if tn = n ∧ i = j then (look db tn i).map f else look db tn i := by
  unfold look
  rw [getT_modT]
  cases h : getT db tn with
  | none => simp
  | some t =>
    have hn := getT_name h
    simp only [Option.map_some]
    by_cases h1 : tn = n
    · have : (t.name == n) = true := by simpa [hn] using h1
      simp only [this, if_true, modIdx, List.getElem?_modify, h1, true_and]
      by_cases h2 : i = j
      · subst h2; simp
      · have h3 : ¬ j = i := fun h => h2 h.symm
        simp [h2, h3]
    · have : (t.name == n) = false := by simpa [hn] using h1
      simp [this, h1]

/-- index-wise map that keeps table names, columns and index positions -/
def mapIx (g : String → Index → Index) (db : Db) : Db :=
  db.map (fun t => { t with indexes := t.indexes.map (g t.name) })

theorem getT_mapIx (g : String → Index → Index) (db : Db) (tn : String) :
    getT (mapIx g db) tn = (getT db tn).map (fun t => { t with indexes := t.indexes.map (g t.name) }) :=
  getT_map (fun t => { t with indexes := t.indexes.map (g t.name) }) (fun _ => rfl) tn

theorem names_mapIx (g : String → Index → Index) (db : Db) : names (mapIx g db) = names db :=
  names_map (fun t => { t with indexes := t.indexes.map (g t.name) }) (fun _ => rfl)

theorem look_mapIx (g : String → Index → Index) (db : Db) (tn : String) (i : Nat) :
    look (mapIx g db) tn i = (look db tn i).map (g tn) := by
  unfold look
  rw [getT_mapIx]
  cases h : getT db tn with
  | none => simp
  | some t => simp [getT_name h]

theorem putT_name (t x : Table) : (if x.name == t.name then t else x).name = x.name := by
  split
  · rename_i h; exact (beq_iff_eq.mp h).symm
  · rfl

theorem getT_putT (db : Db) (t : Table) (tn : String) :
    getT (putT db t) tn = if tn = t.name then some t else getT db tn := by
  unfold putT
  split
  · rename_i hany
    rw [getT_map _ (putT_name t) tn]
    cases h : getT db tn with
    | none =>
      have h' := getT_none_iff.mp h
      have : tn ≠ t.name := by
        intro hc
        simp only [List.any_eq_true, beq_iff_eq] at hany
        obtain ⟨x, hx, hxn⟩ := hany
        exact h' (List.mem_map.mpr ⟨x, hx, by rw [hxn, hc]⟩)
      simp [this]
    | some x =>
      have hx := getT_name h
      by_cases h2 : tn = t.name
      · have : (x.name == t.name) = true := by simpa [hx] using h2
        simp only [Option.map_some, this, if_true, h2]
      · have : (x.name == t.name) = false := by simpa [hx] using h2
        simp only [Option.map_some, this, h2, if_false]; rfl
  · rename_i hany
    unfold getT
    rw [List.find?_append]
    by_cases h2 : tn = t.name
    · have : List.find? (fun x => x.name == tn) db = none := by
        rw [List.find?_eq_none]
        intro x hx
        simp only [List.any_eq_true, not_exists, not_and, Bool.not_eq_true] at hany
        rw [h2]; simpa using hany x hx
      rw [this]; simp [h2]
    · have h3 : (t.name == tn) = false := by simpa using fun h => h2 h.symm
      simp [h2, h3]

theorem look_putT (db : Db) (t : Table) (tn : String) (i : Nat) :
    look (putT db t) tn i = if tn = t.name then t.indexes[i]? else look db tn i := by
  unfold look
  rw [getT_putT]
  by_cases h : tn = t.name
  · simp [h]
  · simp [h]

theorem names_putT_new {db : Db} {t : Table} (h : getT db t.name = none) :
    names (putT db t) = names db ++ [t.name] := by
  have h' := getT_none_iff.mp h
  unfold putT
  have : db.any (fun x => x.name == t.name) = false := by
    rw [Bool.eq_false_iff]
    intro hc
    simp only [List.any_eq_true, beq_iff_eq] at hc
    obtain ⟨x, hx, hxn⟩ := hc
    exact h' (List.mem_map.mpr ⟨x, hx, hxn⟩)
  simp [this, names]

theorem names_putT_old {db : Db} {t : Table} (h : (getT db t.name).isSome = true) :
    names (putT db t) = names db := by
  have h' := getT_isSome_iff.mp h
  unfold putT
  have : db.any (fun x => x.name == t.name) = true := by
    simp only [List.any_eq_true, beq_iff_eq]
    obtain ⟨x, hx, hxn⟩ := List.mem_map.mp h'
    exact ⟨x, hx, hxn⟩
  rw [if_pos this]
  unfold names
  rw [List.map_map]
  apply List.map_congr_left
  intro x _
  simp only [Function.comp]
  split
  · rename_i h; exact (beq_iff_eq.mp h).symm
  · rfl

theorem namesNodup_putT {db : Db} {t : Table} (hn : NamesNodup db) : NamesNodup (putT db t) := by
  unfold NamesNodup
  cases h : getT db t.name with
  | none =>
    rw [names_putT_new h, List.nodup_append]
    refine ⟨hn, by simp, ?_⟩
    intro a ha b hb
    simp only [List.mem_singleton] at hb
    subst hb
    intro hab; subst hab
    exact getT_none_iff.mp h ha
  | some x =>
    rw [names_putT_old (by simp [h])]
    exact hn

theorem getT_delT (db : Db) (n tn : String) :
    getT (delT db n) tn = if tn = n then none else getT db tn := by
  unfold getT delT
  rw [List.find?_filter]
  split
  · rename_i h
    rw [List.find?_eq_none]
    intro x _
    simp [h]
  · rename_i h
    congr 1
    funext x
    by_cases hx : x.name = tn
    · simp [hx, h]
    · simp [hx]

theorem look_delT (db : Db) (n tn : String) (i : Nat) :
    look (delT db n) tn i = if tn = n then none else look db tn i := by
  unfold look
  rw [getT_delT]
  by_cases h : tn = n
  · simp [h]
  · simp [h]

theorem namesNodup_delT {db : Db} (n : String) (hn : NamesNodup db) : NamesNodup (delT db n) := by
  unfold NamesNodup names delT
  exact List.Nodup.sublist (List.Sublist.map _ List.filter_sublist) hn

theorem names_delT (db : Db) (n : String) : names (delT db n) = (names db).filter (· != n) := by
  unfold names delT
  rw [List.filter_map]
  rfl

theorem getT_append (db : Db) (t : Table) (tn : String) :
    getT (db ++ [t]) tn = (getT db tn).or (if t.name = tn then some t else none) := by
  unfold getT
  rw [List.find?_append]
  congr 1
  by_cases h : t.name = tn
  · simp [h]
  · simp [h]

theorem look_append (db : Db) (t : Table) (tn : String) (i : Nat) :
    look (db ++ [t]) tn i =
      if (getT db tn).isSome then look db tn i else if t.name = tn then t.indexes[i]? else none := by
  unfold look
  rw [getT_append]
  cases h : getT db tn with
  | none =>
    by_cases h2 : t.name = tn
    · simp [h2]
    · simp [h2]
  | some x => simp

end Gsu.SchemaAlg

namespace Gsu.SchemaAlg

/-! ### findIdx / getIdx -/

theorem getIdx_of_getElem? {t : Table} {j : Nat} {ix : Index} (h : t.indexes[j]? = some ix) :
    getIdx t j = ix := by
  unfold getIdx
  rw [List.getD_eq_getElem?_getD, h]
  rfl

theorem findIdx_some {t : Table} {c : List String} {j : Nat} (h : findIdx t c = some j) :
    ∃ ix, t.indexes[j]? = some ix ∧ ix.columns = c ∧ getIdx t j = ix := by
  unfold findIdx at h
  rw [List.findIdx?_eq_some_iff_getElem] at h
  obtain ⟨hlt, hp, _⟩ := h
  have h1 : t.indexes[j]? = some t.indexes[j] := List.getElem?_eq_getElem hlt
  exact ⟨t.indexes[j], h1, by simpa using hp, getIdx_of_getElem? h1⟩

theorem findIdx_none {t : Table} {c : List String} (h : findIdx t c = none) :
    ∀ ix ∈ t.indexes, ix.columns ≠ c := by
  unfold findIdx at h
  rw [List.findIdx?_eq_none_iff] at h
  intro ix hix
  simpa using h ix hix

/-- index columns identify the index inside the table -/
def TUniq (t : Table) : Prop :=
  ∀ (i j : Nat) (a b : Index), t.indexes[i]? = some a → t.indexes[j]? = some b → a.columns = b.columns → i = j

theorem tuniq_of_dupIdx : ∀ {ixs : List Index}, dupIdx ixs = false →
    ∀ (i j : Nat) (a b : Index), ixs[i]? = some a → ixs[j]? = some b → a.columns = b.columns → i = j
  | [], _, i, j, a, b, ha, _, _ => by simp at ha
  | x :: r, h, i, j, a, b, ha, hb, hab => by
    simp only [dupIdx, Bool.or_eq_false_iff] at h
    have hr := tuniq_of_dupIdx h.2
    have hx : ∀ y ∈ r, y.columns ≠ x.columns := by
      intro y hy hc
      have := h.1
      rw [Bool.eq_false_iff] at this
      apply this
      simp only [List.any_eq_true, beq_iff_eq]
      exact ⟨y, hy, hc⟩
    cases i with
    | zero =>
      cases j with
      | zero => rfl
      | succ j =>
        simp only [List.getElem?_cons_zero, Option.some.injEq] at ha
        simp only [List.getElem?_cons_succ] at hb
        exact absurd (by rw [ha]; exact hab.symm) (hx b (List.mem_of_getElem? hb))
    | succ i =>
      cases j with
      | zero =>
        simp only [List.getElem?_cons_zero, Option.some.injEq] at hb
        simp only [List.getElem?_cons_succ] at ha
        exact absurd (by rw [hb]; exact hab) (hx a (List.mem_of_getElem? ha))
      | succ j =>
        simp only [List.getElem?_cons_succ] at ha hb
        rw [hr i j a b ha hb hab]

theorem tuniq_of_schemaCheck {t : Table} (h : schemaCheck t = true) : TUniq t := by
  simp only [schemaCheck, Bool.and_eq_true, Bool.not_eq_true'] at h
  exact tuniq_of_dupIdx h.2

theorem findIdx_of_tuniq {t : Table} (hu : TUniq t) {j : Nat} {ix : Index}
    (h : t.indexes[j]? = some ix) : findIdx t ix.columns = some j := by
  unfold findIdx
  rw [List.findIdx?_eq_some_iff_getElem]
  obtain ⟨hlt, hget⟩ := List.getElem?_eq_some_iff.mp h
  refine ⟨hlt, by simp [hget], ?_⟩
  intro k hk hp
  have hk2 : t.indexes[k]? = some t.indexes[k] := List.getElem?_eq_getElem (by omega)
  have := hu k j _ _ hk2 h (by simpa using hp)
  omega

theorem findIdx_iff_of_tuniq {t : Table} (hu : TUniq t) {j : Nat} {c : List String} :
    findIdx t c = some j ↔ ∃ ix, t.indexes[j]? = some ix ∧ ix.columns = c := by
  constructor
  · intro h
    obtain ⟨ix, h1, h2, _⟩ := findIdx_some h
    exact ⟨ix, h1, h2⟩
  · rintro ⟨ix, h1, h2⟩
    rw [← h2]; exact findIdx_of_tuniq hu h1

/-! ### the invariants in lookup form -/

/-- every table's index columns identify the index -/
def IdxUniq (db : Db) : Prop := ∀ tn t, getT db tn = some t → TUniq t

theorem IdxUniq.look {db : Db} (h : IdxUniq db) {tn : String} {i j : Nat} {a b : Index}
    (ha : look db tn i = some a) (hb : look db tn j = some b) (hab : a.columns = b.columns) : i = j := by
  obtain ⟨t, ht, ha'⟩ := look_some_iff.mp ha
  obtain ⟨t', ht', hb'⟩ := look_some_iff.mp hb
  rw [ht] at ht'; cases ht'
  exact h tn t ht i j a b ha' hb' hab

theorem idxUniq_of_validate {db : Db} (h : validate db = true) : IdxUniq db := by
  intro tn t ht
  exact tuniq_of_schemaCheck (validate_table h (getT_mem ht)).1

/-- `Fk.columns` is explicit -/
def FkCols (db : Db) : Prop :=
  ∀ tn j ix, look db tn j = some ix → ix.fk.table ≠ "" → ix.fk.columns ≠ []

/-- what `validate` says about foreign keys -/
def FkOk (db : Db) : Prop :=
  ∀ tn i six, look db tn i = some six → six.fk.table ≠ "" →
    ∃ tix, look db six.fk.table six.fk.iindex = some tix ∧ tix.columns = six.fk.columns ∧ tix.mode = 'k'

theorem fkOk_of_validate {db : Db} (h : validate db = true) : FkOk db := by
  intro tn i six hl hfk
  obtain ⟨t, ht, hi⟩ := look_some_iff.mp hl
  obtain ⟨target, j, htg, hj, hm, hii⟩ := validate_fk h (getT_mem ht) (List.mem_of_getElem? hi) hfk
  obtain ⟨tix, h1, h2, h3⟩ := findIdx_some hj
  refine ⟨tix, ?_, h2, ?_⟩
  · rw [hii, look_of_getT htg]; exact h1
  · rw [← h3]; exact hm

/-- `f` is the back link of a foreign key: index `f.iindex` of table `f.table` has columns
`f.columns`, fk mode `f.mode`, and an `Fk` that names table `tn` and the columns `cols` -/
def Link (db : Db) (tn : String) (cols : List String) (f : Fkey) : Prop :=
  tn ≠ "" ∧ ∃ six, look db f.table f.iindex = some six ∧ six.columns = f.columns ∧
    six.fk.mode = f.mode ∧ six.fk.table = tn ∧ six.fk.columns = cols

/-- `fkToHere` is duplicate free and holds exactly the links to its index -/
def LInv (db : Db) : Prop :=
  ∀ tn j ix, look db tn j = some ix →
    ix.fkToHere.Nodup ∧ ∀ f, f ∈ ix.fkToHere ↔ Link db tn ix.columns f

/-- the inductive invariant of the schema operations, in lookup form -/
structure LWF (db : Db) : Prop where
  valid : validate db = true
  names : NamesNodup db
  fkc : FkCols db
  linv : LInv db

/-- the inductive invariant: `WF` and no two tables of the same name -/
def WF2 (db : Db) : Prop := WF db ∧ NamesNodup db

end Gsu.SchemaAlg

namespace Gsu.SchemaAlg

/-! ### `expectedBack` as a set -/

theorem mem_expectedBack {db : Db} {tn : String} {j : Nat} {f : Fkey} :
    f ∈ expectedBack db tn j ↔ ∃ s ∈ db, ∃ six i, s.indexes[i]? = some six ∧ six.fk.table = tn ∧
      resolve db six = some j ∧ f = ⟨s.name, six.columns, i, six.fk.mode⟩ := by
  unfold expectedBack
  simp only [List.mem_flatMap, List.mem_filterMap, List.mem_zipIdx_iff_getElem?]
  constructor
  · rintro ⟨s, hs, ⟨six, i⟩, hi, hf⟩
    dsimp only at hi hf
    split at hf
    · rename_i hc
      simp only [Bool.and_eq_true, beq_iff_eq] at hc
      simp only [Option.some.injEq] at hf
      exact ⟨s, hs, six, i, hi, hc.1, hc.2, hf.symm⟩
    · cases hf
  · rintro ⟨s, hs, six, i, hi, h1, h2, hf⟩
    refine ⟨s, hs, (six, i), hi, ?_⟩
    simp [h1, h2, hf]

theorem nodup_zipIdx_filterMap (F : Index × Nat → Option Fkey)
    (hF : ∀ p f, F p = some f → f.iindex = p.2) :
    ∀ (ixs : List Index) (k : Nat), ((ixs.zipIdx k).filterMap F).Nodup ∧
      ∀ f ∈ (ixs.zipIdx k).filterMap F, k ≤ f.iindex
  | [], k => by simp
  | x :: r, k => by
    obtain ⟨ih1, ih2⟩ := nodup_zipIdx_filterMap F hF r (k + 1)
    rw [List.zipIdx_cons, List.filterMap_cons]
    cases hx : F (x, k) with
    | none =>
      simp only
      exact ⟨ih1, fun f hf => by have := ih2 f hf; omega⟩
    | some g =>
      simp only
      have hg := hF _ _ hx
      simp only at hg
      refine ⟨List.nodup_cons.mpr ⟨?_, ih1⟩, ?_⟩
      · intro hmem
        have := ih2 g hmem
        omega
      · intro f hf
        rcases List.mem_cons.mp hf with h | h
        · rw [h]; omega
        · have := ih2 f h; omega

theorem nodup_flatMap_names (G : Table → List Fkey) (hG : ∀ s, ∀ f ∈ G s, f.table = s.name)
    (hG2 : ∀ s, (G s).Nodup) : ∀ (db : Db), NamesNodup db → (db.flatMap G).Nodup
  | [], _ => by simp
  | s :: r, hn => by
    unfold NamesNodup names at hn
    rw [List.map_cons, List.nodup_cons] at hn
    rw [List.flatMap_cons, List.nodup_append]
    refine ⟨hG2 s, nodup_flatMap_names G hG hG2 r hn.2, ?_⟩
    intro a ha b hb hab
    subst hab
    obtain ⟨s', hs', hb'⟩ := List.mem_flatMap.mp hb
    apply hn.1
    rw [← hG s a ha, hG s' a hb']
    exact List.mem_map.mpr ⟨s', hs', rfl⟩

theorem nodup_expectedBack {db : Db} (hn : NamesNodup db) (tn : String) (j : Nat) :
    (expectedBack db tn j).Nodup := by
  unfold expectedBack
  apply nodup_flatMap_names _ _ _ db hn
  · intro s f hf
    simp only [List.mem_filterMap] at hf
    obtain ⟨⟨ix, i⟩, _, h⟩ := hf
    dsimp only at h
    split at h
    · simp only [Option.some.injEq] at h; rw [← h]
    · cases h
  · intro s
    refine (nodup_zipIdx_filterMap _ ?_ s.indexes 0).1
    rintro ⟨ix, i⟩ f h
    dsimp only at h
    split at h
    · simp only [Option.some.injEq] at h; rw [← h]
    · cases h

/-! ### `WF2` ⇔ `LWF` -/

theorem fkCols_eq {ix : Index} (h : ix.fk.columns ≠ []) : fkCols ix = ix.fk.columns := by
  unfold fkCols
  cases hc : ix.fk.columns with
  | nil => exact absurd hc h
  | cons a r => simp

theorem fkCols_of_wf {db : Db} (hn : NamesNodup db) :
    FkCols db ↔ ∀ t ∈ db, ∀ ix ∈ t.indexes, ix.fk.table ≠ "" → ix.fk.columns ≠ [] := by
  constructor
  · intro h t ht ix hix
    obtain ⟨j, hj⟩ := List.mem_iff_getElem?.mp hix
    exact h t.name j ix (by rw [look_of_mem hn ht]; exact hj)
  · intro h tn j ix hl
    obtain ⟨t, ht, hi⟩ := look_some_iff.mp hl
    exact h t (getT_mem ht) ix (List.mem_of_getElem? hi)

/-- under the other clauses the members of `expectedBack` are the `Link`s -/
theorem mem_expectedBack_iff_link {db : Db} (hv : validate db = true) (hn : NamesNodup db)
    (hc : FkCols db) {tn : String} {j : Nat} {ix : Index} (hl : look db tn j = some ix) (f : Fkey) :
    f ∈ expectedBack db tn j ↔ Link db tn ix.columns f := by
  obtain ⟨t, ht, hi⟩ := look_some_iff.mp hl
  have hu : TUniq t := idxUniq_of_validate hv tn t ht
  rw [mem_expectedBack]
  constructor
  · rintro ⟨s, hs, six, i, hsi, h1, h2, hf⟩
    have hls : look db s.name i = some six := by rw [look_of_mem hn hs]; exact hsi
    unfold resolve at h2
    split at h2
    · cases h2
    · rename_i hne
      have hne' : six.fk.table ≠ "" := by simpa using hne
      rw [h1, ht] at h2
      simp only at h2
      rw [fkCols_eq (hc _ _ _ hls hne')] at h2
      obtain ⟨ix', h3, h4, _⟩ := findIdx_some h2
      rw [hi] at h3; cases h3
      refine ⟨by rw [← h1]; exact hne', six, ?_, ?_, ?_, h1, h4.symm⟩
      · rw [hf]; exact hls
      · rw [hf]
      · rw [hf]
  · rintro ⟨hne, six, hls, h1, h2, h3, h4⟩
    obtain ⟨s, hs, hsi⟩ := look_some_iff.mp hls
    refine ⟨s, getT_mem hs, six, f.iindex, hsi, h3, ?_, ?_⟩
    · unfold resolve
      have : (six.fk.table == "") = false := by rw [h3]; simpa using hne
      rw [this]
      simp only [Bool.false_eq_true, if_false]
      rw [h3, ht]
      simp only
      have hne' : six.fk.table ≠ "" := by rw [h3]; exact hne
      rw [fkCols_eq (hc _ _ _ hls hne'), h4]
      exact findIdx_of_tuniq hu hi
    · rw [getT_name hs, h1, h2]

theorem lwf_of_wf2 {db : Db} (h : WF2 db) : LWF db := by
  obtain ⟨w, hn⟩ := h
  have hc : FkCols db := (fkCols_of_wf hn).mpr w.fkcols
  refine ⟨w.valid, hn, hc, ?_⟩
  intro tn j ix hl
  obtain ⟨t, ht, hi⟩ := look_some_iff.mp hl
  have hp := w.inv t (getT_mem ht) (ix, j) (List.mem_zipIdx_iff_getElem?.mpr hi)
  simp only at hp
  rw [getT_name ht] at hp
  refine ⟨(hp.nodup_iff).mpr (nodup_expectedBack hn tn j), ?_⟩
  intro f
  rw [← mem_expectedBack_iff_link w.valid hn hc hl f]
  exact hp.mem_iff

theorem wf2_of_lwf {db : Db} (h : LWF db) : WF2 db := by
  refine ⟨⟨h.valid, (fkCols_of_wf h.names).mp h.fkc, ?_⟩, h.names⟩
  intro t ht p hp
  have hi := List.mem_zipIdx_iff_getElem?.mp hp
  have hl : look db t.name p.2 = some p.1 := by rw [look_of_mem h.names ht]; exact hi
  obtain ⟨h1, h2⟩ := h.linv _ _ _ hl
  rw [List.perm_ext_iff_of_nodup h1 (nodup_expectedBack h.names _ _)]
  intro f
  rw [mem_expectedBack_iff_link h.valid h.names h.fkc hl f]
  exact h2 f

theorem wf2_iff_lwf {db : Db} : WF2 db ↔ LWF db := ⟨lwf_of_wf2, wf2_of_lwf⟩

theorem lwf_nil : LWF [] := by
  refine ⟨rfl, by simp [NamesNodup, names], ?_, ?_⟩
  · intro tn j ix h; simp [look, getT] at h
  · intro tn j ix h; simp [look, getT] at h

end Gsu.SchemaAlg

namespace Gsu.SchemaAlg

/-! ### the "all indexes of table `X`" update used by dropFkeys / updFk / updFkToHere -/

theorem getT_mapOf (db : Db) (X : String) (h : Index → Index) (tn : String) :
    getT (db.map (fun t => if t.name == X then { t with indexes := t.indexes.map h } else t)) tn =
      (getT db tn).map (fun t => if t.name == X then { t with indexes := t.indexes.map h } else t) :=
  getT_map _ (fun t => by split <;> rfl) tn

theorem names_mapOf (db : Db) (X : String) (h : Index → Index) :
    names (db.map (fun t => if t.name == X then { t with indexes := t.indexes.map h } else t)) = names db :=
  names_map _ (fun t => by split <;> rfl)

theorem look_mapOf (db : Db) (X : String) (h : Index → Index) (tn : String) (j : Nat) :
    look (db.map (fun t => if t.name == X then { t with indexes := t.indexes.map h } else t)) tn j =
      if tn = X then (look db tn j).map h else look db tn j := by
  unfold look
  rw [getT_mapOf]
  cases hg : getT db tn with
  | none => simp
  | some t =>
    have hn := getT_name hg
    by_cases hx : tn = X
    · have : t.name = X := by rw [hn]; exact hx
      simp [this, hx]
    · have : ¬ t.name = X := by rw [hn]; exact hx
      simp [this, hx]

theorem Option.map_id'' {α} (o : Option α) (f : α → α) (hf : ∀ a, f a = a) : o.map f = o := by
  cases o <;> simp [hf]

end Gsu.SchemaAlg
